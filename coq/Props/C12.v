(* C12 -- Records are isolated from each other despite pooling and buffer reuse.
   Only the property theorems; each is closed by [exact] of a lemma from Proofs/.

   Model (Model/Memory.v): record structs and backing buffers live in pools; a history is ANY list of events
   EvParse (with an arbitrary choice of which pooled struct / pooled buffer of the class is handed out, or a new
   one) | EvTransform h | EvOutput h, interleaved in any order over any number of records in flight; strings are
   references (provenance Own r | Fresh r k | Shared site | Static site, offset, length) into that memory; the
   in-place writers (CleanUTF8 in the parser, truncate before its repair) write through them.
   [mem_targets_own c]: processing a single record on a fresh pipeline leaves the shared configuration memory
   untouched.  It holds for every configuration once truncate copies (the code after commit "fix: truncate builds
   the shortened value in a new buffer", c_trunc_mode = TruncCopy), and for the configurations accepted by the
   decidable check [mem_static_targets_own] before that repair.
   [mem_ev_ok]: a record is shorter than 2^31 bytes (the stated maximum of the pool arithmetic). *)
(* Model.MemoryRun (the correspondence entry point) is imported so that building this file also rebuilds it *)
From SV Require Import Model.Common Model.Memory Model.MemoryRun Model.MemoryStores Proofs.MemoryProofs Proofs.MemoryStatic Proofs.MemoryWitnesses
  Proofs.MemoryStoresProofs Model.ParseTime Model.MemoryXfState Proofs.MemoryXfStateProofs.
Open Scope nat_scope.

(* ISOLATION.  In every history (any records before, after and in flight, any order, any pool behaviour) the decoded
   output that output k produces for a record equals the output of that record processed alone on a fresh pipeline:
   the single-record history runs to completion, contains that output, and contains no other for k. *)
Theorem C12_isolation :
  forall c evs g input ts rid k d,
    mem_targets_own c -> 1 <= mem_nout c -> Forall mem_ev_ok evs ->
    mem_run c (mem_init c) evs = StepOk g -> In (rid, input, ts) (g_log g) -> In (rid, k, d) (g_out g) ->
    exists g1, mem_run c (mem_init c) (mem_alone_trace c input ts) = StepOk g1 /\ In (0, k, d) (g_out g1) /\
               forall r' d', In (r', k, d') (g_out g1) -> d' = d.
Proof. exact mem_isolation_alone. Qed.
Print Assumptions C12_isolation.

(* The same between any two histories: equal record (bytes, fallback timestamp) => equal output ... *)
Theorem C12_isolation_any_two_histories :
  forall c evs1 evs2 g1 g2 input ts rid1 rid2 k d1 d2,
    mem_targets_own c -> 1 <= mem_nout c -> Forall mem_ev_ok evs1 -> Forall mem_ev_ok evs2 ->
    mem_run c (mem_init c) evs1 = StepOk g1 -> mem_run c (mem_init c) evs2 = StepOk g2 ->
    In (rid1, input, ts) (g_log g1) -> In (rid2, input, ts) (g_log g2) ->
    In (rid1, k, d1) (g_out g1) -> In (rid2, k, d2) (g_out g2) -> d1 = d2.
Proof. exact mem_isolation_two_runs. Qed.
Print Assumptions C12_isolation_any_two_histories.

(* ... and equal fate (malformed / dropped / passed). *)
Theorem C12_isolation_status :
  forall c evs1 evs2 g1 g2 input ts rid1 rid2 s1 s2,
    mem_targets_own c -> 1 <= mem_nout c -> Forall mem_ev_ok evs1 -> Forall mem_ev_ok evs2 ->
    mem_run c (mem_init c) evs1 = StepOk g1 -> mem_run c (mem_init c) evs2 = StepOk g2 ->
    In (rid1, input, ts) (g_log g1) -> In (rid2, input, ts) (g_log g2) ->
    In (rid1, s1) (g_status g1) -> In (rid2, s2) (g_status g2) -> s1 = s2.
Proof. exact mem_isolation_status. Qed.
Print Assumptions C12_isolation_status.

(* The hypothesis holds for EVERY configuration of the repaired code (truncate copies) ... *)
Theorem C12_targets_own_after_repair : forall c, c_trunc_mode c = TruncCopy -> mem_targets_own c.
Proof. exact mem_copy_mode_targets_own. Qed.
Print Assumptions C12_targets_own_after_repair.

(* ... and, for the code before the repair, for every configuration in which no truncate key is a field that the parser
   or a transform may set to a configuration string, a string constant or an alias of another field (decidable). *)
Theorem C12_targets_own_static : forall c, mem_static_targets_own c = true -> mem_targets_own c.
Proof. exact mem_static_targets_own_sound. Qed.
Print Assumptions C12_targets_own_static.

(* NO DANGLING REFERENCE.  No history dereferences a string that points into another record's memory; in every
   reachable state a pooled struct holds no string and no buffer, every string of a live struct points into that
   record's own memory (or configuration / constants), and the buffer of a live or abandoned struct is not in a pool. *)
Theorem C12_no_dangling :
  forall c evs, mem_targets_own c -> 1 <= mem_nout c -> Forall mem_ev_ok evs ->
    mem_run c (mem_init c) evs <> StepStop Dangling /\
    forall g, mem_run c (mem_init c) evs = StepOk g ->
      forall h s, nth_error (g_slots g) h = Some s ->
        match sl_state s with
        | SInPool => (forall f, In f (r_fields (sl_rec s)) -> f = MEmpty) /\ r_backbuf (sl_rec s) = None
        | SLive l =>
            (forall f o, In f (r_fields (sl_rec s)) -> mem_str_owner f = Some o -> o = l_rid l) /\
            (forall b, r_backbuf (sl_rec s) = Some b -> exists bf, nth_error (g_bufs g) b = Some bf /\ b_free bf = false)
        | SAbandoned => forall b, r_backbuf (sl_rec s) = Some b -> exists bf, nth_error (g_bufs g) b = Some bf /\ b_free bf = false
        end.
Proof.
  intros c evs H1 H2 H3. split; [exact (mem_no_dangling_step c evs H1 H2 H3)|].
  intros g Hrun. exact (mem_no_dangling_state c evs g H1 H2 H3 Hrun).
Qed.
Print Assumptions C12_no_dangling.

(* Two structs never share a backing buffer. *)
Theorem C12_buffers_exclusive :
  forall c evs g, mem_targets_own c -> 1 <= mem_nout c -> Forall mem_ev_ok evs -> mem_run c (mem_init c) evs = StepOk g ->
    forall h1 h2 s1 s2 b, h1 <> h2 -> nth_error (g_slots g) h1 = Some s1 -> nth_error (g_slots g) h2 = Some s2 ->
      r_backbuf (sl_rec s1) = Some b -> r_backbuf (sl_rec s2) = Some b -> False.
Proof. exact mem_buffers_exclusive. Qed.
Print Assumptions C12_buffers_exclusive.

(* POOL CLASSES, the bit arithmetic, for ALL lengths below 2^31: Get(n) takes pool c <= 31 whose buffers (2^c bytes)
   are longer than n and at most twice n; Put returns a buffer of pool c to pool c. *)
Theorem C12_pool_class_sound :
  (forall n, (n < 2 ^ 31)%N ->
     exists c, mem_get_class n = Ok c /\ (c <= 31)%N /\ (n < mem_class_size c)%N /\ (n <> 0%N -> mem_class_size c <= 2 * n)%N /\
               mem_put_class (mem_class_size c) = Ok c) /\
  (forall l k, (1 <= l)%N -> (l < mem_two32)%N -> mem_put_class l = Ok k -> (mem_class_size k <= l)%N).
Proof.
  split.
  - intros n H. destruct (mem_get_class_sound n H) as (c & H1 & H2 & H3 & H4). exists c.
    repeat split; auto. apply mem_put_class_pow2. exact H2.
  - intros l k H1 H2 H3. exact (proj1 (mem_put_class_fits l k H1 H2 H3)).
Qed.
Print Assumptions C12_pool_class_sound.

(* The limit is sharp: lengths from 2^31 up to 2^32 panic (index 32 of 32 pools), and above 2^32 the uint32
   conversion wraps - 2^32+5 would be given an 8-byte buffer. *)
Theorem C12_pool_class_limit :
  (forall n, (2 ^ 31 <= n)%N -> (n < mem_two32)%N -> mem_get_class n = Panic 1%N) /\ mem_get_class (mem_two32 + 5) = Ok 3%N.
Proof. exact (conj mem_get_class_limit mem_get_class_wraps). Qed.
Print Assumptions C12_pool_class_limit.

(* ... and in every reachable state: every buffer has the size of its class and would be Put into that class; the
   buffer attached to a live record is at least as long as the record. *)
Theorem C12_pool_state_sound :
  forall c evs g, mem_targets_own c -> 1 <= mem_nout c -> Forall mem_ev_ok evs -> mem_run c (mem_init c) evs = StepOk g ->
    (forall b bf, nth_error (g_bufs g) b = Some bf ->
       (b_class bf <= 31)%N /\ length (b_data bf) = N.to_nat (mem_class_size (b_class bf)) /\
       mem_put_class (N.of_nat (length (b_data bf))) = Ok (b_class bf)) /\
    (forall h r l b, nth_error (g_slots g) h = Some {| sl_rec := r; sl_state := SLive l |} -> r_backbuf r = Some b ->
       exists bf, nth_error (g_bufs g) b = Some bf /\ l_n l <= length (b_data bf)).
Proof. exact mem_pool_state_sound. Qed.
Print Assumptions C12_pool_state_sound.

(* REFERENCE COUNTS.  Release never finds a negative count; a record that has been serialized for k of the N outputs
   holds N - k references and is recycled exactly at the N-th Release; a struct in the pool has count 0 and every
   field, the length and the timestamp cleared (the Unescaped flag is the one thing Release leaves behind). *)
Theorem C12_refcount_balanced :
  forall c evs, mem_targets_own c -> 1 <= mem_nout c -> Forall mem_ev_ok evs ->
    mem_run c (mem_init c) evs <> StepStop NegativeRefCount /\
    forall g, mem_run c (mem_init c) evs = StepOk g ->
      forall h s, nth_error (g_slots g) h = Some s ->
        match sl_state s with
        | SInPool => mem_pooled_clean c (sl_rec s)
        | SLive l => match l_phase l with
                     | PhParsed => r_refc (sl_rec s) = Z.of_nat (mem_nout c)
                     | PhOut k => k < mem_nout c /\ r_refc (sl_rec s) = Z.of_nat (mem_nout c - k)
                     end
        | SAbandoned => True
        end.
Proof.
  intros c evs H1 H2 H3. split; [exact (mem_refcount_never_negative c evs H1 H2 H3)|].
  intros g Hrun h s Hs. pose proof (mem_refcount_balanced c evs g H1 H2 H3 Hrun h s Hs) as Hb.
  destruct (sl_state s) eqn:E; auto. exact (mem_recycled_clean c evs g H1 H2 H3 Hrun h s Hs E).
Qed.
Print Assumptions C12_refcount_balanced.

(* On DROP (and for a malformed record) Release is called once: with one output the record is recycled; with two
   outputs it keeps one reference for ever, is never recycled and its buffer never returns to the pool (left to the
   garbage collector - harmless for isolation, recorded as an observation about the allocator). *)
Theorem C12_drop_released_once :
  (exists g, mem_run (wit_cfg_drop 1) (mem_init (wit_cfg_drop 1)) [EvParse None None wit_input 1000; EvTransform 0] = StepOk g /\
             wit_slot_states g = [(0, 0%Z)] /\ map b_free (g_bufs g) = [true]) /\
  (exists g, mem_run (wit_cfg_drop 2) (mem_init (wit_cfg_drop 2)) [EvParse None None wit_input 1000; EvTransform 0] = StepOk g /\
             wit_slot_states g = [(2, 1%Z)] /\ map b_free (g_bufs g) = [false]).
Proof. exact (conj wit_drop_one_output wit_drop_two_outputs). Qed.
Print Assumptions C12_drop_released_once.

(* The shared configuration memory is never written. *)
Theorem C12_config_memory_constant :
  forall c evs g, mem_targets_own c -> 1 <= mem_nout c -> Forall mem_ev_ok evs -> mem_run c (mem_init c) evs = StepOk g ->
    g_cfg g = c_cfg_init c /\ g_dirty g = false.
Proof. exact mem_config_memory_constant. Qed.
Print Assumptions C12_config_memory_constant.

(* After the repair NO history of ANY configuration ends with a write to read-only memory (the fatal fault that
   truncate on facility / default level names caused). *)
Theorem C12_no_fault_after_repair :
  forall c evs, c_trunc_mode c = TruncCopy -> mem_run c (mem_init c) evs <> StepStop Fault.
Proof. intros c evs H. exact (mem_run_copy_no_fault c evs (mem_init c) H). Qed.
Print Assumptions C12_no_fault_after_repair.

(* No history of any configuration ends with a Go panic inside the parser or a transform: the in-place helpers
   (OverwriteNTruncate, CleanUTF8, truncate in either form) never slice out of range, and the parser's first-token slice
   has been repaired (property C09). *)
Theorem C12_no_go_panic :
  forall c evs g s, mem_run c g evs <> StepStop (GoPanic s).
Proof. exact mem_run_no_gopanic. Qed.
Print Assumptions C12_no_go_panic.

(* LONG-LIVED STORES (pipeline key sets, metric key sets) keep deep copies: a store of copies reads the same in every
   state of the pipeline, whatever happens to records, buffers and pools afterwards; routing a record either finds its
   key bytes or appends exactly these bytes. *)
Theorem C12_stores_keep_copies :
  (forall st g g', mem_store_copied st -> mem_store_view g st = mem_store_view g' st) /\
  (forall g st h keys st' i, mem_store_copied st -> mem_store_route KeepCopy g st h keys = Some (st', i) ->
     mem_store_copied st' /\ exists kf, mem_key_fields g h keys = Some kf /\
       ((st' = st /\ mem_store_find g st (map fst kf) 0 = Some i) \/
        (mem_store_find g st (map fst kf) 0 = None /\ i = length st /\ mem_store_view g st' = mem_store_view g st ++ [map fst kf]))).
Proof. exact (conj mem_store_view_stable mem_store_route_copy). Qed.
Print Assumptions C12_stores_keep_copies.

(* REFUTED for a store that would keep the record's strings instead of copies: record A ("appA") creates key set 0 and is
   released; record B ("appB") is given A's buffer; the stored key now reads "appB", B is routed to A's pipeline and the
   key set "appA" no longer exists.  With copies B gets key set 1 and "appA" stays. *)
Theorem C12_store_reference_refuted :
  wit_route_then KeepCopy = Some ([[[97;112;112;65]%N]], 0, [[[97;112;112;65]%N]; [[97;112;112;66]%N]], 1) /\
  wit_route_then KeepRef  = Some ([[[97;112;112;65]%N]], 0, [[[97;112;112;66]%N]], 0).
Proof. exact wit_store_copy_vs_ref. Qed.
Print Assumptions C12_store_reference_refuted.

(* REFUTED for the code before the repair (truncate in place), without the hypothesis: addFields x1: "abc(EURO)defghijk"
   then truncate x1 to 5 bytes + "..": the same record twice gives "abc.." and then "abc....", and the configuration
   string is modified (replayed on the real code before the fix: corpus/C12). *)
Theorem C12_truncate_shared_refuted :
  exists g, mem_run (wit_cfg TruncInPlace) (mem_init (wit_cfg TruncInPlace)) wit_events = StepOk g /\
            wit_x1_of g 0 = [[97;98;99;46;46]%N] /\ wit_x1_of g 1 = [[97;98;99;46;46;46;46]%N] /\
            g_cfg g <> c_cfg_init (wit_cfg TruncInPlace) /\ g_dirty g = true.
Proof. exact wit_inplace_run. Qed.
Print Assumptions C12_truncate_shared_refuted.

(* REFUTED likewise: truncate on "facility", a Go string constant, is a write to read-only memory: the process dies. *)
Theorem C12_truncate_static_fault_refuted :
  mem_run (wit_cfg_facility TruncInPlace) (mem_init (wit_cfg_facility TruncInPlace))
          [EvParse None None wit_input 1000; EvTransform 0] = StepStop Fault.
Proof. exact wit_facility_fault. Qed.
Print Assumptions C12_truncate_static_fault_refuted.

(* REFUTED for the code BEFORE the repair of the unescape rewriter (commit "fix: the unescape rewriter no longer sets
   record.Unescaped", property C10; model parameter c_rw_sets_flag = true): with two outputs that rewrite "log" with
   unescape the second one was not unescaped ("a\nb" stays) - the bytes of one output depended on the presence of
   another.  The repaired code (c_rw_sets_flag = false, what the correspondence runs against) unescapes both. *)
Theorem C12_unescape_flag_before_repair_refuted :
  (exists g, mem_run (wit_cfg_flag true) (mem_init (wit_cfg_flag true))
                     [EvParse None None wit_escaped 1000; EvTransform 0; EvOutput 0; EvOutput 0] = StepOk g /\
             wit_log_of g 0 = [[97;10;98;32]%N] /\ wit_log_of g 1 = [[97;92;110;98]%N]) /\
  (exists g, mem_run (wit_cfg_flag false) (mem_init (wit_cfg_flag false))
                     [EvParse None None wit_escaped 1000; EvTransform 0; EvOutput 0; EvOutput 0] = StepOk g /\
             wit_log_of g 0 = [[97;10;98;32]%N] /\ wit_log_of g 1 = [[97;10;98;32]%N]).
Proof. exact (conj wit_flag_shared wit_flag_not_shared). Qed.
Print Assumptions C12_unescape_flag_before_repair_refuted.

(* NON-VACUITY.  The hypotheses are met by concrete, non-trivial instances: (1) the repaired code on the very
   configuration that refutes the unrepaired one - the second record reuses struct 0 and buffer 0 of the first and
   both get "abc.."; (2) the unrepaired code on a configuration accepted by the static check, with two records in
   flight, two outputs, and a third record (same bytes as the first) on recycled memory getting the same outputs. *)
Theorem C12_example :
  (mem_targets_own (wit_cfg TruncCopy) /\ 1 <= mem_nout (wit_cfg TruncCopy) /\ Forall mem_ev_ok wit_events /\
   exists g, mem_run (wit_cfg TruncCopy) (mem_init (wit_cfg TruncCopy)) wit_events = StepOk g /\
             wit_x1_of g 0 = [[97;98;99;46;46]%N] /\ wit_x1_of g 1 = [[97;98;99;46;46]%N] /\
             g_cfg g = c_cfg_init (wit_cfg TruncCopy) /\ length (g_slots g) = 1 /\ length (g_bufs g) = 1 /\ g_next_rid g = 2) /\
  (mem_targets_own (wit_cfg_own TruncInPlace) /\ mem_static_targets_own (wit_cfg TruncInPlace) = false /\
   exists g, mem_run (wit_cfg_own TruncInPlace) (mem_init (wit_cfg_own TruncInPlace)) wit_events2 = StepOk g /\
             length (g_out g) = 6 /\ g_next_rid g = 3 /\ length (g_slots g) = 2 /\
             map snd (filter (fun e => Nat.eqb (fst (fst e)) 0) (g_out g)) = map snd (filter (fun e => Nat.eqb (fst (fst e)) 2) (g_out g))).
Proof.
  split.
  - split; [apply mem_copy_mode_targets_own; reflexivity|]. split; [cbn; auto|]. split; [|exact wit_copy_run].
    repeat constructor; vm_compute; reflexivity.
  - split; [apply mem_static_targets_own_sound; exact wit_static_own|]. split; [exact wit_static_shared|exact wit_own_run].
Qed.
Print Assumptions C12_example.

(* ---------------------------------------------------------------------------------------------------------------
   STATE OF A TRANSFORM INSTANCE (Model/MemoryXfState.v).  A transform object lives as long as its pipeline; parseTime
   keeps a cache  zone string -> location  (and a seeded variant keeps the last parsed string and its result).
   [pt_copies cfg]: what the instance keeps are copies - the code after "fix: parseTime keeps its own copy of a timezone
   string used as cache key" (no shortcut), or a shortcut that copies.  [pt_hash cfg] (where a Go map files a key) is
   arbitrary.  Histories: any interleaving of the events of Model/Memory.v (Parse with any choice of pooled struct and
   pooled buffer, the other transformations, outputs, releases) with parseTime calls on live records; the ghost log
   holds (value read from the record's "time" field, result).
   --------------------------------------------------------------------------------------------------------------- *)

(* In EVERY history of EVERY configuration each parseTime call returned what the stateless transform of property C13
   returns for the value it read - equivalently what a NEW instance (fresh pipeline) returns for that record alone, on any
   heap and through any reference: nothing an earlier record left in the instance shows in a later one. *)
Theorem C12_transform_state_isolated :
  forall c cfg key evs s,
    pt_copies cfg -> pt_sys_run c cfg key (pt_sys_init c) evs = Some s ->
    Forall (fun e => snd e = transform_parse_time (pt_local_off cfg) (fst e) /\
                     forall g0 ref0, snd e = snd (pt_apply cfg g0 pt_init (fst e) ref0)) (xs_log s).
Proof. exact pt_history_isolated. Qed.
Print Assumptions C12_transform_state_isolated.

(* One call, in any state an instance of copies can be in ([pt_inv]: reachable states satisfy it, the new instance does),
   on ANY heap g - whatever has happened to records, buffers and pools since the state was built: the result is that of
   the stateless transform, and the instance remains one of copies; the call changes nothing of the pipeline state but the
   record's timestamp. *)
Theorem C12_transform_state_one_call :
  (forall cfg, pt_inv cfg pt_init) /\
  (forall cfg g st v ref st' r, pt_copies cfg -> pt_inv cfg st -> pt_apply cfg g st v ref = (st', r) ->
     r = transform_parse_time (pt_local_off cfg) v /\ pt_inv cfg st') /\
  (forall cfg g st h key st' r v g', pt_transform cfg g st h key = Some (st', r, v, g') ->
     g' = match r with TpSet u n => pt_set_ts g h (pt_ts_code u n) | _ => g end) /\
  (forall g h ts, let g' := pt_set_ts g h ts in
     g_bufs g' = g_bufs g /\ g_cfg g' = g_cfg g /\ g_dirty g' = g_dirty g /\ g_out g' = g_out g /\ g_log g' = g_log g /\
     g_status g' = g_status g /\ g_next_rid g' = g_next_rid g /\ map pt_slot_rest (g_slots g') = map pt_slot_rest (g_slots g)).
Proof. exact (conj pt_inv_init (conj pt_apply_isolated (conj pt_transform_ts pt_set_ts_frame))). Qed.
Print Assumptions C12_transform_state_one_call.

(* REFUTED for an instance that remembers the last parsed string WITHOUT copying it (the seeded change): record A
   ("...15:50:46+03:00", pooled) is parsed, serialized and released; record B ("...15:50:47+05:00") gets A's struct and A's
   buffer; the remembered string now reads B's bytes, the comparison is true and B is given A's instant - in the result and
   in the serialized output.  Alone, B gets 1565866247 (10:50:47Z). *)
Theorem C12_transform_state_last_value_ref_refuted :
  transform_parse_time 0 (firstn 25 (skipn 7 xw_rec_b)) = TpSet 1565866247 0 /\
  xw_run (xw_cfg KeepCopy (Some KeepRef) (fun _ => 0%N)) xw_rec_b
    = Some ([TpSet 1565873446 0; TpSet 1565873446 0], [1565873446000000000; 1565873446000000000]%Z).
Proof. exact (conj (proj2 xw_alone) xw_last_ref_run). Qed.
Print Assumptions C12_transform_state_last_value_ref_refuted.

(* REFUTED for the code BEFORE the fix (timezoneCache[tzStr] with tzStr a substring of the record), when the map files
   "+03:00" and "+05:00" in the same place: the entry of A, whose key now reads "+05:00", is found for B and B's instant is
   computed with A's zone, two hours off.  With a filing function that separates the two strings the stale entry is not
   found: the defect needs a collision (reproduced on the real code: 51 of 3000 pooled records with 1500 distinct zones). *)
Theorem C12_transform_state_zone_key_ref_refuted :
  xw_run (xw_cfg KeepRef None (fun _ => 0%N)) xw_rec_b
    = Some ([TpSet 1565873446 0; TpSet 1565873447 0], [1565873446000000000; 1565873447000000000]%Z) /\
  xw_run (xw_cfg KeepRef None (fun b => N.of_nat (length b) + nth 2 b 0)%N) xw_rec_b
    = Some ([TpSet 1565873446 0; TpSet 1565866247 0], [1565873446000000000; 1565866247000000000]%Z).
Proof. exact (conj xw_zone_ref_run xw_zone_ref_no_collision). Qed.
Print Assumptions C12_transform_state_zone_key_ref_refuted.

(* NON-VACUITY: the hypothesis [pt_copies] is met by the repaired code and by a copying shortcut, even with the worst
   filing function (everything collides); on the same two-record history with struct and buffer reuse both records get
   their own instants, in the results and in the serialized outputs. *)
Theorem C12_transform_state_example :
  pt_copies (xw_cfg KeepCopy None (fun _ => 0%N)) /\ pt_copies (xw_cfg KeepCopy (Some KeepCopy) (fun _ => 0%N)) /\
  xw_run (xw_cfg KeepCopy None (fun _ => 0%N)) xw_rec_b
    = Some ([TpSet 1565873446 0; TpSet 1565866247 0], [1565873446000000000; 1565866247000000000]%Z) /\
  xw_run (xw_cfg KeepCopy (Some KeepCopy) (fun _ => 0%N)) xw_rec_b
    = Some ([TpSet 1565873446 0; TpSet 1565866247 0], [1565873446000000000; 1565866247000000000]%Z).
Proof. exact xw_copy_run. Qed.
Print Assumptions C12_transform_state_example.
