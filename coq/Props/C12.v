(* C12 -- placeholder while the proofs are being written *)
From SV Require Import Model.Common Model.Memory.
Theorem C12_placeholder : mem_get_class 1025 = Ok 11%N.
Proof. reflexivity. Qed.
Print Assumptions C12_placeholder.
