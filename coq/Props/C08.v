From SV Require Import Model.Common Model.Framing.
Theorem C08_stub : True. Proof. exact I. Qed.
Print Assumptions C08_stub.
