(* C08 - Record framing is independent of TCP segmentation and flush timing.
   Only the property theorems; each is closed by [exact] of a lemma from Proofs/FramingProofs.v.

   Model:  Model/Framing.v   (multiLineReader Read / processBuffer / checkOverflow / Flush / FlushAll,
                               the runConnection glue conn_ops, TestRecordStart, NetConnWrapper.Read)
   Spec:   Spec/FramingSpec.v (split the stream at newlines, group the lines; no buffers, no reads)

   Notation of the side conditions:
     limit = softRecordLimit (defs.InputLogMaxRecordBytes), cap = max minBufferSize (3*limit) = len(buffer)
     seg_bound test b s : every segment of the stream s (record, or block of garbage lines) has at most b bytes
     2*b + 1 + limit <= cap : room for two such segments, a newline and one more record;
                             with b = limit this is cap >= 3*limit + 1 (production: cap = 4*limit). *)
From SV Require Import Model.Common Model.Framing Spec.FramingSpec Proofs.FramingProofs.
From SV Require Import Model.FramingVariants Proofs.FramingVariantProofs.
From SV Require Model.GoSem Gen.C08Gen Proofs.C08GenEquiv.
Open Scope nat_scope.

(* 1. Fragmentation independence.  For EVERY tester, EVERY stream (newline-terminated or not)
   and EVERY way of cutting it into read fragments (of any size, empty ones included, fragments
   larger than the free room are taken by several Read calls), reading the fragments and closing
   delivers exactly the records of the line-based reference framer: each once, in order. *)
Theorem C08_frag_independent :
  forall (test : bytes -> bool) (min_buf limit b : nat) (fs : list bytes),
  1 <= limit -> 2 * b + 1 + limit <= Nat.max min_buf (limit * 3) ->
  seg_bound test b (concat fs) ->
  exists st', run_ops test (map OpRead fs ++ [OpFlushAll]) (new_mlr min_buf limit) [] =
              Ok (st', frame test (concat fs)).
Proof. exact frag_independent_lemma. Qed.
Print Assumptions C08_frag_independent.

(* the same, said for two fragmentations of one stream *)
Theorem C08_frag_pair :
  forall (test : bytes -> bool) (min_buf limit b : nat) (fs1 fs2 : list bytes),
  1 <= limit -> 2 * b + 1 + limit <= Nat.max min_buf (limit * 3) ->
  concat fs1 = concat fs2 -> seg_bound test b (concat fs1) ->
  exists st1 st2 out,
    run_ops test (map OpRead fs1 ++ [OpFlushAll]) (new_mlr min_buf limit) [] = Ok (st1, out) /\
    run_ops test (map OpRead fs2 ++ [OpFlushAll]) (new_mlr min_buf limit) [] = Ok (st2, out).
Proof. exact frag_pair_lemma. Qed.
Print Assumptions C08_frag_pair.

(* as runConnection drives the reader: a connection whose reads never time out and never renew
   the deadline, then an error / EOF *)
Theorem C08_connection_frag_independent :
  forall (test : bytes -> bool) (min_buf limit b : nat) (fs : list bytes),
  1 <= limit -> 2 * b + 1 + limit <= Nat.max min_buf (limit * 3) ->
  seg_bound test b (concat fs) ->
  exists st', run_ops test (conn_ops (map (fun f => EvData f false) fs)) (new_mlr min_buf limit) [] =
              Ok (st', frame test (concat fs)).
Proof. exact conn_frag_independent_lemma. Qed.
Print Assumptions C08_connection_frag_independent.

(* 2. Every script of reads, flushes and closes (any order, any number) delivers what the
   specification with flushes says: a flush cuts the text received since the last cut at its
   last newline and frames the part before the cut on its own; reads only concatenate.
   [flush_ok]: the tester rejects the empty string (both testers do), or no Flush is used. *)
Theorem C08_script_characterisation :
  forall (test : bytes -> bool) (min_buf limit b : nat) (ops : list op),
  flush_ok test ops -> 1 <= limit -> 2 * b + 1 + limit <= Nat.max min_buf (limit * 3) ->
  bounded_ops test b [] ops ->
  exists st', run_ops test ops (new_mlr min_buf limit) [] = Ok (st', spec_ops test [] ops).
Proof. exact script_lemma. Qed.
Print Assumptions C08_script_characterisation.

(* 2'. The same with the simple side condition: the segments of the stream AS A WHOLE (framed
   without any flush) are at most b bytes - flushes only make segments shorter.  For every
   connection script (reads and flushes in any order, then the close). *)
Theorem C08_script_characterisation_stream :
  forall (test : bytes -> bool) (min_buf limit b : nat) (ops : list op),
  test [] = false -> 1 <= limit -> 2 * b + 1 + limit <= Nat.max min_buf (limit * 3) ->
  no_flush_all ops -> seg_bound test b (ops_text ops) ->
  exists st', run_ops test (ops ++ [OpFlushAll]) (new_mlr min_buf limit) [] =
              Ok (st', spec_ops test [] (ops ++ [OpFlushAll])).
Proof. exact script_stream_lemma. Qed.
Print Assumptions C08_script_characterisation_stream.

(* 2''. Fragmentation independence with flush ticks at any positions: the same text between the
   same ticks (fss = the runs of reads between consecutive flushes, last = the reads before the
   close), cut into reads in any two ways, gives the same records. *)
Theorem C08_frag_independent_between_ticks :
  forall (test : bytes -> bool) (min_buf limit b : nat) (fss1 fss2 : list (list bytes)) (last1 last2 : list bytes),
  test [] = false -> 1 <= limit -> 2 * b + 1 + limit <= Nat.max min_buf (limit * 3) ->
  map (@concat N) fss1 = map (@concat N) fss2 -> concat last1 = concat last2 ->
  seg_bound test b (concat (map (@concat N) fss1) ++ concat last1) ->
  exists st1 st2 out,
    run_ops test (script_of fss1 ++ map OpRead last1 ++ [OpFlushAll]) (new_mlr min_buf limit) [] = Ok (st1, out) /\
    run_ops test (script_of fss2 ++ map OpRead last2 ++ [OpFlushAll]) (new_mlr min_buf limit) [] = Ok (st2, out).
Proof. exact frag_independent_ticks_lemma. Qed.
Print Assumptions C08_frag_independent_between_ticks.

(* 3. Flush-timing independence for streams of single-line records: if every line is a
   non-empty record start of at most b bytes, then EVERY interleaving of reads (any
   fragmentation) and flushes (any positions, any number), followed by the close, delivers
   exactly the lines. *)
Theorem C08_single_line_flush_independent :
  forall (test : bytes -> bool) (min_buf limit b : nat) (ls : list bytes) (ops : list op),
  test [] = false -> 1 <= limit -> 2 * b + 1 + limit <= Nat.max min_buf (limit * 3) ->
  Forall (valid_line test b) ls -> no_flush_all ops -> ops_text ops = unlines ls ->
  exists st', run_ops test (ops ++ [OpFlushAll]) (new_mlr min_buf limit) [] = Ok (st', ls).
Proof. exact single_line_lemma. Qed.
Print Assumptions C08_single_line_flush_independent.

(* 3'. As runConnection drives the reader, for EVERY sequence of read results (data with or
   without a deadline renewal, timeouts, finally an error): the records are those of the
   specification with flushes; and for a stream of single-line records they are the lines,
   whatever the timing.  [ops_text (conn_ops evs)] is the text received before the close. *)
Theorem C08_connection_characterisation :
  forall (test : bytes -> bool) (min_buf limit b : nat) (evs : list event),
  test [] = false -> 1 <= limit -> 2 * b + 1 + limit <= Nat.max min_buf (limit * 3) ->
  seg_bound test b (ops_text (conn_ops evs)) ->
  exists st', run_ops test (conn_ops evs) (new_mlr min_buf limit) [] =
              Ok (st', spec_ops test [] (conn_ops evs)).
Proof. exact conn_characterisation_lemma. Qed.
Print Assumptions C08_connection_characterisation.

Theorem C08_connection_single_line :
  forall (test : bytes -> bool) (min_buf limit b : nat) (ls : list bytes) (evs : list event),
  test [] = false -> 1 <= limit -> 2 * b + 1 + limit <= Nat.max min_buf (limit * 3) ->
  Forall (valid_line test b) ls -> ops_text (conn_ops evs) = unlines ls ->
  exists st', run_ops test (conn_ops evs) (new_mlr min_buf limit) [] = Ok (st', ls).
Proof. exact conn_single_line_lemma. Qed.
Print Assumptions C08_connection_single_line.

(* 4. Continuation lines: a line c that is no record start and directly follows a record
   start line l comes out in the same record as l, whatever the fragmentation, when no flush
   occurs (the tester only looks at the head of a record: test a -> test (a ++ z)). *)
Theorem C08_continuation_attached :
  forall (test : bytes -> bool) (min_buf limit b : nat) (fs : list bytes) (x l c y : bytes),
  1 <= limit -> 2 * b + 1 + limit <= Nat.max min_buf (limit * 3) ->
  (forall a z, test a = true -> test (a ++ z) = true) ->
  concat fs = x ++ l ++ NL :: c ++ NL :: y ->
  seg_bound test b (concat fs) ->
  (x = [] \/ exists x', x = x' ++ [NL]) ->
  nonl l -> is_start test l = true -> nonl c -> is_start test c = false ->
  exists st' out more,
    run_ops test (map OpRead fs ++ [OpFlushAll]) (new_mlr min_buf limit) [] = Ok (st', out) /\
    In (l ++ NL :: c ++ more) out.
Proof. exact continuation_attached_lemma. Qed.
Print Assumptions C08_continuation_attached.

(* 4'. The third sentence of the property at full strength: flushes may fall anywhere EXCEPT
   between the arrival of the end of the start line l = l1 ++ l2 and the end of the continuation
   line c (the reads fs, any fragmentation, bring the rest of l, c and whatever follows without
   a flush in between; ops1 - reads and flushes - ends somewhere inside or just before l,
   ops2 is arbitrary, then the connection closes): l and c come out in one record. *)
Theorem C08_continuation_attached_flushes :
  forall (test : bytes -> bool) (min_buf limit b : nat) (ops1 : list op) (fs : list bytes) (ops2 : list op)
         (x l1 l2 c z : bytes),
  test [] = false -> (forall a y, test a = true -> test (a ++ y) = true) ->
  1 <= limit -> 2 * b + 1 + limit <= Nat.max min_buf (limit * 3) ->
  no_flush_all ops1 -> no_flush_all ops2 ->
  seg_bound test b (ops_text (ops1 ++ map OpRead fs ++ ops2)) ->
  ops_text ops1 = x ++ l1 -> (x = [] \/ exists x', x = x' ++ [NL]) ->
  concat fs = l2 ++ NL :: c ++ NL :: z ->
  nonl (l1 ++ l2) -> is_start test (l1 ++ l2) = true -> nonl c -> is_start test c = false ->
  exists st' out more,
    run_ops test (ops1 ++ map OpRead fs ++ ops2 ++ [OpFlushAll]) (new_mlr min_buf limit) [] = Ok (st', out) /\
    In ((l1 ++ l2) ++ NL :: c ++ more) out.
Proof. exact continuation_flushes_stream_lemma. Qed.
Print Assumptions C08_continuation_attached_flushes.

(* ... and theorem 4 needs its "no flush" (documentation of the boundary of the property, not a
   finding): a flush between a record and its continuation line detaches the line. *)
Theorem C08_flush_splits_refuted :
  exists min_buf limit b f1 f2,
    1 <= limit /\ 2 * b + 1 + limit <= Nat.max min_buf (limit * 3) /\ seg_bound gt_test b (f1 ++ f2) /\
    exists st out,
      run_ops gt_test [OpRead f1; OpFlush; OpRead f2; OpFlushAll] (new_mlr min_buf limit) [] = Ok (st, out) /\
      out <> frame gt_test (f1 ++ f2).
Proof. exact flush_splits_lemma. Qed.
Print Assumptions C08_flush_splits_refuted.

(* 5. Never full, no panic, no busy loop - for ALL testers, ALL streams (overflowing ones
   included), ALL scripts: every operation returns normally (no slice/index panic, the read
   loop never finds the buffer full), and afterwards either at least [limit] bytes are free
   or the buffer is empty.  (Stated for every script, hence after every operation.) *)
Theorem C08_never_full :
  forall (test : bytes -> bool) (min_buf limit : nat) (ops : list op),
  1 <= limit ->
  exists st' out, run_ops test ops (new_mlr min_buf limit) [] = Ok (st', out) /\
    length (m_buf st') <= m_cap st' /\
    (m_limit st' <= m_cap st' - length (m_buf st') \/ m_buf st' = []) /\
    m_cap st' = Nat.max min_buf (limit * 3) /\ m_limit st' = limit.
Proof. exact total_lemma. Qed.
Print Assumptions C08_never_full.

(* 6. The hypotheses are needed (stated boundaries, not findings).
   (a) With the smallest buffer the constructor allows, cap = 3*limit, records of exactly
       [limit] bytes make checkOverflow fire and a spurious empty record appears: the theorems
       ask for cap >= 2*b+1+limit (production has cap = 4*limit). *)
Theorem C08_cap3_boundary_refuted :
  exists min_buf limit fs,
    1 <= limit /\ Nat.max min_buf (limit * 3) = limit * 3 /\ seg_bound gt_test limit (concat fs) /\
    exists st out,
      run_ops gt_test (map OpRead fs ++ [OpFlushAll]) (new_mlr min_buf limit) [] = Ok (st, out) /\
      out <> frame gt_test (concat fs).
Proof. exact cap3_boundary_lemma. Qed.
Print Assumptions C08_cap3_boundary_refuted.

(* (b) A segment above the bound: the records do depend on the fragmentation (soft limit). *)
Theorem C08_oversize_frag_dependent_refuted :
  exists min_buf limit fs1 fs2,
    1 <= limit /\ concat fs1 = concat fs2 /\
    exists st1 out1 st2 out2,
      run_ops gt_test (map OpRead fs1 ++ [OpFlushAll]) (new_mlr min_buf limit) [] = Ok (st1, out1) /\
      run_ops gt_test (map OpRead fs2 ++ [OpFlushAll]) (new_mlr min_buf limit) [] = Ok (st2, out2) /\
      out1 <> out2.
Proof. exact oversize_lemma. Qed.
Print Assumptions C08_oversize_frag_dependent_refuted.

(* 7. TestRecordStart: total (no index panic on any byte string) and exactly the documented
   shape: "<" 1-3 digits ">1 " in a string of at least 32 bytes; it only looks at the head. *)
Theorem C08_test_record_start_total : forall s : bytes, exists b, test_record_start s = Ok b.
Proof. exact trs_total_lemma. Qed.
Print Assumptions C08_test_record_start_total.

Theorem C08_test_record_start_shape : forall s : bytes, test_record_start s = Ok true <-> start_shape s.
Proof. exact trs_shape_lemma. Qed.
Print Assumptions C08_test_record_start_shape.

Theorem C08_test_record_start_prefix :
  trs [] = false /\ forall a z : bytes, trs a = true -> trs (a ++ z) = true.
Proof. exact (conj trs_nil trs_prefix_lemma). Qed.
Print Assumptions C08_test_record_start_prefix.

(* 8. NetConnWrapper: after a renewal at t0 (deadline t0 + 2*readTimeout) no Read within the
   next readTimeout renews the deadline, so runConnection makes no deadline-update Flush in
   that time (times in ms, gaps >= 0 between consecutive reads). *)
Theorem C08_deadline_renewals_spaced :
  forall (gaps : list Z) (w : ncw) (t0 now : Z),
  (0 < w_min w)%Z -> w_max w = (w_min w * 2)%Z -> w_deadline w = Some (t0 + w_max w)%Z ->
  (t0 <= now)%Z -> Forall (fun g => (0 <= g)%Z) gaps ->
  (now + fold_right Z.add 0%Z gaps <= t0 + w_min w)%Z ->
  ncw_run w now gaps = map (fun _ => false) gaps.
Proof. exact ncw_quiet_lemma. Qed.
Print Assumptions C08_deadline_renewals_spaced.

(* 9. The run compared with the Go code step by step (run_ops_tr) is the run of the theorems. *)
Theorem C08_traced_run_is_run :
  forall (test : bytes -> bool) (ops : list op) (st : mlr) (out : list bytes) (tr : list (nat * nat * nat)),
  forget_trace (run_ops_tr test ops st out tr) = run_ops test ops st out.
Proof. exact run_ops_tr_lemma. Qed.
Print Assumptions C08_traced_run_is_run.

(* Non-vacuity: two syslog records, the first with a continuation line, limit 64 and a buffer
   of 256 bytes (production ratio 4:1), cut inside the header, just before and just after a
   newline, inside the relocated tail, with an empty read: the hypotheses of theorem 1 hold and
   the records are the multi-line record and the single-line one. *)
Theorem C08_example :
  concat ex_frags = ex_stream /\ seg_bound trs 64 ex_stream /\ 2 * 64 + 1 + 64 <= Nat.max 256 (64 * 3) /\
  frame trs ex_stream = [ex_r1 ++ NL :: ex_c1; ex_r2] /\
  exists st, run_ops trs (map OpRead ex_frags ++ [OpFlushAll]) (new_mlr 256 64) [] =
             Ok (st, [ex_r1 ++ NL :: ex_c1; ex_r2]).
Proof. exact example_lemma. Qed.
Print Assumptions C08_example.

(* ... and the hypotheses of theorems 2' and 4' (scripts with flushes): the same stream with a
   flush inside the first header and another one after the head of the second record. *)
Theorem C08_example_flushes :
  trs [] = false /\ no_flush_all ex_ops1 /\ no_flush_all ex_ops2 /\
  seg_bound trs 64 (ops_text (ex_ops1 ++ map OpRead ex_fs ++ ex_ops2)) /\
  ops_text ex_ops1 = [] ++ firstn 3 ex_r1 /\
  concat ex_fs = skipn 3 ex_r1 ++ NL :: ex_c1 ++ NL :: firstn 9 ex_r2 /\
  nonl (firstn 3 ex_r1 ++ skipn 3 ex_r1) /\ is_start trs (firstn 3 ex_r1 ++ skipn 3 ex_r1) = true /\
  nonl ex_c1 /\ is_start trs ex_c1 = false /\
  exists st, run_ops trs (ex_ops1 ++ map OpRead ex_fs ++ ex_ops2 ++ [OpFlushAll]) (new_mlr 256 64) [] =
             Ok (st, [ex_r1 ++ NL :: ex_c1; ex_r2]).
Proof. exact example_flush_lemma. Qed.
Print Assumptions C08_example_flushes.

(* 10. Byte-exactness: the ONLY bytes of the stream that are not handed to the consumer are the
   newlines separating the records (and the bytes of a trailing segment that is no record).
   (a) the reference framer: its records - plus, possibly, the one segment still open at the end of the
       stream that the tester rejects - each followed by one newline, ARE the stream (plus the newline a
       missing final terminator would have been).  No CR, NUL, blank ... is trimmed anywhere. *)
Theorem C08_reference_framer_byte_exact :
  forall (test : bytes -> bool) (s : bytes),
  exists dropped pad,
    (dropped = [] \/ exists x, dropped = [x] /\ test x = false) /\ (pad = [] \/ pad = [NL]) /\
    unlines (frame test s ++ dropped) = s ++ pad.
Proof. exact frame_cover. Qed.
Print Assumptions C08_reference_framer_byte_exact.

(* (b) the reader, for every tester, stream and fragmentation (side conditions of theorem 1) *)
Theorem C08_records_byte_exact :
  forall (test : bytes -> bool) (min_buf limit b : nat) (fs : list bytes),
  1 <= limit -> 2 * b + 1 + limit <= Nat.max min_buf (limit * 3) ->
  seg_bound test b (concat fs) ->
  exists st' out dropped pad,
    run_ops test (map OpRead fs ++ [OpFlushAll]) (new_mlr min_buf limit) [] = Ok (st', out) /\
    (dropped = [] \/ exists x, dropped = [x] /\ test x = false) /\ (pad = [] \/ pad = [NL]) /\
    unlines (out ++ dropped) = concat fs ++ pad.
Proof. exact records_byte_exact_lemma. Qed.
Print Assumptions C08_records_byte_exact.

(* 11. The emission sites.  A record reaches the consumer from processBuffer (next record start seen),
   Flush (tick), FlushAll (close) or checkOverflow; WHICH one is decided by segmentation and flush timing.
   Model/FramingVariants.v is the reader with a switch per site for trimming one trailing CR.
   (a) with every switch off it is the model of all theorems above, for every script; *)
Theorem C08_emission_sites_variant_is_model :
  forall (test : bytes -> bool) (ops : list op) (st : mlr) (out : list bytes),
  run_ops_v test no_trim ops st out = run_ops test ops st out.
Proof. exact variant_none_is_model. Qed.
Print Assumptions C08_emission_sites_variant_is_model.

(* (b) the variant trimming in processBuffer and FlushAll but not in Flush ("CRLF tolerance" added at the
       two places where the trailing newline is cut) violates theorem 3: a stream of valid single-line
       records, the same text, two flush schedules, different records - and not the lines; *)
Theorem C08_cr_trim_variant_refuted :
  exists (min_buf limit b : nat) (ls : list bytes) (ops1 ops2 : list op),
    1 <= limit /\ 2 * b + 1 + limit <= Nat.max min_buf (limit * 3) /\
    Forall (valid_line gt_test b) ls /\ no_flush_all ops1 /\ no_flush_all ops2 /\
    ops_text ops1 = unlines ls /\ ops_text ops2 = unlines ls /\
    exists st1 out1 st2 out2,
      run_ops_v gt_test seeded_trim (ops1 ++ [OpFlushAll]) (new_mlr min_buf limit) [] = Ok (st1, out1) /\
      run_ops_v gt_test seeded_trim (ops2 ++ [OpFlushAll]) (new_mlr min_buf limit) [] = Ok (st2, out2) /\
      out1 <> out2 /\ out2 <> ls.
Proof. exact cr_trim_variant_lemma. Qed.
Print Assumptions C08_cr_trim_variant_refuted.

(* (c) and trimming at all three sites violates 10(b): a byte of the stream is lost. *)
Theorem C08_cr_trim_all_sites_refuted :
  exists (min_buf limit b : nat) (fs : list bytes),
    1 <= limit /\ 2 * b + 1 + limit <= Nat.max min_buf (limit * 3) /\ seg_bound gt_test b (concat fs) /\
    exists st out,
      run_ops_v gt_test all_trim (map OpRead fs ++ [OpFlushAll]) (new_mlr min_buf limit) [] = Ok (st, out) /\
      forall dropped pad, unlines (out ++ dropped) <> concat fs ++ pad.
Proof. exact cr_trim_all_not_exact_lemma. Qed.
Print Assumptions C08_cr_trim_all_sites_refuted.

(* 9. The tie to the SOURCE: Gen/C08Gen.v is regenerated by tools/go2coq from
   input/syslogprotocol/recordtest.go on every check.  For every byte string the generated Gallina
   function returns what the hand-written model [test_record_start] returns (panics included), and the
   fuel it supplies to its loop is never exhausted.  A change of TestRecordStart's behaviour changes the
   generated term and breaks this proof, whether or not a generated test case hits the change. *)
Theorem C08_generated_TestRecordStart_agrees :
  forall s : bytes,
    GoSem.same_result (test_record_start s) (C08Gen.TestRecordStart s) /\
    GoSem.is_out_of_fuel (C08Gen.TestRecordStart s) = false.
Proof. exact (fun s => conj (C08GenEquiv.trs_gen_agrees s) (C08GenEquiv.trs_gen_fuel s)). Qed.
Print Assumptions C08_generated_TestRecordStart_agrees.

(* ... hence theorem 7 holds of the generated function itself: on every byte string it returns a value
   (no index panic, fuel suffices), and it says true exactly on the documented header shape. *)
Theorem C08_generated_TestRecordStart_shape :
  forall s : bytes,
    (exists b, C08Gen.TestRecordStart s = GoSem.GOk b) /\
    (C08Gen.TestRecordStart s = GoSem.GOk true <-> start_shape s).
Proof. exact (fun s => conj (C08GenEquiv.trs_gen_total s) (C08GenEquiv.trs_gen_shape s)). Qed.
Print Assumptions C08_generated_TestRecordStart_shape.
