(* C09 — Syslog header parsing is faithful and every message is accounted for.
   Only the property theorems; each is closed by [exact] of a lemma from Proofs/.
   Model: Model/Parser.v (Parse after the two fix: commits), Model/Utf8.v (CleanUTF8, Go's UTF-8 decoder).
   Specification: Spec/SyslogSpec.v (render, PRI, accounting), Spec/Utf8Spec.v (RFC 3629).
   [cfg_ok cfg]: the level mapping has eight names, which NewParser guarantees (C09_new_parser). *)
From SV Require Import Model.Common Model.Utf8 Model.Parser Model.Composite Spec.Utf8Spec Spec.SyslogSpec
  Proofs.Utf8Proofs Proofs.ParserProofs Proofs.CompositeProofs.
From SV Require Model.GoSem Model.GoExt Gen.C09Gen Proofs.C09GenEquiv.
Open Scope N_scope.

(* 1. A well-formed line "<PRI>1 time host app pid msgid sd msg" (PRI 0..191 in its RFC form, the six
   tokens any bytes without space - empty allowed -, the message any bytes within the limit) of at least
   32 bytes is parsed into exactly its parts: facility PRI div 8, the configured level name of PRI mod 8,
   the six substrings and the message; counted once as passed with the line length, no overflow.
   (A record that reaches InputLogMaxRecordBytes may have been cut by the listener; its message is
   delivered unchanged if it is valid UTF-8 - see theorem 6 for the general case.) *)
Theorem C09_parse_render :
  forall cfg cnt pri h msg,
  cfg_ok cfg -> pri <= 191 -> header_ok h ->
  (32 <= length (render pri h msg))%nat ->
  N.of_nat (length msg) <= max_msg cfg ->
  (N.of_nat (length (render pri h msg)) < max_rec cfg \/ valid_utf8 msg) ->
  exists cnt',
    parse cfg cnt (render pri h msg) =
      (Ok (Some (record_of (level_mapping cfg) (Z.of_N pri) h msg (length (render pri h msg)))), cnt') /\
    counted_passed cnt cnt' (length (render pri h msg)) /\ same_overflow cnt cnt'.
Proof. exact parse_render_lemma. Qed.
Print Assumptions C09_parse_render.

(* 1b. Whatever the message (any bytes, any length), the header fields are exactly those of the line and
   the delivered message is never longer than the one sent, nor than the limit. *)
Theorem C09_parse_render_any_message :
  forall cfg cnt pri h msg,
  cfg_ok cfg -> pri <= 191 -> header_ok h ->
  (32 <= length (render pri h msg))%nat ->
  exists log cnt',
    parse cfg cnt (render pri h msg) =
      (Ok (Some (record_of (level_mapping cfg) (Z.of_N pri) h log (length (render pri h msg)))), cnt') /\
    counted_passed cnt cnt' (length (render pri h msg)) /\
    (length log <= length msg)%nat /\
    (max_msg cfg < N.of_nat (length msg) -> N.of_nat (length log) <= max_msg cfg).
Proof. exact parse_render_any_message_lemma. Qed.
Print Assumptions C09_parse_render_any_message.

(* 2. A first token that is not "<" PRI ">1" with PRI an integer denoting 0..191 (no ">1", not a
   number, negative, 192 or more, no "<"): the message is dropped and counted as dropped, once,
   with its length. *)
Theorem C09_pri_rejected :
  forall cfg cnt tok rest,
  cfg_ok cfg -> no_space tok -> ~ pri_token_ok tok ->
  exists cnt',
    parse cfg cnt (tok ++ 32 :: rest) = (Ok None, cnt') /\
    counted_dropped cnt cnt' (length (tok ++ 32 :: rest)).
Proof. exact pri_rejected_lemma. Qed.
Print Assumptions C09_pri_rejected.

Theorem C09_pri_out_of_range_cases :
  forall tok,
  (~ exists body, tok = body ++ [62; 49]) \/
  (exists lit, tok = 60 :: lit ++ [62; 49] /\
     ((forall n, ~ int_literal lit n) \/
      (exists n, int_literal lit n /\ (n < 0 \/ 191 < n)%Z))) \/
  (exists c t, tok = c :: t /\ c <> 60) ->
  ~ pri_token_ok tok.
Proof. exact not_pri_token_cases. Qed.
Print Assumptions C09_pri_out_of_range_cases.

(* 2b. Shorter than 32 bytes, not starting with "<", or fewer than seven spaces: dropped and counted. *)
Theorem C09_malformed_dropped :
  forall cfg cnt input,
  cfg_ok cfg ->
  ((length input < 32)%nat \/ hd 0 input <> 60 \/ (count_occ N.eq_dec input 32%N < 7)%nat) ->
  exists cnt', parse cfg cnt input = (Ok None, cnt') /\ counted_dropped cnt cnt' (length input).
Proof. exact malformed_dropped_lemma. Qed.
Print Assumptions C09_malformed_dropped.

(* 3. A message longer than the limit is delivered with at most InputLogMaxMessageBytes bytes, never
   ending inside a character (the bytes after its last ASCII byte are valid UTF-8), and is counted as
   overflow exactly once with the line length (and as passed). *)
Theorem C09_truncation :
  forall cfg cnt pri h msg,
  cfg_ok cfg -> pri <= 191 -> header_ok h ->
  (32 <= length (render pri h msg))%nat ->
  max_msg cfg < N.of_nat (length msg) ->
  exists log cnt',
    parse cfg cnt (render pri h msg) =
      (Ok (Some (record_of (level_mapping cfg) (Z.of_N pri) h log (length (render pri h msg)))), cnt') /\
    counted_passed cnt cnt' (length (render pri h msg)) /\
    one_overflow cnt cnt' (length (render pri h msg)) /\
    N.of_nat (length log) <= max_msg cfg /\
    ends_on_boundary log.
Proof. exact truncation_lemma. Qed.
Print Assumptions C09_truncation.

(* 3b. If the over-long message is valid UTF-8 (the encoding of the scalar values cs), the delivered
   message is exactly the longest run of whole characters that fits: cs = cs1 ++ c :: cs2, the
   encoding of cs1 is delivered, it fits the limit and the next character c would not. *)
Theorem C09_truncation_valid_utf8 :
  forall cfg cnt pri h cs,
  cfg_ok cfg -> pri <= 191 -> header_ok h -> Forall scalar cs ->
  (32 <= length (render pri h (utf8_encode_all cs)))%nat ->
  max_msg cfg < N.of_nat (length (utf8_encode_all cs)) ->
  exists cs1 c cs2 cnt',
    cs = cs1 ++ c :: cs2 /\
    parse cfg cnt (render pri h (utf8_encode_all cs)) =
      (Ok (Some (record_of (level_mapping cfg) (Z.of_N pri) h (utf8_encode_all cs1)
                   (length (render pri h (utf8_encode_all cs))))), cnt') /\
    N.of_nat (length (utf8_encode_all cs1)) <= max_msg cfg /\
    max_msg cfg < N.of_nat (length (utf8_encode_all cs1) + length (utf8_encode c)) /\
    one_overflow cnt cnt' (length (render pri h (utf8_encode_all cs))).
Proof. exact truncation_valid_utf8_lemma. Qed.
Print Assumptions C09_truncation_valid_utf8.

(* 4. Accounting, for EVERY byte string and every counter state: Parse does not panic; exactly one of
   passed / dropped moves, by one record and the byte length of the input; a record is returned iff
   it is counted as passed; overflow moves only for a passed record, by at most one, with the length. *)
Theorem C09_accounting :
  forall cfg cnt input,
  cfg_ok cfg ->
  exists res cnt',
    parse cfg cnt input = (Ok res, cnt') /\
    match res with
    | Some r => counted_passed cnt cnt' (length input) /\ raw_length r = length input /\
                (same_overflow cnt cnt' \/ one_overflow cnt cnt' (length input))
    | None => counted_dropped cnt cnt' (length input)
    end.
Proof. exact accounting_lemma. Qed.
Print Assumptions C09_accounting.

Theorem C09_no_panic :
  forall cfg cnt input, cfg_ok cfg -> is_panic (fst (parse cfg cnt input)) = false.
Proof. exact no_panic_lemma. Qed.
Print Assumptions C09_no_panic.

(* 4b. Converse of 1: whatever is passed has the accepted form (PRI written as any integer literal
   denoting 0..191) and the record carries exactly the parts of the line. *)
Theorem C09_passed_only_wellformed :
  forall cfg cnt input r cnt',
  cfg_ok cfg -> parse cfg cnt input = (Ok (Some r), cnt') ->
  exists lit n h msg log,
    input = render_with lit h msg /\ int_literal lit n /\ (0 <= n <= 191)%Z /\ header_ok h /\
    (32 <= length input)%nat /\
    r = record_of (level_mapping cfg) n h log (length input) /\
    (length log <= length msg)%nat /\
    (N.of_nat (length msg) <= max_msg cfg -> N.of_nat (length input) < max_rec cfg -> log = msg).
Proof. exact passed_only_wellformed_lemma. Qed.
Print Assumptions C09_passed_only_wellformed.

(* 4c. 1 and 4b together: a message is passed exactly when it has the accepted form. *)
Theorem C09_passed_iff :
  forall cfg cnt input,
  cfg_ok cfg ->
  ((exists r cnt', parse cfg cnt input = (Ok (Some r), cnt')) <->
   ((32 <= length input)%nat /\
    exists lit n h msg, input = render_with lit h msg /\ int_literal lit n /\ (0 <= n <= 191)%Z /\ header_ok h)).
Proof. exact passed_iff_lemma. Qed.
Print Assumptions C09_passed_iff.

(* 5. A sequence of messages through one parser instance (the counters are its only state): no panic,
   the outcome of every message is the one it has on a fresh parser (no dependence on what was parsed
   before), and after n messages passed+dropped has advanced by n records and the sum of their lengths. *)
Theorem C09_stream_accounting :
  forall cfg cnt msgs,
  cfg_ok cfg ->
  Forall (fun r => is_panic (fst r) = false) (parse_stream cfg cnt msgs) /\
  map fst (parse_stream cfg cnt msgs) = map (fun m => fst (parse cfg counters_zero m)) msgs /\
  last (map snd (parse_stream cfg cnt msgs)) cnt = final_counters cfg cnt msgs /\
  total_n (final_counters cfg cnt msgs) = total_n cnt + N.of_nat (length msgs) /\
  total_bytes (final_counters cfg cnt msgs) = total_bytes cnt + sum_lengths msgs.
Proof. exact stream_lemma. Qed.
Print Assumptions C09_stream_accounting.

Theorem C09_history_independent :
  forall cfg cnt input,
  cfg_ok cfg ->
  parse cfg cnt input =
    (fst (parse cfg counters_zero input), counters_add cnt (snd (parse cfg counters_zero input))).
Proof. exact parse_history_independent. Qed.
Print Assumptions C09_history_independent.

(* NewParser: an empty mapping selects the default severity names, otherwise exactly eight names *)
Theorem C09_new_parser :
  forall mm mr mapping cfg, new_parser mm mr mapping = Ok cfg ->
  cfg_ok cfg /\ max_msg cfg = mm /\ max_rec cfg = mr /\
  (mapping = [] -> level_mapping cfg = severity_names) /\ (mapping <> [] -> level_mapping cfg = mapping).
Proof. exact new_parser_levels. Qed.
Print Assumptions C09_new_parser.

(* 5b. sysloginput's composite parser (Model/Composite.v): the parser, then the input's extraction transforms, and
   for a record they drop CountRecordPassToDrop followed by LogAllocator.Release (which zeroes RawLength when the
   reference count reaches 0).  [extract] is ANY extraction step that does not write RawLength; [refs0] the
   allocator's initial reference count (number of outputs). *)

(* every byte string, every counter state, every state of the extraction step: no panic; the message is counted
   exactly once with its byte length - as passed iff a record is returned (RawLength = length), else as dropped,
   be it the parser or an extraction that refuses it; overflow at most once *)
Theorem C09_composite_accounting :
  forall (X : Type) (extract : X -> record -> bool * record * X) refs0 cfg cnt x input,
  cfg_ok cfg -> (1 <= refs0)%Z -> keeps_raw_length extract ->
  exists res cnt' x',
    composite_parse false refs0 extract cfg cnt x input = (Ok res, cnt', x') /\
    match res with
    | Some r => counted_passed cnt cnt' (length input) /\ raw_length r = length input
    | None => counted_dropped_any cnt cnt' (length input)
    end /\
    overflow_ok cnt cnt' (length input).
Proof. exact composite_accounting_lemma. Qed.
Print Assumptions C09_composite_accounting.

(* the instance for the modelled transforms: any list of drop (any match, percentage, label, running totals) and
   delFields transforms, any custom counters *)
Theorem C09_composite_transforms_accounting :
  forall refs0 cfg cnt xs lab input,
  cfg_ok cfg -> (1 <= refs0)%Z ->
  exists res cnt' x',
    composite_parse false refs0 extract_transforms cfg cnt (xs, lab) input = (Ok res, cnt', x') /\
    match res with
    | Some r => counted_passed cnt cnt' (length input) /\ raw_length r = length input
    | None => counted_dropped_any cnt cnt' (length input)
    end /\
    overflow_ok cnt cnt' (length input).
Proof. exact composite_transforms_accounting_lemma. Qed.
Print Assumptions C09_composite_transforms_accounting.

Theorem C09_transforms_keep_raw_length : keeps_raw_length extract_transforms.
Proof. exact extract_transforms_keeps_raw_length. Qed.
Print Assumptions C09_transforms_keep_raw_length.

(* nil is returned exactly when the parser refuses the message or the extraction drops its record; otherwise the
   parser's record as the extraction leaves it *)
Theorem C09_composite_result :
  forall (X : Type) (extract : X -> record -> bool * record * X) refs0 cfg cnt x input,
  cfg_ok cfg -> (1 <= refs0)%Z ->
  fst (fst (composite_parse false refs0 extract cfg cnt x input)) =
    match fst (parse cfg cnt input) with
    | Ok (Some r) => if fst (fst (extract x r)) then Ok None else Ok (Some (snd (fst (extract x r))))
    | o => o
    end.
Proof. exact composite_result_lemma. Qed.
Print Assumptions C09_composite_result.

(* any sequence of messages through one composite parser (counters, transform totals and custom counters carried
   along): no panic; passed = the messages for which a record was returned, dropped = the others, in number and in
   bytes; together all messages and all their bytes *)
Theorem C09_composite_stream_accounting :
  forall (X : Type) (extract : X -> record -> bool * record * X) refs0 cfg msgs cnt x,
  cfg_ok cfg -> (1 <= refs0)%Z -> keeps_raw_length extract ->
  let rs := composite_stream false refs0 extract cfg cnt x msgs in
  let outs := stream_outs rs in
  let fin := stream_final rs cnt in
  length rs = length msgs /\
  Forall (fun o => is_panic o = false) outs /\
  passed_n fin = passed_n cnt + delivered_n msgs outs /\
  passed_bytes fin = passed_bytes cnt + delivered_bytes msgs outs /\
  dropped_n fin = dropped_n cnt + refused_n msgs outs /\
  dropped_bytes fin = dropped_bytes cnt + refused_bytes msgs outs /\
  delivered_n msgs outs + refused_n msgs outs = N.of_nat (length msgs) /\
  delivered_bytes msgs outs + refused_bytes msgs outs = sum_lengths msgs.
Proof. exact composite_stream_lemma. Qed.
Print Assumptions C09_composite_stream_accounting.

(* Release on a record with [refs] references: never the negative-count panic for refs >= 1; the record is
   cleared (RawLength 0) exactly when the last reference goes *)
Theorem C09_release :
  forall r refs, (1 <= refs)%Z ->
  exists c', release (new_cell refs r) = Ok c' /\ c_refs c' = (refs - 1)%Z /\
             (refs = 1%Z -> c_rec c' = cleared r) /\ ((1 < refs)%Z -> c_rec c' = r).
Proof. exact release_spec. Qed.
Print Assumptions C09_release.

(* the order of the two statements matters: with Release BEFORE CountRecordPassToDrop and one output, for EVERY
   message whose record an extraction drops, the record count moves to dropped but the bytes stay in passed *)
Theorem C09_composite_release_first_variant :
  forall (X : Type) (extract : X -> record -> bool * record * X) cfg cnt x input r c1,
  cfg_ok cfg -> keeps_raw_length extract ->
  parse cfg cnt input = (Ok (Some r), c1) -> fst (fst (extract x r)) = true ->
  exists cnt' x',
    composite_parse true 1 extract cfg cnt x input = (Ok None, cnt', x') /\
    passed_n cnt' = passed_n cnt /\ dropped_n cnt' = dropped_n cnt + 1 /\
    passed_bytes cnt' = passed_bytes cnt + N.of_nat (length input) /\
    dropped_bytes cnt' = dropped_bytes cnt.
Proof. exact release_first_lemma. Qed.
Print Assumptions C09_composite_release_first_variant.

(* ... so the accounting theorem fails for that variant (witness: the unit test's line, drop on app = my-app1) *)
Theorem C09_composite_release_first_variant_refuted :
  exists cfg cnt xs input cnt' x',
    cfg_ok cfg /\
    composite_parse true 1 extract_transforms cfg cnt (xs, []) input = (Ok None, cnt', x') /\
    ~ counted_dropped_any cnt cnt' (length input) /\
    total_bytes cnt' = total_bytes cnt + N.of_nat (length input) /\
    passed_n cnt' = 0 /\ passed_bytes cnt' = N.of_nat (length input).
Proof. exact release_first_refuted_lemma. Qed.
Print Assumptions C09_composite_release_first_variant_refuted.

(* ... while with two or more outputs the first Release does not recycle the record and the variant is the code
   (why the harness runs the family with ONE output as well as with several) *)
Theorem C09_composite_release_first_masked :
  forall (X : Type) (extract : X -> record -> bool * record * X) refs0 cfg cnt x input,
  (2 <= refs0)%Z ->
  composite_parse true refs0 extract cfg cnt x input = composite_parse false refs0 extract cfg cnt x input.
Proof. exact release_first_masked_lemma. Qed.
Print Assumptions C09_composite_release_first_masked.

(* extractions that never drop and keep the record: the composite parser is the parser *)
Theorem C09_composite_passthrough :
  forall (X : Type) (extract : X -> record -> bool * record * X) rf refs0 cfg cnt x input,
  (forall x r, extract x r = (false, r, x)) ->
  composite_parse rf refs0 extract cfg cnt x input = (parse cfg cnt input, x).
Proof. exact composite_passthrough_lemma. Qed.
Print Assumptions C09_composite_passthrough.

(* example: the unit test's line through a composite parser with "drop: app = my-app1, 100 %": nil, dropped 1 / 74 bytes,
   passed 0 / 0, custom counter L1 1 / 74 *)
Theorem C09_example_composite :
  cfg_ok example_cfg /\
  composite_parse false 1 extract_transforms example_cfg counters_zero (example_drop, []) example_line =
    (Ok None, {| passed_n := 0; passed_bytes := 0; dropped_n := 1; dropped_bytes := 74; overflow_n := 0; overflow_bytes := 0 |},
     (example_drop, [([76;49], (1, 74))])).
Proof. exact example_composite_lemma. Qed.
Print Assumptions C09_example_composite.

(* 6. UTF-8 helper theorems (reused by C15 truncate). *)

(* Go's decoder accepts exactly RFC 3629: utf8.Valid <-> concatenation of encoded scalar values *)
Theorem C09_utf8_valid_iff : forall s, valid s = true <-> valid_utf8 s.
Proof. exact valid_iff_lemma. Qed.
Print Assumptions C09_utf8_valid_iff.

Theorem C09_decode_encode :
  forall c rest, scalar c -> decode_rune (utf8_encode c ++ rest) = (c, length (utf8_encode c)).
Proof. exact decode_encode. Qed.
Print Assumptions C09_decode_encode.

(* the encoding is uniquely decodable: the characters of a valid string, hence its character
   boundaries (used in 3b), are determined by the bytes *)
Theorem C09_utf8_encode_injective :
  forall cs cs', Forall scalar cs -> Forall scalar cs' -> utf8_encode_all cs = utf8_encode_all cs' -> cs = cs'.
Proof. exact encode_all_injective. Qed.
Print Assumptions C09_utf8_encode_injective.

(* strings.ToValidUTF8(s, "") is valid UTF-8 and leaves valid UTF-8 alone *)
Theorem C09_to_valid_utf8_valid : forall s, valid_utf8 (to_valid_utf8 s).
Proof. exact to_valid_utf8_valid_lemma. Qed.
Print Assumptions C09_to_valid_utf8_valid.

Theorem C09_to_valid_utf8_id : forall s, valid_utf8 s -> to_valid_utf8 s = s.
Proof. exact to_valid_id. Qed.
Print Assumptions C09_to_valid_utf8_id.

(* CleanUTF8: never longer, never ends inside a character, identity on valid UTF-8, and valid UTF-8
   cut after n bytes is reduced to exactly the whole characters that fit into n bytes *)
Theorem C09_clean_utf8_prefix :
  forall s, (length (clean_utf8 s) <= length s)%nat /\ ends_on_boundary (clean_utf8 s) /\
            (valid_utf8 s -> clean_utf8 s = s).
Proof.
  exact (fun s => conj (clean_utf8_length_lemma s) (conj (clean_utf8_boundary_lemma s) (clean_utf8_valid_id_lemma s))).
Qed.
Print Assumptions C09_clean_utf8_prefix.

Theorem C09_clean_cut_valid :
  forall cs n, Forall scalar cs -> (n < length (utf8_encode_all cs))%nat ->
  exists cs1 c cs2,
    cs = cs1 ++ c :: cs2 /\
    clean_utf8 (firstn n (utf8_encode_all cs)) = utf8_encode_all cs1 /\
    (length (utf8_encode_all cs1) <= n < length (utf8_encode_all cs1) + length (utf8_encode c))%nat.
Proof. exact clean_cut_valid_lemma. Qed.
Print Assumptions C09_clean_cut_valid.

(* Non-vacuity: the hypotheses of theorem 1 are met by the first line of the package's unit test,
   "<163>1 2019-08-15T15:50:46.866915+03:00 local1 my-app1 123 fn1 - Something" (74 bytes),
   which is parsed to facility local4, level err and its parts. *)
Theorem C09_example :
  cfg_ok example_cfg /\ header_ok example_header /\ (32 <= length (render 163 example_header example_msg))%nat /\
  valid_utf8 example_msg /\
  fst (parse example_cfg counters_zero (render 163 example_header example_msg)) =
    Ok (Some (record_of severity_names 163 example_header example_msg 74)) /\
  f_facility (record_of severity_names 163 example_header example_msg 74) = [108;111;99;97;108;52] /\
  f_level (record_of severity_names 163 example_header example_msg 74) = [101;114;114].
Proof. exact example_lemma. Qed.
Print Assumptions C09_example.

(* ---- The tie to the SOURCE: Gen/C09Gen.v is regenerated by tools/go2coq from util/utf8.go and util/strings.go
   on every check.  For every byte string each generated Gallina function returns the value of the hand-written
   model function of Model/Utf8.v (no panic, the loop's fuel suffices).  strings.ToValidUTF8 stays a named
   external function (Model/GoExt.v = the model's to_valid_utf8, compared with the Go library by the
   correspondence run); logger.Errorf is dropped.  A change of behaviour of these Go functions changes the
   generated term and breaks the proof, whether or not a generated test case hits the change. ---- *)
Theorem C09_generated_findLastEndOfASCII_agrees :
  forall s : bytes, C09Gen.findLastEndOfASCII s = GoSem.GOk (Z.of_nat (find_last_end_of_ascii s)).
Proof. exact C09GenEquiv.fle_gen_eq. Qed.
Print Assumptions C09_generated_findLastEndOfASCII_agrees.

Theorem C09_generated_OverwriteNTruncate_agrees :
  forall (main : bytes) (start : nat) (tail : bytes),
    (start <= length main)%nat ->
    C09Gen.OverwriteNTruncate main (Z.of_nat start) tail =
    GoSem.GOk (overwrite_n_truncate main start tail, C09GenEquiv.ont_main main start tail).
Proof. exact C09GenEquiv.ont_gen_eq. Qed.
Print Assumptions C09_generated_OverwriteNTruncate_agrees.

(* CleanUTF8 overwrites its argument in place: the generated function returns (result, final contents of s) *)
Theorem C09_generated_CleanUTF8_agrees :
  forall s : bytes, exists s', C09Gen.CleanUTF8 s = GoSem.GOk (clean_utf8 s, s').
Proof. exact C09GenEquiv.clean_gen_eq. Qed.
Print Assumptions C09_generated_CleanUTF8_agrees.

(* ... hence C09_clean_utf8_prefix holds of the generated CleanUTF8 itself: on every byte string it returns a
   value that is never longer, never ends inside a character, and is the input when that is valid UTF-8. *)
Theorem C09_generated_CleanUTF8_prefix :
  forall s : bytes, exists r s', C09Gen.CleanUTF8 s = GoSem.GOk (r, s') /\
    (length r <= length s)%nat /\ ends_on_boundary r /\ (valid_utf8 s -> r = s).
Proof.
  exact (fun s => match C09GenEquiv.clean_gen_eq s with
                  | ex_intro _ s' E => ex_intro _ (clean_utf8 s) (ex_intro _ s' (conj E
                      (conj (clean_utf8_length_lemma s) (conj (clean_utf8_boundary_lemma s) (clean_utf8_valid_id_lemma s)))))
                  end).
Qed.
Print Assumptions C09_generated_CleanUTF8_prefix.
