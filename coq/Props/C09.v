(* C09 — Syslog header parsing is faithful and every message is accounted for.
   PRELIMINARY: the model mirrors the code before the two repairs; the two defects as theorems. *)
From SV Require Import Model.Common Model.Utf8 Model.Parser.

Definition default_cfg (mm mr : N) : config := {| max_msg := mm; max_rec := mr; level_mapping := severity_names |}.

(* "< " followed by 30 bytes: Parse panics in val[len(val)-2:] and the message is counted neither as passed nor dropped *)
Theorem C09_no_panic_refuted :
  exists input, parse (default_cfg 64 96) counters_zero input = (Panic site_pri_suffix, counters_zero).
Proof. exists (60 :: 32 :: repeat 120 30). vm_compute. reflexivity. Qed.
Print Assumptions C09_no_panic_refuted.

(* a message longer than the limit in a record shorter than the record limit is cut inside a rune *)
Theorem C09_truncation_refuted :
  exists input r c, parse (default_cfg 16 300) counters_zero input = (Ok (Some r), c) /\ valid (f_log r) = false.
Proof.
  exists ([60;49;51;62;49;32;116;32;104;32;97;32;112;32;115;32;101;32] ++ repeat 97 15 ++ [228;184;150;122]).
  eexists. eexists. split. vm_compute. reflexivity. vm_compute. reflexivity.
Qed.
Print Assumptions C09_truncation_refuted.
