(* C09 — placeholder while the proofs are being written *)
From SV Require Import Model.Common Model.Utf8 Model.Parser.
Theorem C09_example_tmp : to_valid_utf8 [228;184;150;255] = [228;184;150].
Proof. vm_compute. reflexivity. Qed.
Print Assumptions C09_example_tmp.
