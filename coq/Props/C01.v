(* C01 — At-least-once delivery end to end across upstream faults and restarts.
   Only the property theorems; each is closed by [exact] of a lemma from Proofs/.

   The theorems are about Model/System.v, the labelled transition system of the whole agent for one output
   (records are tokens (connection, sequence, pipeline, filter verdict, body); chunks are immutable groups of
   tokens).  A run is ANY event list accepted by [step] from [init]: every interleaving of the goroutines, every
   batching, spill, quota and I/O outcome, every upstream behaviour per connection attempt (refuse, reset, silent,
   late or wrong ACK are [ESessionEnd] / absence of [ESrvAck] at arbitrary points) and every history of graceful
   stops and restarts.

   Hypotheses, all explicit:
   * [no_timeout es]: the 60 s channel-timeout ("BUG: timeout flushing") branch of channelInputBuffer.Flush is not
     taken, i.e. no pipeline worker is stalled beyond defs.IntermediateChannelTimeout (C01_timeout_hypothesis_needed
     shows the theorem fails without it);
   * the transition rules of the component stages are the guarantees of the component properties: C08/C09 (a
     well-formed record read from a connection is framed and parsed once: EIngest/EFrame), C11 (a chunk is the
     sequence of records written since the last flush: EChunkClose), C03 (bufferer: Accept never blocks, a chunk
     leaves memory only into its file or the dropped counter — including a hand-back that cannot be written:
     EHandback false counts a drop, which is the behaviour after the C03 fix), C02 (the client confirms a chunk only
     after an ACK read on the same session: EAckRead; unconfirmed chunks become leftovers: ESessionEnd);
   * the hybrid buffer saves its window only after its consumers have quit (ESave _ WWindow requires the client to be
     done: the code after fix 9d5f8ee, see C05); this does not matter for at-least-once, only for order;
   * the shutdown waits of bufferer.Destroy / collectLeftovers do not hit their own time-outs (EFeederEnd,
     EClientDone, EStopped are taken only when their loops have drained: C18's subject). *)
From Coq Require Import List NArith Bool.
From SV Require Import Model.Common Model.System Model.SystemAccept Model.SystemConnEnd Model.SystemQuota
  Proofs.SystemLists Proofs.SystemProofs Proofs.SystemAlo Proofs.SystemAcceptProofs Proofs.SystemConnEndProofs Proofs.SystemQuotaProofs.
Import ListNotations.

(* Conservation, in every reachable state: every record read is in at least one location; nothing is anywhere
   that was not read — tokens carry their body, so contents are unaltered; a record that passes the filters is
   never in the "filtered" location (it is in transit, acknowledged, in a queue file, in a counted-dropped chunk,
   or lost by the channel-timeout branch). *)
Theorem C01_conservation :
  forall es s, steps init es = Some s ->
    (forall t, In t (ingested s) -> In t (anywhere s)) /\
    (forall t, In t (anywhere s) -> In t (ingested s)) /\
    (forall t, In t (ingested s) -> t_keep t = true -> In t (live s)).
Proof. exact conservation_lemma. Qed.
Print Assumptions C01_conservation.

(* At every Stopped state nothing is only in memory: all connection buffers, batches, channels, workers,
   current chunks, buffer queues, windows and client holdings are empty (the final flushes of runConnection,
   the orchestrator sink, the worker's onStop, bufferer.Destroy and the client's leftover loop). *)
Theorem C01_stopped_nothing_in_memory :
  forall es s, steps init es = Some s -> phase s = Stopped -> forall t, ~ In t (transit s).
Proof. exact stopped_quiescent. Qed.
Print Assumptions C01_stopped_nothing_in_memory.

(* AT LEAST ONCE: at every Stopped state of every run, each record read from a connection and not dropped by the
   filters is in a chunk acknowledged by the upstream, or in a chunk file of the queue directories, or in a chunk
   counted in the dropped-chunk metric.  Duplicates are allowed. *)
Theorem C01_at_least_once :
  forall es s, steps init es = Some s -> no_timeout es = true -> phase s = Stopped ->
  forall t, In t (ingested s) -> t_keep t = true ->
    In t (toks_of_chunks (acked s)) \/ In t (toks_of_chunks (files s)) \/ In t (toks_of_chunks (dropped s)).
Proof. exact at_least_once_lemma. Qed.
Print Assumptions C01_at_least_once.

(* The same at every quiescent state (nothing in transit), e.g. once a healthy upstream has acknowledged everything. *)
Theorem C01_at_least_once_quiescent :
  forall es s, steps init es = Some s -> no_timeout es = true -> quiescent s ->
  forall t, In t (ingested s) -> t_keep t = true ->
    In t (toks_of_chunks (acked s)) \/ In t (toks_of_chunks (files s)) \/ In t (toks_of_chunks (dropped s)).
Proof. exact at_least_once_quiescent_lemma. Qed.
Print Assumptions C01_at_least_once_quiescent.

(* Without the hypothesis the only additional location is the one fed by the channel-timeout branch. *)
Theorem C01_at_least_once_or_timeout :
  forall es s, steps init es = Some s -> phase s = Stopped ->
  forall t, In t (ingested s) -> t_keep t = true -> In t (safe s) \/ In t (lost s).
Proof. exact at_least_once_or_timeout_lemma. Qed.
Print Assumptions C01_at_least_once_or_timeout.

(* The hypothesis is needed: a run that takes the timeout branch loses the record (witness evaluated by vm_compute). *)
Theorem C01_timeout_hypothesis_needed :
  exists es s t, steps init es = Some s /\ phase s = Stopped /\ In t (ingested s) /\ t_keep t = true /\ ~ In t (safe s).
Proof. exact timeout_witness. Qed.
Print Assumptions C01_timeout_hypothesis_needed.

(* Trace acceptor: an accepted trace is the projection of a run of the LTS (that does not use the timeout branch). *)
Theorem C01_accept_sound :
  forall tr s, accept tr = Some s ->
  exists es os, steps init es = Some s /\ no_timeout es = true /\ order_safe es = true /\
               trace_obs tr = Some os /\ Forall2 obs_equiv (proj_run init es) os.
Proof. exact accept_sound_lemma. Qed.
Print Assumptions C01_accept_sound.

(* ... and the flag alo=1 printed for an accepted trace ending in a Stopped state is a consequence of the theorem. *)
Theorem C01_accepted_stopped_alo :
  forall tr s, accept tr = Some s -> phase s = Stopped -> alo_check s = true.
Proof. exact accepted_stopped_alo_lemma. Qed.
Print Assumptions C01_accepted_stopped_alo.

(* Non-vacuity: a concrete run with a filtered record, an upstream that receives a chunk and never ACKs it, a
   graceful stop (the chunk is handed back and saved), a restart (recovered from its file), a second chunk, ACKs,
   and a final stop satisfies every hypothesis; all three kept records end acknowledged. *)
Theorem C01_example :
  exists es s, steps init es = Some s /\ no_timeout es = true /\ phase s = Stopped /\
    length (ingested s) = 4 /\ length (toks_of_chunks (acked s)) = 3 /\ files s = [] /\ length (filtered s) = 1.
Proof. exact example_run. Qed.
Print Assumptions C01_example.

(* ---------- the end of a connection in the order of the code; graceful stop with OPEN connections ----------
   Model/SystemConnEnd.v: runConnection's ending is a program over three operations on the state of Model/System.v —
   [OpFlushAll] (mlineReader.FlushAll: the line reader's last record is parsed into the sink batch), [OpFlush]
   (recvChan.Flush = sendBuffer: the batch goes to the per-key buffers), [OpClose] (deferred recvChan.Close: the per-key
   buffers go to the pipeline channels; whatever the batch or the reader still hold is DISCARDED) — one program for
   the path "closed by the stop request" ([VConnEndStop]) and one for the peer path (EOF / reset / read error).
   [vsteps v] is the agent with the two programs [v] as parameters. *)

(* Refinement: FlushAll; Flush; Close, in this order, IS the atomic [EConnEnd] of Model/System.v (in every state in
   which the pipelines of the per-key buffers exist, an invariant of all reachable states). *)
Theorem C01_conn_end_refines :
  forall k s, (forall t, In t (key_buf s) -> In (t_pipe t) (pipes s)) -> mem_nat k (open_conns s) = true ->
    step s (EConnEnd k) = Some (run_end faithful_prog k s).
Proof. exact faithful_end_refines. Qed.
Print Assumptions C01_conn_end_refines.

(* In EVERY state: after the code-order ending of connection k nothing of k is left in the line reader, the batch or
   the per-key buffers, everything it held there is in the pipeline channels, other connections are untouched. *)
Theorem C01_conn_end_hands_everything_on :
  forall k s, let s' := run_end faithful_prog k s in
  (forall t, on_conn k t = true -> ~ In t (conn_buf s') /\ ~ In t (sink_batch s') /\ ~ In t (key_buf s')) /\
  (forall t, on_conn k t = true -> In t (conn_buf s ++ sink_batch s ++ key_buf s) -> In t (toks_of_batches (chans s'))) /\
  (forall t, on_conn k t = false ->
     (In t (conn_buf s') <-> In t (conn_buf s)) /\ (In t (sink_batch s') <-> In t (sink_batch s)) /\
     (In t (key_buf s') <-> In t (key_buf s))) /\
  (forall t, In t (toks_of_batches (chans s)) -> In t (toks_of_batches (chans s'))).
Proof. exact faithful_end_local. Qed.
Print Assumptions C01_conn_end_hands_everything_on.

(* Every run of the agent with the code-order endings — connections ended by their peer at any time or still open
   and closed by the stop request, in any interleaving with everything else — is a run of Model/System.v ... *)
Theorem C01_open_conn_runs_are_runs :
  forall ves s, vsteps faithful init ves = Some s -> steps init (map erase ves) = Some s.
Proof. intros ves s. apply vsteps_faithful_steps. exact aux_init. Qed.
Print Assumptions C01_open_conn_runs_are_runs.

(* ... so at every Stopped state the line reader, the batch and the per-key buffers of every connection are empty
   and no connection is open ... *)
Theorem C01_stopped_batches_empty :
  forall ves s, vsteps faithful init ves = Some s -> phase s = Stopped ->
    conn_buf s = [] /\ sink_batch s = [] /\ key_buf s = [] /\ open_conns s = [].
Proof. exact conn_end_stopped_batches_empty. Qed.
Print Assumptions C01_stopped_batches_empty.

(* ... and AT LEAST ONCE holds: every record read — including those of the last burst of a connection that was still
   open at the stop — and not filtered is acknowledged, in a queue file, or in a counted-dropped chunk. *)
Theorem C01_at_least_once_open_conns :
  forall ves s, vsteps faithful init ves = Some s -> vno_timeout ves = true -> phase s = Stopped ->
  forall t, In t (ingested s) -> t_keep t = true ->
    In t (toks_of_chunks (acked s)) \/ In t (toks_of_chunks (files s)) \/ In t (toks_of_chunks (dropped s)).
Proof. exact conn_end_at_least_once. Qed.
Print Assumptions C01_at_least_once_open_conns.

(* The theorem depends on the mechanism.  Without the final Flush on the stop path (`return` after FlushAll, the
   deferred Close still runs — seeded change C01/5) a record read on a connection that is open at the stop is in no
   location at all afterwards: not acknowledged, not in a file, not counted; also when it was already in the batch. *)
Theorem C01_no_flush_on_stop_variant_refuted :
  (exists s t, vsteps no_flush_on_stop init witness_run = Some s /\ vno_timeout witness_run = true /\ phase s = Stopped /\
               In t (ingested s) /\ t_keep t = true /\ ~ In t (safe s) /\ ~ In t (anywhere s)) /\
  (exists s t, vsteps no_flush_on_stop init witness_run2 = Some s /\ vno_timeout witness_run2 = true /\ phase s = Stopped /\
               In t (ingested s) /\ t_keep t = true /\ ~ In t (safe s) /\ ~ In t (anywhere s)).
Proof. exact (conj no_flush_on_stop_loses no_flush_on_stop_loses_batched). Qed.
Print Assumptions C01_no_flush_on_stop_variant_refuted.

(* Likewise without FlushAll on the stop path, and with Flush BEFORE FlushAll (the reader's last record reaches the
   batch after the batch was sent). *)
Theorem C01_misplaced_flush_variants_refuted :
  loses no_flush_all_on_stop witness_run /\ loses flush_before_flush_all witness_run.
Proof. exact (conj no_flush_all_on_stop_loses flush_before_flush_all_loses). Qed.
Print Assumptions C01_misplaced_flush_variants_refuted.

(* Why scenarios without an open connection at the stop cannot see such a change: a variant whose PEER path is the
   faithful program behaves exactly like Model/System.v on every run in which no connection is closed by the stop
   request. *)
Theorem C01_stop_path_variants_need_open_conn :
  forall v, peer_path v = faithful_prog ->
  forall ves s, no_stop_end ves = true -> vsteps v init ves = Some s -> steps init (map erase ves) = Some s.
Proof. intros v HP ves s. apply (peer_faithful_blind v HP ves init s aux_init). Qed.
Print Assumptions C01_stop_path_variants_need_open_conn.

(* The faithful agent on the witness: the record ends in a queue file. *)
Theorem C01_open_conn_example :
  vsteps faithful init witness_run = None /\
  exists s, vsteps faithful init witness_run_faithful = Some s /\ phase s = Stopped /\
            In witness_tok (toks_of_chunks (files s)).
Proof. exact faithful_witness. Qed.
Print Assumptions C01_open_conn_example.

(* Case kind 3 (stop with open connections): the state printed by the model is reached by a run of the agent from
   [init] that never takes the channel-timeout branch, and whenever it is a Stopped state every kept record read is
   in a final location — for every case line. *)
Theorem C01_stop_case_run_sound :
  forall v c, vsteps v init (rev (snd (run_stop_scenario v c))) = Some (fst (run_stop_scenario v c)) /\
              vno_timeout (rev (snd (run_stop_scenario v c))) = true.
Proof. intros v c. split; [apply run_stop_scenario_sound|apply run_stop_scenario_no_timeout]. Qed.
Print Assumptions C01_stop_case_run_sound.

Theorem C01_stop_case_prediction_alo :
  forall c, let s := fst (run_stop_scenario faithful c) in phase s = Stopped ->
  forall t, In t (ingested s) -> t_keep t = true ->
    In t (toks_of_chunks (acked s)) \/ In t (toks_of_chunks (files s)) \/ In t (toks_of_chunks (dropped s)).
Proof. exact stop_scenario_alo. Qed.
Print Assumptions C01_stop_case_prediction_alo.

(* ---------- the only permitted discards are the documented overflows ----------
   Model/SystemQuota.v: [qstep sz lim qmax] is the agent whose spill / drop outcomes are guarded as in
   chunkOperator.UnloadChunk (bytes of the chunk files of the pipeline's queue directory + len(chunk) > maxBufSize ->
   refuse) and bufferer.Accept (queue full -> drop), evaluated on the CURRENT contents of the directory ([files]) and
   of the queue; chunk-file read errors excluded.  [sz] (bytes of a chunk), [lim] (maxBufSize) and [qmax]
   (BufferMaxNumChunksInQueue) are arbitrary. *)
Definition C01_overflow (sz : chunk -> nat) (lim qmax : nat) (s : state) (c : chunk) : Prop :=
  dir_full sz lim s c = true \/ queue_full qmax s (c_pipe c) = true.

(* One step adds at most one chunk to the dropped history, and only if the overflow condition holds for it in the
   state in which the step is taken. *)
Theorem C01_drop_step_only_when_full :
  forall sz lim qmax s e s', qstep sz lim qmax s e = Some s' ->
    dropped s' = dropped s \/ exists c, dropped s' = dropped s ++ [c] /\ C01_overflow sz lim qmax s c.
Proof. exact qstep_drop_only_when_full. Qed.
Print Assumptions C01_drop_step_only_when_full.

(* All runs, all histories of spilling, acknowledging, stopping and restarting: every discarded chunk was discarded
   in a state (reached by a prefix of the run) whose queue directory — with the files it held AT THAT MOMENT, whatever
   was spilled, recovered and removed before — could not take it, or whose queue was full. *)
Theorem C01_drop_only_when_full :
  forall sz lim qmax es s, qsteps sz lim qmax init es = Some s ->
  forall c, In c (dropped s) ->
    exists es1 e es2 s1, es = es1 ++ e :: es2 /\ qsteps sz lim qmax init es1 = Some s1 /\ C01_overflow sz lim qmax s1 c.
Proof.
  intros sz lim qmax es s H c Hc.
  destruct (qsteps_drop_only_when_full sz lim qmax es init s H c Hc) as [[]|X]. exact X.
Qed.
Print Assumptions C01_drop_only_when_full.

(* The guarded agent is a restriction of Model/System.v, so conservation and at-least-once hold for it, and the third
   alternative of at-least-once ("in a counted-dropped chunk") is a documented overflow. *)
Theorem C01_quota_runs_are_runs :
  forall sz lim qmax es s s', qsteps sz lim qmax s es = Some s' -> steps s es = Some s'.
Proof. exact qsteps_steps. Qed.
Print Assumptions C01_quota_runs_are_runs.

Theorem C01_at_least_once_or_overflow :
  forall sz lim qmax es s, qsteps sz lim qmax init es = Some s -> no_timeout es = true -> phase s = Stopped ->
  forall t, In t (ingested s) -> t_keep t = true ->
    In t (toks_of_chunks (acked s)) \/ In t (toks_of_chunks (files s)) \/
    (exists c, In c (dropped s) /\ In t (c_toks c) /\
       exists es1 e es2 s1, es = es1 ++ e :: es2 /\ qsteps sz lim qmax init es1 = Some s1 /\ C01_overflow sz lim qmax s1 c).
Proof. exact quota_at_least_once. Qed.
Print Assumptions C01_at_least_once_or_overflow.

(* The agent whose space check reads a counter that only grows on its side (spills and recovered files are added,
   the removals on ACK happen on another copy — seeded change C01/7): after spill, delivery, ACK and removal the
   directory and the queue are EMPTY, yet the next chunk is discarded; the overflow condition is false for it; the
   guarded agent cannot take that step and spills the chunk instead. *)
Theorem C01_drop_only_when_full_cumulative_counter_variant_refuted :
  exists s1 u1 s2 u2 c,
    csteps qsz 1 64 (init, fun _ => 0) cumulative_history = Some (s1, u1) /\
    qsteps qsz 1 64 init cumulative_history = Some s1 /\
    files s1 = [] /\ queue s1 = [] /\
    cstep qsz 1 64 (s1, u1) cumulative_drop = Some (s2, u2) /\
    dropped s2 = [c] /\ c_toks c = [wt2] /\
    dir_full qsz 1 s1 c = false /\ queue_full 64 s1 (c_pipe c) = false /\
    qstep qsz 1 64 s1 cumulative_drop = None /\
    exists s3, qstep qsz 1 64 s1 (EChunkClose 1 2 ADisk) = Some s3 /\ In wt2 (toks_of_chunks (files s3)).
Proof. exact cumulative_counter_witness. Qed.
Print Assumptions C01_drop_only_when_full_cumulative_counter_variant_refuted.
