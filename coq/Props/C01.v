(* C01 — At-least-once delivery end to end across upstream faults and restarts.
   Only the property theorems; each is closed by [exact] of a lemma from Proofs/.

   The theorems are about Model/System.v, the labelled transition system of the whole agent for one output
   (records are tokens (connection, sequence, pipeline, filter verdict, body); chunks are immutable groups of
   tokens).  A run is ANY event list accepted by [step] from [init]: every interleaving of the goroutines, every
   batching, spill, quota and I/O outcome, every upstream behaviour per connection attempt (refuse, reset, silent,
   late or wrong ACK are [ESessionEnd] / absence of [ESrvAck] at arbitrary points) and every history of graceful
   stops and restarts.

   Hypotheses, all explicit:
   * [no_timeout es]: the 60 s channel-timeout ("BUG: timeout flushing") branch of channelInputBuffer.Flush is not
     taken, i.e. no pipeline worker is stalled beyond defs.IntermediateChannelTimeout (C01_timeout_hypothesis_needed
     shows the theorem fails without it);
   * the transition rules of the component stages are the guarantees of the component properties: C08/C09 (a
     well-formed record read from a connection is framed and parsed once: EIngest/EFrame), C11 (a chunk is the
     sequence of records written since the last flush: EChunkClose), C03 (bufferer: Accept never blocks, a chunk
     leaves memory only into its file or the dropped counter — including a hand-back that cannot be written:
     EHandback false counts a drop, which is the behaviour after the C03 fix), C02 (the client confirms a chunk only
     after an ACK read on the same session: EAckRead; unconfirmed chunks become leftovers: ESessionEnd);
   * the hybrid buffer saves its window only after its consumers have quit (ESave _ WWindow requires the client to be
     done: the code after fix 9d5f8ee, see C05); this does not matter for at-least-once, only for order;
   * the shutdown waits of bufferer.Destroy / collectLeftovers do not hit their own time-outs (EFeederEnd,
     EClientDone, EStopped are taken only when their loops have drained: C18's subject). *)
From Coq Require Import List NArith Bool.
From SV Require Import Model.Common Model.System Model.SystemAccept
  Proofs.SystemLists Proofs.SystemProofs Proofs.SystemAlo Proofs.SystemAcceptProofs.
Import ListNotations.

(* Conservation, in every reachable state: every record read is in at least one location; nothing is anywhere
   that was not read — tokens carry their body, so contents are unaltered; a record that passes the filters is
   never in the "filtered" location (it is in transit, acknowledged, in a queue file, in a counted-dropped chunk,
   or lost by the channel-timeout branch). *)
Theorem C01_conservation :
  forall es s, steps init es = Some s ->
    (forall t, In t (ingested s) -> In t (anywhere s)) /\
    (forall t, In t (anywhere s) -> In t (ingested s)) /\
    (forall t, In t (ingested s) -> t_keep t = true -> In t (live s)).
Proof. exact conservation_lemma. Qed.
Print Assumptions C01_conservation.

(* At every Stopped state nothing is only in memory: all connection buffers, batches, channels, workers,
   current chunks, buffer queues, windows and client holdings are empty (the final flushes of runConnection,
   the orchestrator sink, the worker's onStop, bufferer.Destroy and the client's leftover loop). *)
Theorem C01_stopped_nothing_in_memory :
  forall es s, steps init es = Some s -> phase s = Stopped -> forall t, ~ In t (transit s).
Proof. exact stopped_quiescent. Qed.
Print Assumptions C01_stopped_nothing_in_memory.

(* AT LEAST ONCE: at every Stopped state of every run, each record read from a connection and not dropped by the
   filters is in a chunk acknowledged by the upstream, or in a chunk file of the queue directories, or in a chunk
   counted in the dropped-chunk metric.  Duplicates are allowed. *)
Theorem C01_at_least_once :
  forall es s, steps init es = Some s -> no_timeout es = true -> phase s = Stopped ->
  forall t, In t (ingested s) -> t_keep t = true ->
    In t (toks_of_chunks (acked s)) \/ In t (toks_of_chunks (files s)) \/ In t (toks_of_chunks (dropped s)).
Proof. exact at_least_once_lemma. Qed.
Print Assumptions C01_at_least_once.

(* The same at every quiescent state (nothing in transit), e.g. once a healthy upstream has acknowledged everything. *)
Theorem C01_at_least_once_quiescent :
  forall es s, steps init es = Some s -> no_timeout es = true -> quiescent s ->
  forall t, In t (ingested s) -> t_keep t = true ->
    In t (toks_of_chunks (acked s)) \/ In t (toks_of_chunks (files s)) \/ In t (toks_of_chunks (dropped s)).
Proof. exact at_least_once_quiescent_lemma. Qed.
Print Assumptions C01_at_least_once_quiescent.

(* Without the hypothesis the only additional location is the one fed by the channel-timeout branch. *)
Theorem C01_at_least_once_or_timeout :
  forall es s, steps init es = Some s -> phase s = Stopped ->
  forall t, In t (ingested s) -> t_keep t = true -> In t (safe s) \/ In t (lost s).
Proof. exact at_least_once_or_timeout_lemma. Qed.
Print Assumptions C01_at_least_once_or_timeout.

(* The hypothesis is needed: a run that takes the timeout branch loses the record (witness evaluated by vm_compute). *)
Theorem C01_timeout_hypothesis_needed :
  exists es s t, steps init es = Some s /\ phase s = Stopped /\ In t (ingested s) /\ t_keep t = true /\ ~ In t (safe s).
Proof. exact timeout_witness. Qed.
Print Assumptions C01_timeout_hypothesis_needed.

(* Trace acceptor: an accepted trace is the projection of a run of the LTS (that does not use the timeout branch). *)
Theorem C01_accept_sound :
  forall tr s, accept tr = Some s ->
  exists es os, steps init es = Some s /\ no_timeout es = true /\ order_safe es = true /\
               trace_obs tr = Some os /\ Forall2 obs_equiv (proj_run init es) os.
Proof. exact accept_sound_lemma. Qed.
Print Assumptions C01_accept_sound.

(* ... and the flag alo=1 printed for an accepted trace ending in a Stopped state is a consequence of the theorem. *)
Theorem C01_accepted_stopped_alo :
  forall tr s, accept tr = Some s -> phase s = Stopped -> alo_check s = true.
Proof. exact accepted_stopped_alo_lemma. Qed.
Print Assumptions C01_accepted_stopped_alo.

(* Non-vacuity: a concrete run with a filtered record, an upstream that receives a chunk and never ACKs it, a
   graceful stop (the chunk is handed back and saved), a restart (recovered from its file), a second chunk, ACKs,
   and a final stop satisfies every hypothesis; all three kept records end acknowledged. *)
Theorem C01_example :
  exists es s, steps init es = Some s /\ no_timeout es = true /\ phase s = Stopped /\
    length (ingested s) = 4 /\ length (toks_of_chunks (acked s)) = 3 /\ files s = [] /\ length (filtered s) = 1.
Proof. exact example_run. Qed.
Print Assumptions C01_example.
