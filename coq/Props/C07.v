(* C07 - No input can crash or wedge the agent.
   Only the property theorems; each is closed by [exact] of a lemma from Proofs/Pipeline*.v.

   Model: Model/Pipeline.v = the COMPOSITION of the component models of C08 (framing), C09 (parser), C15 (transforms)
   + C13 (parseTime) + C14 (redactEmail), C06 (orchestrator, metric key sets), C10 (serializer; the repaired
   SerializeRecord in Model/PipelineSerializer.v) and C11 (packer), with the Prometheus label rule as the oracle
   [label_ok] = valid UTF-8.  The proofs compose the component theorems (C09_accounting, C15's no_panic_lemma,
   C13_transform_cases, C14_transform, C06's local_goc_spec/total, C10_encode_buf_spec, C09_to_valid_utf8_valid,
   C08_never_full, C08_connection_single_line); nothing about a component is proved again.

   [config_ok O cfg] (Proofs/PipelineProofs.v) = the loader-level side conditions: level mapping of 8 names; every
   locator inside the field array (parser fields, orchestration keys, metric keys, keys of parseTime/redactEmail);
   schema not longer than the field array; the tag template only names orchestration keys; both transform programs
   well-formed in C15's sense (extractor shapes, maxLen >= 0, regexp oracle returns index pairs inside the value);
   every output accepted by fluentdforward VerifyConfig; the two repairs of this property in place.
   [ginv] / [cinv] = the state invariant of the agent / of one connection (hold initially: C07_initial_state). *)
From SV Require Import Model.Common.
From SV Require Model.Utf8 Model.Parser Model.ParseTime Model.Transforms Model.Routing Model.Serializer Model.PipelineSerializer
               Model.Packer Model.Framing Spec.Utf8Spec Spec.SyslogSpec Spec.FramingSpec Spec.SerializerSpec Spec.MsgpackSpec
               Proofs.ParserProofs Proofs.PipelineSerializerProofs Proofs.TagTemplateProofs.
From SV Require Import Model.Pipeline Proofs.PipelineProofs Proofs.PipelineWitnesses.
From SV Require Import Model.PipelineVariants Proofs.PipelineFollowup.
From SV Require Model.PipelinePool Proofs.PipelinePoolProofs.

(* 1. pipeline_total.  For every accepted configuration, every reachable state of the agent and of the connection
   (so: whatever was received before, on this or any other connection) and EVERY byte string presented as a record:
   the per-record pipeline parse -> extract -> route -> select metric key set -> transform -> serialize -> pack
   returns normally - passed (one complete event per output) or dropped - never a panic; the invariant is kept; a
   malformed record is counted dropped exactly once, with its length, and changes nothing else; a record dropped by an
   extraction transform is counted dropped (not passed) once and leaves the shared state alone; every other record is
   counted passed exactly once. *)
Theorem C07_pipeline_total :
  forall (O : T.oracles) cfg g c now clk (input : bytes),
  config_ok O cfg -> ginv O cfg g -> cinv O cfg g c ->
  exists g' c' res,
    process_record O cfg g c now clk input = Ok (g', c', res) /\
    ginv O cfg g' /\ cinv O cfg g' c' /\ result_shape cfg res /\
    match res with
    | RDropParse =>
        fst (Ps.parse (c_parser cfg) (cs_input c) input) = Ok None /\
        SyslogSpec.counted_dropped (cs_input c) (cs_input c') (length input) /\
        g' = g /\ cs_extract c' = cs_extract c /\ cs_ecnt c' = cs_ecnt c /\ cs_local c' = cs_local c
    | RDropExtract => counted_dropped_instead (cs_input c) (cs_input c') (length input) /\ g' = g
    | _ => SyslogSpec.counted_passed (cs_input c) (cs_input c') (length input)
    end.
Proof. exact process_record_total. Qed.
Print Assumptions C07_pipeline_total.

(* the invariants hold for a freshly started agent, and a NEW connection can be opened in every reachable state *)
Theorem C07_initial_state :
  forall (O : T.oracles) cfg, config_ok O cfg ->
  ginv O cfg g_init /\ forall g, cinv O cfg g (new_conn cfg).
Proof. exact (fun O cfg H => conj (ginv_init O cfg) (fun g => cinv_new_conn O cfg g H)). Qed.
Print Assumptions C07_initial_state.

(* the tag condition of config_ok is what NewTagBuilder establishes (C06) *)
Theorem C07_accepted_tag_template :
  forall names t parts,
  R.parse_template names t = Some parts -> Forall (TagTemplateProofs.part_wf (length names)) parts.
Proof. exact accepted_tag_ok. Qed.
Print Assumptions C07_accepted_tag_template.

(* 1'. ... hence every sequence of records through one long-lived pipeline (repeats, valid/invalid interleaved) *)
Theorem C07_pipeline_total_sequence :
  forall (O : T.oracles) cfg (inputs : list bytes) g c now clk,
  config_ok O cfg -> ginv O cfg g -> cinv O cfg g c ->
  exists g' c' rs,
    process_records O cfg g c now clk inputs = Ok (g', c', rs) /\
    ginv O cfg g' /\ cinv O cfg g' c' /\ length rs = length inputs /\ Forall (result_shape cfg) rs.
Proof. exact process_records_total. Qed.
Print Assumptions C07_pipeline_total_sequence.

(* 2. stream_total.  For every TCP byte stream in every fragmentation and with every read timing (data with or
   without deadline renewal, timeouts, finally an error / EOF - also in the middle of a record): the connection-level
   function runConnection + multiLineReader + the per-record pipeline never panics and never spins (the outcome is
   not OutOfFuel: Read is never called on a full buffer - C08_never_full), and leaves the agent in a state from
   which everything above holds again. *)
Theorem C07_stream_total :
  forall (O : T.oracles) cfg g now clk (evs : list F.event),
  config_ok O cfg -> ginv O cfg g -> (1 <= record_limit cfg)%nat ->
  exists g' c' rs, conn_run O cfg g now clk evs = Ok (g', c', rs) /\ ginv O cfg g' /\ cinv O cfg g' c' /\
                   Forall (result_shape cfg) rs.
Proof. exact conn_run_total. Qed.
Print Assumptions C07_stream_total.

(* the framing layer alone: after everything that can arrive, a record of maximal length still fits the line buffer or the
   buffer is empty - Read is never called with an empty slice (C08_never_full for the listener's parameters) *)
Theorem C07_reader_never_full :
  forall cfg (evs : list F.event), (1 <= record_limit cfg)%nat ->
  exists st' records,
    F.run_ops F.trs (F.conn_ops evs) (F.new_mlr (c_linebuf cfg) (record_limit cfg)) [] = Ok (st', records) /\
    (length (F.m_buf st') <= F.m_cap st')%nat /\
    (F.m_limit st' <= F.m_cap st' - length (F.m_buf st') \/ F.m_buf st' = [])%nat.
Proof. exact conn_reader_never_full. Qed.
Print Assumptions C07_reader_never_full.

(* 2'. ... and so does any number of connections one after the other (bad input, abrupt disconnect, NEW connection) *)
Theorem C07_agent_total :
  forall (O : T.oracles) cfg (conns : list (list F.event)) g now clk,
  config_ok O cfg -> ginv O cfg g -> (1 <= record_limit cfg)%nat ->
  exists g' rss, agent_run O cfg g now clk conns = Ok (g', rss) /\ ginv O cfg g' /\ length rss = length conns.
Proof. exact agent_run_total. Qed.
Print Assumptions C07_agent_total.

(* 3. neighbours_unchanged.  [ls]: the lines of a stream, each a complete single-line record START of at most b bytes
   (C08's side conditions; cap >= 2b+1+limit, production: 4*limit), some of them malformed = rejected by the parser.
   The connection that delivers all of them ([evs1]) and the one that delivers only the well-formed ones ([evs2]) -
   each in ANY fragmentation and timing - leave the agent in the SAME shared state and produce the SAME results for
   the well-formed records (pipeline, serialized bytes per output, chunks); exactly the malformed records are
   answered RDropParse; the input counters differ by one dropped record, with its length, per malformed record. *)
Theorem C07_neighbours_unchanged :
  forall (O : T.oracles) cfg g now clk b (ls : list bytes) evs1 evs2,
  config_ok O cfg -> ginv O cfg g ->
  (1 <= record_limit cfg)%nat ->
  (2 * b + 1 + record_limit cfg <= Nat.max (c_linebuf cfg) (record_limit cfg * 3))%nat ->
  Forall (FramingSpec.valid_line F.trs b) ls ->
  FramingSpec.ops_text (F.conn_ops evs1) = FramingSpec.unlines ls ->
  FramingSpec.ops_text (F.conn_ops evs2) = FramingSpec.unlines (filter (good cfg) ls) ->
  exists g' c1 c2 rs1,
    conn_run O cfg g now clk evs1 = Ok (g', c1, rs1) /\
    conn_run O cfg g now clk evs2 = Ok (g', c2, filter (fun r => negb (is_drop_parse r)) rs1) /\
    map is_drop_parse rs1 = map (malformed cfg) ls /\
    cs_extract c2 = cs_extract c1 /\ cs_ecnt c2 = cs_ecnt c1 /\ cs_local c2 = cs_local c1 /\
    (let bad := filter (malformed cfg) ls in
     Ps.passed_n (cs_input c1) = Ps.passed_n (cs_input c2) /\
     Ps.passed_bytes (cs_input c1) = Ps.passed_bytes (cs_input c2) /\
     Ps.overflow_n (cs_input c1) = Ps.overflow_n (cs_input c2) /\
     Ps.overflow_bytes (cs_input c1) = Ps.overflow_bytes (cs_input c2) /\
     Ps.dropped_n (cs_input c1) = Ps.dropped_n (cs_input c2) + N.of_nat (length bad) /\
     Ps.dropped_bytes (cs_input c1) = Ps.dropped_bytes (cs_input c2) + SyslogSpec.sum_lengths bad)%N.
Proof. exact neighbours_unchanged_lemma. Qed.
Print Assumptions C07_neighbours_unchanged.

(* 3'. the same for record sequences handed to the pipeline directly (no framing side conditions): removing the
   malformed records from ANY sequence changes nothing but the input counters ([cnt_rel k kb A B]: passed and overflow
   equal, A counts k more dropped records and kb more dropped bytes than B) *)
Theorem C07_malformed_records_only_counted :
  forall (O : T.oracles) cfg (inputs : list bytes) g c now clk g1 c1 rs cnt k kb,
  ParserProofs.cfg_ok (c_parser cfg) ->
  process_records O cfg g c now clk inputs = Ok (g1, c1, rs) ->
  cnt_rel k kb (cs_input c) cnt ->
  exists cnt',
    process_records O cfg g (with_input c cnt) now clk (filter (fun x => negb (malformed cfg x)) inputs)
    = Ok (g1, with_input c1 cnt', filter (fun r => negb (is_drop_parse r)) rs) /\
    map is_drop_parse rs = map (malformed cfg) inputs /\
    cnt_rel (k + N.of_nat (length (filter (malformed cfg) inputs)))
            (kb + SyslogSpec.sum_lengths (filter (malformed cfg) inputs)) (cs_input c1) cnt'.
Proof. exact process_records_filter. Qed.
Print Assumptions C07_malformed_records_only_counted.

(* 4. Neighbours inside a chunk: every stream of a passed record is the COMPLETE event (never empty, never cut),
   and C10's independent decoder reads it back as exactly that record's event with nothing left over - so an event
   appended to a chunk cannot change how the events before and after it decode. *)
Theorem C07_passed_streams_decode :
  forall cfg res,
  result_shape cfg res ->
  (N.of_nat (length (c_schema cfg)) < 65535)%N ->
  match res with
  | RPassed _ streams _ =>
      exists rec, Forall2 (fun o stream =>
                     match oc_kind o with
                     | OFluentd sc =>
                       (N.of_nat (length (S.c_env sc)) < 65536)%N ->
                       (N.of_nat (length stream) < 4294967296)%N ->
                       stream <> [] /\
                       MsgpackSpec.decode_all stream = Some (SerializerSpec.event_tree (c_schema cfg) sc rec, [])
                     | ODatadog _ => True
                     end)
                  (c_outputs cfg) streams
  | _ => True
  end.
Proof. exact passed_streams_decode. Qed.
Print Assumptions C07_passed_streams_decode.

(* 5. The repaired SerializeRecord (defect 16): for EVERY record - whatever the size of its fields - no panic and the
   complete event; maxEncodedLength is an upper bound of the event. *)
Theorem C07_serializer_total :
  forall schema cfg rec B ser,
  SerializerSpec.chains_ok schema cfg ->
  (length schema <= length (S.r_fields rec))%nat ->
  S.new_serializer schema cfg B = Ok ser ->
  PipelineSerializer.serialize_record_fixed true ser rec = Ok (SerializerSpec.encode_spec schema cfg rec) /\
  exists m, PipelineSerializer.max_encoded_length ser rec = Ok m /\
            (length (SerializerSpec.encode_spec schema cfg rec) <= m)%nat.
Proof.
  exact (fun schema cfg rec B ser V L H =>
           conj (PipelineSerializerProofs.serialize_fixed_total schema cfg rec B ser V L H)
                (PipelineSerializerProofs.max_encoded_length_bound schema cfg rec B ser V L H)).
Qed.
Print Assumptions C07_serializer_total.

(* 6. The repaired label values (defect 17): whatever bytes the key fields hold, every value handed to the metric
   registry passes its UTF-8 check - no panic in WithLabelValues, and Gather keeps working in every reachable state. *)
Theorem C07_labels_always_accepted :
  (forall vs, forallb label_ok (metric_label_values true vs) = true) /\
  (forall (O : T.oracles) cfg g, ginv O cfg g -> metrics_ok g = true).
Proof. exact (conj labels_ok_fixed ginv_metrics_ok). Qed.
Print Assumptions C07_labels_always_accepted.

(* 7. The ORIGINAL code (the two switches off, everything else accepted): one record with a 0xFF byte in a metric key
   field panics in promext; the same byte in an orchestration key does not panic but breaks Gather; one record with
   a 200-byte host name overruns the 192-byte serializer buffer.  With the repairs the same records are delivered. *)
Theorem C07_original_label_panic_refuted :
  config_ok O (ex_cfg true true) /\
  process_record O (ex_cfg false true) g_init (new_conn (ex_cfg false true)) (1600000000, 0)%Z 0%Z rec_bad_label
  = Panic site_label /\
  match process_record O (ex_cfg true true) g_init (new_conn (ex_cfg true true)) (1600000000, 0)%Z 0%Z rec_bad_label with
  | Ok (g, _, RPassed 0 [s] _) => s <> [] /\ metrics_ok g = true
  | _ => False
  end.
Proof. exact (conj ex_config_ok (conj original_label_panic fixed_label_passes)). Qed.
Print Assumptions C07_original_label_panic_refuted.

Theorem C07_original_okey_breaks_metrics_refuted :
  match process_record O (ex_cfg false true) g_init (new_conn (ex_cfg false true)) (1600000000, 0)%Z 0%Z rec_bad_okey with
  | Ok (g, _, RPassed 0 _ _) => metrics_ok g = false
  | _ => False
  end.
Proof. exact original_okey_breaks_metrics. Qed.
Print Assumptions C07_original_okey_breaks_metrics_refuted.

Theorem C07_original_overflow_panic_refuted :
  (exists s, process_record O (ex_cfg true false) g_init (new_conn (ex_cfg true false)) (1600000000, 0)%Z 0%Z rec_huge_host
             = Panic s) /\
  match process_record O (ex_cfg true true) g_init (new_conn (ex_cfg true true)) (1600000000, 0)%Z 0%Z rec_huge_host with
  | Ok (_, _, RPassed 0 [s] _) => (192 < length s)%nat
  | _ => False
  end.
Proof. exact (conj original_overflow_panic fixed_overflow_passes). Qed.
Print Assumptions C07_original_overflow_panic_refuted.

(* 8. Boundary of the property (documentation, not a finding): a garbage line that is not a record start is a
   continuation line of the record before it (multi-line support); the records after it are untouched. *)
Theorem C07_garbage_line_joins_previous_refuted :
  conn_records (ex_cfg true true) [F.EvData (FramingSpec.unlines [rec_good1; garbage_line; rec_good2]) false]
  = Ok [rec_good1 ++ F.NL :: garbage_line; rec_good2] /\
  conn_records (ex_cfg true true) [F.EvData (FramingSpec.unlines [rec_good1; rec_good2]) false]
  = Ok [rec_good1; rec_good2].
Proof. exact garbage_line_joins_previous. Qed.
Print Assumptions C07_garbage_line_joins_previous_refuted.

(* Non-vacuity: a concrete configuration (delFields extraction; parseTime in a block, redactEmail and a 100% drop as
   transformations; byKeySet on app, metric key host; one output with an unescape rewrite; limits 64/96) satisfies
   config_ok; the stream good, malformed, good (NIL timestamp), malformed - read in two fragments cut inside the first
   header, with a timeout in between - satisfies the hypotheses of C07_neighbours_unchanged; the run delivers the two
   well-formed records to two pipelines and counts 2 passed / 2 dropped. *)
Theorem C07_example :
  config_ok O (ex_cfg true true) /\
  Forall (FramingSpec.valid_line F.trs 96) ex_lines /\
  (2 * 96 + 1 + record_limit (ex_cfg true true) <= Nat.max (c_linebuf (ex_cfg true true)) (record_limit (ex_cfg true true) * 3))%nat /\
  FramingSpec.ops_text (F.conn_ops ex_evs1) = FramingSpec.unlines ex_lines /\
  FramingSpec.ops_text (F.conn_ops ex_evs2) = FramingSpec.unlines (filter (good (ex_cfg true true)) ex_lines) /\
  match conn_run O (ex_cfg true true) g_init (1600000000, 0)%Z 0%Z ex_evs1 with
  | Ok (g, c, [RPassed 0 [s1] _; RDropParse; RPassed 1 [s2] _; RDropParse]) =>
      s1 <> [] /\ s2 <> [] /\ length (g_pipes g) = 2%nat /\
      Ps.passed_n (cs_input c) = 2%N /\ Ps.dropped_n (cs_input c) = 2%N /\
      Ps.dropped_bytes (cs_input c) = (2 * N.of_nat (length rec_bad))%N
  | _ => False
  end.
Proof. exact example_lemma. Qed.
Print Assumptions C07_example.

(* Non-vacuity for the shape of config_sample.yml - a fluentdForward AND a datadog output (json.Marshal as an oracle):
   the configuration satisfies config_ok and the first example record is delivered to both outputs. *)
Theorem C07_example_two_outputs :
  config_ok O ex_cfg2 /\
  match process_record O ex_cfg2 g_init (new_conn ex_cfg2) (1600000000, 0)%Z 0%Z rec_good1 with
  | Ok (_, _, RPassed 0 [s1; s2] _) =>
      s1 <> [] /\
      (* level=notice; time=2020-01-02T03:04:05Z; source=src; log=hello REDACTED; timestamp=1577934245000; ddtags=t.appB *)
      s2 = toy_json [(n_level, [110;111;116;105;99;101]%N);
                     (n_time, [50;48;50;48;45;48;49;45;48;50;84;48;51;58;48;52;58;48;53;90]%N);
                     (n_source, [115;114;99]%N);
                     (n_log, [104;101;108;108;111;32;82;69;68;65;67;84;69;68]%N);
                     (b_timestamp, [49;53;55;55;57;51;52;50;52;53;48;48;48]%N); (b_ddtags, [116;46;97;112;112;66]%N)]
  | _ => False
  end.
Proof. exact ex2_run. Qed.
Print Assumptions C07_example_two_outputs.

(* ================================================================================================ *)
(* Follow-up (wave-2 misses 4 and 5): the two mechanisms the totality theorems take for granted.       *)

(* 11. Record starts (recordtest.go TestRecordStart, modelled by C08's Framing.test_record_start): EVERY line that
   begins "<" 1-3 digits ">1 " and has at least 32 bytes is a record start - whatever byte follows the header (the
   "-" of a NIL timestamp, a letter, a space, 0xFF ...) and whatever comes after it. *)
Theorem C07_record_start_every_header :
  forall (ds : bytes) (c : N) (rest : bytes),
  (1 <= length ds <= 3)%nat -> Forall (fun d => is_digit d = true) ds ->
  (32 <= length (60%N :: ds ++ 62%N :: 49%N :: 32%N :: c :: rest))%nat ->
  F.trs (60%N :: ds ++ 62%N :: 49%N :: 32%N :: c :: rest) = true.
Proof. exact header_any_byte_is_start. Qed.
Print Assumptions C07_record_start_every_header.

(* 12. Every record SENT is accounted for.  [sent_line b l]: l has the header shape above, no newline, at most b bytes
   - a statement about what the client sends, not about the reader's predicate.  A connection whose text consists of
   such lines (any fragmentation, any read timing): the parser is handed exactly these lines, in order and unaltered
   (none glued onto its neighbour, none lost); one result per line; exactly the malformed ones are rejected; the input
   counters of the connection add up to the number of lines: delivered or counted as dropped, nothing vanishes. *)
Theorem C07_every_sent_record_accounted :
  forall (O : T.oracles) cfg g now clk b (ls : list bytes) evs,
  config_ok O cfg -> ginv O cfg g ->
  (1 <= record_limit cfg)%nat ->
  (2 * b + 1 + record_limit cfg <= Nat.max (c_linebuf cfg) (record_limit cfg * 3))%nat ->
  Forall (sent_line b) ls ->
  FramingSpec.ops_text (F.conn_ops evs) = FramingSpec.unlines ls ->
  conn_records cfg evs = Ok ls /\
  exists g' c rs,
    conn_run O cfg g now clk evs = Ok (g', c, rs) /\
    ginv O cfg g' /\
    length rs = length ls /\
    map is_drop_parse rs = map (malformed cfg) ls /\
    (Ps.passed_n (cs_input c) + Ps.dropped_n (cs_input c) = N.of_nat (length ls))%N /\
    (N.of_nat (length (filter (malformed cfg) ls)) <= Ps.dropped_n (cs_input c))%N.
Proof. exact every_sent_record_accounted. Qed.
Print Assumptions C07_every_sent_record_accounted.

(* 13. The variant of TestRecordStart that additionally wants a digit after "<PRI>1 " (Model/PipelineVariants.v) does
   NOT have this property: the NIL-timestamp record rec_good2 is a [sent_line]; the real reader delivers
   good, NIL, good as three records and the NIL record alone as one; the variant glues the NIL record onto the
   well-formed record before it and loses it altogether when it is alone on the connection. *)
Theorem C07_record_start_digit_variant_refuted :
  sent_line 96 rec_good2 /\
  F.trs rec_good2 = true /\ trs_digit rec_good2 = false /\
  conn_records_with F.trs (ex_cfg true true) [F.EvData (FramingSpec.unlines [rec_good1; rec_good2; rec_good1]) false; F.EvClose]
  = Ok [rec_good1; rec_good2; rec_good1] /\
  conn_records_with F.trs (ex_cfg true true) [F.EvData (FramingSpec.unlines [rec_good2]) false; F.EvClose] = Ok [rec_good2] /\
  conn_records_with trs_digit (ex_cfg true true) [F.EvData (FramingSpec.unlines [rec_good1; rec_good2; rec_good1]) false; F.EvClose]
  = Ok [rec_good1 ++ F.NL :: rec_good2; rec_good1] /\
  conn_records_with trs_digit (ex_cfg true true) [F.EvData (FramingSpec.unlines [rec_good2]) false; F.EvClose] = Ok [].
Proof. exact trs_digit_variant_refuted. Qed.
Print Assumptions C07_record_start_digit_variant_refuted.

(* 14. Label values (base.MetricLabelValues): for EVERY list of key values - any length, any bytes - each label value
   is valid UTF-8, there is one per key, valid values are handed on unchanged, and WithLabelValues does not panic. *)
Theorem C07_label_values_valid_utf8 :
  forall vs : list bytes,
  Forall Utf8Spec.valid_utf8 (metric_label_values true vs) /\
  length (metric_label_values true vs) = length vs /\
  (Forall Utf8Spec.valid_utf8 vs -> metric_label_values true vs = vs) /\
  with_label_values (metric_label_values true vs) = Ok tt.
Proof. exact label_values_spec. Qed.
Print Assumptions C07_label_values_valid_utf8.

(* 15. The variant that cuts the cleaned value to n bytes by byte slicing is refuted for EVERY cap n >= 1: the value
   "h" x (n-1) + "ä" is valid UTF-8 and accepted as it is by the real function, but the variant's label value ends in
   the lone lead byte C3 and WithLabelValues panics.  (n = 200: a 201-byte host name.) *)
Theorem C07_label_cut_variant_refuted :
  forall n, (1 <= n)%nat ->
  Utf8.valid (straddling_value n) = true /\
  metric_label_values true [straddling_value n] = [straddling_value n] /\
  with_label_values (metric_label_values true [straddling_value n]) = Ok tt /\
  with_label_values (metric_label_values_cut n [straddling_value n]) = Panic site_label.
Proof. exact label_cut_variant_refuted. Qed.
Print Assumptions C07_label_cut_variant_refuted.

Theorem C07_label_cut_200_variant_refuted :
  Utf8.valid (straddling_value 200) = true /\ length (straddling_value 200) = 201%nat /\
  with_label_values (metric_label_values_cut 200 [straddling_value 200]) = Panic site_label.
Proof. exact label_cut_200_refuted. Qed.
Print Assumptions C07_label_cut_200_variant_refuted.

(* ================================================================================================ *)
(* Follow-up (wave-3 miss 7): the parseTime step, through the model of parseFractionNanos.            *)

(* 16. C07_pipeline_total runs C13's transform_parse_time inside [run_parse_time]; stated on its own: for EVERY byte
   string in the time field (every fraction length, every zone form, truncated, over-long ...) the transform is not a
   panic; for every record whose field array holds the key, the step returns normally and keeps the array; and the
   model of parseFractionNanos itself (a fixed nine-iteration loop, no indexing) never panics. *)
Theorem C07_parse_time_step_total :
  (forall local_off (v : bytes),
     match ParseTime.transform_parse_time local_off v with ParseTime.TpPanic _ => False | _ => True end) /\
  (forall local_off loc label cs (p : prec),
     (loc < length (T.r_fields (fst p)))%nat ->
     exists cs' p', run_parse_time local_off loc label cs p = Ok (cs', p') /\
                    length (T.r_fields (fst p')) = length (T.r_fields (fst p))) /\
  (forall frac, match ParseTime.parse_fraction_nanos frac with Panic _ => False | _ => True end).
Proof. exact (conj parse_time_value_total (conj parse_time_step_total parse_fraction_total)). Qed.
Print Assumptions C07_parse_time_step_total.

(* 17. The variant of parseFractionNanos that scales by a ten-entry table with the guard "len(digits) > len(table)"
   (Model/PipelineVariants.v): it PANICS for every fraction of exactly ten characters, and is the real function for every
   other length - the defect lives in one length class.  Witness through the whole transform and the whole pipeline:
   "2019-08-15T15:50:49.1234567891+03:00" is parsed by the real transform (record delivered) and is an index-out-of-range
   panic in the variant; nine and eleven digits pass in the variant. *)
Theorem C07_fraction_table_variant_refuted :
  (forall c ds, length ds = 10%nat -> parse_fraction_nanos_table (c :: ds) = Panic site_frac_table) /\
  (forall c ds, length ds <> 10%nat -> parse_fraction_nanos_table (c :: ds) = ParseTime.parse_fraction_nanos (c :: ds)) /\
  (forall off t, parse_rfc3339_with ParseTime.parse_fraction_nanos off t = ParseTime.parse_rfc3339 off t) /\
  ParseTime.transform_parse_time 0 (ts_with_fraction ten_digits) = ParseTime.TpSet 1565873449 123456789 /\
  match process_record O (ex_cfg true true) g_init (new_conn (ex_cfg true true)) (1600000000, 0)%Z 0%Z rec_ten_digit_fraction with
  | Ok (_, _, RPassed 0 [s] _) => s <> []
  | _ => False
  end /\
  transform_parse_time_with parse_fraction_nanos_table 0 (ts_with_fraction ten_digits) = ParseTime.TpPanic site_frac_table /\
  transform_parse_time_with parse_fraction_nanos_table 0 (ts_with_fraction (firstn 9 ten_digits)) = ParseTime.TpSet 1565873449 123456789 /\
  transform_parse_time_with parse_fraction_nanos_table 0 (ts_with_fraction (ten_digits ++ [50]%N)) = ParseTime.TpSet 1565873449 123456789.
Proof.
  exact (conj table_variant_panics_at_10 (conj table_variant_agrees_elsewhere (conj parse_rfc3339_with_real fraction_table_variant_refuted))).
Qed.
Print Assumptions C07_fraction_table_variant_refuted.

(* ---- wave-4 follow-up: the POOLED LogRecord (Model/PipelinePool.v, Proofs/PipelinePoolProofs.v) ---- *)

(* 18. syslogParser.Parse overwrites every field and flag of the LogRecord object the allocator hands it: whatever the
   object carried from its previous use (any field content, any RawLength, Unescaped set by a multi-line record or by the
   unescape transform), the record after Parse is the parser's result and nothing else. *)
Theorem C07_recycled_record_overwritten :
  forall (cell r : Ps.record), PipelinePool.write_record PipelinePool.FlagAssign cell r = r.
Proof. exact PipelinePoolProofs.write_record_assign. Qed.
Print Assumptions C07_recycled_record_overwritten.

(* 19. neighbour independence through the pool.  For every configuration, every sequence of byte strings, every state,
   EVERY initial content of the allocator's pool (objects with arbitrary fields and flags), and EVERY schedule (which
   pooled object sync.Pool.Get returns for each record, or a new one; whether the transforms set record.Unescaped before
   the release): the pipeline that writes each record into a recycled object returns exactly what the pipeline with a
   brand-new record each time returns - states, results, every delivered byte.  No hypothesis on the configuration: it is
   an equality of runs, so it also transports panics; with config_ok the pooled run is total and keeps the invariants. *)
Theorem C07_pooled_neighbour_independent :
  (forall (O : T.oracles) cfg inputs g c (p : PipelinePool.pool) now clk (sch : list PipelinePool.sched_item),
     PipelinePool.drop_pool (PipelinePool.process_records_pooled O PipelinePool.FlagAssign cfg g c p now clk sch inputs) =
     process_records O cfg g c now clk inputs) /\
  (forall (O : T.oracles) cfg inputs g c p now clk sch i,
     PipelinePool.delivered (PipelinePool.drop_pool (PipelinePool.process_records_pooled O PipelinePool.FlagAssign cfg g c p now clk sch inputs)) i =
     PipelinePool.delivered (process_records O cfg g c now clk inputs) i) /\
  (forall (O : T.oracles) cfg (inputs : list bytes) g c p now clk sch,
     config_ok O cfg -> ginv O cfg g -> cinv O cfg g c ->
     exists g' c' p' rs,
       PipelinePool.process_records_pooled O PipelinePool.FlagAssign cfg g c p now clk sch inputs = Ok (g', c', p', rs) /\
       process_records O cfg g c now clk inputs = Ok (g', c', rs) /\
       ginv O cfg g' /\ cinv O cfg g' c' /\ length rs = length inputs).
Proof.
  exact (conj PipelinePoolProofs.process_records_pooled_independent
        (conj PipelinePoolProofs.delivered_pooled PipelinePoolProofs.process_records_pooled_total)).
Qed.
Print Assumptions C07_pooled_neighbour_independent.

(* 20. The seeded variant "if the message holds a newline { record.Unescaped = true }" (FlagSetOnly: a variant, not the
   code): for EVERY object and result the flag of the previous use survives (first conjunct); witness on ex_cfg
   (fluentd output with the unescape rewrite of "log"): the multi-line record "... - first LF second", then
   "... - boom\n\tat Foo" written into the SAME object (schedule Some 0) is delivered - one event - with other bytes than
   alone; with a new object for the second record (what single-record tests exercise) there is no difference; the flag
   may also come from a transform of an earlier single-line record; the code (FlagAssign) delivers it as alone. *)
Theorem C07_flag_set_only_variant_refuted :
  (forall cell r, PipelinePool.write_record PipelinePool.FlagSetOnly cell r =
                  PipelinePool.set_flag r (Ps.unescaped r || Ps.unescaped cell)) /\
  PipelinePoolProofs.streams_eqb
    (PipelinePool.delivered (PipelinePoolProofs.pool_run PipelinePool.FlagSetOnly [] [(None, false); (Some 0%nat, false)]
                               [PipelinePoolProofs.rec_multi; PipelinePoolProofs.rec_escaped]) 1)
    (PipelinePool.delivered (PipelinePoolProofs.alone_run PipelinePoolProofs.rec_escaped) 0) = false /\
  PipelinePoolProofs.streams_eqb
    (PipelinePool.delivered (PipelinePoolProofs.pool_run PipelinePool.FlagAssign [] [(None, false); (Some 0%nat, false)]
                               [PipelinePoolProofs.rec_multi; PipelinePoolProofs.rec_escaped]) 1)
    (PipelinePool.delivered (PipelinePoolProofs.alone_run PipelinePoolProofs.rec_escaped) 0) = true /\
  length (PipelinePool.delivered (PipelinePoolProofs.alone_run PipelinePoolProofs.rec_escaped) 0) = 1%nat.
Proof.
  split; [exact PipelinePoolProofs.write_record_set_only|].
  destruct PipelinePoolProofs.flag_set_only_variant_refuted as (H1 & _ & _ & _ & _ & H6 & H7).
  exact (conj H1 (conj H6 H7)).
Qed.
Print Assumptions C07_flag_set_only_variant_refuted.
