(* C02 — the upstream client confirms a chunk only after its ACK and never loses one.
   Only the property theorems; each is closed by [exact] of a lemma from Proofs/.

   Vocabulary (Model/Client.v, Spec/ClientSpec.v): a run is a list of events (oldest first) accepted by
   [step] from [init]: [reach_by P tr s] := run P init tr = Some s.  It contains every atomic action of the
   client's goroutines (main, acknowledger, opener, abort-on-stop) and of its environment; the environment
   events carry the outcome of every connect / send / ping / ack read and the moments of stop, close of the
   input channel and SIGUSR1; timers fire at any time.  All theorems quantify over ALL event lists:
   every interleaving, every fault script, any length, any channel capacity.
   [params] = channel capacity, max session age on/off, and [p_fix]: true = the code as it is now (an ACK with an
   unknown id ends the session like a failed ACK read), false = the original code ('continue'; kept only for
   C02_original_unknown_ack_stuck_refuted).  The safety theorems hold for both; the correspondence check runs
   the model with p_fix = true. *)
From SV Require Import Model.Common Model.Client Model.ClientAccept Spec.ClientSpec
     Proofs.ClientBase Proofs.ClientSafety Proofs.ClientHistory Proofs.ClientOrder Proofs.ClientTheorems
     Proofs.ClientAcceptProofs Proofs.ClientLiveness Proofs.ClientCorollaries Proofs.ClientFixed Proofs.ClientRecover
     Model.AckParse Proofs.AckParseProofs Model.Datadog Proofs.DatadogProofs.
From Coq Require Import Permutation.

(* 1. Whenever a chunk is reported delivered, the run contains before that a completed SendChunk of this chunk
      on some connection k and a successful ReadChunkAck on the same k that designates it: by its id, or by the
      empty id while it is the chunk most recently passed to the acknowledger. *)
Theorem C02_confirm_after_ack :
  forall (P : params) (pre : list event) (c : chunk) (post : list event) (s : state),
  run P init (pre ++ EConsumed c :: post) = Some s ->
  exists k, In (ESendRet k c ROk) pre /\ designated pre k c.
Proof. exact confirm_after_ack_lemma. Qed.
Print Assumptions C02_confirm_after_ack.

(* 2. With pairwise distinct ids in the input and inside the connection contract ("Close makes pending
      operations return", callbacks return: the 'BUG: timeout waiting for acknowledger' branch is not taken),
      at EVERY state of every run the chunks taken from the queue are exactly - as multisets, so each once -
      the delivered ones, the handed-back ones and the client's holdings (leftovers + lastChunk + ackerChan +
      pending map); once OnFinished was called the client holds nothing. *)
Theorem C02_resolved_exactly_once :
  forall (P : params) (tr : list event) (s : state),
  reach_by P tr s -> in_contract tr -> distinct_input tr ->
  Permutation (taken_of tr) (consumed_of tr ++ handed_of tr ++ holdings s) /\
  (finished_in tr = true -> holdings s = []).
Proof. exact resolved_lemma. Qed.
Print Assumptions C02_resolved_exactly_once.

Theorem C02_resolved_at_finish :
  forall (P : params) (tr : list event) (s : state),
  reach_by P tr s -> in_contract tr -> distinct_input tr -> finished_in tr = true ->
  Permutation (taken_of tr) (consumed_of tr ++ handed_of tr) /\ NoDup (consumed_of tr ++ handed_of tr).
Proof. exact resolved_exactly_once_at_end. Qed.
Print Assumptions C02_resolved_at_finish.

(* 2b. The contract hypothesis is needed: outside it (an ack read that ignores Close and its deadline) the code
       has a branch that loses the pending map: a finished run with a taken chunk neither delivered nor handed back. *)
Theorem C02_acker_stuck_refuted :
  exists tr s, reach_by P0 tr s /\ distinct_input tr /\ finished_in tr = true /\
               exists c, In c (taken_of tr) /\ ~ In c (consumed_of tr) /\ ~ In c (handed_of tr).
Proof. exact acker_stuck_lemma. Qed.
Print Assumptions C02_acker_stuck_refuted.

(* 2c. The distinct-ids hypothesis is needed: two chunks with one id, one of them disappears (inside the contract). *)
Theorem C02_duplicate_ids_refuted :
  exists tr s, reach_by P0 tr s /\ in_contract tr /\ finished_in tr = true /\
               ~ Permutation (taken_of tr) (consumed_of tr ++ handed_of tr).
Proof. exact dup_id_lemma. Qed.
Print Assumptions C02_duplicate_ids_refuted.

(* 3. Order of transmissions.  For every session (connection k, with the leftovers L it was started with):
      L is strictly increasing by id (oldest first); the completed transmissions on k are a prefix of L followed -
      only if all of L was transmitted - by chunks taken from the queue, consecutive and in queue order. *)
Theorem C02_resend_order :
  forall (P : params) (tr : list event) (s : state) (k : nat) (L : list chunk),
  reach_by P tr s -> In (k, L) (h_los s) ->
  strictly_increasing L /\
  exists m news a b, sent_on k tr = firstn m L ++ news /\ (news <> [] -> firstn m L = L) /\
                     taken_of tr = a ++ news ++ b.
Proof. exact resend_order_lemma. Qed.
Print Assumptions C02_resend_order.

(* 3b. ... and the leftovers a session starts with contain everything unacknowledged: when a session starts,
       every chunk taken so far and not reported delivered is in its leftovers (contract, distinct ids). *)
Theorem C02_leftovers_complete :
  forall (P : params) (pre : list event) (s : state) (ss : sess),
  reach_by P (pre ++ [EMainConn]) s -> in_contract pre -> distinct_input pre -> cur s = Some ss ->
  In (s_id ss, lo s) (h_los s) /\
  forall c, In c (taken_of pre) -> In c (consumed_of pre) \/ In c (lo s).
Proof. exact leftovers_complete_lemma. Qed.
Print Assumptions C02_leftovers_complete.

(* 3c. (towards "no crash") sendChunk never sends on a closed ackerChan: while main is at the select of sendChunk the
       channel has not been closed and ackerAbort has not been signalled - collectLeftovers runs once per session. *)
Theorem C02_no_send_on_closed_channel :
  forall (P : params) (s : state) (f : from) (c : chunk) (ss : sess),
  reach P s -> pc s = MEnqueue f c -> cur s = Some ss -> s_aclosed ss = false /\ s_abort ss = false.
Proof. exact no_send_on_closed_lemma. Qed.
Print Assumptions C02_no_send_on_closed_channel.

(* 3d. close(ackerChan), ackerAbort.Signal() and ackerEnded.Signal() happen at most once per session (a second close
       would panic): in every reachable state in which the step executing one of them is enabled - main not yet in
       collectLeftovers, main leaving the soft wait, the acknowledger not yet returned - it has not been executed. *)
Theorem C02_signals_once :
  forall (P : params) (s : state) (ss : sess),
  reach P s -> cur s = Some ss ->
  (collecting (pc s) = false -> s_aclosed ss = false /\ s_abort ss = false) /\
  (hard_collecting (pc s) = false -> s_abort ss = false) /\
  (s_apc ss <> AEnded -> s_ended ss = false).
Proof. exact signals_once_lemma. Qed.
Print Assumptions C02_signals_once.

(* 4. Progress, PARTIAL.  From any state at a session boundary (run() about to open a connection) without a stop
      request, the healthy continuation - connect ok, every send ok, every ack read returning the id of the chunk
      just sent - of length 5 + 6 * (leftovers + queued) gets every leftover (oldest first) and every queued chunk
      reported delivered and leaves the client holding nothing.
      MISSING for the full liveness statement of the property: this is one continuation from a session boundary;
      4a/4b extend it to every reachable state, inevitability under fairness is not modelled (see 4a). *)
Theorem C02_progress_partial :
  forall (P : params) (s : state),
  (1 <= p_cap P)%nat -> pc s = MStart -> stop_sig s = false ->
  exists s', run P s (healthy (S (nconn s)) (lo s) (inq s)) = Some s' /\
             h_consumed s' = rev (inq s) ++ rev (lo s) ++ h_consumed s /\
             h_handed s' = h_handed s /\
             lo s' = [] /\ inq s' = [] /\ last s' = None /\
             (exists ss, cur s' = Some ss /\ sess_holdings ss = []).
Proof. exact progress_lemma. Qed.
Print Assumptions C02_progress_partial.

Theorem C02_progress_length :
  forall k L Q, length (healthy k L Q) = (5 + 6 * (length L + length Q))%nat.
Proof. exact healthy_length. Qed.
Print Assumptions C02_progress_length.

(* 4a. Progress from ANYWHERE, PARTIAL - for the repaired code, WITH OR WITHOUT a max session age (the hypothesis
       p_maxage P = true of the previous version is gone).  From every reachable state of a client that was not asked
       to stop (inside the contract, distinct ids) there EXISTS a continuation in which it keeps running and the
       upstream behaves - no stop / close of the input / SIGUSR1 / new chunk, every connect succeeds, every ack read
       returns an id, and a send, ping or ack read fails only on a connection whose Close() the client itself has
       already executed ([healthy_from], relative to the connections closed in the run so far) - after which every
       chunk ever taken from the queue, also one whose ACK arrived with an unknown id, has been reported delivered
       exactly once, nothing is held or handed back and the queue is empty.  The continuation is built by a scheduler
       with a lexicographic measure (main's distance to the session boundary / to an idle, drained acknowledger; the
       acknowledger's backlog; the Close calls still pending), then C02_progress_partial or the rest of the queue.
       MISSING, exactly: that EVERY fair continuation does so.  The model has no scheduler fairness and no real time
       (timers are always-enabled events), so "eventually" can only be stated as existence (here) and as
       non-existence of a trap state (4b); "oldest first" is C02_resend_order + C02_progress_partial. *)
Theorem C02_progress_anywhere_partial :
  forall (P : params) (tr0 : list event) (s : state),
  (1 <= p_cap P)%nat -> p_fix P = true ->
  reach_by P tr0 s -> in_contract tr0 -> distinct_input tr0 -> stop_sig s = false -> in_closed s = false ->
  exists tr s', run P s tr = Some s' /\ healthy_from (closes_of tr0) tr = true /\
                holdings s' = [] /\ inq s' = [] /\
                Permutation (taken_of (tr0 ++ tr)) (consumed_of (tr0 ++ tr)) /\ handed_of (tr0 ++ tr) = [].
Proof. exact recoverable_lemma. Qed.
Print Assumptions C02_progress_anywhere_partial.

(* 4b. No trap state (the negation of the liveness gap of the original code, 4d): whatever a running client and a
       behaving upstream do - ANY healthy continuation tr1, of any length - the state reached still has a healthy
       completion that gets every chunk ever taken reported delivered. *)
Theorem C02_no_stuck_state :
  forall (P : params) (tr0 : list event) (s : state) (tr1 : list event) (s1 : state),
  (1 <= p_cap P)%nat -> p_fix P = true ->
  reach_by P tr0 s -> in_contract tr0 -> distinct_input tr0 -> stop_sig s = false -> in_closed s = false ->
  healthy_from (closes_of tr0) tr1 = true -> run P s tr1 = Some s1 ->
  exists tr2 s2, run P s1 tr2 = Some s2 /\ healthy_from (closes_of (tr0 ++ tr1)) tr2 = true /\
                 holdings s2 = [] /\ inq s2 = [] /\
                 Permutation (taken_of (tr0 ++ tr1 ++ tr2)) (consumed_of (tr0 ++ tr1 ++ tr2)) /\
                 handed_of (tr0 ++ tr1 ++ tr2) = [].
Proof. exact never_stuck_lemma. Qed.
Print Assumptions C02_no_stuck_state.

(* 4c. The repair itself.  After a successful ack read that carries an id which is not in the pending map, the
       acknowledger has ended (deferred snapshot of the pending map stored in session.unacked, ackerEnded signalled),
       Close of that connection is requested (pending or already executed); and whatever happens next inside the
       contract - every interleaving, every environment - up to the collectLeftovers that ends this session, no
       further ACK is read and nothing is confirmed, and that collectLeftovers ends the session with every chunk of
       the pending map in the leftovers handed to the next session (or to the leftover callback at stop). *)
Theorem C02_unknown_ack_ends_session :
  forall (P : params) (tr : list event) (s : state) (ss : sess) (k : nat) (i : chunk) (s1 : state),
  p_fix P = true -> reach_by P tr s -> cur s = Some ss -> ~ In i (s_pending ss) ->
  step P s (EAckRet k (AId i)) = Some s1 ->
  (exists ss1, cur s1 = Some ss1 /\ s_id ss1 = k /\ s_apc ss1 = AEnded /\ s_ended ss1 = true /\
               s_unacked ss1 = Some (s_pending ss) /\ s_creq ss1 = true /\
               (In k (close_pend s1) \/ In (EClose k) tr)) /\
  forall tr2 s2, run P s1 (tr2 ++ [ECollected]) = Some s2 -> ~ In ECollected tr2 -> in_contract tr2 ->
    cur s2 = None /\ (forall c, In c (s_pending ss) -> In c (lo s2)) /\
    (forall c, ~ In (EConsumed c) tr2) /\ (forall j a, ~ In (EAckRet j a) tr2).
Proof. exact unknown_ack_ends_session_lemma. Qed.
Print Assumptions C02_unknown_ack_ends_session.

(* 4c'. In the repaired code the pending map holds exactly the chunk the acknowledger is waiting an ACK for. *)
Theorem C02_pending_is_next_chunk :
  forall (P : params) (s : state),
  p_fix P = true -> reach P s -> forall ss : sess, cur s = Some ss ->
  match s_apc ss with
  | AIdle => s_pending ss = []
  | AReading c | AAcked c => s_pending ss = [c]
  | AEnded => True
  end.
Proof. exact pend_shape_reach. Qed.
Print Assumptions C02_pending_is_next_chunk.

(* 4d. Why the repair was needed (finding C02-wrong-id-ack-stuck, fixed): the ORIGINAL code (p_fix = false) went back
       to waiting for the NEXT chunk after an ACK carrying an unknown id, without having removed the chunk it was
       waiting for.  Without a max session age there is a reachable state from which NO continuation in which the
       client keeps running and the upstream behaves (no stop, no failure, no reconnect request; new chunks may
       arrive and are acknowledged) ever confirms that chunk or transmits it again. *)
Theorem C02_original_unknown_ack_stuck_refuted :
  forall P : params, (1 <= p_cap P)%nat -> p_maxage P = false -> p_fix P = false ->
  exists tr0 s c, reach_by P tr0 s /\ In c (taken_of tr0) /\ ~ In c (consumed_of tr0) /\
    forall tr s', Forall (healthy_ev c) tr -> run P s tr = Some s' ->
                  ~ In (EConsumed c) tr /\ (forall k r, ~ In (ESendRet k c r) tr) /\ In c (holdings s').
Proof. exact liveness_gap_lemma. Qed.
Print Assumptions C02_original_unknown_ack_stuck_refuted.

(* 5. Soundness of the trace acceptor used by the correspondence check: an accepted list of observations is the
      observable projection of a run of the LTS (inside the contract when the search was restricted to it), and
      the projection printed is the one of the state that run ends in. *)
Theorem C02_accept_sound :
  forall (P : params) (bug : bool) (os : list event) (out : bytes),
  Forall (fun e => is_obs e = true) os ->
  accept_out P bug os = str_accept ++ colon :: out ->
  exists tr s, run P init tr = Some s /\ obs_of tr = os /\ (bug = false -> in_contract tr) /\ render_proj s = out.
Proof. exact accept_sound_lemma. Qed.
Print Assumptions C02_accept_sound.

(* 5b. Hence every accepted trace of the real client satisfies, on its observable events alone: a confirmation is
       preceded by a completed transmission of that chunk and a successful ack read on the same connection; with
       distinct ids and the client finished the chunks taken are exactly the confirmed and handed-back ones, each once. *)
Theorem C02_accepted_trace_safe :
  forall (P : params) (os : list event) (out : bytes),
  Forall (fun e => is_obs e = true) os ->
  accept_out P false os = str_accept ++ colon :: out ->
  (forall o1 c o2, os = o1 ++ EConsumed c :: o2 ->
     exists k a, In (ESendRet k c ROk) o1 /\ In (EAckRet k a) o1 /\ (a = AId c \/ a = AEmpty)) /\
  exists s, render_proj s = out /\
    (NoDup (offered_of os) -> finished_in os = true ->
     Permutation (rev (h_taken s)) (consumed_of os ++ handed_of os) /\ NoDup (consumed_of os ++ handed_of os)).
Proof. exact accepted_trace_lemma. Qed.
Print Assumptions C02_accepted_trace_safe.

(* 6. (widening: the fluentdforward wrapper) The acknowledgement a Fluentd sends for chunk id, the msgpack map
      {"ack": id} with the shortest string header, is read back by the model of ReadChunkAck (vmihailenco struct
      decoding of forwardprotocol.Ack) as exactly that id, whatever follows on the connection; ids up to 2^32-1 bytes.
      (Responses without an "ack" field - {}, nil, another key - are read as the EMPTY id, i.e. as an ACK of the chunk
      the acknowledger is waiting for: Examples ack_empty_map / ack_nil / ack_other_key in Proofs/AckParseProofs.v.) *)
Theorem C02_ack_roundtrip :
  forall (id rest : bytes),
  (N.of_nat (length id) < 4294967296)%N -> parse_ack (encode_ack id ++ rest) = PAck id rest.
Proof. exact ack_roundtrip_lemma. Qed.
Print Assumptions C02_ack_roundtrip.

(* 7. (widening: the datadog wrapper, output/datadog/clientworker.go)  For the Datadog output the HTTP response to the
      POST carrying a chunk IS the acknowledgement (ReadChunkAck returns "" at once).  Model/Datadog.v: SendChunk as a
      decision function on what http.Client.Do handed over (no response / a final response with its status).
   7a. The decision: SendChunk reports success exactly for a response with a 2xx status - for EVERY integer status
       (1xx, 3xx with or without Location - redirects are not followed -, 4xx, 5xx, anything else: error). *)
Theorem C02_datadog_send_ok_iff_2xx :
  forall r : dd_resp, dd_send_chunk r = ROk <-> exists st, r = DDResp st /\ (200 <= st < 300)%Z.
Proof. exact dd_send_ok_iff_2xx. Qed.
Print Assumptions C02_datadog_send_ok_iff_2xx.

(* 7b. Tied to the client LTS (theorem 1 with ack := the HTTP response): in EVERY run of the client whose connection
       is the Datadog connection answering by the exchanges xs (the i-th SendChunk that returned carried the chunk of
       the i-th exchange and returned the model's decision on its response; everything else - interleaving, connects,
       stop, reconnects, capacity - arbitrary), before each confirmation of a chunk c there is an exchange, among
       those completed before it, in which a POST carrying c was answered with a 2xx status. *)
Theorem C02_datadog_confirm_only_2xx :
  forall (P : params) (xs : list dd_exchange) (pre : list event) (c : chunk) (post : list event) (s : state),
  run P init (pre ++ EConsumed c :: post) = Some s ->
  dd_history dd_send_chunk xs (pre ++ EConsumed c :: post) ->
  exists st, In (c, DDResp st) (firstn (length (sendrets pre)) xs) /\ (200 <= st < 300)%Z.
Proof. exact dd_confirm_only_2xx_lemma. Qed.
Print Assumptions C02_datadog_confirm_only_2xx.

(* 7c. The theorem depends on the decision function: with the switch of the seeded change (5xx and 4xx are errors,
       everything else returns nil) there is a run in which a chunk answered only 307 is confirmed ... *)
Theorem C02_datadog_switch_variant_refuted :
  exists (xs : list dd_exchange) (tr : list event) (s : state) (c : chunk),
    run (mkParams 2 false true) init tr = Some s /\ dd_history dd_send_chunk_switch xs tr /\
    In (EConsumed c) tr /\ forall st, In (c, DDResp st) xs -> ~ (200 <= st < 300)%Z.
Proof. exact dd_switch_variant_lemma. Qed.
Print Assumptions C02_datadog_switch_variant_refuted.

(* 7d. ... and with the single check 'StatusCode >= 300' of the code before the fix a chunk answered 101 is
       (finding C02-datadog-non-2xx-confirmed, fixed). *)
Theorem C02_datadog_ge300_variant_refuted :
  exists (xs : list dd_exchange) (tr : list event) (s : state) (c : chunk),
    run (mkParams 2 false true) init tr = Some s /\ dd_history dd_send_chunk_ge300 xs tr /\
    In (EConsumed c) tr /\ forall st, In (c, DDResp st) xs -> ~ (200 <= st < 300)%Z.
Proof. exact dd_ge300_variant_lemma. Qed.
Print Assumptions C02_datadog_ge300_variant_refuted.

(* 7e. The correspondence case of kind 6: the observed trace of the real client with the result of every SendChunk
       REPLACED by the model's decision on the response the fake intake gave (dd_apply); if the trace acceptor of the
       LTS accepts that, every confirmation in it comes after a POST of that very chunk answered 2xx. *)
Theorem C02_datadog_accepted_case_safe :
  forall (P : params) (xs : list dd_exchange) (os os' : list event) (out : bytes),
  dd_apply dd_send_chunk xs os = Some os' ->
  Forall (fun e => is_obs e = true) os' ->
  accept_out P false os' = str_accept ++ colon :: out ->
  forall o1 c o2, os' = o1 ++ EConsumed c :: o2 -> exists st, In (c, DDResp st) xs /\ (200 <= st < 300)%Z.
Proof. exact dd_accepted_case_lemma. Qed.
Print Assumptions C02_datadog_accepted_case_safe.

(* 7f. non-vacuity of 7b and the decisions on the boundary classes *)
Theorem C02_datadog_example :
  exists s, run (mkParams 2 false true) init dd_good_run = Some s /\
            dd_history dd_send_chunk [(1%N, DDResp 307)] dd_good_run /\
            dd_send_chunk (DDResp 202) = ROk /\ dd_send_chunk (DDResp 307) = RErr /\
            dd_send_chunk (DDResp 101) = RErr /\ dd_send_chunk DDNoResp = RErr.
Proof. exact dd_example_lemma. Qed.
Print Assumptions C02_datadog_example.

(* Non-vacuity: a concrete run with a failed send, a reconnect, a retransmission in id order, an id ACK and an
   empty-id ACK satisfies every hypothesis used above. *)
Theorem C02_example :
  exists s, reach_by (mkParams 2 false true) example_run s /\ in_contract example_run /\ distinct_input example_run /\
            finished_in example_run = true /\
            taken_of example_run = [1; 2]%N /\ consumed_of example_run = [1; 2]%N /\ handed_of example_run = [] /\
            sent_on 1 example_run = [1%N] /\ sent_on 2 example_run = [1; 2]%N /\
            h_los s = [(2%nat, [1; 2]%N); (1%nat, [])].
Proof. exact example_lemma. Qed.
Print Assumptions C02_example.
