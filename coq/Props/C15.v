(* C15 — Transforms and matchers behave as documented for all values.
   Only the property theorems; each is closed by [exact] of a lemma from Proofs/.
   Model: Model/Transforms.v (+ Template, Extractor, TfUtf8, TfUnescape); reference definitions:
   Spec/TransformsSpec.v, Spec/TfUtf8Spec.v, Spec/TfUnescapeSpec.v.  Go's regexp / glob are the
   universally quantified parameter [O : oracles]. *)
From SV Require Import Model.Common Model.TfUtf8 Model.TfUtf8Dec Model.TfUnescape Model.Template Model.Extractor
     Model.TinyRegex Model.Transforms
     Spec.TfUtf8Spec Spec.TfUtf8DecSpec Spec.TfUnescapeSpec Spec.TransformsSpec
     Proofs.TfUtf8Proofs Proofs.TfUtf8DecProofs Proofs.TruncateRunes Proofs.TfUnescapeProofs Proofs.TemplateProofs Proofs.TfStringFacts
     Proofs.ExtractorProofs Proofs.PatternProofs Proofs.TransformsProofs Proofs.LoadProofs.
From Coq Require Import Permutation.
Open Scope N_scope.

(* ---- templates ---- *)

(* ${f[a:b]} is Python's f[a:b] for all optional bounds and every value (a string longer than
   MaxInt32 bytes would be cut by the default end bound, hence the hypothesis). *)
Theorem C15_slice_python : forall (v : bytes) (a b : option Z),
  (Z.of_nat (length v) <= max_int32)%Z ->
  solve_slice v (start_param a) (end_param b) = Ok (py_slice v a b).
Proof. exact slice_python_lemma. Qed.
Print Assumptions C15_slice_python.

(* NewExpander reads a template written in the documented syntax (literals, $name, ${name},
   ${name[a:b]}) back as exactly those parts ... *)
Theorem C15_template_compiles : forall schema (l : list item) ps, items_ok l ->
  all_some (map (item_part schema) l) = Some ps ->
  new_expander schema (render_items l) = Ok ps.
Proof. exact new_expander_render. Qed.
Print Assumptions C15_template_compiles.

(* ... and expanding them concatenates the literals, the fields and the Python slices. *)
Theorem C15_template_value : forall schema fields (l : list item) ps vs, fields_fit fields ->
  all_some (map (item_part schema) l) = Some ps ->
  all_some (map (item_value schema fields) l) = Some vs ->
  expand fields ps = Ok (concat vs).
Proof. exact expand_items. Qed.
Print Assumptions C15_template_value.

(* ---- truncate ---- *)

(* unchanged up to maxLen+len(suffix); beyond: p ++ suffix with |p| <= maxLen, p = an untouched
   prefix up to its last ASCII byte followed by a well-formed non-ASCII run (never a broken rune
   before the suffix); on valid UTF-8 input p is THE longest well-formed prefix of at most maxLen bytes
   (a prefix cut at a rune boundary, at most 3 bytes short) *)
Theorem C15_truncate_spec : forall loc maxlen suffix r, (0 < maxlen)%Z ->
  let v := getf r loc in
  ((Z.of_nat (length v) <= maxlen + Z.of_nat (length suffix))%Z -> run_truncate loc maxlen suffix r = Ok r) /\
  ((Z.of_nat (length v) > maxlen + Z.of_nat (length suffix))%Z ->
   exists p, run_truncate loc maxlen suffix r = Ok (set_field r loc (p ++ suffix)) /\
     (Z.of_nat (length p) <= maxlen)%Z /\
     (exists head tail, p = head ++ tail /\ is_prefix_of head v /\ valid_utf8 tail /\
                        Forall (fun b => 128 <= b) tail /\ (head = [] \/ exists h b, head = h ++ [b] /\ b <= 127)) /\
     (valid_utf8 v -> is_prefix_of p v /\ valid_utf8 p /\ (maxlen - 3 <= Z.of_nat (length p))%Z /\
        forall q, is_prefix_of q v -> valid_utf8 q -> (Z.of_nat (length q) <= maxlen)%Z -> (length q <= length p)%nat)).
Proof. exact truncate_spec_lemma. Qed.
Print Assumptions C15_truncate_spec.

(* strings.ToValidUTF8(s, "") as modelled: always well-formed output, identity on well-formed input *)
Theorem C15_to_valid_utf8 : forall s, valid_utf8 (to_valid_utf8 s) /\ (valid_utf8 s -> to_valid_utf8 s = s).
Proof. exact (fun s => conj (to_valid_is_valid s) (to_valid_id s)). Qed.
Print Assumptions C15_to_valid_utf8.

(* ---- truncate / CleanUTF8: no complete rune is ever removed (follow-up: seeded change C15/6) ---- *)

(* utf8.DecodeRune as modelled with its VALUE (Model/TfUtf8Dec.v): on every well-formed sequence q (whatever
   follows) it consumes exactly q, yields a Unicode scalar value (<= U+10FFFF, no surrogate) in shortest form,
   and yields RuneError (U+FFFD) for exactly one of them, EF BF BD - so "r == RuneError" alone does not mean
   "invalid" *)
Theorem C15_decode_rune_spec : forall q t, utf8_seq q ->
  snd (decode_rune (q ++ t)) = length q /\
  scalar_value (fst (decode_rune (q ++ t))) /\ shortest_form (fst (decode_rune (q ++ t))) (length q) /\
  (fst (decode_rune (q ++ t)) = rune_error <-> q = [239; 191; 189]).
Proof.
  exact (fun q t H => conj (decode_rune_seq_size q t H)
          (conj (proj1 (decode_rune_scalar q t H)) (conj (proj2 (decode_rune_scalar q t H)) (decode_rune_error_iff q t H)))).
Qed.
Print Assumptions C15_decode_rune_spec.

(* the clean-up written as the rune loop "skip iff r == RuneError && size == 1" IS the modelled
   strings.ToValidUTF8 / CleanUTF8 that run_truncate calls, for every byte string *)
Theorem C15_clean_loop_is_to_valid : forall s,
  to_valid_by skip_go s = to_valid_utf8 s /\ clean_utf8_by skip_go s = clean_utf8 s.
Proof. exact (fun s => conj (to_valid_by_go s) (clean_utf8_by_go s)). Qed.
Print Assumptions C15_clean_loop_is_to_valid.

(* ToValidUTF8(s, "") only deletes bytes, resynchronises at every byte that cannot continue a sequence, and
   therefore keeps EVERY well-formed sequence of s, wherever it stands and whatever surrounds it *)
Theorem C15_to_valid_keeps_every_rune : forall a q b, utf8_seq q ->
  to_valid_utf8 (a ++ q ++ b) = to_valid_utf8 a ++ q ++ to_valid_utf8 b /\
  subseq (to_valid_utf8 a) a /\ subseq (to_valid_utf8 b) b.
Proof. exact (fun a q b H => conj (to_valid_keeps_rune a q b H) (conj (to_valid_subseq a) (to_valid_subseq b))). Qed.
Print Assumptions C15_to_valid_keeps_every_rune.

(* CleanUTF8: the result is s with some bytes deleted; nothing at all is deleted when the part after the last
   ASCII byte is well formed; every well-formed sequence of s is in the result between what is left of its sides *)
Theorem C15_clean_utf8_keeps_every_rune : forall s r, clean_utf8 s = Ok r ->
  subseq r s /\
  (valid_utf8 (skipn (find_last_end_of_ascii s) s) -> r = s) /\
  (forall a q b, s = a ++ q ++ b -> utf8_seq q -> exists a' b', r = a' ++ q ++ b' /\ subseq a' a /\ subseq b' b).
Proof. exact clean_utf8_keeps_all. Qed.
Print Assumptions C15_clean_utf8_keeps_every_rune.

(* the truncate transform: every well-formed sequence lying inside the first maxLen bytes is in the result at its
   place (only bytes around it can have gone); and when those maxLen bytes are well formed after their last ASCII
   byte the result is exactly these bytes ++ suffix *)
Theorem C15_truncate_keeps_runes : forall loc maxlen suffix r, (0 <= maxlen)%Z ->
  (Z.of_nat (length (getf r loc)) > maxlen + Z.of_nat (length suffix))%Z ->
  let w := firstn (Z.to_nat maxlen) (getf r loc) in
  (forall a q b, w = a ++ q ++ b -> utf8_seq q ->
     exists a' b', run_truncate loc maxlen suffix r = Ok (set_field r loc ((a' ++ q ++ b') ++ suffix)) /\
  subseq a' a /\ subseq b' b) /\
  (valid_utf8 (skipn (find_last_end_of_ascii w) w) ->
     run_truncate loc maxlen suffix r = Ok (set_field r loc (w ++ suffix))).
Proof.
  exact (fun loc maxlen suffix r Hm Hl =>
    conj (fun a q b Hw Hq => truncate_keeps_runes loc maxlen suffix r a q b Hm Hl Hw Hq)
         (truncate_valid_window loc maxlen suffix r Hm Hl)).
Qed.
Print Assumptions C15_truncate_keeps_runes.

(* the variant of the loop that tests the rune value alone (seeded change C15/6) is NOT CleanUTF8: it changes a
   valid string (a single U+FFFD) that CleanUTF8 leaves alone; and on the documented truncate shape
   "12<U+FFFD><U+4E16><U+754C>World" cut at 8 it loses the U+FFFD *)
Theorem C15_clean_rune_only_variant_refuted :
  (exists s, valid_utf8 s /\ clean_utf8 s = Ok s /\ clean_utf8_by skip_rune_only s <> Ok s) /\
  (let v := [49; 50; 239; 191; 189; 228; 184; 150; 231; 149; 140; 87; 111; 114; 108; 100] in
   clean_utf8 (firstn 8 v) = Ok [49; 50; 239; 191; 189; 228; 184; 150] /\
   clean_utf8_by skip_rune_only (firstn 8 v) = Ok [49; 50; 228; 184; 150]).
Proof. exact (conj clean_rune_only_refuted truncate_rune_only_example). Qed.
Print Assumptions C15_clean_rune_only_variant_refuted.

(* ---- extractHead / extractTail ---- *)

(* either the text has the documented shape (unique) and the result is (trimmed label, rest),
   or it has not and the result is ("", text) *)
Theorem C15_extract_head_spec : forall l r maxr t text, (0 <= maxr)%Z -> (r <> [] \/ t <> None) ->
  (exists lab rest, head_match l r maxr t text lab rest /\
                    extract_at_start text l r maxr t = Ok (trim_ref lab, rest)) \/
  ((forall lab rest, ~ head_match l r maxr t text lab rest) /\
   extract_at_start text l r maxr t = Ok ([], text)).
Proof. exact extract_head_spec. Qed.
Print Assumptions C15_extract_head_spec.

Theorem C15_extract_tail_spec : forall l r maxr t text, (0 <= maxr)%Z -> (l <> [] \/ t <> None) ->
  (exists lab rest, tail_match l r maxr t text lab rest /\
                    extract_at_end text l r maxr t = Ok (trim_ref lab, rest)) \/
  ((forall lab rest, ~ tail_match l r maxr t text lab rest) /\
   extract_at_end text l r maxr t = Ok ([], text)).
Proof. exact extract_tail_spec. Qed.
Print Assumptions C15_extract_tail_spec.

(* the boundary exactly at the edge of the search range is found; one byte further it is not *)
Theorem C15_extract_head_edge : forall l lab r rest t, r <> [] ->
  first_occurrence r (lab ++ r ++ rest) (length lab) ->
  (allowed t lab -> edge_ok t (hd_error (lab ++ r ++ rest)) ->
   extract_at_start (l ++ lab ++ r ++ rest) l r (Z.of_nat (length lab + length r)) t = Ok (trim_ref lab, rest)) /\
  ((0 <= Z.of_nat (length lab + length r) - 1)%Z ->
   extract_at_start (l ++ lab ++ r ++ rest) l r (Z.of_nat (length lab + length r) - 1) t = Ok ([], l ++ lab ++ r ++ rest)).
Proof.
  exact (fun l lab r rest t Hr Hf =>
    conj (extract_head_edge_in l lab r rest t Hr Hf)
         (fun Hm => extract_head_edge_out l lab r rest t _ Hr Hf Hm eq_refl)).
Qed.
Print Assumptions C15_extract_head_edge.

Theorem C15_extract_tail_edge : forall l lab r rest t, l <> [] ->
  last_occurrence l (rest ++ l ++ lab) (length rest) ->
  (allowed t lab -> edge_ok t (hd_error (rev (rest ++ l ++ lab))) ->
   extract_at_end (rest ++ l ++ lab ++ r) l r (Z.of_nat (length l + length lab)) t = Ok (trim_ref lab, rest)) /\
  ((0 <= Z.of_nat (length l + length lab) - 1)%Z ->
   extract_at_end (rest ++ l ++ lab ++ r) l r (Z.of_nat (length l + length lab) - 1) t = Ok ([], rest ++ l ++ lab ++ r)).
Proof.
  exact (fun l lab r rest t Hl Hf =>
    conj (extract_tail_edge_in l lab r rest t Hl Hf)
         (fun Hm => extract_tail_edge_out l lab r rest t _ Hl Hf Hm eq_refl)).
Qed.
Print Assumptions C15_extract_tail_edge.

(* patterns: "left*right" and "left[class]right" (brackets, asterisks and backslashes of the boundaries
   escaped) compile to exactly these boundaries, and the class table holds exactly the listed bytes
   and ranges ('-' first or last is itself; a leading '^' complements) *)
Theorem C15_pattern_star : forall (head : bool) (l r : bytes) maxr, (if head then r else l) <> [] ->
  new_string_extractor_simple head (pat_escape l ++ 42 :: pat_escape r) maxr =
  Ok {| ex_head := head; ex_left := l; ex_right := r; ex_max := maxr; ex_table := None |}.
Proof. exact new_extractor_star. Qed.
Print Assumptions C15_pattern_star.

(* a bare "*" needs the boundary on its far side (right for extractHead, left for extractTail) *)
Theorem C15_pattern_star_rejected : forall (head : bool) (l r : bytes) maxr, (if head then r else l) = [] ->
  new_string_extractor_simple head (pat_escape l ++ 42 :: pat_escape r) maxr = Err e_star_boundary.
Proof. exact new_extractor_star_rejected. Qed.
Print Assumptions C15_pattern_star_rejected.

Theorem C15_pattern_class : forall head l r maxr (neg lead : bool) items (trail : bool),
  Forall item_ok_class items ->
  let body := class_body lead items trail in
  (neg = false -> match body with [] => False | c :: _ => c <> 94 end) ->
  exists tb,
    new_string_extractor_simple head
      (pat_escape l ++ 91 :: pat_escape ((if neg then [94] else []) ++ body) ++ 93 :: pat_escape r) maxr =
    Ok {| ex_head := head; ex_left := l; ex_right := r; ex_max := maxr; ex_table := Some tb |} /\
    forall c : N, tb c = xorb neg (in_class lead items trail c).
Proof. exact new_extractor_class. Qed.
Print Assumptions C15_pattern_class.

(* "always trimmed": never a panic (also for a label of blanks only), exactly the blanks at both ends go *)
Theorem C15_trim_spec : forall s,
  trim_blank s = Ok (trim_ref s) /\
  exists a b, s = a ++ trim_ref s ++ b /\ all_blank a /\ all_blank b /\
    match trim_ref s with [] => True | c :: _ => 32 < c end /\
    match rev (trim_ref s) with [] => True | c :: _ => 32 < c end.
Proof. exact (fun s => conj (trim_blank_spec s) (trim_ref_spec s)). Qed.
Print Assumptions C15_trim_spec.

(* ---- drop ---- *)

(* for EVERY rate 1..99, every stream and EVERY prefix k of it: the records dropped so far are
   within one record of rate% of the records matched so far *)
Theorem C15_drop_sampling_within_one : forall O m rate label rs k cs out cs',
  (1 <= rate <= 99)%Z ->
  run_records O (TCons (TDrop m rate label 0 0) TNil) cs rs = (out, cs') ->
  length out = length rs /\
  (Z.abs (100 * count_dropped (firstn k out) - rate * count_matched O m (firstn k rs)) <= 100)%Z /\
  (0 <= count_dropped (firstn k out) <= count_matched O m (firstn k rs))%Z.
Proof. exact drop_sampling_within_one_lemma. Qed.
Print Assumptions C15_drop_sampling_within_one.

(* the same bound is an invariant of every drop node of every program (any nesting), preserved by
   every record: by induction over the program, then over the stream *)
Theorem C15_drop_program_invariant : forall O rs ts cs, dinv_tfs ts -> Forall dinv_tfs (run_states O ts cs rs).
Proof. exact dinv_stream. Qed.
Print Assumptions C15_drop_program_invariant.

(* in particular for EVERY configuration the loader accepts (verify + construct: counters start at 0/0,
   1 <= percentage <= 100), along every stream, whatever the nesting *)
Theorem C15_loaded_program_drop_invariant : forall O schema l ts cs rs, load O schema l = LOk ts ->
  Forall dinv_tfs (run_states O ts cs rs).
Proof. exact load_drop_invariant. Qed.
Print Assumptions C15_loaded_program_drop_invariant.

Theorem C15_drop_invariant_is_bound : forall rate matched dropped, drop_ok rate matched dropped -> rate <> 100%Z ->
  (Z.abs (100 * dropped - rate * matched) <= 100)%Z.
Proof. exact drop_ok_bound. Qed.
Print Assumptions C15_drop_invariant_is_bound.

Theorem C15_drop_all : forall O m label matched dropped cs r,
  run_tf O (TDrop m 100%Z label matched dropped) cs r =
  if matches O m (r_fields r)
  then Ok (TDrop m 100%Z label matched dropped, cnt_add cs label 1%Z (r_rawlen r), r, false)
  else Ok (TDrop m 100%Z label matched dropped, cs, r, true).
Proof. exact drop_all_lemma. Qed.
Print Assumptions C15_drop_all.

(* the custom counters: a matched record adds (1, RawLength) to the label when dropped, to "!"+label
   when retained, and to nothing else *)
Theorem C15_drop_accounting : forall m rate label matched dropped cs rawlen t' cs' b,
  run_drop_matched m rate label matched dropped cs rawlen = (t', cs', b) ->
  let hit := if b then 33 :: label else label in
  forall q, cnt_sum cs' q =
    (let (c, n) := cnt_sum cs q in if bytes_eqb hit q then (c + 1, n + rawlen)%Z else (c, n)).
Proof. exact drop_accounting_lemma. Qed.
Print Assumptions C15_drop_accounting.

(* ---- composition, switch, if, block ---- *)

Theorem C15_run_app : forall O a b cs r,
  run_tfs O (tapp a b) cs r =
  match run_tfs O a cs r with
  | Ok (a', cs', r', true) =>
    match run_tfs O b cs' r' with
    | Ok (b', cs'', r'', p) => Ok (tapp a' b', cs'', r'', p)
    | Err e => Err e
    | Panic s => Panic s
    end
  | Ok (a', cs', r', false) => Ok (tapp a' b, cs', r', false)
  | Err e => Err e
  | Panic s => Panic s
  end.
Proof. exact run_app_lemma. Qed.
Print Assumptions C15_run_app.

Theorem C15_switch_first_match : forall O pre m th post cs r,
  none_match O pre (r_fields r) -> matches O m (r_fields r) = true ->
  run_tf O (TSwitch (kapp pre (KCons m th post))) cs r =
  match run_tfs O th cs r with
  | Ok (th', cs', r', b) => Ok (TSwitch (kapp pre (KCons m th' post)), cs', r', b)
  | Err e => Err e
  | Panic s => Panic s
  end.
Proof. exact switch_first_match_lemma. Qed.
Print Assumptions C15_switch_first_match.

Theorem C15_switch_no_match : forall O ks cs r,
  none_match O ks (r_fields r) -> run_tf O (TSwitch ks) cs r = Ok (TSwitch ks, cs, r, true).
Proof. exact switch_no_match_lemma. Qed.
Print Assumptions C15_switch_no_match.

Theorem C15_if_spec : forall O m th cs r,
  run_tf O (TIf m th) cs r =
  if matches O m (r_fields r) then
    match run_tfs O th cs r with
    | Ok (th', cs', r', b) => Ok (TIf m th', cs', r', b)
    | Err e => Err e
    | Panic s => Panic s
    end
  else Ok (TIf m th, cs, r, true).
Proof. exact if_spec_lemma. Qed.
Print Assumptions C15_if_spec.

(* a block behaves like its steps written in place *)
Theorem C15_block_spec : forall O b ts cs r,
  match run_tfs O (TCons (TBlock b) ts) cs r, run_tfs O (tapp b ts) cs r with
  | Ok (_, cs1, r1, p1), Ok (_, cs2, r2, p2) => cs1 = cs2 /\ r1 = r2 /\ p1 = p2
  | Err e1, Err e2 => e1 = e2
  | Panic s1, Panic s2 => s1 = s2
  | _, _ => False
  end.
Proof. exact block_inline_lemma. Qed.
Print Assumptions C15_block_spec.

(* ---- field edits ---- *)

Theorem C15_mapvalue_spec : forall loc m d r, (loc < nfields r)%nat ->
  let r' := run_mapvalue loc m d r in
  nfields r' = nfields r /\ r_unesc r' = r_unesc r /\ r_rawlen r' = r_rawlen r /\
  (forall j, j <> loc -> getf r' j = getf r j) /\
  (getf r loc = [] -> r' = r) /\
  (getf r loc <> [] -> getf r' loc = match assoc m (getf r loc) with Some v => v | None => d end).
Proof. exact mapvalue_spec_lemma. Qed.
Print Assumptions C15_mapvalue_spec.

Theorem C15_delfields_spec : forall locs r,
  let r' := run_delfields locs r in
  nfields r' = nfields r /\ r_unesc r' = r_unesc r /\ r_rawlen r' = r_rawlen r /\
  forall j, (j < nfields r)%nat -> getf r' j = if existsb (Nat.eqb j) locs then [] else getf r j.
Proof. exact delfields_spec_lemma. Qed.
Print Assumptions C15_delfields_spec.

(* one field: the expansion never panics, an empty expansion leaves the field, otherwise only it changes;
   several fields: one after the other *)
Theorem C15_addfields_spec : forall dst tpl r, (dst < nfields r)%nat ->
  exists v, expand (r_fields r) tpl = Ok v /\
    run_addfields [(dst, tpl)] r = Ok (match v with [] => r | _ => set_field r dst v end) /\
    (v = [] -> run_addfields [(dst, tpl)] r = Ok r) /\
    (v <> [] -> exists r', run_addfields [(dst, tpl)] r = Ok r' /\ getf r' dst = v /\
                  nfields r' = nfields r /\ forall j, j <> dst -> getf r' j = getf r j).
Proof. exact addfields_one_lemma. Qed.
Print Assumptions C15_addfields_spec.

Theorem C15_addfields_sequential : forall p ps r,
  run_addfields (p :: ps) r = match run_addfields [p] r with Ok r1 => run_addfields ps r1 | Err e => Err e | Panic s => Panic s end.
Proof. exact addfields_seq_lemma. Qed.
Print Assumptions C15_addfields_sequential.

(* the order of two fields is irrelevant unless a template reads the other's destination *)
Theorem C15_addfields_order : forall d1 t1 d2 t2 ps r, d1 <> d2 ->
  tpl_reads d1 t2 = false -> tpl_reads d2 t1 = false ->
  run_addfields ((d1, t1) :: (d2, t2) :: ps) r = run_addfields ((d2, t2) :: (d1, t1) :: ps) r.
Proof. exact addfields_swap_lemma. Qed.
Print Assumptions C15_addfields_order.

(* hence any order of pairwise non-interfering fields gives the same record, and the order the loader
   uses (sorted by name) is a permutation of the configured one *)
Theorem C15_addfields_permutation : forall ps ps', Permutation ps ps' -> all_indep ps ->
  forall r, run_addfields ps r = run_addfields ps' r.
Proof. exact addfields_perm_lemma. Qed.
Print Assumptions C15_addfields_permutation.

Theorem C15_addfields_sorted_is_permutation : forall l, Permutation (sort_pairs l) l.
Proof. exact sort_pairs_perm. Qed.
Print Assumptions C15_addfields_sorted_is_permutation.

(* ---- matchers ---- *)

Theorem C15_match_ops_spec : forall O v,
  (vm_match O VAny v = true <-> v <> []) /\
  (forall s, vm_match O (VEq s) v = true <-> v = s) /\
  (forall s, vm_match O (VNot s) v = true <-> v <> s) /\
  (forall s, vm_match O (VStart s) v = true <-> exists x, v = s ++ x) /\
  (forall s, vm_match O (VEnd s) v = true <-> exists x, v = x ++ s) /\
  (forall s, s <> [] -> (vm_match O (VContain s) v = true <-> exists a b, v = a ++ s ++ b)) /\
  (forall n, vm_match O (VLenGt n) v = true <-> (Z.of_nat (length v) > n)%Z) /\
  (forall n, vm_match O (VLenLt n) v = true <-> (Z.of_nat (length v) < n)%Z) /\
  (forall s, vm_match O (VGlob s) v = o_glob_match O s v) /\
  (forall s, vm_match O (VRegex s) v = o_re_match O s v).
Proof. exact match_ops_spec_lemma. Qed.
Print Assumptions C15_match_ops_spec.

(* a matcher is the AND of its field matches, in any order *)
Theorem C15_matcher_conjunction : forall O m fields,
  (matches O m fields = true <-> Forall (fun lv => vm_match O (snd lv) (get_field fields (fst lv)) = true) m) /\
  (forall m', Permutation m m' -> matches O m fields = matches O m' fields).
Proof. exact (fun O m fields => conj (matches_forall O m fields) (fun m' => matches_perm O m m' fields)). Qed.
Print Assumptions C15_matcher_conjunction.

(* ---- unescape ---- *)

(* the chunked RunToBuffer loop computes the reference unescaper, never runs out of fuel, and its
   output fits the buffer of len(src) *)
Theorem C15_unescape_spec : forall u s,
  unescape_run u s = Some (unesc_ref (u_esc u) (u_map u) s) /\
  (forall first, index_byte s (u_esc u) = Some first ->
                 run_from_first u s first = Some (unesc_ref (u_esc u) (u_map u) s)) /\
  (length (unesc_ref (u_esc u) (u_map u) s) <= length s)%nat.
Proof.
  exact (fun u s => conj (unescape_run_spec u s)
                         (conj (fun first H => run_from_first_spec u s first H)
                               (unesc_ref_length (u_esc u) (u_map u) s))).
Qed.
Print Assumptions C15_unescape_spec.

(* the transform: once per record (the Unescaped flag), the field becomes its unescaped form *)
Theorem C15_unescape_transform_spec : forall loc r, (loc < nfields r)%nat ->
  (r_unesc r = true -> run_unescape loc r = Ok r) /\
  (r_unesc r = false ->
   exists r', run_unescape loc r = Ok r' /\ r_unesc r' = true /\ r_rawlen r' = r_rawlen r /\
     nfields r' = nfields r /\
     getf r' loc = unesc_ref 92 (u_map syslog_unescaper) (getf r loc) /\
     (forall j, j <> loc -> getf r' j = getf r j) /\
     (length (getf r' loc) <= length (getf r loc))%nat).
Proof. exact unescape_transform_lemma. Qed.
Print Assumptions C15_unescape_transform_spec.

(* ---- replace / extract: only the plumbing around the regexp oracle ---- *)

Theorem C15_replace_spec : forall O loc pat repl r, (loc < nfields r)%nat ->
  let r' := run_replace O loc pat repl r in
  (getf r loc = [] -> r' = r) /\
  (getf r loc <> [] -> getf r' loc = o_re_replace O pat repl (getf r loc)) /\
  (forall j, j <> loc -> getf r' j = getf r j) /\ nfields r' = nfields r.
Proof. exact replace_spec_lemma. Qed.
Print Assumptions C15_replace_spec.

Theorem C15_extract_regex_spec : forall O loc pat locs r,
  (o_re_find O pat (getf r loc) = None -> run_extractre O loc pat locs r = Ok r) /\
  (forall idx, o_re_find O pat (getf r loc) = Some idx ->
     run_extractre O loc pat locs r = run_extractre_loop locs idx (getf r loc) r) /\
  (forall locs' idx v r0, run_extractre_loop (None :: locs') idx v r0 = run_extractre_loop locs' (tl idx) v r0) /\
  (forall l locs' a b idx v r0, (a < 0 \/ b < 0)%Z ->
     run_extractre_loop (Some l :: locs') ((a, b) :: idx) v r0 = run_extractre_loop locs' idx v r0) /\
  (forall l locs' a b idx (v : bytes) r0, (0 <= a <= b)%Z -> (b <= Z.of_nat (length v))%Z ->
     run_extractre_loop (Some l :: locs') ((a, b) :: idx) v r0 =
     run_extractre_loop locs' idx v (set_field r0 l (firstn (Z.to_nat (b - a)) (skipn (Z.to_nat a) v)))).
Proof. exact extractre_spec_lemma. Qed.
Print Assumptions C15_extract_regex_spec.

(* ---- no record makes a well-formed program panic ---- *)

Theorem C15_no_panic : forall O rs ts cs, wf_tfs O ts ->
  Forall (fun x => x <> RPanic) (fst (run_records O ts cs rs)) /\
  length (fst (run_records O ts cs rs)) = length rs.
Proof. exact run_records_no_panic. Qed.
Print Assumptions C15_no_panic.

(* Non-vacuity: a concrete template satisfies the hypotheses of C15_template_compiles / _value, a
   concrete text those of C15_extract_head_spec, and a 60 % drop reproduces the documented sequence. *)
Theorem C15_example :
  items_ok ex_items /\
  new_expander ex_schema (render_items ex_items) = Ok [PLit [120;61]; PSlice 0 (-3) (-1); PVar 1] /\
  expand ex_fields [PLit [120;61]; PSlice 0 (-3) (-1); PVar 1] = Ok [120;61;55;56;33].
Proof. exact (conj example_items_ok (conj (proj1 example_values) (proj1 (proj2 example_values)))). Qed.
Print Assumptions C15_example.

(* every configuration the loader accepts (unmarshal + VerifyTransformConfigs + NewTransformsFromConfig) builds
   a well-formed program: no stream of records makes it panic.  The only assumption is the contract of Go's
   regexp (one index pair per subexpression, negative or inside the value). *)
Theorem C15_loaded_program_no_panic : forall O schema, oracle_sane O -> forall l ts cs rs,
  load O schema l = LOk ts ->
  Forall (fun x => x <> RPanic) (fst (run_records O ts cs rs)) /\
  length (fst (run_records O ts cs rs)) = length rs.
Proof. exact load_no_panic. Qed.
Print Assumptions C15_loaded_program_no_panic.

(* ---- wave-4 follow-up: empty captures of extract, sampled drop on streams of any length ---- *)
From SV Require Import Model.TfDropLong Model.TfExtractCap Proofs.Wave4Proofs.
Open Scope Z_scope.

(* the skip test of the code is the parameterised loop with skip_go *)
Theorem C15_extract_loop_is_skip_go : forall locs idx v r,
  run_extractre_loop_by skip_go locs idx v r = run_extractre_loop locs idx v r.
Proof. exact extract_loop_by_go. Qed.
Print Assumptions C15_extract_loop_is_skip_go.

(* a named group with any of its three outcomes (not part of the match | part of it with "" | part of it with a
   text): the field is untouched, becomes "", becomes the text *)
Theorem C15_extract_capture_overrides : forall l locs' c idx (v : bytes) r0, cap_in v c ->
  run_extractre_loop (Some l :: locs') (cap_pair c :: idx) v r0 =
  run_extractre_loop locs' idx v (cap_apply c l r0).
Proof. exact extract_capture_step. Qed.
Print Assumptions C15_extract_capture_overrides.

(* the transform with one named group, for every regexp oracle: whenever the group took part the destination
   field afterwards IS the capture (also the empty one); otherwise it is what it was; no other field changes *)
Theorem C15_extract_field_is_capture : forall O loc pat l r a0 b0 c,
  o_re_find O pat (getf r loc) = Some [(a0, b0); cap_pair c] -> cap_in (getf r loc) c ->
  (l < nfields r)%nat ->
  exists r', run_extractre O loc pat [None; Some l] r = Ok r' /\
    getf r' l = match c with CapNone => getf r l | CapEmpty _ => [] | CapText _ s => s end /\
    (forall l', l' <> l -> getf r' l' = getf r l').
Proof. exact extract_single_group_field. Qed.
Print Assumptions C15_extract_field_is_capture.

(* the variant "skip the group when end <= start" keeps a stale value: value "-42", empty capture at 0, field "main" *)
Theorem C15_extract_empty_skip_variant_refuted :
  exists l idx v r0 c, cap_in v c /\ c = CapEmpty 0 /\ idx = [cap_pair c] /\
    run_extractre_loop [Some l] idx v r0 = Ok (set_field r0 l []) /\
    run_extractre_loop_by skip_empty [Some l] idx v r0 = Ok r0 /\
    getf r0 l <> [].
Proof. exact extract_empty_skip_variant_refuted. Qed.
Print Assumptions C15_extract_empty_skip_variant_refuted.

(* the counter step of Model/TfDropLong.v is the drop node of the interpreter *)
Theorem C15_drop_counters_step_is_model : forall m rate label matched dropped cs rawlen,
  run_drop_matched m rate label matched dropped cs rawlen =
  (let '(st', b) := drop_counters_step no_scale rate (matched, dropped) in
   (TDrop m rate label (fst st') (snd st'),
    cnt_add cs (if b then label else (33%N :: label)) 1 rawlen, negb b)).
Proof. exact drop_counters_step_is_model. Qed.
Print Assumptions C15_drop_counters_step_is_model.

(* n matched records through one node, for EVERY n : N (no bound; every prefix of a stream is such an n): the node's
   counters are the true counts, and the dropped count is within one record of rate % *)
Theorem C15_drop_counters_within_one_any_length : forall rate n, 1 <= rate <= 99 ->
  let s := sample_run no_scale rate n in
  fst s = snd s /\ fst (snd s) = Z.of_N n /\
  0 <= snd (snd s) <= fst (snd s) /\ Z.abs (100 * snd (snd s) - rate * fst (snd s)) <= 100.
Proof. exact sample_run_within_one. Qed.
Print Assumptions C15_drop_counters_within_one_any_length.

(* the rule-defined long stream of case kind 3 (unmatched records in between, any rule, any length, rate 1..100) *)
Theorem C15_drop_long_stream_within_one : forall rate n a b q u every, 1 <= rate <= 100 ->
  let s := long_run no_scale rate n a b q u every in
  0 <= l_D s <= l_M s /\ Z.abs (100 * l_D s - rate * l_M s) <= 100.
Proof. exact long_run_within_one. Qed.
Print Assumptions C15_drop_long_stream_within_one.

(* samplingWindow = 2^16 with both counters halved: 33 %, 65539 matched records -> more than one record off *)
Theorem C15_drop_window_halving_variant_refuted :
  exists rate n, 1 <= rate <= 99 /\
    let s := sample_run (halve_at 65536) rate n in
    Z.abs (100 * snd (snd s) - rate * fst (snd s)) > 100.
Proof. exact drop_window_halving_variant_refuted. Qed.
Print Assumptions C15_drop_window_halving_variant_refuted.
