(* C10 - Serialized Fluentd events decode to exactly the record's visible fields.
   Only the property theorems; each is closed by [exact] of a lemma from Proofs/.

   Model:  Model/Msgpack.v (fastmsgpack writers on a fixed buffer), Model/Unescape.v (stringunescape),
           Model/Serializer.v (NewEventSerializer, SerializeRecord with maxEncodedLength, encodeRecord, the
           rewriters, VerifyConfig).
   Spec:   Spec/MsgpackSpec.v (independent decoder), Spec/SerializerSpec.v (event_tree, unescape_ref; and the
           append-style encoder [encode_spec] that links the two and is not trusted). *)
From SV Require Import Model.Common Model.Msgpack Model.Unescape Model.Serializer
     Spec.MsgpackSpec Spec.SerializerSpec Proofs.UnescapeProofs Proofs.SerializerProofs Proofs.SerializerOverflow.
From SV Require Model.GoSem Gen.C10Gen Proofs.C10GenEquiv.
Open Scope N_scope.

(* VerifyConfig implies the hypothesis [chains_ok] used below (every configured rewriter chain passes
   VerifyRewriterConfigs).  The theorems are stated with the weaker hypothesis so that they also cover serializers
   built from a configuration WITHOUT environment fields (NewEventSerializer accepts it, only VerifyConfig insists
   on one): then every schema field can be visible and the root map can reach len(schema)+1 entries. *)
Theorem C10_verify_config_chains_ok :
  forall schema cfg, verify_config schema cfg = true -> chains_ok schema cfg.
Proof. exact verified_chain. Qed.
Print Assumptions C10_verify_config_chains_ok.

(* The headline (since fix 413c995 without any "the event fits the buffer" hypothesis).  For every schema (any number
   of fields below 65535, on either side of the fixmap/map16 boundary), every configuration whose rewriter chains are
   valid (in particular every one accepted by VerifyConfig), every record (any bytes, any lengths, on either side of
   16 / 256 / 65536) whose strings MessagePack can express (visible and environment keys and values shorter than
   2^32 bytes), EVERY length B of the preallocated buffer - smaller or larger than the event - and whatever earlier
   records left in that buffer: SerializeRecord does not panic, does not drop the record (never the empty stream),
   and the independent decoder reads what it emits back as exactly
       [ EventTime ; { visible fields in schema order ..., "environment": { every environment field } } ]
   with nothing left over - visible = non-empty, not environment, not hidden; rewritten fields hold the documented
   result of their chain (inline prefix, unescaped value). *)
Theorem C10_decode_serialized :
  forall (schema : list bytes) (cfg : ser_config) (rec : record) (B : nat) (ser : serializer) (buffer : bytes),
  chains_ok schema cfg ->
  (length schema <= length (r_fields rec))%nat ->
  N.of_nat (length schema) < 65535 ->
  N.of_nat (length (c_env cfg)) < 65536 ->
  strings_small schema cfg rec ->
  new_serializer schema cfg B = Ok ser ->
  exists stream,
    serialize_record_from ser rec buffer = Ok stream /\ stream <> [] /\
    decode_all stream = Some (event_tree schema cfg rec, []).
Proof. exact decode_serialized_lemma. Qed.
Print Assumptions C10_decode_serialized.

(* 0. The key lemma of the fix.  maxEncodedLength (1+10+3+12+3, plus len(key)+5+MaxFieldLength-or-len(value) per
   visible field, plus len(key)+5+len(value) per environment field) never panics and is an upper bound of the length
   of the event, for every schema, every configuration with valid chains and every record (no size limit): every
   MessagePack header the encoder writes takes at most 5 bytes, the two map headers at most 3, and a rewriter chain
   writes at most what its MaxFieldLength reports (C10_rewrite_within_reserved).  Hence the buffer SerializeRecord
   chooses - the preallocated one if maxLength < len(buffer), else a one-off one of maxLength+1 bytes - is strictly
   longer than the event, whatever the preallocated buffer is. *)
Theorem C10_max_length_bounds_event :
  forall schema cfg rec B ser,
  chains_ok schema cfg ->
  (length schema <= length (r_fields rec))%nat ->
  new_serializer schema cfg B = Ok ser ->
  exists m, max_encoded_length ser rec = Ok m /\
            (length (encode_spec schema cfg rec) <= m)%nat /\
            forall buffer, (length (encode_spec schema cfg rec) < length (choose_buffer buffer m))%nat.
Proof. exact max_length_bounds_event_lemma. Qed.
Print Assumptions C10_max_length_bounds_event.

(* 1. encodeRecord on a fixed buffer (positions, reserved map-length slot, masks, pre-serialized keys, reserve-max-
   then-back-patch string headers, window passed to the rewriters) returns exactly the append-style encoding whenever
   that is shorter than the buffer it is given: no panic, no truncation, every reserved slot patched. *)
Theorem C10_encode_record_spec :
  forall schema cfg rec B ser buffer,
  chains_ok schema cfg ->
  (length schema <= length (r_fields rec))%nat ->
  new_serializer schema cfg B = Ok ser ->
  (length (encode_spec schema cfg rec) < length buffer)%nat ->
  serialize_on ser rec buffer = Ok (encode_spec schema cfg rec).
Proof. exact serialize_on_spec. Qed.
Print Assumptions C10_encode_record_spec.

(* ... and SerializeRecord, which chooses the buffer by 0., returns the append-style encoding for EVERY record and
   EVERY size of the preallocated buffer (no size hypothesis of any kind: lengths beyond 2^32 only make the event
   undecodable, they do not make the serializer fail). *)
Theorem C10_encode_buf_spec :
  forall schema cfg rec B ser,
  chains_ok schema cfg ->
  (length schema <= length (r_fields rec))%nat ->
  new_serializer schema cfg B = Ok ser ->
  serialize_record ser rec = Ok (encode_spec schema cfg rec).
Proof. exact encode_buf_spec_lemma. Qed.
Print Assumptions C10_encode_buf_spec.

(* 1'. For EVERY size and EVERY previous contents of the preallocated buffer: SerializeRecord is total and never
   fails - no panic, the unescape loop never runs out of fuel -, and the stream it returns is the complete event,
   never the empty stream (a dropped record), never a truncated or otherwise malformed event. *)
Theorem C10_never_emits_garbage :
  forall schema cfg rec B ser buffer,
  chains_ok schema cfg ->
  (length schema <= length (r_fields rec))%nat ->
  new_serializer schema cfg B = Ok ser ->
  match serialize_record_from ser rec buffer with
  | Ok stream => stream = encode_spec schema cfg rec /\ stream <> []
  | Panic _ => False
  | Err _ => False
  end.
Proof. exact never_garbage_lemma. Qed.
Print Assumptions C10_never_emits_garbage.

(* ... defence in depth: encodeRecord itself, on ANY buffer it might be given (i.e. even if maxEncodedLength were too
   small), returns a stream or panics, panics only when the event is at least as long as that buffer, and what it
   returns is the empty stream (position == len(buffer)) or the complete event - never a truncated one. *)
Theorem C10_encode_record_never_emits_garbage :
  forall schema cfg rec B ser buffer,
  chains_ok schema cfg ->
  (length schema <= length (r_fields rec))%nat ->
  new_serializer schema cfg B = Ok ser ->
  match serialize_on ser rec buffer with
  | Ok stream => stream = [] \/ stream = encode_spec schema cfg rec
  | Panic _ => (length buffer <= length (encode_spec schema cfg rec))%nat
  | Err _ => False
  end.
Proof. exact encode_record_never_garbage_lemma. Qed.
Print Assumptions C10_encode_record_never_emits_garbage.

(* 1''. The serializer reuses one preallocated buffer for all records; what it emits depends neither on what earlier
   records left there nor on the length of that buffer (the model run by the correspondence check starts from a
   zeroed buffer). *)
Theorem C10_buffer_contents_irrelevant :
  forall schema cfg rec B ser buffer1 buffer2,
  chains_ok schema cfg ->
  (length schema <= length (r_fields rec))%nat ->
  new_serializer schema cfg B = Ok ser ->
  serialize_record_from ser rec buffer1 = serialize_record_from ser rec buffer2.
Proof. exact buffer_contents_irrelevant_lemma. Qed.
Print Assumptions C10_buffer_contents_irrelevant.

(* ... and for encodeRecord alone: two buffers of the same length yield the same non-empty streams. *)
Theorem C10_encode_record_contents_irrelevant :
  forall schema cfg rec B ser buffer1 buffer2 stream,
  chains_ok schema cfg ->
  (length schema <= length (r_fields rec))%nat ->
  new_serializer schema cfg B = Ok ser ->
  length buffer1 = length buffer2 ->
  stream <> [] ->
  serialize_on ser rec buffer1 = Ok stream ->
  serialize_on ser rec buffer2 = Ok stream.
Proof. exact encode_record_contents_irrelevant_lemma. Qed.
Print Assumptions C10_encode_record_contents_irrelevant.

(* 2. The append-style encoding decodes to the expected event, for all schemas, configurations and records whose
   strings MessagePack can express (shorter than 2^32 bytes; map counts fit 16 bits). *)
Theorem C10_decode_encode :
  forall schema cfg rec,
  strings_small schema cfg rec ->
  N.of_nat (length schema) < 65535 ->
  N.of_nat (length (c_env cfg)) < 65536 ->
  decode_all (encode_spec schema cfg rec) = Some (event_tree schema cfg rec, []).
Proof. exact decode_encode_lemma. Qed.
Print Assumptions C10_decode_encode.

(* the side condition of 2 and of the headline follows from the size of the event *)
Theorem C10_small_event_small_strings :
  forall schema cfg rec,
  N.of_nat (length (encode_spec schema cfg rec)) < 4294967296 -> strings_small schema cfg rec.
Proof. exact strings_small_of_size. Qed.
Print Assumptions C10_small_event_small_strings.

(* Every configuration accepted by VerifyConfig is constructible: NewEventSerializer returns no error (VerifyConfig
   checks the environment and hidden fields against the schema since fix c211aa1) and no rewriter constructor
   panics. *)
Theorem C10_verified_config_constructs :
  forall schema cfg B, verify_config schema cfg = true -> exists ser, new_serializer schema cfg B = Ok ser.
Proof. exact new_serializer_ok. Qed.
Print Assumptions C10_verified_config_constructs.

(* ... so the headline needs nothing but VerifyConfig: the serializer exists for every size of the preallocated
   buffer, and EVERY record (with strings MessagePack can express) is emitted as an event that decodes to exactly the
   record's visible fields. *)
Theorem C10_accepted_config_serializes :
  forall schema cfg B,
  verify_config schema cfg = true ->
  N.of_nat (length schema) < 65535 ->
  N.of_nat (length (c_env cfg)) < 65536 ->
  exists ser, new_serializer schema cfg B = Ok ser /\
    forall rec buffer,
      (length schema <= length (r_fields rec))%nat ->
      strings_small schema cfg rec ->
      exists stream,
        serialize_record_from ser rec buffer = Ok stream /\ stream <> [] /\
        decode_all stream = Some (event_tree schema cfg rec, []).
Proof. exact accepted_config_serializes_lemma. Qed.
Print Assumptions C10_accepted_config_serializes.

(* 3a. RunToBuffer as the unescape rewriter calls it (first = FindFirst(src)) writes exactly the recursive
   reference unescaper's result at the start of the destination window, returns its length and leaves the rest of
   the window alone, whenever the window has room for the RESULT; for every unescaper table and every byte string. *)
Theorem C10_unescape_model_eq_spec :
  forall (u : unescaper) (src : bytes) (first : nat) (old tail : bytes),
  find_first u src = Some first ->
  length old = length (unescape_ref (u_esc u) (tr_of u) src) ->
  run_to_buffer u src first (old ++ tail)
  = Ok (unescape_ref (u_esc u) (tr_of u) src ++ tail, length (unescape_ref (u_esc u) (tr_of u) src)).
Proof. exact run_to_buffer_spec. Qed.
Print Assumptions C10_unescape_model_eq_spec.

(* Unescaper.Run (the unescape transform uses it) never panics and returns the reference result *)
Theorem C10_unescape_run_total :
  forall (u : unescaper) (src : bytes), unescape_run u src = Ok (unescape_ref (u_esc u) (tr_of u) src).
Proof. exact unescape_run_spec. Qed.
Print Assumptions C10_unescape_run_total.

(* the table NewSyslogUnescaper builds is the documented one: b f n r t and the backslash *)
Theorem C10_syslog_table :
  forall s, unescape_ref (u_esc syslog_unescaper) (tr_of syslog_unescaper) s = unescape_syslog s.
Proof. exact unescape_syslog_eq. Qed.
Print Assumptions C10_syslog_table.

(* 3b. unescaping never lengthens: reserving len(value) for an unescape rewriter is enough *)
Theorem C10_unescape_shrinks :
  forall esc tr s, (length (unescape_ref esc tr s) <= length s)%nat.
Proof. exact unescape_ref_length. Qed.
Print Assumptions C10_unescape_shrinks.

(* 3c. every rewriter chain accepted by VerifyRewriterConfigs is constructible, reports as maximum exactly
   [rewrite_max] and writes exactly [rewrite_spec] (inline: name=value<space> before the rest when the inlined
   field is non-empty, nothing otherwise; unescape: the reference unescaper unless the record is already
   unescaped; copy: the value) into a window with room for it *)
Theorem C10_rewriter_chain_spec :
  forall schema ch, ch <> [] -> verify_rewriters schema ch = true ->
  exists rw, new_rewriters schema ch = Ok (Some rw) /\ rewriter_meets schema rw ch.
Proof. exact verified_rewriters_spec. Qed.
Print Assumptions C10_rewriter_chain_spec.

(* the chains VerifyRewriterConfigs accepts are exactly: none, or inline* followed by copy or unescape, every
   inlined field named and present in the schema *)
Theorem C10_accepted_chains :
  forall schema ch,
  verify_rewriters schema ch = true <->
  ch = [] \/ exists fs last, ch = map RcInline fs ++ [last] /\ is_last last /\
                             Forall (fun f => f <> [] /\ In f schema) fs.
Proof. exact accepted_chains_lemma. Qed.
Print Assumptions C10_accepted_chains.

(* the documented result of an inline step, spelled out (an unfolding of the specification [rewrite_spec]) *)
Theorem C10_inline_spec :
  forall schema fields unescaped f rest value,
  rewrite_spec schema fields unescaped (RcInline f :: rest) value
  = if is_nil (field_value schema fields f) then rewrite_spec schema fields unescaped rest value
    else f ++ [61] ++ field_value schema fields f ++ [32] ++ rewrite_spec schema fields unescaped rest value.
Proof. exact inline_spec_lemma. Qed.
Print Assumptions C10_inline_spec.

(* ... and what is written never exceeds what was reserved *)
Theorem C10_rewrite_within_reserved :
  forall schema fields unescaped ch value,
  (length (rewrite_spec schema fields unescaped ch value) <= rewrite_max schema fields ch value)%nat.
Proof. exact rewrite_spec_le_max. Qed.
Print Assumptions C10_rewrite_within_reserved.

(* 4. The event time: seconds and nanoseconds modulo 2^32 (the Fluentd EventTime format); exact for
   0 <= unix < 2^32; outside that range the seconds wrap - a stated limit of the format, not a finding. *)
Theorem C10_event_time :
  forall rec, event_time_of (VExt 0 (event_time_bytes rec))
              = Some (Z.to_N (r_unix rec mod 4294967296), Z.to_N (r_nsec rec mod 4294967296)).
Proof. exact event_time_lemma. Qed.
Print Assumptions C10_event_time.

Theorem C10_event_time_exact :
  forall rec, (0 <= r_unix rec < 4294967296)%Z -> (0 <= r_nsec rec < 4294967296)%Z ->
  event_time_of (VExt 0 (event_time_bytes rec)) = Some (Z.to_N (r_unix rec), Z.to_N (r_nsec rec)).
Proof. exact event_time_exact_lemma. Qed.
Print Assumptions C10_event_time_exact.

Theorem C10_event_time_wraps :
  forall rec rec', r_unix rec' = (r_unix rec + 4294967296)%Z -> r_nsec rec' = r_nsec rec ->
  event_time_bytes rec' = event_time_bytes rec.
Proof. exact event_time_wraps_lemma. Qed.
Print Assumptions C10_event_time_wraps.

(* The keys of the decoded root map are pairwise distinct, and so are those of the nested map, when the schema
   has no duplicate names (base.NewLogSchema guarantees it), the configuration lists no environment field twice and
   no visible field is itself called "environment": reading the event into a map[string]interface{} loses nothing. *)
Theorem C10_keys_distinct :
  forall schema cfg rec,
  NoDup schema -> NoDup (c_env cfg) ->
  ~ In str_environment (map fst (visible schema cfg rec)) ->
  NoDup (map fst (visible schema cfg rec) ++ [str_environment]) /\
  NoDup (map fst (env_pairs schema cfg rec)).
Proof. exact keys_distinct_lemma. Qed.
Print Assumptions C10_keys_distinct.

(* Non-vacuity (a test on literals): the package's own test schema with real rewriters - environment vhost, app;
   hidden comp; message rewritten by inline(comp) -> unescape; record bar/myapp/"T\n1\"/Y/K2 - satisfies every
   hypothesis above with a 200-byte buffer, and its visible fields are message = "comp=K2 T<LF>1\" and extra = "Y". *)
Theorem C10_example :
  verify_config ex_schema ex_cfg = true /\
  (exists ser, new_serializer ex_schema ex_cfg 200 = Ok ser /\
               serialize_record ser ex_rec = Ok (encode_spec ex_schema ex_cfg ex_rec)) /\
  (length (encode_spec ex_schema ex_cfg ex_rec) < 200)%nat /\
  visible ex_schema ex_cfg ex_rec
  = [([109;101;115;115;97;103;101], [99;111;109;112;61;75;50;32;84;10;49;92]); ([101;120;116;114;97], [89])] /\
  decode_all (encode_spec ex_schema ex_cfg ex_rec) = Some (event_tree ex_schema ex_cfg ex_rec, []).
Proof. exact example_lemma. Qed.
Print Assumptions C10_example.

(* A second test on literals, at the fixmap limit: 15 schema fields, no environment field, all 15 visible - the root
   map has 16 entries and is a map16 (byte 222 at offset 11); hypotheses satisfied with [c_env = []]. *)
Theorem C10_example_sixteen_entries :
  chains_ok ex15_schema ex15_cfg /\
  length (visible ex15_schema ex15_cfg ex15_rec) = 15%nat /\
  (exists ser, new_serializer ex15_schema ex15_cfg 200 = Ok ser /\
               serialize_record ser ex15_rec = Ok (encode_spec ex15_schema ex15_cfg ex15_rec)) /\
  nth_error (encode_spec ex15_schema ex15_cfg ex15_rec) 11 = Some 222 /\
  decode_all (encode_spec ex15_schema ex15_cfg ex15_rec) = Some (event_tree ex15_schema ex15_cfg ex15_rec, []).
Proof. exact example15_lemma. Qed.
Print Assumptions C10_example_sixteen_entries.

(* A third test on literals: the one-off buffer of fix 413c995 is exercised.  The record of C10_example through a
   serializer whose preallocated buffer has 16 bytes (InputLogMaxRecordBytes = 8): maxEncodedLength is 95 >= 16, the
   event has 76 bytes; encodeRecord on the preallocated buffer panics (what SerializeRecord did before the fix),
   SerializeRecord emits the complete event, which decodes to the record. *)
Theorem C10_example_oversize :
  exists ser, new_serializer ex_schema ex_cfg 16 = Ok ser /\
    max_encoded_length ser ex_rec = Ok 95%nat /\
    length (encode_spec ex_schema ex_cfg ex_rec) = 76%nat /\
    (exists site, serialize_on ser ex_rec (repeat 0 16) = Panic site) /\
    serialize_record ser ex_rec = Ok (encode_spec ex_schema ex_cfg ex_rec) /\
    decode_all (encode_spec ex_schema ex_cfg ex_rec) = Some (event_tree ex_schema ex_cfg ex_rec, []).
Proof. exact example_oversize_lemma. Qed.
Print Assumptions C10_example_oversize.

(* ---- The tie to the SOURCE: Gen/C10Gen.v is regenerated by tools/go2coq from output/fastmsgpack/*.go on every
   check.  The Go encoders write through their buffer argument and return the end position; the generated function
   returns (end, final buffer).  For every buffer, position and value it is the model's result ([enc_inj]: the same
   bytes, the same end; an index / slice-bounds panic exactly where the model panics).  A change of behaviour of an
   encoder (a code byte, a shift, a length cast, an offset) changes the generated term and breaks the proof. ---- *)
Theorem C10_generated_Write2_agrees :
  forall (buf : bytes) (start : nat) (n : N), C10Gen.Write2 buf (Z.of_nat start) n = C10GenEquiv.enc_inj (write2 buf start n).
Proof. exact C10GenEquiv.Write2_gen_eq. Qed.
Print Assumptions C10_generated_Write2_agrees.

Theorem C10_generated_Write4_agrees :
  forall (buf : bytes) (start : nat) (n : N), C10Gen.Write4 buf (Z.of_nat start) n = C10GenEquiv.enc_inj (write4 buf start n).
Proof. exact C10GenEquiv.Write4_gen_eq. Qed.
Print Assumptions C10_generated_Write4_agrees.

Theorem C10_generated_EncodeStringLen4_agrees :
  forall (buf : bytes) (start len : nat), C10Gen.EncodeStringLen4 buf (Z.of_nat start) (Z.of_nat len) = C10GenEquiv.enc_inj (encode_string_len4 buf start len).
Proof. exact C10GenEquiv.EncodeStringLen4_gen_eq. Qed.
Print Assumptions C10_generated_EncodeStringLen4_agrees.

Theorem C10_generated_EncodeStringLen16_agrees :
  forall (buf : bytes) (start len : nat), C10Gen.EncodeStringLen16 buf (Z.of_nat start) (Z.of_nat len) = C10GenEquiv.enc_inj (encode_string_len16 buf start len).
Proof. exact C10GenEquiv.EncodeStringLen16_gen_eq. Qed.
Print Assumptions C10_generated_EncodeStringLen16_agrees.

Theorem C10_generated_EncodeStringLen32_agrees :
  forall (buf : bytes) (start len : nat), C10Gen.EncodeStringLen32 buf (Z.of_nat start) (Z.of_nat len) = C10GenEquiv.enc_inj (encode_string_len32 buf start len).
Proof. exact C10GenEquiv.EncodeStringLen32_gen_eq. Qed.
Print Assumptions C10_generated_EncodeStringLen32_agrees.

Theorem C10_generated_EncodeMapLen4_agrees :
  forall (buf : bytes) (start len : nat), C10Gen.EncodeMapLen4 buf (Z.of_nat start) (Z.of_nat len) = C10GenEquiv.enc_inj (encode_map_len4 buf start len).
Proof. exact C10GenEquiv.EncodeMapLen4_gen_eq. Qed.
Print Assumptions C10_generated_EncodeMapLen4_agrees.

Theorem C10_generated_EncodeMapLen16_agrees :
  forall (buf : bytes) (start len : nat), C10Gen.EncodeMapLen16 buf (Z.of_nat start) (Z.of_nat len) = C10GenEquiv.enc_inj (encode_map_len16 buf start len).
Proof. exact C10GenEquiv.EncodeMapLen16_gen_eq. Qed.
Print Assumptions C10_generated_EncodeMapLen16_agrees.

Theorem C10_generated_EncodeArrayLen4_agrees :
  forall (buf : bytes) (start len : nat), C10Gen.EncodeArrayLen4 buf (Z.of_nat start) (Z.of_nat len) = C10GenEquiv.enc_inj (encode_array_len4 buf start len).
Proof. exact C10GenEquiv.EncodeArrayLen4_gen_eq. Qed.
Print Assumptions C10_generated_EncodeArrayLen4_agrees.

Theorem C10_generated_EncodeExtHeader8_agrees :
  forall (buf : bytes) (start : nat) (ty : N), C10Gen.EncodeExtHeader8 buf (Z.of_nat start) ty = C10GenEquiv.enc_inj (encode_ext_header8 buf start ty).
Proof. exact C10GenEquiv.EncodeExtHeader8_gen_eq. Qed.
Print Assumptions C10_generated_EncodeExtHeader8_agrees.

Theorem C10_generated_EncodeString4_agrees :
  forall (buf : bytes) (start : nat) (str : bytes), C10Gen.EncodeString4 buf (Z.of_nat start) str = C10GenEquiv.enc_inj (encode_string4 buf start str).
Proof. exact C10GenEquiv.EncodeString4_gen_eq. Qed.
Print Assumptions C10_generated_EncodeString4_agrees.

Theorem C10_generated_EncodeString16_agrees :
  forall (buf : bytes) (start : nat) (str : bytes), C10Gen.EncodeString16 buf (Z.of_nat start) str = C10GenEquiv.enc_inj (encode_string16 buf start str).
Proof. exact C10GenEquiv.EncodeString16_gen_eq. Qed.
Print Assumptions C10_generated_EncodeString16_agrees.

Theorem C10_generated_EncodeString32_agrees :
  forall (buf : bytes) (start : nat) (str : bytes), C10Gen.EncodeString32 buf (Z.of_nat start) str = C10GenEquiv.enc_inj (encode_string32 buf start str).
Proof. exact C10GenEquiv.EncodeString32_gen_eq. Qed.
Print Assumptions C10_generated_EncodeString32_agrees.

(* ... hence the string header of every length class, as written by the GENERATED code: the code byte and the
   big-endian length at the position, nothing else in the buffer touched, the end 1 / 3 / 5 bytes further. *)
Theorem C10_generated_string_headers :
  forall (pre : bytes) (x a b c d : N) (tail : bytes) (len : nat),
  ((N.of_nat len < 16)%N ->
   C10Gen.EncodeStringLen4 (pre ++ x :: tail) (GoSem.go_len pre) (Z.of_nat len) =
   GoSem.GOk ((GoSem.go_len pre + 1)%Z, pre ++ (160 + N.of_nat len)%N :: tail)) /\
  C10Gen.EncodeStringLen16 (pre ++ x :: a :: b :: tail) (GoSem.go_len pre) (Z.of_nat len) =
   GoSem.GOk ((GoSem.go_len pre + 3)%Z, pre ++ 218%N :: be16 (N.of_nat len mod 65536)%N ++ tail) /\
  C10Gen.EncodeStringLen32 (pre ++ x :: a :: b :: c :: d :: tail) (GoSem.go_len pre) (Z.of_nat len) =
   GoSem.GOk ((GoSem.go_len pre + 5)%Z, pre ++ 219%N :: be32 (N.of_nat len mod 4294967296)%N ++ tail).
Proof. exact C10GenEquiv.string_headers_gen. Qed.
Print Assumptions C10_generated_string_headers.

(* ---------- Follow-up wave-4 seed 8: a long-lived rewriter instance over records that alias a recycled buffer ----------
   Model/RewriterMem.v: the fields of a record are references (offset, length) into the backing buffer of the raw
   input; the buffer is overwritten from record to record; every inline node of a rewriter chain instance may keep
   state from call to call. *)
From SV Require Import Model.RewriterMem Proofs.RewriterMemProofs.

(* For EVERY history of calls (any buffer contents at every moment, any references, any earlier records), an instance
   that keeps nothing (rinline.go: Direct) or only owned copies (CacheByValue) answers each call exactly as the
   stateless value-level rewriter of Model/Serializer.v does on the values the record has at the moment of the call. *)
Theorem C10_rewriter_history_own_values :
  forall mode, mode <> CacheByRef -> forall (h : list call) (rw : rewriter_st), wf mode rw ->
  run_history mode rw h = map (call_stateless (erase rw)) h.
Proof. exact history_own_values. Qed.
Print Assumptions C10_rewriter_history_own_values.

(* ... hence for a chain accepted by VerifyRewriterConfigs: every call of every history reserves rewrite_max and writes
   the documented rewrite_spec ("name=value " prefixes, then the unescaped / copied value) of ITS OWN record. *)
Theorem C10_rewriter_history_spec :
  forall schema ch, ch <> [] -> verify_rewriters schema ch = true ->
  exists rw0, new_rewriters schema ch = Ok (Some rw0) /\
  forall mode, mode <> CacheByRef -> forall rw, erase rw = rw0 -> wf mode rw ->
  forall h, Forall (call_fits schema ch) h -> run_history mode rw h = map (call_spec schema ch) h.
Proof. exact history_spec. Qed.
Print Assumptions C10_rewriter_history_spec.

(* a fresh instance satisfies the hypotheses *)
Theorem C10_rewriter_fresh_instance :
  forall mode rw, wf mode (instantiate rw) /\ erase (instantiate rw) = rw.
Proof. intros mode rw. split; [exact (wf_instantiate mode rw)|exact (erase_instantiate rw)]. Qed.
Print Assumptions C10_rewriter_fresh_instance.

(* The variant that keeps the field STRING (a reference into the recycled buffer) as the key of a prefix cache
   violates it: two records "AAhi" / "BBhi" in the same buffer, the second is written as "cls=AA hi". *)
Theorem C10_rewriter_cache_by_ref_variant_refuted :
  exists rw0, new_rewriters wit_schema wit_chain = Ok (Some rw0) /\
    verify_rewriters wit_schema wit_chain = true /\ Forall (call_fits wit_schema wit_chain) wit_history /\
    run_history CacheByRef (instantiate rw0) wit_history <> map (call_spec wit_schema wit_chain) wit_history /\
    nth 1 (run_history CacheByRef (instantiate rw0) wit_history) (Panic 0, Panic 0)
    = (Ok 9%nat, Ok ([99;108;115;61;65;65;32;104;105], 9%nat)).
Proof. exact cache_by_ref_refuted. Qed.
Print Assumptions C10_rewriter_cache_by_ref_variant_refuted.
