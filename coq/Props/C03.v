(* C03 - Hybrid buffer conserves chunks in FIFO order within disk and memory bounds.
   Only the property theorems; each is closed by [exact] of a lemma from Proofs/.

   The buffer is the labelled transition system of Model/Buffer.v (bufferer.go, outputfeeder.go,
   chunkmanager.go, chunkoperator.go, util/files.go as they are in the tree, i.e. after the fix: commits).
   [reachable matchf dirsize s]: s is reached from ANY initial directory by ANY list of events - every
   interleaving of Accept, the feeder's steps, the consumers' take / OnChunkConsumed / OnChunkLeftover /
   OnFinished, Destroy, the steps of saveEverything (space check and write are separate events), every
   outcome script of every file write (open / short write / write error / close / rename failure, process
   killed at any of the four kill points), read errors, crashes, any number of generations of Restart on the
   same directory with any capacities Q, M >= 1 and any size limit, a directory that cannot be opened,
   foreign files appearing between generations.  The vocabulary (entered, is_orig, taken ...) is Spec/BufferSpec.v. *)
From SV Require Import Model.Common Model.FileWrite Model.Buffer Model.BufferStart Spec.BufferSpec
     Proofs.FileWriteProofs Proofs.BufferInv Proofs.BufferTheorems Proofs.BufferExamples Proofs.DrainProofs
     Proofs.BufferStartProofs.
From Coq Require Import Sorting.Sorted.

(* Conservation.  When Destroy has completed (feeder stopped) and the consumers have reported every chunk they
   took, every chunk accepted or recovered in this generation is in exactly one of three classes: confirmed
   by a consumer - then its file is gone; retained - then a file with the original content (the bytes given
   to Accept / the entry found at start-up) is in the directory; dropped - then it is counted in
   dropped_chunks_total.  No ID is in two classes or twice in one, none is in no class, and the classes
   contain nothing else. *)
Theorem C03_conservation :
  forall matchf dirsize, matcher_ok matchf ->
  forall s, reachable matchf dirsize s -> settled s ->
  let g := st_gh s in
  NoDup (g_confirmed g ++ g_retained g ++ g_dropped g) /\
  (forall x, In x (entered g) <-> In x (g_confirmed g ++ g_retained g ++ g_dropped g)) /\
  NoDup (entered g) /\
  (forall x, In x (g_confirmed g) -> dir_get (st_dir s) x = None) /\
  (forall x, In x (g_retained g) -> exists e, dir_get (st_dir s) x = Some e /\ is_orig g x e) /\
  m_dropped (st_met s) = Z.of_nat (length (g_dropped g)) /\
  m_consumed (st_met s) = Z.of_nat (length (g_confirmed g)).
Proof. exact conservation_lemma. Qed.
Print Assumptions C03_conservation.

(* Across generations: what a generation retained is what the next one delivers.  After Destroy has completed, a
   retained chunk that was given to Accept with (non-empty) bytes is - with exactly those bytes - among what a
   consumer receives after the next start-up, on the schedule "feeder runs, consumer takes and confirms one at a
   time", provided the new queue has room for all chunk files.  (matchf ".id" = false: the scan skips that name.) *)
Theorem C03_retained_delivered_next_generation :
  forall matchf dirsize, matcher_ok matchf -> matchf id_file_name = false ->
  forall s Q M maxb x b0 d b, reachable matchf dirsize s -> settled s ->
  In x (g_retained (st_gh s)) -> In (x, b0 :: d, b) (g_acc (st_gh s)) ->
  (length (dir_names (st_dir s)) <= Q)%nat -> (1 <= Q)%nat -> (1 <= M)%nat ->
  exists evs s',
    run matchf dirsize s (ERestart Q M maxb true :: ERegister :: evs) = Some s' /\
    In (x, Some (b0 :: d)) (received s').
Proof. exact retained_is_delivered_after_restart. Qed.
Print Assumptions C03_retained_delivered_next_generation.

(* The same accounting holds at every moment of every run: the chunks in flight (queue, feeder, window,
   consumers) and the three classes partition what entered. *)
Theorem C03_accounting_always :
  forall matchf dirsize, matcher_ok matchf ->
  forall s, reachable matchf dirsize s -> st_up s = true ->
  let g := st_gh s in
  NoDup (ids (inflight s) ++ g_confirmed g ++ g_retained g ++ g_dropped g) /\
  (forall x, In x (entered g) <-> In x (ids (inflight s) ++ g_confirmed g ++ g_retained g ++ g_dropped g)).
Proof. exact accounting_lemma. Qed.
Print Assumptions C03_accounting_always.

(* FIFO.  The queue is filled with the recovered chunks in ID order (sort.Strings order of the names accepted
   by the matcher, at most Q of them) followed by the accepted, non-dropped chunks in acceptance order; the
   feeder offers a prefix of that sequence to the consumer, in that order, leaving out only what it dropped and
   counted (unreadable or empty files); every offered chunk carries, byte for byte, the content that entered
   under its ID; what the consumers receive is an order-preserving selection of what was offered. *)
Theorem C03_fifo :
  forall matchf dirsize, matcher_ok matchf ->
  forall s, reachable matchf dirsize s -> st_up s = true ->
  let g := st_gh s in
  g_rec g = ids (firstn (st_Q s) (scan matchf (st_dirok s) (g_init g))) /\
  StronglySorted name_lt (g_rec g) /\
  (exists rest, g_rec g ++ enq_ids g = map fst (g_proc g) ++ rest) /\
  ids (g_offered g) = offered_ids g /\
  (forall c, In c (g_offered g) -> exists d, c_data c = Some d /\ is_orig g (c_id c) (EFile d)) /\
  subseq (taken g) (g_offered g).
Proof. exact fifo_lemma. Qed.
Print Assumptions C03_fifo.

(* ... and while the feeder is in its main loop nothing is skipped: what has not been dealt with yet is exactly
   the chunk in the feeder's hand followed by the queue. *)
Theorem C03_fifo_no_gap :
  forall matchf dirsize, matcher_ok matchf ->
  forall s, reachable matchf dirsize s -> st_up s = true -> main_loop (st_fpc s) = true ->
  let g := st_gh s in
  g_rec g ++ enq_ids g = map fst (g_proc g) ++ feeder_ids (st_fpc s) ++ ids (st_queue s).
Proof. exact fifo_no_gap_lemma. Qed.
Print Assumptions C03_fifo_no_gap.

(* Accept never blocks: it is one step that is enabled in every state of a running, not yet destroyed buffer,
   whatever the consumer does (stalled, stopped), however full queue and window are, for every outcome of the
   file write. *)
Theorem C03_accept_nonblocking :
  forall matchf dirsize s id data ws,
  st_up s = true -> st_closed s = false -> fresh matchf id s = true ->
  exists s', step matchf dirsize s (EAccept id data ws) = Some s'.
Proof. exact accept_nonblocking_lemma. Qed.
Print Assumptions C03_accept_nonblocking.

(* The in-memory window never holds more than M chunks, the queue never more than Q. *)
Theorem C03_window_bound :
  forall matchf dirsize, matcher_ok matchf ->
  forall s, reachable matchf dirsize s -> st_up s = true ->
  (length (st_win s) <= st_M s)%nat /\ (length (st_queue s) <= st_Q s)%nat.
Proof. exact window_bound_lemma. Qed.
Print Assumptions C03_window_bound.

(* A chunk accepted while at least M/2 window slots are in use is queued unloaded (bytes on disk, not in
   memory) or dropped and counted (or the process was killed in the write). *)
Theorem C03_spill_rule :
  forall matchf dirsize s id data ws s',
  step matchf dirsize s (EAccept id data ws) = Some s' ->
  (st_M s / 2 <= length (st_win s))%nat ->
  st_up s' = false \/
  st_queue s' = st_queue s ++ [{| c_id := id; c_data := None; c_saved := true |}] \/
  (st_queue s' = st_queue s /\ g_dropped (st_gh s') = g_dropped (st_gh s) ++ [id]).
Proof. exact spill_rule_lemma. Qed.
Print Assumptions C03_spill_rule.

(* PARTIAL.  "Only a fixed number of chunks stay in memory": what is proved is the bound by the capacities,
   Q + M + 2 loaded chunks inside the buffer.  A bound by the window size M alone does NOT hold: Accept reads
   the window length ("delayed and inaccurate", defs/params.go) and, as long as it is below M/2, queues the
   chunk loaded - if the feeder goroutine does not get to run, the queue fills with loaded chunks
   (C03_memory_exceeds_window_witness).  With the production values this is 500000, not 500. *)
Theorem C03_memory_bound_partial :
  forall matchf dirsize, matcher_ok matchf ->
  forall s, reachable matchf dirsize s -> st_up s = true ->
  (loaded_in_buffer s <= st_Q s + st_M s + 2)%nat.
Proof. exact memory_bound_lemma. Qed.
Print Assumptions C03_memory_bound_partial.

Theorem C03_memory_exceeds_window_witness :
  exists s, run match_ff 4096 (init []) starved_run = Some s /\ st_M s = 4%nat /\ st_win s = [] /\
            loaded_in_buffer s = 6%nat.
Proof. exact ex_memory_witness. Qed.
Print Assumptions C03_memory_exceeds_window_witness.

(* Space.  The persistent byte gauge equals the total size of the files the queue owns (files of dropped
   chunks that stay on disk included); that total never exceeds max(size found at start-up, configured limit)
   plus g_maxfw, the size of the largest chunk the feeder was writing during saveEverything (its space check
   and its write are separate steps; a hand-back saved in between is the "chunk being saved concurrently at
   shutdown").  g_maxfw = 0 as long as no such write was in flight. *)
Theorem C03_space_bound :
  forall matchf dirsize, matcher_ok matchf ->
  forall s, reachable matchf dirsize s -> st_up s = true ->
  let g := st_gh s in
  m_pbytes (st_met s) = owned_sum dirsize (st_dir s) (entered g) /\
  (owned_sum dirsize (st_dir s) (entered g) <= Z.max (g_initbytes g) (st_max s) + g_maxfw g)%Z /\
  (0 <= g_maxfw g)%Z.
Proof. exact space_bound_lemma. Qed.
Print Assumptions C03_space_bound.

(* The replayer used by the correspondence check is sound: when it accepts an observed operation list, there
   is a run of the LTS whose visible events are exactly the events those operations stand for ("hold" = a FIFO
   planted + Restart, with the feeder not scheduled past its first load; "release" = no event) and which ends in
   the state whose projection is compared with the implementation's. *)
Theorem C03_accept_sound :
  forall matchf dirsize ops i hold s h s' h',
  replay matchf dirsize i ops hold s h = inl (s', h') ->
  exists evs, run matchf dirsize s evs = Some s' /\ visible evs = ops_events ops.
Proof. exact accept_sound_lemma. Qed.
Print Assumptions C03_accept_sound.

(* The matcher of the fluentd-forward output, strings.HasSuffix(id, ".ff"), meets the hypothesis. *)
Theorem C03_matcher_ff_ok : matcher_ok match_ff.
Proof. exact match_ff_ok. Qed.
Print Assumptions C03_matcher_ff_ok.

(* Non-vacuity: a reachable, settled state in which all three classes are inhabited (one chunk confirmed, two
   retained - one spilled at Accept, one handed back at shutdown - two dropped for lack of queue room / space). *)
Theorem C03_example :
  exists s, ex_final = Some s /\ reachable match_ff 4096 s /\ settled s /\
    g_confirmed (st_gh s) = [n_a] /\ g_retained (st_gh s) = [n_b; n_c] /\ g_dropped (st_gh s) = [n_d; n_e] /\
    st_dir s = [(n_b, EFile [4; 5; 6; 7; 8]); (n_c, EFile [9; 9; 9; 9; 9; 9])] /\
    map c_id (taken (st_gh s)) = [n_a; n_b].
Proof. exact ex_conservation. Qed.
Print Assumptions C03_example.

(* ---------- the order the consumer sees, and the start-up as steps (Model/BufferStart.v) ---------- *)

(* The consumer-visible form of FIFO: the IDs of the chunks the consumers have received, in the order received, are
   an order-preserving selection of "the recovered chunks in ID (= creation) order, then the accepted and enqueued
   chunks in acceptance order" - no chunk is ever received before one that precedes it in that sequence. *)
Theorem C03_consumer_order :
  forall matchf dirsize, matcher_ok matchf ->
  forall s, reachable matchf dirsize s -> st_up s = true ->
  let g := st_gh s in
  subseq (ids (taken g)) (g_rec g ++ enq_ids g) /\ StronglySorted name_lt (g_rec g).
Proof. exact consumer_order_lemma. Qed.
Print Assumptions C03_consumer_order.

(* ... and once the consumers have received as many chunks as were recovered and enqueued, the order received IS
   that sequence: it does not depend on the schedule. *)
Theorem C03_order_determined :
  forall matchf dirsize, matcher_ok matchf ->
  forall s, reachable matchf dirsize s -> st_up s = true ->
  let g := st_gh s in
  length (taken g) = length (g_rec g ++ enq_ids g) ->
  ids (taken g) = g_rec g ++ enq_ids g.
Proof. exact order_determined_lemma. Qed.
Print Assumptions C03_order_determined.

(* START-UP AS STEPS.  bufferer.Start is not atomic: ScanChunks, one iteration of RECOVERY_LOOP per chunk file,
   "go feeder.Run()", return - with the feeder goroutine starting to run at some later moment and the caller's
   Accept / RegisterNewConsumer / Destroy possible as soon as Start has returned.  For the order of the code
   (RecoverThenReturn: the loop runs inside Start) EVERY run of the stepwise model - any interleaving of those
   steps with all the events of the buffer, any number of generations - that is not inside a recovery loop ends in
   exactly the state the atomic model (one ERestart per start-up) reaches on the same events: the abstraction
   used by all theorems above is sound for the code as it is. *)
Theorem C03_startup_refines_atomic :
  forall matchf dirsize d evs ss,
  srun matchf dirsize RecoverThenReturn (sinit d) evs = Some ss -> ph_pending (ss_ph ss) = None ->
  run matchf dirsize (init d) (collapse_all evs) = Some (ss_b ss).
Proof. exact startup_refines_atomic. Qed.
Print Assumptions C03_startup_refines_atomic.

(* While the recovery loop runs (order of the code): Start has not returned, the feeder goroutine does not run,
   nothing has been accepted, the window is empty; the queue holds exactly the chunks enqueued so far, which with
   the chunks the loop still has to go through make up the sorted scan of the directory. *)
Theorem C03_startup_during_recovery :
  forall matchf dirsize d evs ss pending,
  srun matchf dirsize RecoverThenReturn (sinit d) evs = Some ss -> ph_pending (ss_ph ss) = Some pending ->
  let b := ss_b ss in
  ph_returned (ss_ph ss) = false /\ ph_feeder (ss_ph ss) = false /\
  g_acc (st_gh b) = [] /\ st_win b = [] /\ st_fpc b = FRecv /\
  scan matchf (st_dirok b) (g_init (st_gh b)) = st_queue b ++ pending /\
  g_rec (st_gh b) = ids (st_queue b) /\ (length (st_queue b) <= st_Q b)%nat.
Proof. exact startup_during_recovery. Qed.
Print Assumptions C03_startup_during_recovery.

(* FIFO across the start-up, for all interleavings of the stepwise model in the order of the code: the recovered
   chunks are the first Q of the sorted scan; whatever the consumers have received is an order-preserving selection
   of recovered-in-creation-order ++ accepted-in-acceptance-order; when everything has been received it is that
   sequence. *)
Theorem C03_startup_fifo :
  forall matchf dirsize, matcher_ok matchf ->
  forall d evs ss, dir_sorted d ->
  srun matchf dirsize RecoverThenReturn (sinit d) evs = Some ss -> ph_pending (ss_ph ss) = None ->
  st_up (ss_b ss) = true ->
  let g := st_gh (ss_b ss) in
  g_rec g = ids (firstn (st_Q (ss_b ss)) (scan matchf (st_dirok (ss_b ss)) (g_init g))) /\
  StronglySorted name_lt (g_rec g) /\
  subseq (ids (taken g)) (g_rec g ++ enq_ids g) /\
  (length (taken g) = length (g_rec g ++ enq_ids g) -> ids (taken g) = g_rec g ++ enq_ids g).
Proof. exact startup_fifo. Qed.
Print Assumptions C03_startup_fifo.

(* The VARIANT "Start lists the directory and returns; a background goroutine enqueues the recovered chunks and then
   runs the feeder" (ReturnThenRecover) violates it: one chunk file a.ff on disk, b.ff accepted right after Start
   returned and before the background goroutine enqueued a.ff - the consumer receives b.ff, then a.ff. *)
Theorem C03_startup_async_variant_refuted :
  exists ss, srun match_ff 4096 ReturnThenRecover (sinit v_dir) v_run = Some ss /\
    ph_pending (ss_ph ss) = None /\ st_up (ss_b ss) = true /\
    g_rec (st_gh (ss_b ss)) = [v_a] /\ enq_ids (st_gh (ss_b ss)) = [v_b] /\
    ids (taken (st_gh (ss_b ss))) = [v_b; v_a] /\
    ~ subseq (ids (taken (st_gh (ss_b ss)))) (g_rec (st_gh (ss_b ss)) ++ enq_ids (st_gh (ss_b ss))).
Proof. exact startup_async_refuted. Qed.
Print Assumptions C03_startup_async_variant_refuted.

(* Non-vacuity (evaluation of the model on literals): in the order of the code that event list is not a run (Start
   cannot return inside the loop); with the loop first the consumer receives a.ff then b.ff, byte for byte, whether
   the feeder goroutine starts before or after the Accept. *)
Theorem C03_startup_example :
  srun match_ff 4096 RecoverThenReturn (sinit v_dir) v_run = None /\
  forall ff, exists ss, srun match_ff 4096 RecoverThenReturn (sinit v_dir) (c_run ff) = Some ss /\
    ph_pending (ss_ph ss) = None /\ st_up (ss_b ss) = true /\
    ids (taken (st_gh (ss_b ss))) = [v_a; v_b] /\
    map (fun c => c_data c) (taken (st_gh (ss_b ss))) = [Some [1; 2; 3]; Some [7; 8]].
Proof. exact startup_example. Qed.
Print Assumptions C03_startup_example.
