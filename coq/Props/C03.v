From SV Require Import Model.Common Model.FileWrite Model.Buffer.
Theorem C03_placeholder : True.
Proof. exact I. Qed.
Print Assumptions C03_placeholder.
