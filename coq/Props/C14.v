(* C14 - Email redaction is complete and touches nothing else.
   Only the property theorems; each is closed by [exact] of a lemma from Proofs/RedactProofs.v.

   [redact_email t] is the model of redactEmail (redactEmailFindFirst + redactEmail1) returning the new
   text and the list of redacted spans; [transform_redact] the model of the transform's Transform.
   [email_at t s a e] (Spec/RedactSpec.v): the text decomposes as  pre ++ local ++ "@" ++ domain ++ post
   with an address of the supported shape at [s,e), its '@' at a.  All theorems are for every text,
   of any length. *)
From SV Require Import Model.Common Model.Redact Spec.RedactSpec Proofs.RedactProofs.
From SV Require Import Model.RedactBounded Proofs.RedactBoundedProofs.
From SV Require Model.GoSem Gen.C14Gen Proofs.C14GenEquiv.
Local Open Scope nat_scope.

(* The redaction never panics (no index or slice out of range) and its loops terminate within their fuel. *)
Theorem C14_never_panics :
  forall t : bytes, exists out spans, redact_email t = Ok (out, spans).
Proof. exact redact_email_total. Qed.
Print Assumptions C14_never_panics.

(* Structure: the spans are non-empty, increasing and disjoint, inside the text, and the output is the
   text with exactly these spans replaced by "REDACTED":  t[0..s1) ++ REDACTED ++ t[e1..s2) ++ ... *)
Theorem C14_structure :
  forall t out spans, redact_email t = Ok (out, spans) ->
  spans_ordered 0 spans (length t) /\ out = splice t 0 spans.
Proof. exact structure_lemma. Qed.
Print Assumptions C14_structure.

(* ... hence every byte outside the spans is preserved: position i of the source is found, unchanged,
   at position [out_index 0 spans i] of the output. *)
Theorem C14_outside_preserved :
  forall t out spans i, redact_email t = Ok (out, spans) ->
  ~ covered spans i -> nth_error out (out_index 0 spans i) = nth_error t i.
Proof. exact outside_preserved_lemma. Qed.
Print Assumptions C14_outside_preserved.

(* ... in the same order, and nothing else is added or removed: the length of the output is the length of
   the text minus the bytes inside the spans plus 8 per span. *)
Theorem C14_order_and_length :
  forall t out spans, redact_email t = Ok (out, spans) ->
  length out + span_bytes spans = length t + 8 * length spans /\
  forall i j, i < j -> ~ covered spans i -> ~ covered spans j -> out_index 0 spans i < out_index 0 spans j.
Proof. exact order_and_length_lemma. Qed.
Print Assumptions C14_order_and_length.

(* Completeness: every occurrence of an address - wherever it sits, whatever surrounds it, overlapping or
   back to back with others, with a domain cut by the end of the text - lies inside the union of the spans. *)
Theorem C14_complete :
  forall t out spans s a e, redact_email t = Ok (out, spans) ->
  email_at t s a e -> forall i, s <= i < e -> covered spans i.
Proof. exact complete_lemma. Qed.
Print Assumptions C14_complete.

(* The same with "not purely numeric" read most literally (some character of the domain is neither a
   digit nor a dot): such addresses are a subset of [email_at]. *)
Theorem C14_complete_literal :
  forall t out spans s a e, redact_email t = Ok (out, spans) ->
  email_at_literal t s a e -> forall i, s <= i < e -> covered spans i.
Proof. exact complete_literal_lemma. Qed.
Print Assumptions C14_complete_literal.

(* Soundness: every span is an address of the supported shape around one '@', ending where the address
   ends and starting where it starts or - for addresses that overlap the previous one - at the end of
   the previous span. *)
Theorem C14_sound :
  forall t out spans es ee, redact_email t = Ok (out, spans) -> In (es, ee) spans ->
  exists s a, s <= es /\ es <= a /\ a < ee /\ email_at t s a ee.
Proof. exact sound_lemma. Qed.
Print Assumptions C14_sound.

(* A span consists of address characters and '@' only, all ASCII: whatever surrounds an address -
   multi-byte characters, escape sequences, stray '@' signs - is outside every span, and no multi-byte
   character is ever cut. *)
Theorem C14_spans_are_ascii :
  forall t out spans es ee i, redact_email t = Ok (out, spans) -> In (es, ee) spans -> es <= i < ee ->
  exists c, nth_error t i = Some c /\ (addr_ch c \/ c = 64%N) /\ (c < 128)%N.
Proof. exact span_chars_lemma. Qed.
Print Assumptions C14_spans_are_ascii.

(* The specification is unambiguous: an '@' belongs to at most one address. *)
Theorem C14_spec_deterministic :
  forall t s a e s' e', email_at t s a e -> email_at t s' a e' -> s = s' /\ e = e'.
Proof. exact email_at_deterministic. Qed.
Print Assumptions C14_spec_deterministic.

(* Text containing no address is unchanged. *)
Theorem C14_no_address_unchanged :
  forall t, no_email t -> redact_email t = Ok (t, []).
Proof. exact no_email_unchanged_lemma. Qed.
Print Assumptions C14_no_address_unchanged.

(* Something is redacted exactly when the text contains an address. *)
Theorem C14_redacts_iff_address :
  forall t out spans, redact_email t = Ok (out, spans) ->
  (spans <> [] <-> exists s a e, email_at t s a e).
Proof. exact changed_iff_email_lemma. Qed.
Print Assumptions C14_redacts_iff_address.

(* The transform (field value of any length, the empty one included): it never panics, the new field
   value is the old one with the spans replaced, the spans cover every address and are addresses, and
   the 'redacted' counter is advanced exactly when the field contains an address; otherwise the field
   is left as it was. *)
Theorem C14_transform :
  forall v, exists r, transform_redact v = Ok r /\
    spans_ordered 0 (tr_spans r) (length v) /\
    tr_value r = splice v 0 (tr_spans r) /\
    (forall s a e, email_at v s a e -> forall i, s <= i < e -> covered (tr_spans r) i) /\
    (forall es ee, In (es, ee) (tr_spans r) -> exists s a, s <= es /\ es <= a /\ a < ee /\ email_at v s a ee) /\
    (tr_counted r = true <-> exists s a e, email_at v s a e) /\
    (tr_counted r = false -> tr_value r = v).
Proof. exact transform_lemma. Qed.
Print Assumptions C14_transform.

(* Non-vacuity: "a@b.c@d.e" contains the two overlapping addresses a@b.c = [0,5) and b.c@d.e = [2,9);
   the model makes the spans [0,5) and [5,9) - the second cut at the end of the first - and the output
   is "REDACTEDREDACTED".  "bob@163.com_2024" (digits at both ends of the domain: the address that
   survived before the fix) is an address and is redacted. *)
Theorem C14_example :
  email_at ex_overlap 0 1 5 /\ email_at ex_overlap 2 5 9 /\
  redact_email ex_overlap = Ok (marker ++ marker, [(0, 5); (5, 9)]) /\
  email_at ex_digit_ends 0 3 16 /\ redact_email ex_digit_ends = Ok (marker, [(0, 16)]).
Proof.
  exact (conj ex_overlap_first (conj ex_overlap_second (conj ex_overlap_result
        (conj ex_digit_ends_email ex_digit_ends_result)))).
Qed.
Print Assumptions C14_example.

(* ---- No bound on the local part (follow-up: wave-4 miss seeded/C14/8).  [C14_complete] above is for texts and
   addresses of any length; the statements below make the dependence on the UNBOUNDED backward scan visible.
   [redact_email_v fs] (Model/RedactBounded.v) is the redaction loop over a parametric start scan [fs];
   [find_start_capped cap] the scan that gives up after [cap] address characters (the seeded change, cap = 64);
   [long_local n] = n+1 letters 'a' followed by "@b.c" (the harness family long-local-sweep). ---- *)

(* the parametric loop instantiated with the model's scan is the model, on every text *)
Theorem C14_parametric_scan_is_model :
  forall t : bytes, redact_email_v find_start t = redact_email t.
Proof. exact redact_email_v_faithful. Qed.
Print Assumptions C14_parametric_scan_is_model.

(* a local part of ANY length makes an address of the specification ... *)
Theorem C14_long_local_is_address :
  forall n : nat, email_at (long_local n) 0 (S n) (n + 5).
Proof. exact long_local_email_at. Qed.
Print Assumptions C14_long_local_is_address.

(* ... and the model redacts all of it, whatever the length *)
Theorem C14_long_local_redacted :
  forall n : nat, exists out spans,
    redact_email (long_local n) = Ok (out, spans) /\ forall i, i < n + 5 -> covered spans i.
Proof. exact long_local_covered. Qed.
Print Assumptions C14_long_local_redacted.

(* the model's scan walks back over a local part of any length; the capped scan does the same up to the cap and
   rejects the candidate ("not email") for EVERY longer local part - for all caps and lengths *)
Theorem C14_scan_unbounded_vs_capped :
  forall (cap n : nat) (rest : bytes),
    find_start (repeat 97%N n ++ 64%N :: rest) n 0 = Ok (Some 0) /\
    (n <= cap -> find_start_capped cap (repeat 97%N n ++ 64%N :: rest) n 0 = Ok (Some 0)) /\
    (cap < n -> find_start_capped cap (repeat 97%N n ++ 64%N :: rest) n 0 = Ok None).
Proof.
  exact (fun cap n rest => conj (find_start_any_length n rest)
          (conj (find_start_capped_within cap n rest) (find_start_capped_gives_up cap n rest))).
Qed.
Print Assumptions C14_scan_unbounded_vs_capped.

(* The seeded variant violates completeness: with the scan capped at 64 the address of 65 letters + "@b.c"
   (an address: C14_long_local_is_address) comes back unchanged, no span, its first byte uncovered.
   Witness by computation; 64 letters are still redacted by the variant, 65 by the model. *)
Theorem C14_bounded_scan_variant_refuted :
  exists t s a e, email_at t s a e /\
    exists out spans, redact_email_v (find_start_capped 64) t = Ok (out, spans) /\ out = t /\ ~ covered spans s.
Proof. exact bounded_scan_variant_refuted. Qed.
Print Assumptions C14_bounded_scan_variant_refuted.

Theorem C14_bounded_scan_variant_example :
  redact_email_v (find_start_capped 64) (long_local 64) = Ok (long_local 64, []) /\
  redact_email (long_local 64) = Ok (marker, [(0, 69)]) /\
  redact_email_v (find_start_capped 64) (long_local 63) = Ok (marker, [(0, 68)]).
Proof. exact bounded_scan_variant_witness. Qed.
Print Assumptions C14_bounded_scan_variant_example.

(* ---- The tie to the SOURCE: Gen/C14Gen.v is regenerated by tools/go2coq from
   transform/tredactemail/redactemail.go on every check (all seven functions and the two lookup tables that
   init() fills).  Proved for every input so far: the generated tables are the model's character classes, and
   the generated redactEmailCheckNumber returns what the model's check_number returns (no panic, fuel
   suffices).  A change of these parts of the Go file changes the generated term and breaks the proof.  The other
   generated functions: see below (redactEmail1 / redactEmail: self-test only so far). ---- *)
Theorem C14_generated_tables_agree :
  forall c : N, (c < 256)%N ->
    GoSem.go_index C14Gen.validWordChars (GoSem.int_of_byte c) = GoSem.GOk (is_word c) /\
    GoSem.go_index C14Gen.validAddressChars (GoSem.int_of_byte c) = GoSem.GOk (is_addr c).
Proof. exact (fun c H => conj (C14GenEquiv.word_table_gen c H) (C14GenEquiv.addr_table_gen c H)). Qed.
Print Assumptions C14_generated_tables_agree.

Theorem C14_generated_redactEmailCheckNumber_agrees :
  forall s : bytes,
    GoSem.same_result (check_number s) (C14Gen.redactEmailCheckNumber s) /\
    GoSem.is_out_of_fuel (C14Gen.redactEmailCheckNumber s) = false.
Proof. exact C14GenEquiv.check_number_gen_agrees. Qed.
Print Assumptions C14_generated_redactEmailCheckNumber_agrees.

(* ... hence the generated function itself decides exactly the documented notion of a numeric domain
   (digits at both ends, only digits and dots in between), on every byte string. *)
Theorem C14_generated_redactEmailCheckNumber_numeric :
  forall d : bytes, exists b, C14Gen.redactEmailCheckNumber d = GoSem.GOk b /\ (b = true <-> numeric d).
Proof. exact C14GenEquiv.check_number_gen_numeric. Qed.
Print Assumptions C14_generated_redactEmailCheckNumber_numeric.

(* The scanning functions.  Go's int against the model's nat / option: -1 is None ([opt_int]); the text consists
   of bytes ([bytes_ok]: every element < 256 - the lookup tables are indexed by a byte) and atIndex is a position
   in the text, as in every call.  Each generated function returns a value (no panic, fuel suffices) and it is the
   model's. *)
Theorem C14_generated_redactFindEmailStart_agrees :
  forall (t : bytes) (atIndex limitStart : nat),
    C14GenEquiv.bytes_ok t -> atIndex <= length t ->
    exists r, find_start t atIndex limitStart = Ok r /\
              C14Gen.redactFindEmailStart t (Z.of_nat atIndex) (Z.of_nat limitStart) = GoSem.GOk (C14GenEquiv.opt_int r).
Proof. exact C14GenEquiv.find_start_gen_eq. Qed.
Print Assumptions C14_generated_redactFindEmailStart_agrees.

Theorem C14_generated_redactFindEmailEnd_agrees :
  forall (t : bytes) (atIndex : nat),
    C14GenEquiv.bytes_ok t -> atIndex < length t ->
    exists r, find_end t atIndex = Ok r /\
              C14Gen.redactFindEmailEnd t (Z.of_nat atIndex) = GoSem.GOk (C14GenEquiv.opt_int r).
Proof. exact C14GenEquiv.find_end_gen_eq. Qed.
Print Assumptions C14_generated_redactFindEmailEnd_agrees.

Theorem C14_generated_redactFindEmailBoundary_agrees :
  forall (t : bytes) (atIndex limitStart : nat),
    C14GenEquiv.bytes_ok t -> atIndex < length t ->
    exists s e, find_boundary t atIndex limitStart = Ok (s, e) /\
                C14Gen.redactFindEmailBoundary t (Z.of_nat atIndex) (Z.of_nat limitStart) =
                GoSem.GOk (C14GenEquiv.opt_int s, C14GenEquiv.opt_int e).
Proof. exact C14GenEquiv.find_boundary_gen_eq. Qed.
Print Assumptions C14_generated_redactFindEmailBoundary_agrees.

Theorem C14_generated_redactEmailFindFirst_agrees :
  forall t : bytes,
    C14GenEquiv.bytes_ok t ->
    exists r, find_first t = Ok r /\ C14Gen.redactEmailFindFirst t = GoSem.GOk (C14GenEquiv.opt_int r).
Proof. exact C14GenEquiv.find_first_gen_eq. Qed.
Print Assumptions C14_generated_redactEmailFindFirst_agrees.
