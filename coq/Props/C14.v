From SV Require Import Model.Common Model.Redact.
Theorem C14_placeholder : True. Proof. exact I. Qed.
Print Assumptions C14_placeholder.
