(* C17 - Configuration reload is safe at any moment.
   Only the property theorems; each is closed by [exact] of a lemma from Proofs/.

   Model: Model/Reload.v (LTS of run/reloadable.go; [step true] is the current code, in which NewSink
   creates the downstream sink under the read lock; [step false] the code before that fix).
   A run is ANY list of events accepted by [step] from [init nthr maxn]: every interleaving of any number
   of connection goroutines (NewSink / Accept / Tick / Close, each split at the lock and at the downstream
   call) and of reload() (initiate - ok or error -, Lock, Close of every old sink, Shutdown, completeRenewal,
   NewSink for every old sink), of any length.  [grun] additionally checks the assumption reloadable.go makes
   on its callers at every NewSink: the client number is below MaxClientNumber and no other open (or
   opening) sink has it.  [lrun] is a run of the model of the TCP listener, the only caller. *)
From SV Require Import Model.Common Model.Reload Spec.ReloadSpec Proofs.ReloadLists Proofs.ReloadInv Proofs.ReloadProofs Proofs.ReloadListener Model.ReloadReplay Proofs.ReloadReplayProofs Spec.ReloadRecoverSpec Proofs.ReloadRecoverProofs.
From Coq Require Import Permutation.
Local Open Scope nat_scope.

(* A reload whose initiateReload() fails (configuration invalid or incompatible) has no effect but the
   failure counter: for every state, every code version and every traffic of the connections between the
   SIGHUP and the error, the final state is the one the same traffic produces without the reload, with
   slogagent_reloads_total{failure} + 1.  (Nothing is torn down before the new configuration is verified.) *)
Theorem C17_failed_reload_noop :
  forall (lk : bool) (st : state) (evs : list event) (st' : state),
  Forall (fun e => is_reload_event e = false) evs ->
  run lk st (ERlBegin :: evs ++ [ERlInit false]) = Some st' ->
  exists st0, run lk st evs = Some st0 /\ st' = set_fails st0 (S (st_fails st0)).
Proof. exact failed_reload_noop_lemma. Qed.
Print Assumptions C17_failed_reload_noop.

(* the failing step itself: only the counter and the position of the reload goroutine change *)
Theorem C17_failed_init_step :
  forall (lk : bool) (st st' : state),
  step lk st (ERlInit false) = Some st' ->
  st_rl st = RInit /\ st' = set_rl (set_fails st (S (st_fails st))) RIdle.
Proof. exact failed_init_step_lemma. Qed.
Print Assumptions C17_failed_init_step.

(* No record is handed to a sink that is closed or to pipelines that are shut down, none is flushed into
   pipelines that are shut down, and no goroutine panics - at every moment of every run in which client
   numbers are unique among open sinks.  No atomicity of NewSink is assumed. *)
Theorem C17_no_record_to_dead_pipeline :
  forall (nthr maxn : nat) (evs : list event) (st : state),
  grun true (init nthr maxn) evs = Some st -> log_ok (st_log st).
Proof. exact no_dead_pipeline_lemma. Qed.
Print Assumptions C17_no_record_to_dead_pipeline.

(* No loss, no duplication, at every moment: for every record, the number of times it has been delivered to
   pipelines + the number of times it sits in a downstream sink's buffer + in an Accept call in progress
   equals the number of times it was passed to ReloadableSink.Accept. *)
Theorem C17_no_loss :
  forall (nthr maxn : nat) (evs : list event) (st : state) (r : rec),
  grun true (init nthr maxn) evs = Some st ->
  cnt r (delivered_recs (st_log st)) + cnt r (buffered st) + cnt r (inflight st) = cnt r (acc_of_events evs).
Proof. exact no_loss_count_lemma. Qed.
Print Assumptions C17_no_loss.

(* ... and a buffer that holds records belongs to a sink that is open, whose pipelines are alive (the current
   downstream orchestrator, not shut down) and which the table holds for its client number - so the
   connection's Close or the next reload flushes it into live pipelines. *)
Theorem C17_buffered_records_are_live :
  forall (nthr maxn : nat) (evs : list event) (st : state) (s : nat) (d : dsink),
  grun true (init nthr maxn) evs = Some st ->
  nth_error (st_sinks st) s = Some d -> ds_pending d <> [] -> live_tracked st s d.
Proof. exact buffered_live_lemma. Qed.
Print Assumptions C17_buffered_records_are_live.

(* Once every connection has closed its sink and no reload is in progress, the delivered records are exactly
   the accepted ones (as multisets), whatever reloads happened in between. *)
Theorem C17_no_loss_when_closed :
  forall (nthr maxn : nat) (evs : list event) (st : state),
  grun true (init nthr maxn) evs = Some st -> quiescent st ->
  Permutation (acc_of_events evs) (delivered_recs (st_log st)).
Proof. exact no_loss_quiescent_lemma. Qed.
Print Assumptions C17_no_loss_when_closed.

(* exactly once, for distinct records *)
Theorem C17_exactly_once :
  forall (nthr maxn : nat) (evs : list event) (st : state) (r : rec),
  grun true (init nthr maxn) evs = Some st -> quiescent st ->
  NoDup (acc_of_events evs) -> In r (acc_of_events evs) ->
  count_occ N.eq_dec (delivered_recs (st_log st)) r = 1.
Proof. exact exactly_once_lemma. Qed.
Print Assumptions C17_exactly_once.

(* The invariant behind the three theorems above, for any state reached by a run (lock discipline, table /
   sink / generation consistency, unique owners). *)
Theorem C17_invariant :
  forall (nthr maxn : nat) (evs : list event) (st : state),
  grun true (init nthr maxn) evs = Some st -> INV st.
Proof. exact invariant_lemma. Qed.
Print Assumptions C17_invariant.

(* Non-vacuity: a concrete run of the current code meets all hypotheses - two connections with traffic,
   a successful reload that must wait for an Accept in progress, a failed reload, everything closed at
   the end; five distinct records, each delivered once. *)
Theorem C17_example :
  exists st, grun true (init 2 2) example_run = Some st /\ quiescent st /\
             NoDup (acc_of_events example_run) /\
             delivered_recs (st_log st) = [5%N; 4%N; 3%N; 2%N; 1%N] /\
             st_fails st = 1 /\ st_succs st = 1 /\ st_cur st = 1.
Proof. exact example_lemma. Qed.
Print Assumptions C17_example.

(* Defect 13 (fixed in /repo): with the ORIGINAL NewSink ([step false]: downstream sink created before
   RLock()) the property fails although client numbers are unique - a reload between downstream.NewSink
   and the lock leaves a stale sink in the table, and record 1 is handed to pipelines already shut down. *)
Theorem C17_stale_sink_refuted :
  exists st, grun false (init 1 1) stale_sink_run = Some st /\ In (OHand 0 1%N 0 0 false) (st_log st).
Proof. exact stale_sink_refuted_lemma. Qed.
Print Assumptions C17_stale_sink_refuted.

(* ... and in the current code that schedule is impossible: the reload cannot take the write lock while
   NewSink holds the read lock. *)
Theorem C17_stale_sink_excluded :
  run true (init 1 1) [ENewBegin 0 0; ERlBegin; ERlInit true; ERlLock] = None.
Proof. exact stale_sink_excluded_lemma. Qed.
Print Assumptions C17_stale_sink_excluded.

(* The assumption is met by the only caller there is: in EVERY run of the model of the TCP listener (current
   code: the descriptor is closed after the sink, no connection is served after a stop request; any number
   of connections, stop request at any moment, the kernel hands out any free descriptor number) the calls
   the listener makes on reloadable.go form a guarded run.  So the theorems above hold for the agent's
   listener + reloadable orchestrator with no hypothesis on numbering left - including the reuse of a
   client slot by a new connection. *)
Theorem C17_listener_respects_unique_numbers :
  forall (nthr maxn : nat) (levs : list levent) (ls : lstate),
  lrun true true (linit nthr maxn) levs = Some ls ->
  grun true (init nthr maxn) (api_events levs) = Some (l_st ls).
Proof. exact listener_safe_lemma. Qed.
Print Assumptions C17_listener_respects_unique_numbers.

Theorem C17_listener_no_record_to_dead_pipeline :
  forall (nthr maxn : nat) (levs : list levent) (ls : lstate),
  lrun true true (linit nthr maxn) levs = Some ls -> log_ok (st_log (l_st ls)).
Proof. exact listener_no_dead_pipeline_lemma. Qed.
Print Assumptions C17_listener_no_record_to_dead_pipeline.

Theorem C17_listener_no_loss :
  forall (nthr maxn : nat) (levs : list levent) (ls : lstate) (r : rec),
  lrun true true (linit nthr maxn) levs = Some ls ->
  cnt r (delivered_recs (st_log (l_st ls))) + cnt r (buffered (l_st ls)) + cnt r (inflight (l_st ls)) =
  cnt r (acc_of_events (api_events levs)).
Proof. exact listener_no_loss_lemma. Qed.
Print Assumptions C17_listener_no_loss.

(* Defect 14 (fixed in /repo): with the ORIGINAL listener ([lstep false]) the uniqueness of client numbers
   was violated by the listener itself.  In a run that respects the kernel's rule (a descriptor number is
   handed out only while it is free) the closer goroutine closes the descriptor before the connection
   goroutine's final Flush and deferred Close; a new connection gets the same number.  Result: panic (nil
   sink) in the new connection's Accept, record 3 lost, record 1 left in a sink that nothing will ever flush. *)
Theorem C17_slot_reuse_refuted :
  exists ls, lrun false true (linit 2 1) slot_reuse_run = Some ls /\
             In (OPanic 1 2 [3%N]) (st_log (l_st ls)) /\
             (exists d, nth_error (st_sinks (l_st ls)) 0 = Some d /\ ds_pending d = [1%N] /\ ds_closed d = false) /\
             slot (l_st ls) 0 = None /\
             ~ In 1%N (delivered_recs (st_log (l_st ls))).
Proof. exact slot_reuse_refuted_lemma. Qed.
Print Assumptions C17_slot_reuse_refuted.

(* ... and the current listener cannot close the descriptor at that point. *)
Theorem C17_slot_reuse_excluded :
  lrun true true (linit 2 1)
    [LConnOpen 0 0; LApi (ENewEnd 0); LApi (EAccBegin 0 [1%N]); LApi (EAccEnd 0); LAbort 0; LFdClosed 0] = None.
Proof. exact slot_reuse_excluded_lemma. Qed.
Print Assumptions C17_slot_reuse_excluded.

(* Nothing waits forever for the lock (no deadlock): in every reachable state a goroutine inside a downstream
   call can complete it; reload() past Lock() can take its next step; reload() at Lock() proceeds when no
   reader is left and, while readers are left, one of them can leave; when reload() does not hold the lock
   an idle open connection can start Accept / Tick / Close. *)
Theorem C17_progress :
  forall (nthr maxn : nat) (evs : list event) (st : state),
  grun true (init nthr maxn) evs = Some st ->
  (forall t c, get_thr st t = Some c -> in_lock c = true -> exists st', step true st (end_event t c) = Some st') /\
  (rl_post (st_rl st) = true -> exists st', step true st ERlStep = Some st') /\
  (st_rl st = RWantLock -> st_readers st = 0 -> exists st', step true st ERlLock = Some st') /\
  (st_rl st = RWantLock -> st_readers st <> 0 ->
     exists t c st', get_thr st t = Some c /\ in_lock c = true /\ step true st (end_event t c) = Some st') /\
  (st_writer st = false -> forall t n, get_thr st t = Some (mkThr n HOpen PIdle) ->
     (forall rs, exists st', step true st (EAccBegin t rs) = Some st') /\
     (exists st', step true st (ETickBegin t) = Some st') /\
     (exists st', step true st (ECloseBegin t) = Some st')).
Proof. exact progress_lemma. Qed.
Print Assumptions C17_progress.

(* The tie between the correspondence check and the theorems: whatever schedule the harness executes, the model
   state whose projection is compared with the real code is reached by a run of [step] - the list of events
   the driver of Model/ReloadReplay.v records.  (When the schedule respects number uniqueness that run is a
   guarded one and the theorems above apply to it.) *)
Theorem C17_replay_is_run :
  forall (lk : bool) (nthr maxn : nat) (ops : list hop),
  run lk (init nthr maxn) (rev (d_evs (replay lk nthr maxn ops))) = Some (d_st (replay lk nthr maxn ops)).
Proof. exact replay_is_run_lemma. Qed.
Print Assumptions C17_replay_is_run.

(* ---------- wave 4: recovery of the pipelines of queued chunks (Model/ReloadRecover.v) ----------
   Generations = the pipeline sets made by obykeyset.NewOrchestrator at start and by every successful reload.
   A run is ANY list of steps accepted by [rstep true] from [rinit]: NewOrchestrator entered (only after the previous
   set was shut down: reload() order), one pipeline of initialPipelineIDs re-created, NewOrchestrator returns (after
   its loop), traffic asks a live generation for a pipeline, Shutdown - any number of generations, key sets, reloads. *)

(* no pipeline of a generation is started after that generation's Shutdown returned *)
Theorem C17_recovery_no_start_after_shutdown :
  forall (evs : list ReloadRecover.revent) (st : ReloadRecover.rstate),
  ReloadRecover.rrun true ReloadRecover.rinit evs = Some st -> starts_ok (ReloadRecover.r_log st).
Proof. exact no_start_after_shutdown_lemma. Qed.
Print Assumptions C17_recovery_no_start_after_shutdown.

(* at every moment every queue dir is owned by at most one running pipeline (old and new generation never share) *)
Theorem C17_recovery_one_owner_per_queue_dir :
  forall (evs : list ReloadRecover.revent) (st : ReloadRecover.rstate),
  ReloadRecover.rrun true ReloadRecover.rinit evs = Some st -> one_owner (ReloadRecover.r_live st).
Proof. exact one_owner_lemma. Qed.
Print Assumptions C17_recovery_one_owner_per_queue_dir.

(* when every generation has been shut down (agent stop) no pipeline is running *)
Theorem C17_recovery_none_live_after_shutdown :
  forall (evs : list ReloadRecover.revent) (st : ReloadRecover.rstate),
  ReloadRecover.rrun true ReloadRecover.rinit evs = Some st -> ReloadRecover.all_shut st = true -> ReloadRecover.r_live st = [].
Proof. exact none_live_after_shutdown_lemma. Qed.
Print Assumptions C17_recovery_none_live_after_shutdown.

(* queued chunks are taken over: from the return of NewOrchestrator until Shutdown every queued key set has its
   running pipeline in that generation *)
Theorem C17_recovery_takeover_complete :
  forall (evs : list ReloadRecover.revent) (st : ReloadRecover.rstate) (g id : nat),
  ReloadRecover.rrun true ReloadRecover.rinit evs = Some st -> g < ReloadRecover.r_n st ->
  ReloadRecover.r_ret st g = true -> ReloadRecover.r_shut st g = false ->
  In id (ReloadRecover.r_ids st g) -> In (g, id) (ReloadRecover.r_live st).
Proof. exact takeover_complete_lemma. Qed.
Print Assumptions C17_recovery_takeover_complete.

(* the four statements depend on the loop running before NewOrchestrator returns: with the loop in a goroutine
   ([rstep false]) reload;shutdown starts a pipeline after its set was shut down and leaves it running after the last
   Shutdown, reload;reload puts two running pipelines on one queue dir, and a returned generation lacks pipelines *)
Theorem C17_recovery_async_variant_refuted :
  (exists st, ReloadRecover.rrun false ReloadRecover.rinit async_witness_1 = Some st /\ ~ starts_ok (ReloadRecover.r_log st) /\
              ReloadRecover.all_shut st = true /\ ReloadRecover.r_live st <> []) /\
  (exists st, ReloadRecover.rrun false ReloadRecover.rinit async_witness_2 = Some st /\ ~ one_owner (ReloadRecover.r_live st)) /\
  (exists st, ReloadRecover.rrun false ReloadRecover.rinit [ReloadRecover.RNew [1; 2]; ReloadRecover.RReturn 0] = Some st /\
              ReloadRecover.r_ret st 0 = true /\ ReloadRecover.r_shut st 0 = false /\ ~ In (0, 1) (ReloadRecover.r_live st)).
Proof. exact async_variant_refuted_lemma. Qed.
Print Assumptions C17_recovery_async_variant_refuted.

(* ... and those schedules are not runs of the code *)
Theorem C17_recovery_async_witness_excluded :
  ReloadRecover.rrun true ReloadRecover.rinit async_witness_1 = None /\ ReloadRecover.rrun true ReloadRecover.rinit async_witness_2 = None.
Proof. exact async_witness_not_a_run_lemma. Qed.
Print Assumptions C17_recovery_async_witness_excluded.

(* non-vacuity: start with two queued key sets, reload, a record of a third key set, reload, shutdown is a run; three
   generations, eight pipelines started, everything shut down *)
Theorem C17_recovery_example :
  exists st, ReloadRecover.rrun true ReloadRecover.rinit recover_example = Some st /\ ReloadRecover.all_shut st = true /\
             ReloadRecover.r_n st = 3 /\
             length (filter (fun e => match e with ReloadRecover.PStart _ _ => true | _ => false end) (ReloadRecover.r_log st)) = 8.
Proof. exact recover_example_lemma. Qed.
Print Assumptions C17_recovery_example.
