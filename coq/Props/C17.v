From SV Require Import Model.Common Model.Reload Model.ReloadReplay.
Theorem C17_placeholder : True. Proof. exact I. Qed.
Print Assumptions C17_placeholder.
