(* C11 — Chunks are complete, ordered, self-describing batches.
   Only the property theorems; each is closed by [exact] of a lemma from Proofs/.

   Model: Model/Packer.v (messagePacker + chunk factory + the two intermediateChunk types + the fields
   EncodeChunk transmits) and Model/ChunkId.v (chunkIDGenerator).  Records are of an abstract type R with a
   length [rlen]; gzip and the msgpack wrapper are section variables (oracles) with their round-trip
   property as explicit hypotheses; the wall clock is an input of every Write op. *)
From SV Require Import Model.Common Model.ChunkId Model.Packer Spec.ChunkSpec
                       Proofs.ChunkIdProofs Proofs.PackerProofs Proofs.FeedProofs.
From Coq Require Import Sorted.
Open Scope Z_scope.

(* 1. conservation_order.  For EVERY list of ops (Write now r | Flush), every configuration (three Forward
   modes, Datadog, any limits): the records of the emitted chunks, concatenated in emission order, followed
   by the records still buffered, are exactly the written records in order (nothing lost, duplicated or
   reordered, at roll-over or at flush); and every emitted chunk is non-empty, its body is exactly the
   canonical rendering of its records (records back to back / JSON array with "[" "," "]"), its count field
   equals the number of its records, option.chunk equals the storage name, tag and mode flags as configured. *)
Theorem C11_conservation_order :
  forall (R : Type) (rlen : R -> Z) (cfg : config) (ops : list (op R)),
  let (st', em) := run R rlen cfg pstate_init ops in
  concat (map e_records em) ++ cur_records st' = written_of ops /\
  Forall (fun e => chunk_holds cfg e (e_records e)) em.
Proof. exact conservation_order_lemma. Qed.
Print Assumptions C11_conservation_order.

(* 1b. After a flush nothing is buffered: all records written so far are in the emitted chunks. *)
Theorem C11_flush_completes :
  forall (R : Type) (rlen : R -> Z) (cfg : config) (ops : list (op R)),
  let (st', em) := run R rlen cfg pstate_init (ops ++ [OFlush]) in
  pk_cur st' = None /\ concat (map e_records em) = written_of ops.
Proof. exact flush_completes_lemma. Qed.
Print Assumptions C11_flush_completes.

(* 2. limits.  Every emitted chunk has at most maxRecords records (when the limit is > 0) and an uncompressed
   body of at most maxBytes (when > 0) unless it holds a single record.  [pieces_len] counts the records'
   lengths plus one byte for each of "[" "," "]" (Datadog). *)
Theorem C11_limits :
  forall (R : Type) (rlen : R -> Z) (cfg : config) (ops : list (op R)),
  let (st', em) := run R rlen cfg pstate_init ops in
  Forall (fun e => let g := e_records e in
                   (cf_max_records cfg > 0 -> Z.of_nat (length g) <= cf_max_records cfg) /\
                   (cf_max_bytes cfg > 0 -> pieces_len R rlen (e_body e) <= cf_max_bytes cfg \/ length g = 1%nat)) em.
Proof. exact limits_lemma. Qed.
Print Assumptions C11_limits.

(* 2b. the same bound on the real uncompressed bytes, for any serialization whose length is [rlen] *)
Theorem C11_limits_bytes :
  forall (R : Type) (rlen : R -> Z) (rbytes : R -> bytes),
  (forall r, rlen r = Z.of_nat (length (rbytes r))) ->
  forall (cfg : config) (ops : list (op R)),
  let (st', em) := run R rlen cfg pstate_init ops in
  Forall (fun e => cf_max_bytes cfg > 0 ->
                   Z.of_nat (length (render R rbytes (e_body e))) <= cf_max_bytes cfg \/
                   length (e_records e) = 1%nat) em.
Proof. exact limits_bytes_lemma. Qed.
Print Assumptions C11_limits_bytes.

(* 2b'. the byte counter handed to the encoder (encodeChunkParams.NumBytes, not transmitted): the exact body size
   in the Forward modes; for Datadog one more than the body "[r1,...,rn]" (the first record is counted with a
   comma it does not have) - the limit check nevertheless bounds the real body, see C11_limits. *)
Theorem C11_num_bytes_accounting :
  forall (R : Type) (rlen : R -> Z) (cfg : config) (ops : list (op R)),
  let (st', em) := run R rlen cfg pstate_init ops in
  Forall (fun e => e_num_bytes e =
                   match cf_kind cfg with
                   | KForward => body_size R rlen KForward (e_records e)
                   | KDatadog => body_size R rlen KDatadog (e_records e) + 1
                   end) em.
Proof. exact num_bytes_lemma. Qed.
Print Assumptions C11_num_bytes_accounting.

(* 2c. roll-over exactly before the record that does not fit: in every reachable state, WriteStream emits a
   chunk iff something is buffered and the buffer plus the new record would exceed a limit ([fits] is the
   specification's notion, over the specified body size); the emitted chunk is the whole buffer and the new
   record starts the next chunk; otherwise the record is appended. *)
Theorem C11_rollover_exactly_when_full :
  forall (R : Type) (rlen : R -> Z) (cfg : config) (ops : list (op R)) (now : Z) (r : R),
  let (st, _) := run R rlen cfg pstate_init ops in
  let (st', out) := write_stream R rlen cfg now st r in
  (out = None <-> (cur_records st = [] \/ fits R rlen cfg (cur_records st ++ [r]))) /\
  (forall e, out = Some e -> e_records e = cur_records st /\ cur_records st' = [r]) /\
  (out = None -> cur_records st' = cur_records st ++ [r]).
Proof. exact rollover_lemma. Qed.
Print Assumptions C11_rollover_exactly_when_full.

(* 2d. FlushBuffer emits iff something is buffered, emits all of it, and leaves nothing. *)
Theorem C11_flush_emits_iff_buffered :
  forall (R : Type) (rlen : R -> Z) (cfg : config) (ops : list (op R)),
  let (st, _) := run R rlen cfg pstate_init ops in
  let (st', out) := flush_buffer R cfg st in
  pk_cur st' = None /\ (out = None <-> cur_records st = []) /\
  match out with Some e => e_records e | None => [] end = cur_records st.
Proof. exact flush_lemma. Qed.
Print Assumptions C11_flush_emits_iff_buffered.

(* 3a. THE general lemma: fixed-width decimal formatting is order-preserving (and reflecting): on numbers
   below 10^w the byte-wise order of the w-digit strings is the order of the numbers; and the digits denote
   the number. *)
Theorem C11_fixed_width_order :
  forall (w : nat) (n m : N),
  (n < 10 ^ N.of_nat w)%N -> (m < 10 ^ N.of_nat w)%N ->
  (lex_lt (fixed_dec w n) (fixed_dec w m) <-> (n < m)%N).
Proof. exact fixed_dec_lt_iff. Qed.
Print Assumptions C11_fixed_width_order.

Theorem C11_fixed_width_value :
  forall (w : nat) (n : N), (n < 10 ^ N.of_nat w)%N ->
  length (fixed_dec w n) = w /\ dec_value (fixed_dec w n) = Some n.
Proof. exact fixed_width_value_lemma. Qed.
Print Assumptions C11_fixed_width_value.

(* 3b. the id format "%019d-%08d"+suffix: byte-wise order of ids = lexicographic order of (time, sequence),
   for 0 <= time < 10^19 and 0 <= sequence < 10^8; and the id has the documented shape *)
Theorem C11_id_format_order :
  forall (suffix : bytes) (t1 s1 t2 s2 : Z),
  0 <= t1 < 10 ^ 19 -> 0 <= s1 < 10 ^ 8 -> 0 <= t2 < 10 ^ 19 -> 0 <= s2 < 10 ^ 8 ->
  (lex_lt (format_id suffix (t1, s1)) (format_id suffix (t2, s2)) <-> (t1 < t2 \/ (t1 = t2 /\ s1 < s2))) /\
  id_shape_ok suffix (format_id suffix (t1, s1)) = true.
Proof. exact id_format_order_lemma. Qed.
Print Assumptions C11_id_format_order.

(* 3c. ids_unique_ordered (generator): under clock readings that never go back (each >= the previous one,
   the first >= 0), all < 10^19, and as long as the sequence numbers stay within 8 digits, the ids are
   strictly increasing as byte strings in generation order - hence pairwise distinct. *)
Theorem C11_ids_unique_ordered :
  forall (suffix : bytes) (nows : list Z),
  nondecreasing 0 nows ->
  Forall (fun t => t < 10 ^ 19) nows ->
  Forall (fun p => 0 <= snd p < 10 ^ 8) (gen_pairs idgen_init nows) ->
  StronglySorted lex_lt (gen_ids suffix idgen_init nows) /\ NoDup (gen_ids suffix idgen_init nows).
Proof. exact ids_unique_ordered_lemma. Qed.
Print Assumptions C11_ids_unique_ordered.

(* ... in particular for fewer than 10^8 ids (a condition on the inputs only), where moreover
   "id i sorts before id j" is equivalent to "i was generated before j" *)
Theorem C11_ids_order_is_generation_order :
  forall (suffix : bytes) (nows : list Z) (i j : nat),
  nondecreasing 0 nows ->
  Forall (fun t => t < 10 ^ 19) nows ->
  Z.of_nat (length nows) < 10 ^ 8 ->
  (i < length nows)%nat -> (j < length nows)%nat ->
  (lex_lt (nth i (gen_ids suffix idgen_init nows) []) (nth j (gen_ids suffix idgen_init nows) []) <-> (i < j)%nat).
Proof. exact ids_order_is_generation_order_lemma. Qed.
Print Assumptions C11_ids_order_is_generation_order.

(* 3d. the same for the chunks of a packer run: the ids of the emitted chunks, followed by the id of the chunk
   being filled, are strictly increasing byte strings (emission order = string order), pairwise distinct and
   of the documented shape. *)
Theorem C11_packer_ids_unique_ordered :
  forall (R : Type) (rlen : R -> Z) (cfg : config) (ops : list (op R)),
  nondecreasing 0 (nows_of ops) ->
  Forall (fun t => t < 10 ^ 19) (nows_of ops) ->
  Z.of_nat (length ops) < 10 ^ 8 ->
  let (st', em) := run R rlen cfg pstate_init ops in
  StronglySorted lex_lt (map e_id em ++ cur_ids st') /\
  NoDup (map e_id em ++ cur_ids st') /\
  Forall (fun id => id_shape_ok (cf_suffix cfg) id = true) (map e_id em ++ cur_ids st').
Proof. exact packer_ids_lemma. Qed.
Print Assumptions C11_packer_ids_unique_ordered.

(* 3d'. the 8-digit bound on the sequence number is needed for the ORDER: with sequence 10^8 (nine digits) the id
   sorts before the id with sequence 10^8 - 1 generated earlier at the same reading. *)
Theorem C11_sequence_width_refuted :
  exists t s1 s2 : Z, (0 <= t < 10 ^ 19 /\ 0 <= s1 < s2 /\ s2 = 10 ^ 8) /\
    ~ lex_lt (format_id suffix_ff (t, s1)) (format_id suffix_ff (t, s2)) /\
    lex_lt (format_id suffix_ff (t, s2)) (format_id suffix_ff (t, s1)).
Proof. exact sequence_width_refuted_lemma. Qed.
Print Assumptions C11_sequence_width_refuted.

(* 3e. clock_backwards_refuted: the monotone-clock hypothesis is needed.  Readings 100, 100, 101, 100 (all
   valid, but the last one steps back) make the generator return the id 100-00000001 twice.  The wall clock
   (time.Now().UnixNano()) is therefore an ASSUMPTION of C11, listed in the trusted base; it cannot be
   replayed on the real code without a clock hook. *)
Theorem C11_clock_backwards_refuted :
  exists nows : list Z,
  ~ nondecreasing 0 nows /\ Forall (fun t => 0 <= t < 10 ^ 19) nows /\
  ~ NoDup (gen_ids suffix_ff idgen_init nows).
Proof. exact clock_backwards_refuted_lemma. Qed.
Print Assumptions C11_clock_backwards_refuted.

(* 4. self-describing.  If gunzip inverts gzip and the msgpack decoder inverts EncodeChunk's wrapper (the two
   library assumptions), every emitted chunk's data decodes to: the pipeline's tag, the mode, a count equal
   to the number of its records, the chunk id equal to its storage name, the compressed flag, and a payload
   that is the concatenation of its records (Forward modes) / the JSON array of its records (Datadog). *)
Theorem C11_chunks_decode :
  forall (R : Type) (rlen : R -> Z) (rbytes : R -> bytes)
         (gz gunz : bytes -> bytes)
         (mp_wrap : bytes -> bool -> Z -> bytes -> bool -> bytes -> bytes)
         (mp_unwrap : bytes -> option (bytes * bool * Z * bytes * bool * bytes)),
  (forall b, gunz (gz b) = b) ->
  (forall tag arr n id c d, mp_unwrap (mp_wrap tag arr n id c d) = Some (tag, arr, n, id, c, d)) ->
  forall (cfg : config) (ops : list (op R)),
  let (st', em) := run R rlen cfg pstate_init ops in
  Forall (fun e =>
    match cf_kind cfg with
    | KForward =>
        exists payload,
          mp_unwrap (chunk_data R rbytes gz mp_wrap cfg e) =
            Some (cf_tag cfg, cf_as_array cfg, Z.of_nat (length (e_records e)), e_id e, cf_compress cfg, payload) /\
          (if cf_compress cfg then gunz payload else payload) = concat (map rbytes (e_records e))
    | KDatadog => gunz (chunk_data R rbytes gz mp_wrap cfg e) = json_array_bytes (map rbytes (e_records e))
    end) em.
Proof. exact run_decodes. Qed.
Print Assumptions C11_chunks_decode.

(* 4b. end to end on bytes: a receiver that decodes the chunks emitted up to a flush, in emission order (unwrap,
   gunzip when flagged, split into records; the four decoders are parameters assumed to invert the encoders and
   the record splitters to recover self-delimiting records) obtains exactly the written records, in order. *)
Theorem C11_receiver_reconstructs :
  forall (R : Type) (rlen : R -> Z) (rbytes : R -> bytes)
         (gz gunz : bytes -> bytes)
         (mp_wrap : bytes -> bool -> Z -> bytes -> bool -> bytes -> bytes)
         (mp_unwrap : bytes -> option (bytes * bool * Z * bytes * bool * bytes)),
  (forall b, gunz (gz b) = b) ->
  (forall tag arr n id c d, mp_unwrap (mp_wrap tag arr n id c d) = Some (tag, arr, n, id, c, d)) ->
  forall parse_forward parse_json_array : bytes -> option (list R),
  (forall g, parse_forward (concat (map rbytes g)) = Some g) ->
  (forall g, parse_json_array (json_array_bytes (map rbytes g)) = Some g) ->
  forall (cfg : config) (ops : list (op R)),
  let (st', em) := run R rlen cfg pstate_init (ops ++ [OFlush]) in
  all_received R
    (map (fun e => receive R gunz mp_unwrap parse_forward parse_json_array cfg
                     (chunk_data R rbytes gz mp_wrap cfg e)) em)
  = Some (written_of ops).
Proof. exact receiver_reconstructs_lemma. Qed.
Print Assumptions C11_receiver_reconstructs.

(* 5. order WITHIN a chunk: how Write feeds the chunk's sink (gzip writer / write buffer; Model/Packer.v, Section
   Feed).  Follow-up to the wave-4 miss seeded/C11/8.

   5a. The real mechanism (every Write goes to the sink at once): for every list of records, of every length,
   the sink holds exactly the written records in write order when the chunk is finalized. *)
Theorem C11_sink_receives_write_order :
  forall (R : Type) (rlen : R -> Z) (rs : list R), feed_all R rlen FeedDirect rs = rs.
Proof. exact feed_direct_in_order. Qed.
Print Assumptions C11_sink_receives_write_order.

(* 5b. the same on bytes and through the compressor: un-gzipping what the compressor produced from its feed gives
   the concatenation of the records in write order (compressed path: decompress(payload)) *)
Theorem C11_payload_is_concat :
  forall (R : Type) (rlen : R -> Z) (rbytes : R -> bytes) (gz gunz : bytes -> bytes),
  (forall b, gunz (gz b) = b) ->
  forall rs : list R,
  gunz (gz (concat (map rbytes (feed_all R rlen FeedDirect rs)))) = concat (map rbytes rs).
Proof. exact feed_payload_is_concat. Qed.
Print Assumptions C11_payload_is_concat.

(* 5c. general form, for any batching in front of the sink (capacity [cap], large records bypass the batch
   buffer): write order is kept for ALL inputs if the buffer is handed over before the bypass, and otherwise
   for exactly those inputs in which no record reaches the bypass ([bypass_safe]) *)
Theorem C11_staged_feed_in_order :
  forall (R : Type) (rlen : R -> Z) (m : feed_mode) (rs : list R),
  Forall (bypass_safe R rlen m) rs -> feed_all R rlen m rs = rs.
Proof. exact feed_all_in_order. Qed.
Print Assumptions C11_staged_feed_in_order.

Theorem C11_staged_flush_first_in_order :
  forall (R : Type) (rlen : R -> Z) (cap : Z) (rs : list R), feed_all R rlen (FeedStaged cap true) rs = rs.
Proof. exact feed_staged_flush_first_in_order. Qed.
Print Assumptions C11_staged_flush_first_in_order.

(* why records below the buffer size never show the seeded variant *)
Theorem C11_bypass_invisible_below_cap :
  forall (R : Type) (rlen : R -> Z) (cap : Z) (rs : list R),
  Forall (fun r => rlen r < cap) rs -> feed_all R rlen (FeedStaged cap false) rs = rs.
Proof. exact feed_bypass_invisible_below_cap. Qed.
Print Assumptions C11_bypass_invisible_below_cap.

(* 5d. the seeded variant (64 KiB batch buffer, a record of >= 64 KiB goes to the compressor WITHOUT handing over
   the smaller records waiting): records of 10 and 65536 bytes reach the sink in reverse order. *)
Theorem C11_large_record_bypass_variant_refuted :
  exists rs : list Z,
    Forall (fun r => 0 <= r) rs /\
    feed_all Z (fun n => n) (FeedStaged 65536 false) rs = rev rs /\
    feed_all Z (fun n => n) (FeedStaged 65536 false) rs <> rs.
Proof. exact feed_bypass_variant_refuted. Qed.
Print Assumptions C11_large_record_bypass_variant_refuted.

(* Non-vacuity: a concrete run (CompressedPackedForward, 2 records / 100 bytes per chunk; three writes at the
   same clock reading, two flushes, one more write) satisfies the hypotheses of 3d and gives two chunks
   [r1 r2] [r3] with counts 2, 1, ids ...01-00000000.ff, ...01-00000001.ff, and [r4] still buffered. *)
Theorem C11_example :
  nondecreasing 0 (nows_of example_ops) /\
  Forall (fun t => t < 10 ^ 19) (nows_of example_ops) /\
  Z.of_nat (length example_ops) < 10 ^ 8 /\
  let (st', em) := run bytes blen example_cfg pstate_init example_ops in
  map e_records em = [ [[1; 2; 3]; [4; 5]]; [[6]] ]%N /\
  map e_size em = [2; 1] /\
  map e_id em = [ [49;55;48;48;48;48;48;48;48;48;48;48;48;48;48;48;48;48;49;45;48;48;48;48;48;48;48;48;46;102;102];
                  [49;55;48;48;48;48;48;48;48;48;48;48;48;48;48;48;48;48;49;45;48;48;48;48;48;48;48;49;46;102;102] ]%N /\
  cur_records st' = [[7]]%N.
Proof. exact example_run. Qed.
Print Assumptions C11_example.
