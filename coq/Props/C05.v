(* C05 — Arrival order is preserved per connection and key set.
   Only the property theorems; each is closed by [exact] of a lemma from Proofs/.

   Same labelled transition system as C01 (Model/System.v): a run is ANY event list accepted by [step] from [init]
   (all interleavings of connections and pipelines, all batch / flush timings, all spill decisions, all upstream
   fault scripts per connection attempt, all stop / restart histories).  [received s] is the history of chunks
   received completely by the upstream, [delivered k p s] the sequence numbers of the records of stream
   (connection k, pipeline p) in the order in which the upstream received them, duplicates included.

   Hypotheses, all explicit:
   * sequence numbers are arrival indices: a record read from a connection has a larger sequence number than every
     earlier record of that connection (guard of [EIngest]);
   * monotone clock for chunk ids: a new chunk gets an id above every id handed out before, also across restarts
     (guard of [EChunkClose]: the wall clock used by chunkIDGenerator does not step backwards) - C11's assumption;
   * distinct pipelines per key tuple: a record carries the pipeline it is routed to (C06);
   * [order_safe es]: the run contains no chunk that is counted as dropped while its file stays in the queue
     directory (queue overflow after a successful spill: EChunkClose .. ADropFullSaved; read error when a spilled
     chunk is loaded: EFeederLoad _ false).  Such a file is recovered at the next start and delivered after newer
     chunks: C05_order_safe_hypothesis_needed exhibits the run.
   * the window of the hybrid buffer is saved only after its consumers have quit (the behaviour after fix 9d5f8ee:
     [ESave _ WWindow] requires the client to be done; before the fix the real agent violated the property, see
     findings.d/C05.json). *)
From Coq Require Import List NArith Bool.
From SV Require Import Model.Common Model.System Model.SystemAccept Model.SystemOrderCase
  Proofs.SystemLists Proofs.SystemProofs Proofs.SystemAlo Proofs.SystemAcceptProofs
  Proofs.SystemOrderLists Proofs.SystemOrder Proofs.SystemOrderTok Proofs.SystemOrderThm Proofs.SystemOrderWitness.
Import ListNotations.

(* PER STREAM ORDER: for every connection k and pipeline p, in every reachable state of every order-safe run, the
   FIRST deliveries at the upstream of the records of stream (k, p) are in arrival order (strictly increasing
   sequence numbers) - whatever was spilled, recovered after restarts or retransmitted after failures. *)
Theorem C05_per_stream_order :
  forall k p es s, steps init es = Some s -> order_safe es = true -> incr (first_occ (delivered k p s)).
Proof. exact per_stream_order_lemma. Qed.
Print Assumptions C05_per_stream_order.

(* PER CONNECTION CREATION ORDER: on the current upstream connection of a pipeline the chunks were transmitted in
   increasing id (= creation) order; what is still to be transmitted (leftovers to be resent, window, feeder, queue)
   is in creation order as well and every chunk of it is newer than every chunk already transmitted on this
   connection - no older undelivered chunk is skipped, leftovers go before new chunks. *)
Theorem C05_per_connection_creation_order :
  forall p es s, steps init es = Some s -> order_safe es = true ->
  incr (idsp p (unacked s)) /\
  incr (idsp p (leftovers s) ++ idsp p (window s) ++ idsp p (fhand s) ++ idsp p (queue s)) /\
  (forall u q, In u (idsp p (unacked s)) ->
               In q (idsp p (leftovers s) ++ idsp p (window s) ++ idsp p (fhand s) ++ idsp p (queue s)) -> u < q).
Proof. exact per_connection_creation_order_lemma. Qed.
Print Assumptions C05_per_connection_creation_order.

(* Recovery: after a restart the queue of a pipeline holds all its chunk files in increasing id order. *)
Theorem C05_recovery_sorted :
  forall p es s s', steps init es = Some s -> order_safe es = true -> step s ERestart = Some s' ->
  incr (idsp p (queue s')) /\ (forall c, In c (files s) -> c_pipe c = p -> In (c_id c) (idsp p (queue s'))).
Proof. exact recovery_sorted_lemma. Qed.
Print Assumptions C05_recovery_sorted.

(* The first receipts of the chunks of a pipeline are in id order (every first receipt has an id above all
   chunks received before), and ids order the records of a stream: the two facts behind per-stream order. *)
Theorem C05_first_receipts_by_id :
  forall k p es s, steps init es = Some s -> order_safe es = true ->
  ro (recvp p s) /\
  (forall c c', In c (received s) -> In c' (received s) -> c_pipe c = p -> c_pipe c' = p -> c_id c < c_id c' ->
     forall x y, In x (sq k p (c_toks c)) -> In y (sq k p (c_toks c')) -> x < y).
Proof. exact first_receipts_by_id_lemma. Qed.
Print Assumptions C05_first_receipts_by_id.

(* Without the hypothesis the property fails in the model: a dropped-but-still-on-disk chunk comes back after newer ones. *)
Theorem C05_order_safe_hypothesis_needed :
  exists es s k p, steps init es = Some s /\ ~ incr (first_occ (delivered k p s)).
Proof. exact overflow_witness. Qed.
Print Assumptions C05_order_safe_hypothesis_needed.

(* The flag ord=1 printed by the trace acceptor for an accepted trace is a consequence of the theorem. *)
Theorem C05_accepted_order :
  forall tr s, accept tr = Some s -> order_check s = true.
Proof. exact accepted_order_lemma. Qed.
Print Assumptions C05_accepted_order.

(* Non-vacuity: a run with a chunk received twice (never ACKed; recovered from its file after a restart) and a second
   chunk satisfies the hypotheses: three receipts, two first deliveries. *)
Theorem C05_example :
  exists es s, steps init es = Some s /\ order_safe es = true /\ length (received s) = 3 /\
    length (first_occ (delivered 0 1 s)) = 2.
Proof. exact order_example. Qed.
Print Assumptions C05_example.
