(* C05 — Arrival order is preserved per connection and key set.
   Only the property theorems; each is closed by [exact] of a lemma from Proofs/.

   Same labelled transition system as C01 (Model/System.v): a run is ANY event list accepted by [step] from [init]
   (all interleavings of connections and pipelines, all batch / flush timings, all spill decisions, all upstream
   fault scripts per connection attempt, all stop / restart histories).  [received s] is the history of chunks
   received completely by the upstream, [delivered k p s] the sequence numbers of the records of stream
   (connection k, pipeline p) in the order in which the upstream received them, duplicates included.

   Hypotheses, all explicit:
   * sequence numbers are arrival indices: a record read from a connection has a larger sequence number than every
     earlier record of that connection (guard of [EIngest]);
   * monotone clock for chunk ids: a new chunk gets an id above every id handed out before, also across restarts
     (guard of [EChunkClose]: the wall clock used by chunkIDGenerator does not step backwards) - C11's assumption;
   * distinct pipelines per key tuple: a record carries the pipeline it is routed to (C06);
   * [order_safe es]: the run contains no chunk that is counted as dropped while its file stays in the queue
     directory (queue overflow after a successful spill: EChunkClose .. ADropFullSaved; read error when a spilled
     chunk is loaded: EFeederLoad _ false).  Such a file is recovered at the next start and delivered after newer
     chunks: C05_order_safe_hypothesis_needed exhibits the run.
   * the window of the hybrid buffer is saved only after its consumers have quit (the behaviour after fix 9d5f8ee:
     [ESave _ WWindow] requires the client to be done; before the fix the real agent violated the property, see
     findings.d/C05.json). *)
From Coq Require Import List NArith Bool.
From SV Require Import Model.Common Model.System Model.SystemAccept Model.SystemOrderCase Model.RecoveryOrder Proofs.RecoveryOrderProofs
  Model.FeederLoad Proofs.FeederLoadProofs
  Proofs.SystemLists Proofs.SystemProofs Proofs.SystemAlo Proofs.SystemAcceptProofs
  Proofs.SystemOrderLists Proofs.SystemOrder Proofs.SystemOrderTok Proofs.SystemOrderThm Proofs.SystemOrderWitness.
Import ListNotations.

(* PER STREAM ORDER: for every connection k and pipeline p, in every reachable state of every order-safe run, the
   FIRST deliveries at the upstream of the records of stream (k, p) are in arrival order (strictly increasing
   sequence numbers) - whatever was spilled, recovered after restarts or retransmitted after failures. *)
Theorem C05_per_stream_order :
  forall k p es s, steps init es = Some s -> order_safe es = true -> incr (first_occ (delivered k p s)).
Proof. exact per_stream_order_lemma. Qed.
Print Assumptions C05_per_stream_order.

(* PER CONNECTION CREATION ORDER: on the current upstream connection of a pipeline the chunks were transmitted in
   increasing id (= creation) order; what is still to be transmitted (leftovers to be resent, window, feeder, queue)
   is in creation order as well and every chunk of it is newer than every chunk already transmitted on this
   connection - no older undelivered chunk is skipped, leftovers go before new chunks. *)
Theorem C05_per_connection_creation_order :
  forall p es s, steps init es = Some s -> order_safe es = true ->
  incr (idsp p (unacked s)) /\
  incr (idsp p (leftovers s) ++ idsp p (window s) ++ idsp p (fhand s) ++ idsp p (queue s)) /\
  (forall u q, In u (idsp p (unacked s)) ->
               In q (idsp p (leftovers s) ++ idsp p (window s) ++ idsp p (fhand s) ++ idsp p (queue s)) -> u < q).
Proof. exact per_connection_creation_order_lemma. Qed.
Print Assumptions C05_per_connection_creation_order.

(* Recovery: after a restart the queue of a pipeline holds all its chunk files in increasing id order. *)
Theorem C05_recovery_sorted :
  forall p es s s', steps init es = Some s -> order_safe es = true -> step s ERestart = Some s' ->
  incr (idsp p (queue s')) /\ (forall c, In c (files s) -> c_pipe c = p -> In (c_id c) (idsp p (queue s'))).
Proof. exact recovery_sorted_lemma. Qed.
Print Assumptions C05_recovery_sorted.

(* The first receipts of the chunks of a pipeline are in id order (every first receipt has an id above all
   chunks received before), and ids order the records of a stream: the two facts behind per-stream order. *)
Theorem C05_first_receipts_by_id :
  forall k p es s, steps init es = Some s -> order_safe es = true ->
  ro (recvp p s) /\
  (forall c c', In c (received s) -> In c' (received s) -> c_pipe c = p -> c_pipe c' = p -> c_id c < c_id c' ->
     forall x y, In x (sq k p (c_toks c)) -> In y (sq k p (c_toks c')) -> x < y).
Proof. exact first_receipts_by_id_lemma. Qed.
Print Assumptions C05_first_receipts_by_id.

(* Without the hypothesis the property fails in the model: a dropped-but-still-on-disk chunk comes back after newer ones. *)
Theorem C05_order_safe_hypothesis_needed :
  exists es s k p, steps init es = Some s /\ ~ incr (first_occ (delivered k p s)).
Proof. exact overflow_witness. Qed.
Print Assumptions C05_order_safe_hypothesis_needed.

(* The flag ord=1 printed by the trace acceptor for an accepted trace is a consequence of the theorem. *)
Theorem C05_accepted_order :
  forall tr s, accept tr = Some s -> order_check s = true.
Proof. exact accepted_order_lemma. Qed.
Print Assumptions C05_accepted_order.

(* Non-vacuity: a run with a chunk received twice (never ACKed; recovered from its file after a restart) and a second
   chunk satisfies the hypotheses: three receipts, two first deliveries. *)
Theorem C05_example :
  exists es s, steps init es = Some s /\ order_safe es = true /\ length (received s) = 3 /\
    length (first_occ (delivered 0 1 s)) = 2.
Proof. exact order_example. Qed.
Print Assumptions C05_example.

(* ---------- restart / reload seen stepwise: recovery of a backlog interleaved with new chunks (Model/RecoveryOrder.v) ----------
   [ERestart] of Model/System.v is atomic.  The theorems below are about the code it abstracts: the recovery loop of
   bufferer.Start queues one listed chunk file per step while the pipeline worker (Accept), the feeder and the consumer
   run; a run is ANY event list.  [rgood clock seen backlog]: the listing is in id order, below the id clock, its
   records are per connection in sequence order and bounded by the stamps seen (what C05_recovery_sorted and
   C05_first_receipts_by_id establish for the files a stop leaves behind). *)

(* For all backlogs, capacities and interleavings, with either start order of the feeder: when Accept is possible only
   after the recovery loop has ended (Start returns after it - the code as it is), the chunks are handed to the
   consumer in creation order, every stream (connection, key set) in arrival order, the pending ones are in creation
   order and each is newer than everything already transmitted. *)
Theorem C05_restart_recovery_order :
  forall g v backlog clock seen es s,
  rv_accept_waits v = true -> rgood clock seen backlog -> rsteps g v (rinit backlog clock seen) es = Some s ->
  incr (rids (r_out s)) /\ (forall k, incr (rseqs k (rtoks (r_out s)))) /\ incr (rids (rpending s)) /\
  (forall u q, In u (rids (r_out s)) -> In q (rids (rpending s)) -> u < q).
Proof. exact recovery_order_lemma. Qed.
Print Assumptions C05_restart_recovery_order.

(* A chunk created after the restart is never transmitted while a recovered chunk is still undelivered. *)
Theorem C05_new_chunk_never_overtakes_recovered :
  forall g v backlog clock seen es s c b,
  rv_accept_waits v = true -> rgood clock seen backlog -> rsteps g v (rinit backlog clock seen) es = Some s ->
  In c (r_out s) -> clock < rc_id c -> In b (rpending s) -> clock < rc_id b.
Proof. exact recovery_new_chunk_waits_lemma. Qed.
Print Assumptions C05_new_chunk_never_overtakes_recovered.

(* A backlog that fits the queue is recovered completely (the "too many chunk files, skip" branch is not taken). *)
Theorem C05_recovery_complete_when_backlog_fits :
  forall g v backlog clock seen es s,
  rv_accept_waits v = true -> length backlog <= rg_qcap g -> rsteps g v (rinit backlog clock seen) es = Some s ->
  r_skipped s = [].
Proof. exact recovery_complete_lemma. Qed.
Print Assumptions C05_recovery_complete_when_backlog_fits.

(* The recovery loop alone leads to the state of the atomic restart: queue = listing, nothing else moved. *)
Theorem C05_recovery_loop_is_atomic_restart :
  forall g v backlog clock seen, length backlog <= rg_qcap g ->
  rsteps g v (rinit backlog clock seen) (rep (length backlog) [RRecover]) = Some (RS [] backlog [] [] [] [] [] clock seen).
Proof. exact recovery_sync_is_atomic_lemma. Qed.
Print Assumptions C05_recovery_loop_is_atomic_restart.

(* The variant with the recovery loop in the feeder goroutine (Accept possible while it runs; seeded change C05/4)
   violates the statement: witness with two recovered chunks and one new chunk, transmitted as 1, 3, 2. *)
Theorem C05_async_recovery_variant_refuted :
  exists g backlog clock seen es s,
    rgood clock seen backlog /\ length backlog <= rg_qcap g /\ rsteps g rv_seeded (rinit backlog clock seen) es = Some s /\
    rids (r_out s) = [1; 3; 2] /\ ~ incr (rids (r_out s)) /\ ~ incr (rseqs 0 (rtoks (r_out s))).
Proof. exact recovery_seeded_variant_refuted_lemma. Qed.
Print Assumptions C05_async_recovery_variant_refuted.

(* Non-vacuity: a run of the code as it is over a backlog of two chunks with two new chunks. *)
Theorem C05_recovery_example :
  exists es s, rgood 2 [(0, 1)] seeded_backlog /\ rsteps (RCFG 8 1) rv_real (rinit seeded_backlog 2 [(0, 1)]) es = Some s /\
    rids (r_out s) = [1; 2; 3; 5] /\ rseqs 0 (rtoks (r_out s)) = [0; 1; 2; 3; 4] /\ rpending s = [].
Proof. exact recovery_example_lemma. Qed.
Print Assumptions C05_recovery_example.

(* ---------- load failures of spilled chunks in the output feeder (Model/FeederLoad.v) ----------
   [EFeederLoad _ false] / [RFeederLoadFail] above only say that the chunk leaves the feeder.  Here every load has an
   outcome chosen by the run (the fault script is part of the event list: any load of a spilled chunk may fail, at any
   moment, any number of them) and the reaction of the feeder is the parameter [lg_defer]: false = the chunk is given
   up at once (outputFeeder.loadToOutput / LoadOrDropChunk - the code as it is), true = it is put aside and retried
   when the queue is momentarily empty (seeded change C05/8).  [lgood clock backlog]: the queue the buffer starts with is
   in id order and below the id clock (C05_restart_recovery_order); Accept hands out ids above the clock (C11). *)

(* For all backlogs, capacities, interleavings of worker, feeder and consumer and ALL fault scripts: the chunks are
   handed to the consumer as a sub-sequence of the creation order (loss, never reordering); ids increase in
   transmission order; the pending chunks are in creation order and each is newer than everything transmitted. *)
Theorem C05_load_failure_order :
  forall g backlog clock es s,
  lg_defer g = false -> lgood clock backlog -> lsteps g (linit backlog clock) es = Some s ->
  sublist (l_out s) (l_created s) /\ incr (lids (l_out s)) /\ incr (lids (lpending s)) /\
  (forall u q, In u (lids (l_out s)) -> In q (lids (lpending s)) -> u < q).
Proof. exact load_failure_order_lemma. Qed.
Print Assumptions C05_load_failure_order.

(* Every stream whose records were put into chunks in arrival order is handed to the consumer in arrival order,
   whatever loads fail. *)
Theorem C05_load_failure_stream_order :
  forall g backlog clock es s k,
  lg_defer g = false -> lgood clock backlog -> lsteps g (linit backlog clock) es = Some s ->
  incr (rseqs k (ltoks (l_created s))) -> incr (rseqs k (ltoks (l_out s))).
Proof. exact load_failure_stream_order_lemma. Qed.
Print Assumptions C05_load_failure_stream_order.

(* The variant that retries a failed load behind the chunks queued after it (seeded change C05/8) violates the
   statement: ids 1,2,3 queued, the read of 2 fails once - transmitted as 1, 3, 2, records 0, 2, 1 of connection 0,
   nothing lost. *)
Theorem C05_deferred_load_retry_variant_refuted :
  exists g backlog clock es s,
    lg_defer g = true /\ lgood clock backlog /\ lsteps g (linit backlog clock) es = Some s /\
    lids (l_out s) = [1; 3; 2] /\ l_dropped s = [] /\ ~ incr (lids (l_out s)) /\ ~ incr (rseqs 0 (ltoks (l_out s))).
Proof. exact defer_variant_refuted_lemma. Qed.
Print Assumptions C05_deferred_load_retry_variant_refuted.

(* Non-vacuity: the same fault script on the code as it is - chunk 2 is lost, 1 and 3 are transmitted in order and the
   feeder has nothing left to come back to. *)
Theorem C05_load_failure_example :
  exists s, lgood 3 defer_backlog /\ lsteps (LCFG 8 1 false) (linit defer_backlog 3) (firstn 8 defer_events) = Some s /\
    lids (l_out s) = [1; 3] /\ lids (l_dropped s) = [2] /\ lpending s = [] /\
    lsteps (LCFG 8 1 false) s [LTake] = None.
Proof. exact load_failure_example_lemma. Qed.
Print Assumptions C05_load_failure_example.
