From SV Require Import Model.Common Model.Routing.
Theorem C06_stub : True. Proof. exact I. Qed.
Print Assumptions C06_stub.
