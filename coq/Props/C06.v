(* C06 - Routing, queueing and tagging follow exactly the record's own key fields.
   Only the property theorems; each is closed by [exact] of a lemma from Proofs/.
   The model (Model/Routing.v) mirrors the code AFTER the three fix: commits of this property
   (length-prefixed merged key in LocalCachedMap and LogProcessCounterSet; S_IFDIR test in ListBufferIDs) and after
   the fix of property C07 (b1856f7: where key values become Prometheus label values they go through
   strings.ToValidUTF8(v, "") = Utf8.to_valid_utf8).  Since then the key_* metric labels are a LOSSY rendering of the
   key values (section 2c); pipeline, id / queue name, tag and the map entries follow the key values themselves. *)
From SV Require Import Model.Common Model.Md5 Model.Routing Model.RoutingMem Model.RoutingConc Spec.RoutingSpec
  Proofs.MergedKeyProofs Proofs.RoutingProofs Proofs.QueueProofs Proofs.TagTemplateProofs Proofs.RestartProofs Proofs.RoutingMemProofs
  Proofs.LabelValueProofs Proofs.RoutingConcProofs.
From SV Require Model.Utf8 Spec.Utf8Spec.

(* ---------------------------------------------------------------------------------------------- *)
(* 1. the lookup key of LocalCachedMap / LogProcessCounterSet                                      *)

(* Main theorem: key tuples that differ in any position never share a merged key - for all tuples of
   arbitrary byte strings (empty values, separators, re-split concatenations such as ("ab","c") and
   ("a","bc")) and all arities. *)
Theorem C06_merged_key_distinct :
  forall ks ks' : list bytes, length ks = length ks' -> ks <> ks' -> merged_key ks <> merged_key ks'.
Proof. exact merged_key_distinct_lemma. Qed.
Print Assumptions C06_merged_key_distinct.

(* Stronger: injective even across different arities. *)
Theorem C06_merged_key_injective :
  forall ks ks' : list bytes, merged_key ks = merged_key ks' -> ks = ks'.
Proof. exact merged_key_injective_lemma. Qed.
Print Assumptions C06_merged_key_injective.

(* The merged key of the original code (plain concatenation) violated this; kept as the record of
   the repaired defect: ("ab","c") / ("a","bc"). *)
Theorem C06_original_concat_key_refuted :
  exists ks ks' : list bytes, length ks = length ks' /\ ks <> ks' /\ concat_key [] ks = concat_key [] ks'.
Proof. exact concat_key_collides. Qed.
Print Assumptions C06_original_concat_key_refuted.

(* ---------------------------------------------------------------------------------------------- *)
(* 2. routing and tagging: all templates, all initial ids, all numbers of sinks, all arrival orders *)

(* Every record is appended to a pipeline that was created for exactly its own key tuple: the
   pipeline's keys, its id (queue name) and its tag are those of the record's own values, and its metric labels
   "key_<name>" are the record's own values with the bytes that are not well-formed UTF-8 removed. *)
Theorem C06_routing_own_keys :
  forall parts n ids nsinks ops g0 g lms is,
    orch_init parts n ids = Ok g0 ->
    run_ops parts g0 (repeat [] nsinks) ops = Ok (g, lms, is) ->
    Forall2 (fun o i => exists p, nth_error (g_pipes g) i = Some p /\ p_keys p = snd o /\
                                  p_id p = pipeline_id (snd o) /\ build_tag parts (snd o) = Ok (p_tag p) /\
                                  p_labels p = map Utf8.to_valid_utf8 (snd o)) ops is.
Proof. exact routing_own_keys_lemma. Qed.
Print Assumptions C06_routing_own_keys.

(* Two records share a pipeline exactly when their key tuples are equal (never merged, never split). *)
Theorem C06_routing_injective :
  forall parts n ids nsinks ops g0 g lms is,
    orch_init parts n ids = Ok g0 ->
    run_ops parts g0 (repeat [] nsinks) ops = Ok (g, lms, is) ->
    forall j k o o' i i',
      nth_error ops j = Some o -> nth_error ops k = Some o' ->
      nth_error is j = Some i -> nth_error is k = Some i' ->
      (snd o = snd o' <-> i = i').
Proof. exact routing_injective_lemma. Qed.
Print Assumptions C06_routing_injective.

(* No phantom pipelines: every pipeline that exists was created for the key values of a record, or of a
   queue id found at startup that passed the arity filter. *)
Theorem C06_routing_no_phantom :
  forall parts n ids nsinks ops g0 g lms is,
    orch_init parts n ids = Ok g0 ->
    run_ops parts g0 (repeat [] nsinks) ops = Ok (g, lms, is) ->
    forall p, In p (g_pipes g) ->
      (exists id, In id ids /\ recover_keys n id = Some (p_keys p)) \/ (exists o, In o ops /\ p_keys p = snd o).
Proof. exact routing_no_phantom_lemma. Qed.
Print Assumptions C06_routing_no_phantom.

(* The orchestrator is total: a template accepted by NewTagBuilder, any initial ids and any records of
   the configured arity never produce a panic (index out of range in the tag builder, slice bounds). *)
Theorem C06_routing_total :
  forall names t parts ids nsinks ops,
    parse_template names t = Some parts ->
    Forall (fun o => length (snd o) = length names) ops ->
    exists g0 g lms is, orch_init parts (length names) ids = Ok g0 /\
                        run_ops parts g0 (repeat [] nsinks) ops = Ok (g, lms, is).
Proof. exact orchestrator_total_lemma. Qed.
Print Assumptions C06_routing_total.

(* ${name[s:e]} is the Python slice of the key value (independent reference: Spec.ref_slice). *)
Theorem C06_tag_substring_is_slice :
  forall v s e, (Z.of_nat (length v) <= 2147483647)%Z -> go_substr v s e = Ok (ref_slice v s e).
Proof. exact go_substr_is_slice. Qed.
Print Assumptions C06_tag_substring_is_slice.

(* A template that names every key, separated by a byte no key contains, gives different tags to
   different key tuples (a template such as "$a$b" cannot: that is a property of the configuration). *)
Theorem C06_tag_injective_separated :
  forall sep ks ks' tag,
    ks <> [] -> length ks = length ks' ->
    Forall (no_sep sep) ks -> Forall (no_sep sep) ks' ->
    build_tag (sep_parts_from sep 0 (length ks)) ks = Ok tag ->
    build_tag (sep_parts_from sep 0 (length ks)) ks' = Ok tag -> ks = ks'.
Proof. exact tag_injective_sep_template. Qed.
Print Assumptions C06_tag_injective_separated.

(* Metric key sets (LogProcessCounterSet.SelectMetricKeySet): every record is counted by the counter set (map entry)
   of its own metric key tuple, whose counters carry that tuple's values with the ill-formed bytes removed as label
   values; two records share a counter set exactly when the tuples are equal.  (Counter sets with equal label
   values write into the same exported series: C06_labels_collide_on_invalid_refuted.) *)
Theorem C06_metric_own_keys :
  forall recs m is,
    metric_run m_init recs = (m, is) ->
    Forall2 (fun ks i => nth_error (m_sets m) i = Some ks /\
                         nth_error (m_labels m) i = Some (map Utf8.to_valid_utf8 ks)) recs is /\
    (forall j k ks ks' i i', nth_error recs j = Some ks -> nth_error recs k = Some ks' ->
        nth_error is j = Some i -> nth_error is k = Some i' -> (ks = ks' <-> i = i')).
Proof. exact metric_own_keys_lemma. Qed.
Print Assumptions C06_metric_own_keys.

(* ---------------------------------------------------------------------------------------------- *)
(* 2b. what a pipeline keeps outlives the record: key values are views into pooled input buffers     *)

(* Memory-level model (Model/RoutingMem.v): strings are references - owned copies, views into the buffers of a
   heap, Go substrings - read only when observed; EWrite overwrites a buffer (the pool hands it to a later
   record), ERoute is a record accepted by the sink.  With util.DeepCopyStrings in GetOrCreate (deep = true):
   for EVERY sequence of writes and routed records, what the pipelines show, looked at with ANY later content
   of the buffers, is exactly the value-level run on the key values the records had when they were routed. *)
Theorem C06_stored_values_are_copies :
  forall parts evs st is vs,
    m_run true parts rs_init evs = Ok (st, is, vs) ->
    exists g lm, run_ops parts g_init [[]] (map (fun t => (O, t)) vs) = Ok (g, [lm], is) /\
                 forall h, observe_with h st = g_pipes g.
Proof. exact stored_values_are_copies_lemma. Qed.
Print Assumptions C06_stored_values_are_copies.

(* Hence every routed record's pipeline shows that record's own key values, id, tag and metric labels (its own
   values without the ill-formed bytes) after any number of later records have overwritten the buffers. *)
Theorem C06_pooled_routing_own_keys :
  forall parts evs st is vs,
    m_run true parts rs_init evs = Ok (st, is, vs) ->
    forall h, Forall2 (fun t i => exists p, nth_error (observe_with h st) i = Some p /\ p_keys p = t /\
                                  p_id p = pipeline_id t /\ build_tag parts t = Ok (p_tag p) /\
                                  p_labels p = map Utf8.to_valid_utf8 t) vs is.
Proof. exact pooled_routing_own_keys_lemma. Qed.
Print Assumptions C06_pooled_routing_own_keys.

(* With a copy of the slice only (deep = false; the seeded change C06/1) the model is refuted: template "$app",
   the record "info sshd" creates the pipeline, its buffer is recycled for "warn cron": tag, id and labels of the
   pipeline now read "cron" although the only routed record had app = "sshd" (ToValidUTF8 returns a valid argument
   itself, so the label shares the buffer too). *)
Theorem C06_shallow_key_copy_refuted :
  exists st is vs,
    m_run false alias_parts rs_init alias_events = Ok (st, is, vs) /\
    vs = [[[115;115;104;100]]] /\
    observe st = [{| p_keys := [[99;114;111;110]]; p_id := [99;114;111;110]; p_tag := [99;114;111;110];
                     p_labels := [[99;114;111;110]] |}].
Proof. exact shallow_copy_aliases. Qed.
Print Assumptions C06_shallow_key_copy_refuted.

(* ---------------------------------------------------------------------------------------------- *)
(* 2c. the key_* metric labels are a lossy rendering of the key values (fix b1856f7)                  *)

(* What a label value is, against specifications that do not mention the decoder: it is well-formed UTF-8
   (Spec/Utf8Spec.v: a concatenation of RFC 3629 encodings of scalar values), it is the key value with some bytes
   left out (Spec/RoutingSpec.v subseq), and cleaning it again changes nothing.  For all byte strings. *)
Theorem C06_label_values_valid :
  forall s : bytes,
    Utf8Spec.valid_utf8 (Utf8.to_valid_utf8 s) /\ subseq (Utf8.to_valid_utf8 s) s /\
    Utf8.to_valid_utf8 (Utf8.to_valid_utf8 s) = Utf8.to_valid_utf8 s.
Proof. exact label_value_spec. Qed.
Print Assumptions C06_label_values_valid.

(* For a record whose key values are valid UTF-8 the labels of its pipeline are exactly its key values - the
   statement of C06_routing_own_keys before the fix, on the domain where label values can be exact at all. *)
Theorem C06_labels_exact_for_valid_utf8 :
  forall parts n ids nsinks ops g0 g lms is,
    orch_init parts n ids = Ok g0 ->
    run_ops parts g0 (repeat [] nsinks) ops = Ok (g, lms, is) ->
    Forall2 (fun o i => Forall Utf8Spec.valid_utf8 (snd o) ->
                        exists p, nth_error (g_pipes g) i = Some p /\ p_labels p = snd o) ops is.
Proof. exact labels_exact_for_valid_lemma. Qed.
Print Assumptions C06_labels_exact_for_valid_utf8.

(* ... and the same for the metric key sets. *)
Theorem C06_metric_labels_exact_for_valid_utf8 :
  forall recs m is,
    metric_run m_init recs = (m, is) ->
    Forall2 (fun ks i => Forall Utf8Spec.valid_utf8 ks -> nth_error (m_labels m) i = Some ks) recs is.
Proof. exact metric_labels_exact_for_valid_lemma. Qed.
Print Assumptions C06_metric_labels_exact_for_valid_utf8.

(* On valid UTF-8 tuples the label values identify the tuple. *)
Theorem C06_labels_injective_on_valid_utf8 :
  forall ks ks' : list bytes,
    Forall Utf8Spec.valid_utf8 ks -> Forall Utf8Spec.valid_utf8 ks' ->
    map Utf8.to_valid_utf8 ks = map Utf8.to_valid_utf8 ks' -> ks = ks'.
Proof. exact labels_injective_valid. Qed.
Print Assumptions C06_labels_injective_on_valid_utf8.

(* REFUTED in general (documented limit of the repaired code, not a finding: the statement of the property names
   pipeline, queue directory and tag, and these stay separate).  The key tuples (0xFF) and (0xFE) differ and have the
   same label values; routed with the template "$k0" they get two pipelines with different keys, ids / queue names
   and tags (C06_routing_injective) whose key_* labels coincide; as metric keys they get two counter sets with the
   same label values.  What is shared is the exported metric series only. *)
Theorem C06_labels_collide_on_invalid_refuted :
  (exists ks ks' : list bytes, length ks = length ks' /\ ks <> ks' /\
     map Utf8.to_valid_utf8 ks = map Utf8.to_valid_utf8 ks') /\
  (exists g lms p q,
     run_ops collide_parts g_init [[]] collide_ops = Ok (g, lms, [0; 1]%nat) /\
     g_pipes g = [p; q] /\ p_keys p <> p_keys q /\ p_id p <> p_id q /\ p_tag p <> p_tag q /\
     p_labels p = p_labels q) /\
  (exists m, metric_run m_init [[[255]]; [[254]]] = (m, [0; 1]%nat) /\
     nth_error (m_labels m) 0 = nth_error (m_labels m) 1).
Proof. exact labels_collide_witness. Qed.
Print Assumptions C06_labels_collide_on_invalid_refuted.

(* ---------------------------------------------------------------------------------------------- *)
(* 3. pipeline id, queue directory, .id round trip (on-disk format: NOT repaired, see findings)      *)

(* PARTIAL.  Proved for the current code: for key tuples of the same arity without "," in any value,
   different tuples get different ids; the id splits back into the tuple; and their queue directories
   differ - the md5 tail being needed only where sanitisation ('/' and NUL -> '_') maps both ids to the
   same name.  Missing for the full property: values containing "," (C06_id_collision_comma_refuted,
   C06_recover_comma_refuted) and the single empty key (C06_empty_key_root_dir_refuted). *)
Theorem C06_id_dir_recovery_partial :
  forall (md5hex : bytes -> bytes), (forall s, length (md5hex s) = 32%nat) ->
  forall ks ks' : list bytes,
    length ks = length ks' -> ks <> ks' -> no_comma ks -> no_comma ks' ->
    pipeline_id ks <> pipeline_id ks' /\
    recover_keys (length ks) (pipeline_id ks) = Some ks /\
    (pipeline_id ks <> [] -> pipeline_id ks' <> [] ->
     (sanitize (pipeline_id ks) = sanitize (pipeline_id ks') ->
      tail8 (md5hex (pipeline_id ks)) <> tail8 (md5hex (pipeline_id ks'))) ->
     queue_dir_name md5hex (pipeline_id ks) <> queue_dir_name md5hex (pipeline_id ks')).
Proof. exact id_dir_recovery_partial_lemma. Qed.
Print Assumptions C06_id_dir_recovery_partial.

(* Full, whatever the values contain: recovery never attaches a queue to a foreign key set - if the id
   written for ks passes the arity filter at all, it splits back into exactly ks. *)
Theorem C06_recover_never_foreign :
  forall ks ks' : list bytes, recover_keys (length ks) (pipeline_id ks) = Some ks' -> ks' = ks.
Proof. exact recover_keys_never_foreign. Qed.
Print Assumptions C06_recover_never_foreign.

(* REFUTED on the current code: values containing "," - two different tuples of the same arity get the
   same pipeline id, hence the same queue directory: ("a,b","c") / ("a","b,c"). *)
Theorem C06_id_collision_comma_refuted :
  exists ks ks' : list bytes, length ks = length ks' /\ ks <> ks' /\ pipeline_id ks = pipeline_id ks' /\
    queue_dir_name md5_hex (pipeline_id ks) = queue_dir_name md5_hex (pipeline_id ks').
Proof. exact id_collision_comma_witness. Qed.
Print Assumptions C06_id_collision_comma_refuted.

(* REFUTED: ... and every queue written by a tuple with "," in a value is ignored at restart. *)
Theorem C06_recover_comma_refuted :
  forall ks : list bytes, ks <> [] -> ~ no_comma ks -> recover_keys (length ks) (pipeline_id ks) = None.
Proof. exact recover_keys_comma_dropped. Qed.
Print Assumptions C06_recover_comma_refuted.

(* REFUTED: the single empty key value puts the queue into the root directory itself, whose .id is empty
   and which ListBufferIDs never lists - its chunks are not recovered. *)
Theorem C06_empty_key_root_dir_refuted :
  exists ks : list bytes, ks <> [] /\ queue_dir_name md5_hex (pipeline_id ks) = None /\
    forall umask r, list_buffer_ids
      (root_entries umask (store_chunk (fst (make_queue_dir md5_hex umask qroot_empty (pipeline_id ks))) QRoot r)) = [].
Proof. exact empty_key_root_dir_witness. Qed.
Print Assumptions C06_empty_key_root_dir_refuted.

(* ---------------------------------------------------------------------------------------------- *)
(* 4. ListBufferIDs and the restart                                                                 *)

(* ListBufferIDs returns exactly the ids of the entries that are directories with a non-empty .id and
   at least one chunk - whatever the permission bits of the directory (the repaired S_IFDIR test). *)
Theorem C06_listing_exact :
  forall es id, In id (list_buffer_ids es) <->
    exists e, In e es /\ is_dir_mode (fe_mode e) = true /\ fe_id e = Some id /\ id <> [] /\ (0 < fe_chunks e)%nat.
Proof. exact list_buffer_ids_spec. Qed.
Print Assumptions C06_listing_exact.

Theorem C06_dir_recognised_any_mode :
  forall perm, (perm < 4096)%N -> is_dir_mode (S_IFDIR + perm) = true /\ is_dir_mode (S_IFREG + perm) = false.
Proof. exact (fun perm H => conj (dir_mode_any_perm perm H) (file_mode_any_perm perm H)). Qed.
Print Assumptions C06_dir_recognised_any_mode.

(* The test of the original code (Mode & DT_DIR = others-read bit) rejected a 0750 directory and let a
   0644 file through; kept as the record of the repaired defect. *)
Theorem C06_original_dir_test_refuted :
  N.land (S_IFDIR + 488) 4 = 0%N /\ N.land (S_IFREG + 420) 4 <> 0%N.
Proof. exact original_dir_test_wrong. Qed.
Print Assumptions C06_original_dir_test_refuted.

(* PARTIAL (same missing cases as C06_id_dir_recovery_partial, plus the 255-byte limit of directory names).
   Restart: records are routed (any number of sinks, any arrival order), every pipeline spills its records'
   chunks into its queue directory, the process restarts (ListBufferIDs, NewOrchestrator from the listed ids).
   Then every chunk lies in a directory to which a recovered pipeline with exactly the writer's key tuple (and
   tag) attaches, and no recovered pipeline of another key tuple attaches to that directory. *)
Theorem C06_restart_reattaches_partial :
  forall (md5hex : bytes -> bytes), (forall s, length (md5hex s) = 32%nat) ->
  forall parts n umask nsinks ops g lms is root0 refs root g2,
    Forall (fun o => length (snd o) = n /\ no_comma (snd o) /\ pipeline_id (snd o) <> [] /\
                     (length (pipeline_id (snd o)) + 9 <= NAME_MAX)%nat) ops ->
    (forall o o', In o ops -> In o' ops -> snd o <> snd o' ->
       sanitize (pipeline_id (snd o)) = sanitize (pipeline_id (snd o')) ->
       tail8 (md5hex (pipeline_id (snd o))) <> tail8 (md5hex (pipeline_id (snd o')))) ->
    run_ops parts g_init (repeat [] nsinks) ops = Ok (g, lms, is) ->
    make_dirs md5hex umask qroot_empty (g_pipes g) = (root0, refs) ->
    store_chunks root0 refs is O = root ->
    orch_init parts n (dedup [] (list_buffer_ids (root_entries umask root))) = Ok g2 ->
    forall r o, nth_error ops r = Some o ->
      exists d p i, In d (qr_dirs root) /\ In r (qd_chunks d) /\
                    nth_error (g_pipes g2) i = Some p /\ p_keys p = snd o /\
                    build_tag parts (snd o) = Ok (p_tag p) /\
                    queue_dir_name md5hex (p_id p) = Some (qd_name d) /\
                    (forall p', In p' (g_pipes g2) -> queue_dir_name md5hex (p_id p') = Some (qd_name d) -> p_keys p' = snd o).
Proof. exact restart_reattaches_lemma. Qed.
Print Assumptions C06_restart_reattaches_partial.

(* ---------------------------------------------------------------------------------------------- *)
(* 5. non-vacuity                                                                                   *)

(* The hypothesis on md5 is met by the function used in the correspondence run (Model/Md5.v). *)
Theorem C06_md5_hypothesis_holds : forall s, length (md5_hex s) = 32%nat.
Proof. exact md5_hex_length. Qed.
Print Assumptions C06_md5_hypothesis_holds.

(* A concrete run: template "$k0-$k1", records ("ab","c"), ("a","bc"), ("ab","c") over two sinks: two
   pipelines with ids "ab,c" / "a,bc", tags "ab-c" / "a-bc"; the third record joins the first pipeline;
   the queue directories are "ab,c.3654f15c" and "a,bc.a4d9865d" and both are recovered at restart. *)
Theorem C06_example : example_statement.
Proof. exact example_proof. Qed.
Print Assumptions C06_example.

(* ---------------------------------------------------------------------------------------------- *)
(* 6. concurrent input sinks (Model/RoutingConc.v): the key values of a record travel from Extract to GetOrCreate
      through the extractor's scratch slice; every sink is a process, the steps of one record (start, one store per
      key field, read + local lookup, read again + global getOrCreate) are separate events, and a schedule is ANY
      list of sink numbers.  [run_sched false] = one scratch slice per sink (NewSink: base.NewFieldSetExtractor),
      [run_sched true] = all sinks use the same slice. *)

(* Every interleaving of any number of sinks with any programs of records of the configured arity: each record that
   is appended to a pipeline is appended to a pipeline whose keys, id (queue name), tag and labels are those of the
   record's OWN key values. *)
Theorem C06_conc_routing_own_keys :
  forall parts n ids g0 progs sched st,
    orch_init parts n ids = Ok g0 ->
    Forall (Forall (fun t => length t = n)) progs ->
    run_sched false parts n (c_init g0 n progs) sched = Ok st ->
    forall s t i, In (s, t, i) (c_log st) ->
      exists p, nth_error (g_pipes (c_g st)) i = Some p /\ p_keys p = t /\ p_id p = pipeline_id t /\
                build_tag parts t = Ok (p_tag p) /\ p_labels p = map Utf8.to_valid_utf8 t.
Proof. exact conc_routing_own_keys_lemma. Qed.
Print Assumptions C06_conc_routing_own_keys.

(* ... two records of the run - of the same or of different sinks - share a pipeline exactly when their key tuples are equal *)
Theorem C06_conc_routing_injective :
  forall parts n ids g0 progs sched st,
    orch_init parts n ids = Ok g0 ->
    Forall (Forall (fun t => length t = n)) progs ->
    run_sched false parts n (c_init g0 n progs) sched = Ok st ->
    forall s t i s' t' i', In (s, t, i) (c_log st) -> In (s', t', i') (c_log st) -> (t = t' <-> i = i').
Proof. exact conc_routing_injective_lemma. Qed.
Print Assumptions C06_conc_routing_injective.

(* ... and no pipeline exists for a key tuple that no record has (only those found at startup and those of routed records) *)
Theorem C06_conc_no_phantom :
  forall parts n ids g0 progs sched st,
    orch_init parts n ids = Ok g0 ->
    Forall (Forall (fun t => length t = n)) progs ->
    run_sched false parts n (c_init g0 n progs) sched = Ok st ->
    forall p, In p (g_pipes (c_g st)) -> In p (g_pipes g0) \/ exists s i, In (s, p_keys p, i) (c_log st).
Proof. exact conc_no_phantom_lemma. Qed.
Print Assumptions C06_conc_no_phantom.

(* What is logged for a sink (oldest first), the record it is working on and what it still has to do are its program:
   no record is routed twice, skipped, reordered or invented - under every schedule and either ownership of the scratch
   (so the entries of the log ARE the records of the programs with their own key values). *)
Theorem C06_conc_log_is_program :
  forall shared parts n g0 progs sched st,
    run_sched shared parts n (c_init g0 n progs) sched = Ok st ->
    forall s p, nth_error (c_procs st) s = Some p -> logged s (c_log st) ++ cur_of p ++ sp_todo p = nth s progs [].
Proof. exact conc_log_is_program_lemma. Qed.
Print Assumptions C06_conc_log_is_program.

(* Interleaving independence: two complete runs of the same programs under ANY two schedules route the same records
   per sink in the same order, the same record reaches a pipeline with the same keys / id / tag / labels in both, and the
   same pipelines exist.  (This is what allows the correspondence run of kind 8 to compare the model under a schedule
   drawn by the generator with the implementation under the schedule of the Go runtime.) *)
Theorem C06_conc_schedule_independent :
  forall parts n ids g0 progs sched1 sched2 st1 st2,
    orch_init parts n ids = Ok g0 ->
    Forall (Forall (fun t => length t = n)) progs ->
    run_sched false parts n (c_init g0 n progs) sched1 = Ok st1 -> all_done st1 = true ->
    run_sched false parts n (c_init g0 n progs) sched2 = Ok st2 -> all_done st2 = true ->
    (forall s, logged s (c_log st1) = logged s (c_log st2)) /\
    (forall s t i1 i2 p1 p2, In (s, t, i1) (c_log st1) -> In (s, t, i2) (c_log st2) ->
        nth_error (g_pipes (c_g st1)) i1 = Some p1 -> nth_error (g_pipes (c_g st2)) i2 = Some p2 -> p1 = p2) /\
    (forall p, In p (g_pipes (c_g st1)) <-> In p (g_pipes (c_g st2))).
Proof. exact conc_schedule_independent_lemma. Qed.
Print Assumptions C06_conc_schedule_independent.

(* The run of correspondence kind 8 (pseudo-random picks, then every sink to its end) is the run of one schedule. *)
Theorem C06_conc_run_is_a_schedule :
  forall shared parts n progs seed burst,
    exists sched, conc_exec shared parts n progs seed burst = run_sched shared parts n (c_init g_init n progs) sched.
Proof. exact conc_exec_is_sched. Qed.
Print Assumptions C06_conc_run_is_a_schedule.

(* With ONE scratch slice for all sinks (seeded change C06/4: the orchestrator keeps one FieldSetExtractor and copies
   the struct into every sink) the statement fails: sinks 0 and 1 with the records (info, web) and (warn, db), template
   $level-$app; sink 1 stores its level between sink 0's Extract and sink 0's lookup: the record (info, web) is appended
   to a pipeline with keys (warn, web), id "warn,web", tag "warn-web" - a key set no record has.  The same schedule with
   one slice per sink gives the two pipelines (info, web) and (warn, db). *)
Theorem C06_shared_scratch_refuted :
  exists st, run_sched true w_parts 2 (c_init g_init 2 w_progs) w_sched = Ok st /\ all_done st = true /\
    (exists p, In (O, [w_info; w_web], O) (c_log st) /\ nth_error (g_pipes (c_g st)) O = Some p /\
               p_keys p = [w_warn; w_web] /\ p_id p = w_warn ++ [44] ++ w_web /\ p_tag p = w_warn ++ [45] ++ w_web) /\
    (forall s t i, In (s, t, i) (c_log st) -> t <> [w_warn; w_web]) /\
    (exists st', run_sched false w_parts 2 (c_init g_init 2 w_progs) w_sched = Ok st' /\ all_done st' = true /\
                 map p_keys (g_pipes (c_g st')) = [[w_info; w_web]; [w_warn; w_db]]).
Proof. exact shared_scratch_refuted_lemma. Qed.
Print Assumptions C06_shared_scratch_refuted.

(* The hypotheses of the theorems of this section are satisfiable: two sinks, three records, stores interleaved field by field. *)
Theorem C06_conc_example :
  orch_init w_parts 2 [] = Ok g_init /\ Forall (Forall (fun t => length t = 2%nat)) ex_progs /\
  exists st, run_sched false w_parts 2 (c_init g_init 2 ex_progs) ex_sched = Ok st /\ all_done st = true /\
             length (c_log st) = 3%nat /\ map p_id (g_pipes (c_g st)) = [w_info ++ [44] ++ w_web; w_warn ++ [44] ++ w_db].
Proof. exact conc_example_lemma. Qed.
Print Assumptions C06_conc_example.
