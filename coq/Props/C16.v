(* C16 - Accepted configurations always instantiate; rejected ones fail cleanly.
   Only the property theorems; each is closed by [exact] of a lemma from Proofs/.

   [verify], [construct], [run_record], [refs] are the model of Model/Config.v (run.ParseConfigFile
   with every VerifyConfig; the New*/Must* constructors; one record through the constructed
   pipeline; the reference sites).  [fixed_quirks] = the code after the fix: commits of the C16
   branch; [quirk n] = the same code with the n-th repaired defect switched back on. *)
From Coq Require Import String.
From SV Require Import Model.Common Model.ConfigTemplate Model.ConfigExtractor Model.Config Spec.ConfigSpec
  Proofs.ConfigTemplateProofs Proofs.ConfigExtractorProofs Proofs.ConfigProofs Proofs.ConfigWitnesses
  Model.ConfigHolder Spec.ConfigHolderSpec Proofs.ConfigHolderProofs.
Open Scope string_scope.
Open Scope Z_scope.

(* Every configuration the loader accepts can be constructed completely (inputs' parsers and extraction
   steps, orchestrator keys and tag, metric keys, every transform including all nested steps, every
   serializer with its rewriter chains) and no record - whatever its field values, whatever regexp, glob,
   the redactor, the unescaper and the UTF-8 cleaner return (ext_wf) - reaches a panic site.
   By structural induction over the configuration AST. *)
Theorem C16_verify_ok_construct_ok :
  forall c, verify fixed_quirks c = Ok tt ->
  exists p, construct fixed_quirks c = Ok p /\ pipeline_safe p = true /\ records_safe p.
Proof. exact verify_ok_construct_ok_lemma. Qed.
Print Assumptions C16_verify_ok_construct_ok.

(* Loading never panics: whatever the file, the answer is Ok or an error value. *)
Theorem C16_verify_total : forall c, is_panic (verify fixed_quirks c) = false.
Proof. exact verify_total_lemma. Qed.
Print Assumptions C16_verify_total.

(* Every reference / expression site of an accepted file is valid in the sense of Spec/ConfigSpec.v:
   field names, metric key fields, template variables and slice bounds, capture names, extractHead/Tail
   patterns (extraction from any text does not panic), percentages, lengths, sizes, durations, rewriter
   order, nested step lists - at every depth. *)
Theorem C16_sites_complete :
  forall c, verify fixed_quirks c = Ok tt -> Forall (ref_valid (c_fields c)) (refs c).
Proof. exact sites_complete_lemma. Qed.
Print Assumptions C16_sites_complete.

(* The hazard check printed by the correspondence run is sound: a pipeline it passes never panics. *)
Theorem C16_safe_pipeline_never_panics : forall p, pipeline_safe p = true -> records_safe p.
Proof. exact safe_pipeline_records_safe. Qed.
Print Assumptions C16_safe_pipeline_never_panics.

(* The model's verdict line is never a panic verdict (what bin/check compares with the real code). *)
Theorem C16_verdict_never_panics : forall c, is_vpanic (snd (verdict fixed_quirks c)) = false.
Proof. exact verdict_never_panics_lemma. Qed.
Print Assumptions C16_verdict_never_panics.

(* An accepted template is a sequence of literal text, $name, ${name} and ${name[a:b]} with every
   variable in scope and every bound an int64; an accepted extractHead/Tail pattern extracts totally. *)
Theorem C16_template_grammar :
  forall scope t r, new_expander false (locate scope) t = Ok r -> template_valid scope t.
Proof. exact new_expander_valid. Qed.
Print Assumptions C16_template_grammar.

Theorem C16_special_pattern_total :
  forall pos pattern maxr ex, new_string_extractor_simple true pos pattern maxr = Ok ex -> special_pattern_valid pos pattern.
Proof. exact special_pattern_valid_of_ok. Qed.
Print Assumptions C16_special_pattern_total.

(* The repairs only restrict: every configuration the repaired loader accepts was accepted by the original
   loader (the eleven fixes turn acceptances and crashes into error values, they accept nothing new). *)
Theorem C16_fixes_only_restrict : forall c, verify fixed_quirks c = Ok tt -> verify original_quirks c = Ok tt.
Proof. exact fixes_only_restrict_lemma. Qed.
Print Assumptions C16_fixes_only_restrict.

(* Sites that interact (one field named at two sites with different roles).  For every accepted file: the key
   fields are pairwise distinct across orchestration keys and metricKeys at every position (they are the label
   names key_<field> of one metric), output names and schema fields are distinct, and the rewriter chain of EVERY
   rewriteFields entry is well formed and on a known field - whether that field is hidden, an environment field
   or visible. *)
Theorem C16_interacting_sites : forall c, verify fixed_quirks c = Ok tt ->
  NoDup (orch_keys (c_orch c) ++ c_metric_keys c) /\
  NoDup (map p_name (c_pairs c)) /\
  NoDup (c_fields c) /\
  (forall p env hidden rewrites mode addr ok dur, In p (c_pairs c) ->
     p_output p = OFluentd env hidden rewrites mode addr ok dur ->
     forall fr, In fr rewrites -> known (c_fields c) (fst fr) /\ rewriters_valid (c_fields c) (snd fr)).
Proof. exact interacting_sites_lemma. Qed.
Print Assumptions C16_interacting_sites.

(* ... and the constructors really depend on these interactions (the model has both sides): a metric key equal
   to the first orchestration key makes the registry panic at the first record; a malformed chain on a hidden
   field makes NewEventSerializer panic - each is rejected by verify. *)
Theorem C16_interacting_sites_constructed :
  (exists e, verify fixed_quirks w_key_overlap = Err e) /\
  (exists p, construct fixed_quirks w_key_overlap = Ok p /\ pipeline_safe p = false /\
             run_record x_trivial p 0 (w_record "x") = Panic site_metric_label) /\
  (exists e, verify fixed_quirks (w_hidden_chain [RwInline (bs "log")]) = Err e) /\
  construct fixed_quirks (w_hidden_chain [RwInline (bs "log")]) = Panic site_rewriter_order /\
  (exists e, verify fixed_quirks (w_hidden_chain [RwCopy; RwUnescape]) = Err e) /\
  construct fixed_quirks (w_hidden_chain [RwCopy; RwUnescape]) = Panic site_rewriter_order /\
  (exists e, verify fixed_quirks (w_hidden_chain [RwInline (bs "nosuch"); RwCopy]) = Err e) /\
  construct fixed_quirks (w_hidden_chain [RwInline (bs "nosuch"); RwCopy]) = Panic site_must_locator /\
  verify fixed_quirks (w_hidden_chain [RwInline (bs "log"); RwCopy]) = Ok tt.
Proof. exact w_interactions. Qed.
Print Assumptions C16_interacting_sites_constructed.

(* Non-vacuity: a configuration with switch / if / block nesting, sampled drop, templates with slices,
   both extractors, named captures, two outputs and an inline+unescape rewriter chain is accepted
   (86 reference sites); the assumption on the libraries is satisfiable. *)
Theorem C16_example : verify fixed_quirks example_config = Ok tt /\ length (refs example_config) = 86%nat /\ ext_wf x_trivial.
Proof. exact (conj example_verified (conj example_refs_count x_trivial_wf)). Qed.
Print Assumptions C16_example.

(* ---- the defects of the original code: with any single one switched back on the property fails ---- *)

(* extract: named capture not in the schema accepted, NewTransform panics (fix 5901397) *)
Theorem C16_original_extract_capture_refuted :
  exists c, verify (quirk 0) c = Ok tt /\ construct (quirk 0) c = Panic site_must_locator /\ exists e, verify fixed_quirks c = Err e.
Proof. exact (ex_intro _ w_extract w_extract_refutes). Qed.
Print Assumptions C16_original_extract_capture_refuted.

(* fluentdForward: unknown environment field accepted, MustNewEventSerializer panics; unknown hidden field
   accepted and never validated (fix cd0b45a) *)
Theorem C16_original_fluentd_fields_refuted :
  verify (quirk 1) w_fluentd_env = Ok tt /\ construct (quirk 1) w_fluentd_env = Panic site_serializer /\
  verify (quirk 1) w_fluentd_hidden = Ok tt /\ In (RefField (bs "nosuch")) (refs w_fluentd_hidden) /\ ~ known (c_fields w_fluentd_hidden) (bs "nosuch") /\
  (exists e, verify fixed_quirks w_fluentd_env = Err e) /\ (exists e, verify fixed_quirks w_fluentd_hidden = Err e).
Proof. exact w_fluentd_refutes. Qed.
Print Assumptions C16_original_fluentd_fields_refuted.

(* string template: ${f[99999999999999999999:]} panics during verification (fix 73f36c6) *)
Theorem C16_original_template_number_refuted :
  verify (quirk 2) w_template = Panic site_template_atoi /\ verify (quirk 2) w_tag_template = Panic site_template_atoi /\
  (exists e, verify fixed_quirks w_template = Err e) /\ (exists e, verify fixed_quirks w_tag_template = Err e).
Proof. exact w_template_refutes. Qed.
Print Assumptions C16_original_template_number_refuted.

(* extractHead/extractTail: 'x[]', '[a--z]' accepted and the constructor panics; 'abc*' (head), '*abc' (tail)
   accepted and the first matching record indexes the nil table (fix 7a69b7f) *)
Theorem C16_original_special_pattern_refuted :
  verify (quirk 3) w_special_bracket = Ok tt /\ construct (quirk 3) w_special_bracket = Panic site_extractor /\
  verify (quirk 3) w_special_hyphen = Ok tt /\ construct (quirk 3) w_special_hyphen = Panic site_extractor /\
  verify (quirk 3) w_special_head = Ok tt /\
  (exists p, construct (quirk 3) w_special_head = Ok p /\ run_record x_trivial p 0 (w_record "abcdef") = Panic site_nil_table) /\
  verify (quirk 3) w_special_tail = Ok tt /\
  (exists p, construct (quirk 3) w_special_tail = Ok p /\ run_record x_trivial p 0 (w_record "xyzabc") = Panic site_nil_table) /\
  (exists e, verify fixed_quirks w_special_bracket = Err e) /\ (exists e, verify fixed_quirks w_special_hyphen = Err e) /\
  (exists e, verify fixed_quirks w_special_head = Err e) /\ (exists e, verify fixed_quirks w_special_tail = Err e).
Proof. exact w_special_refutes. Qed.
Print Assumptions C16_original_special_pattern_refuted.

(* datadog: unparsable address accepted, NewClientWorker panics (fix 34d77db); hidden field never validated (fix 2c9346c) *)
Theorem C16_original_datadog_refuted :
  verify (quirk 4) (w_datadog [] false) = Ok tt /\ construct (quirk 4) (w_datadog [] false) = Panic site_datadog_url /\
  verify (quirk 5) (w_datadog [bs "nosuch"] true) = Ok tt /\ In (RefField (bs "nosuch")) (refs (w_datadog [bs "nosuch"] true)) /\
  (exists e, verify fixed_quirks (w_datadog [] false) = Err e) /\ (exists e, verify fixed_quirks (w_datadog [bs "nosuch"] true) = Err e).
Proof. exact w_datadog_refutes. Qed.
Print Assumptions C16_original_datadog_refuted.

(* missing orchestration / buffer / output section: nil pointer dereference inside ParseConfigFile (fixes e463168, 1cd23b5) *)
Theorem C16_original_missing_section_refuted :
  verify (quirk 6) w_no_orch = Panic site_nil_config /\ verify (quirk 7) w_no_buffer = Panic site_nil_config /\
  verify (quirk 7) w_no_output = Panic site_nil_config /\
  (exists e, verify fixed_quirks w_no_orch = Err e) /\ (exists e, verify fixed_quirks w_no_buffer = Err e) /\
  (exists e, verify fixed_quirks w_no_output = Err e).
Proof. exact w_missing_refutes. Qed.
Print Assumptions C16_original_missing_section_refuted.

(* key fields that are not valid / distinct metric label names: the metric registry panics at the first record (fix d6d585e) *)
Theorem C16_original_metric_labels_refuted :
  verify (quirk 8) w_label_metric = Ok tt /\
  (exists p, construct (quirk 8) w_label_metric = Ok p /\ run_record x_trivial p 0 (w_record "x") = Panic site_metric_label) /\
  verify (quirk 8) w_label_orch = Ok tt /\
  (exists p, construct (quirk 8) w_label_orch = Ok p /\ run_record x_trivial p 0 (w_record "x") = Panic site_metric_label) /\
  (exists e, verify fixed_quirks w_label_metric = Err e) /\ (exists e, verify fixed_quirks w_label_orch = Err e).
Proof. exact w_labels_refute. Qed.
Print Assumptions C16_original_metric_labels_refuted.

(* no output: the first dropped record panics in LogAllocator.Release (fix b0d9ac3) *)
Theorem C16_original_no_outputs_refuted :
  verify (quirk 9) w_no_outputs = Ok tt /\
  (exists p, construct (quirk 9) w_no_outputs = Ok p /\ run_record x_trivial p 0 (w_record "x") = Panic site_no_output_release) /\
  (exists e, verify fixed_quirks w_no_outputs = Err e).
Proof. exact w_no_outputs_refutes. Qed.
Print Assumptions C16_original_no_outputs_refuted.

(* the original code as a whole: accepted-then-constructor-panic, panic-while-loading, accepted-then-record-panic *)
Theorem C16_original_code_refuted :
  (exists c s, verify original_quirks c = Ok tt /\ construct original_quirks c = Panic s) /\
  (exists c s, verify original_quirks c = Panic s) /\
  (exists c p f s, verify original_quirks c = Ok tt /\ construct original_quirks c = Ok p /\
                   Z.of_nat (length f) = pl_nfields p /\ run_record x_trivial p 0 f = Panic s).
Proof. exact original_refuted. Qed.
Print Assumptions C16_original_code_refuted.

(* ---- the config holder: how every typed component (input, orchestration, transform and nested step, buffer,
        output, rewriter) is decoded from its YAML node (Model/ConfigHolder.v) ---- *)

(* ConfigHolder.UnmarshalYAML never panics: for EVERY node - scalar, sequence, mapping with 0, 1, 2, ... children,
   whatever the children are - every table of registered types and every answer of the struct decoder, the result
   is a type name or an error value.  (value.Content[i] is a checked access in the model.) *)
Theorem C16_holder_never_panics : forall table dec n, is_panic (holder_unmarshal table dec n) = false.
Proof. exact holder_total. Qed.
Print Assumptions C16_holder_never_panics.

(* ... also as yaml.v3 reaches it: through an alias (to any node), and not at all for a null node *)
Theorem C16_holder_site_never_panics : forall table dec n, is_panic (site_decode table dec n) = false.
Proof. exact site_decode_total. Qed.
Print Assumptions C16_holder_site_never_panics.

(* ... hence at every node of every document, at every depth, whichever of them are component sites *)
Theorem C16_holder_every_document_node :
  forall table dec d, Forall (fun s => is_panic (site_decode table dec s) = false) (subnodes d).
Proof. exact every_site_total. Qed.
Print Assumptions C16_holder_every_document_node.

(* accepted = exactly the nodes with at least two children whose first is the scalar "type", whose second's value
   is a registered type and which decode into that type's struct (Spec/ConfigHolderSpec.v) *)
Theorem C16_holder_accepts_exactly :
  forall table dec n ty, holder_unmarshal table dec n = Ok ty <-> holder_accepts table dec n ty.
Proof. exact holder_spec. Qed.
Print Assumptions C16_holder_accepts_exactly.

(* ... and every other node is rejected with an error value *)
Theorem C16_holder_rejects_cleanly :
  forall table dec n, (forall ty, ~ holder_accepts table dec n ty) -> exists e, holder_unmarshal table dec n = Err e.
Proof. exact holder_rejects_cleanly. Qed.
Print Assumptions C16_holder_rejects_cleanly.

(* the guard in front of Content[0] is load-bearing, and exactly so: with an ARBITRARY predicate on nodes in its
   place, UnmarshalYAML is panic-free for all inputs if and only if the predicate lets through no node without
   children and no one-child node whose child is the scalar "type" *)
Theorem C16_holder_guard_exact :
  forall guard, (forall table dec n, is_panic (holder_with guard table dec n) = false) <-> guard_safe guard.
Proof. exact guard_exact. Qed.
Print Assumptions C16_holder_guard_exact.

(* variant "must be a mapping" (kind check instead of the length check): refuted by the empty mapping {} - directly
   and through an alias - which the code rejects with an error value *)
Theorem C16_holder_kind_guard_variant_refuted :
  ~ guard_safe kind_guard /\
  forall table dec,
    holder_with kind_guard table dec y_empty_mapping = Panic site_holder_index /\
    site_decode_with kind_guard table dec y_alias_empty = Panic site_holder_index /\
    (exists e, holder_unmarshal table dec y_empty_mapping = Err e) /\
    (exists e, site_decode table dec y_alias_empty = Err e).
Proof. exact kind_guard_refuted. Qed.
Print Assumptions C16_holder_kind_guard_variant_refuted.

(* variant "must not be empty" (len < 1): refuted by the sequence [type] *)
Theorem C16_holder_len1_guard_variant_refuted :
  ~ guard_safe len1_guard /\
  forall table dec,
    holder_with len1_guard table dec y_seq_type = Panic site_holder_index /\
    (exists e, holder_unmarshal table dec y_seq_type = Err e).
Proof. exact len1_guard_refuted. Qed.
Print Assumptions C16_holder_len1_guard_variant_refuted.

(* non-vacuity: {type: unescape, key: log} is accepted, directly and through an alias; null leaves the holder
   untouched; the same node is an error value when the decoder refuses it or the type is not registered *)
Theorem C16_holder_example :
  holder_unmarshal [s_unescape_ty] (fun _ _ => true) y_unescape = Ok s_unescape_ty /\
  holder_accepts [s_unescape_ty] (fun _ _ => true) y_unescape s_unescape_ty /\
  site_decode [s_unescape_ty] (fun _ _ => true) (YNode KAlias [] [117]%N [y_unescape]) = Ok (HType s_unescape_ty) /\
  site_decode [s_unescape_ty] (fun _ _ => true) y_null = Ok HNil /\
  (exists e, holder_unmarshal [s_unescape_ty] (fun _ _ => false) y_unescape = Err e) /\
  (exists e, holder_unmarshal [] (fun _ _ => true) y_unescape = Err e).
Proof. exact holder_example. Qed.
Print Assumptions C16_holder_example.
