From SV Require Import Model.Common Model.ConfigTemplate Model.ConfigExtractor Model.Config.
Theorem C16_placeholder : True. Proof. exact I. Qed.
Print Assumptions C16_placeholder.
