(* C13 — Timestamps are parsed exactly and parsing is total.
   Only the property theorems; each is closed by [exact] of a lemma from Proofs/. *)
From SV Require Import Model.Common Model.ParseTime Spec.TimeSpec Proofs.ParseTimeProofs.

(* Every valid RFC 3339 timestamp (years 0000-9999, 0-9 fractional digits, Z or a numeric
   offset in colon or compact form) is parsed to exactly the instant it denotes. *)
Theorem C13_parse_render_exact :
  forall (local_off : Z) (c : civil), valid c -> parse_rfc3339 local_off (render c) = Ok (instant c).
Proof. exact parse_render_exact_lemma. Qed.
Print Assumptions C13_parse_render_exact.

(* Parsing never panics, for every byte string. *)
Theorem C13_parse_total :
  forall (local_off : Z) (t : bytes), is_panic (parse_rfc3339 local_off t) = false.
Proof. exact parse_total_lemma. Qed.
Print Assumptions C13_parse_total.

(* A string that is not shaped like a date-time (shorter than 19 bytes - including "-" - or with
   a wrong separator at one of the five fixed positions) is reported as an error. *)
Theorem C13_unshaped_is_error :
  forall (local_off : Z) (t : bytes), ~ shaped t -> exists e, parse_rfc3339 local_off t = Err e.
Proof. exact unshaped_is_error_lemma. Qed.
Print Assumptions C13_unshaped_is_error.

(* The transform: an error is counted (TpError = counter + 1, timestamp untouched), an empty value
   is treated as an absent field (timestamp untouched, nothing counted), otherwise the timestamp is
   the parse result; no panic. *)
Theorem C13_transform_cases :
  forall (local_off : Z) (v : bytes),
  match transform_parse_time local_off v with
  | TpSkip => v = []
  | TpSet u n => parse_rfc3339 local_off v = Ok (u, n)
  | TpError => v <> [] /\ exists e, parse_rfc3339 local_off v = Err e
  | TpPanic _ => False
  end.
Proof. exact transform_cases_lemma. Qed.
Print Assumptions C13_transform_cases.

(* Non-vacuity: the hypotheses of the first theorem are met by a concrete timestamp,
   "2019-08-15T15:50:46.000129+03:00" (the input on which the float code lost a nanosecond). *)
Theorem C13_example : valid example_civil /\ parse_rfc3339 0 (render example_civil) = Ok (1565873446, 129000)%Z.
Proof. exact (conj example_valid example_value). Qed.
Print Assumptions C13_example.
