(* C18 — Shutdown always completes in bounded time (PARTIAL by nature).
   The wait graph of the agent after a stop request (Model/Shutdown.v): every blocking point of the shutdown path is
   a node with its wake-up set (stop signal / closed channel / closed connection; deadline constant of
   defs/params.go; peer task).  The clock is discrete; scheduler latency, CPU work, kernel socket behaviour and
   disk stalls are outside the model.  Hypotheses built into the graph: callbacks and file operations return; a
   connection operation returns by its deadline or when the connection is closed. *)
From SV Require Import Model.Common Model.Metrics Model.Shutdown Proofs.ShutdownProofs Proofs.MetricsProofs Proofs.ShutdownClientProofs.
Local Open Scope Z_scope.

(* the completion bound computed from the wake-up sets is sound for EVERY wait graph: every run completes, no
   later than bnd g ticks after it was started.  A wait whose wake-up set contains neither the stop edge, nor a
   deadline, nor a guaranteed peer makes bnd = None and falls outside this theorem - that is where such a wait
   shows up. *)
Theorem C18_bound_sound :
  forall g s t, wf g = true -> runs g s t ->
  forall b, bnd g = Some b -> exists z, t = Some z /\ s <= z <= s + b.
Proof. exact bnd_sound. Qed.
Print Assumptions C18_bound_sound.

(* stop_terminates and stop_bound: for all timeout parameters, all loads (connections, pipelines, outputs,
   leftovers, window), every phase of the client at the moment of the stop and every upstream condition -
   including a consumer that never finishes - every run of the shutdown completes, within B(defs, load) ticks *)
Theorem C18_stop_terminates_within_bound :
  forall (p : params) (sh : shape), params_ok p = true ->
  forall (ph : cphase18) (t : option Z),
  runs (agent p sh ph) 0 t -> exists z, t = Some z /\ 0 <= z <= B p sh.
Proof. exact stop_bound_lemma. Qed.
Print Assumptions C18_stop_terminates_within_bound.

(* every wait the real client passes after the stop - idle, waiting for an ACK, sending or re-sending on the
   session the stop signal aborts, connecting, retry wait, and (with the repair caaa160) on a session that became
   active after the signal - has a stop edge: the client needs no tick *)
Theorem C18_client_waits_have_stop_edge :
  forall (p : params) (sh : shape), params_ok p = true ->
  forall ph, aborted_phase sh ph = true -> bnd (client p sh ph) = Some 0.
Proof. exact client_instant_lemma. Qed.
Print Assumptions C18_client_waits_have_stop_edge.

(* ... and then the whole shutdown needs no tick (usable directory, live workers): what remains is scheduler
   latency and I/O, and Destroy returns because the feeder has stopped, not through its deadline *)
Theorem C18_stop_instant :
  forall (p : params) (sh : shape), params_ok p = true ->
  forall ph t, aborted_phase sh ph = true -> worker_live sh = true -> has_dir sh = true ->
  runs (agent p sh ph) 0 t -> t = Some 0.
Proof. exact stop_instant_lemma. Qed.
Print Assumptions C18_stop_instant.

(* the feeder waits for its consumers WITHOUT deadline and WITHOUT stop edge (consumerCounter.Wait()); it is
   bounded by the client: it stops within the client's own bound *)
Theorem C18_feeder_bounded_by_client :
  forall (p : params) (sh : shape), params_ok p = true ->
  forall ph c s t, bnd (client p sh ph) = Some c -> 0 <= c ->
  runs (feeder p sh ph) s t -> exists z, t = Some z /\ s <= z <= s + c.
Proof. exact feeder_in_time_lemma. Qed.
Print Assumptions C18_feeder_bounded_by_client.

(* the same on the client MACHINE (Model/Metrics.v section E, the one replayed against the real client's traces for
   C19), with a variant measure: from every reachable state, a run after the stop signal - whatever the connection,
   the acknowledger and Go's select do - has at most [variant s w] steps (explicit in the chunks held and the w
   chunks left in the closed output channel), and it cannot stop before CStopped: some step woken by the stop
   signal, a closed channel or a returning connection operation is always enabled *)
Theorem C18_client_steps_after_stop_bounded :
  forall cfg evs0 s, c_run cfg c_init evs0 = Some s ->
  forall w evs s' w', 0 <= w -> c_run_stop cfg s w evs = Some (s', w') ->
  Z.of_nat (length evs) <= variant s w.
Proof. exact client_stop_steps_bounded_reachable_lemma. Qed.
Print Assumptions C18_client_steps_after_stop_bounded.

Theorem C18_client_never_stuck_after_stop :
  forall cfg s w, c_stop s = true -> c_phase s <> CStopped ->
  exists e s', post_stop_ok w e = true /\ c_step cfg s e = Some s'.
Proof. exact client_stop_progress_lemma. Qed.
Print Assumptions C18_client_never_stuck_after_stop.

(* the ORIGINAL code (late_abort = false): a session that became active after the abort-on-stop callback had run was
   not aborted by the stop: its sends were bounded by their deadline only.  Finding C18-late-session, fixed. *)
Theorem C18_late_session_bound_before_fix :
  forall (p : params) (sh : shape), params_ok p = true -> late_abort sh = false ->
  bnd (client p sh PSendingLate) = Some (t_send p) /\
  bnd (client p sh PConnectingLate) = Some (Z.of_nat (n_left sh) * t_send p).
Proof. exact client_late_lemma. Qed.
Print Assumptions C18_late_session_bound_before_fix.

(* nothing_only_in_memory: (a) for every place the real client can be at the stop (aborted_phase: all but the
   consumer that never finishes, given the repair) the feeder stops 0 ticks after Destroy released it - before Destroy's
   deadline -, so Destroy returns because the feeder has stopped: C18_feeder_bounded_by_client with c = 0;
   (b) at that moment (the buffer invariant of C19) nothing is left in the queues or with the consumer, and every
   chunk still pending has been saved to a file (or was counted dropped when the write was refused).
   PARTIAL: file writes are modelled as returning (no disk stall), and a consumer that never finishes is excluded. *)
Theorem C18_nothing_only_in_memory_partial :
  (forall (p : params) (sh : shape), params_ok p = true ->
   forall ph s t, aborted_phase sh ph = true -> runs (feeder p sh ph) s t -> t = Some s) /\
  (forall cfg n0 evs s, b_run cfg (b_init n0) evs = Some s -> b_phase s = BDone ->
   b_queue s = [] /\ b_hand s = None /\ b_window s = [] /\ b_held s = [] /\
   all_saved (b_parked s) /\ m_pending (b_m s) = zlen (b_parked s)).
Proof. exact (conj feeder_at_once_lemma buffer_done_locations_lemma). Qed.
Print Assumptions C18_nothing_only_in_memory_partial.

(* before the repair, with the production constants: the late session alone could need longer than Destroy's deadline *)
Theorem C18_late_session_exceeds_destroy_deadline_refuted :
  exists c, bnd (client prod_params prod_shape PConnectingLate) = Some c /\ run_timeout prod_params prod_shape < c.
Proof. exact late_session_exceeds_destroy_deadline_lemma. Qed.
Print Assumptions C18_late_session_exceeds_destroy_deadline_refuted.

(* non-vacuity: the production constants satisfy the hypotheses; B = 600 s for 2 outputs per pipeline *)
Theorem C18_example :
  params_ok prod_params = true /\ B prod_params prod_shape_repaired = 600 /\
  bnd (agent prod_params prod_shape_repaired PSending) = Some 0 /\
  bnd (agent prod_params prod_shape_repaired PConnectingLate) = Some 0 /\
  bnd (agent prod_params prod_shape_repaired PStuck) = Some 600.
Proof. exact prod_example_lemma. Qed.
Print Assumptions C18_example.
