(* C18 — Shutdown always completes in bounded time (PARTIAL by nature).
   The wait graph of the agent after a stop request (Model/Shutdown.v): every blocking point of the shutdown path is
   a node with its wake-up set (stop signal / closed channel / closed connection; deadline constant of
   defs/params.go; peer task).  The clock is discrete; scheduler latency, CPU work, kernel socket behaviour and
   disk stalls are outside the model.  Hypotheses built into the graph: callbacks and file operations return; a
   connection operation returns by its deadline or when the connection is closed. *)
From SV Require Import Model.Common Model.Metrics Model.Shutdown Proofs.ShutdownProofs Proofs.MetricsProofs Proofs.ShutdownClientProofs.
From SV Require Import Model.ShutdownBacklog Proofs.ShutdownBacklogProofs.
From SV Require Import Model.ShutdownWaits Proofs.ShutdownWaitsProofs.
Local Open Scope Z_scope.

(* the completion bound computed from the wake-up sets is sound for EVERY wait graph: every run completes, no
   later than bnd g ticks after it was started.  A wait whose wake-up set contains neither the stop edge, nor a
   deadline, nor a guaranteed peer makes bnd = None and falls outside this theorem - that is where such a wait
   shows up. *)
Theorem C18_bound_sound :
  forall g s t, wf g = true -> runs g s t ->
  forall b, bnd g = Some b -> exists z, t = Some z /\ s <= z <= s + b.
Proof. exact bnd_sound. Qed.
Print Assumptions C18_bound_sound.

(* stop_terminates and stop_bound: for all timeout parameters, all loads (connections, pipelines, outputs,
   leftovers, window), every phase of the client at the moment of the stop and every upstream condition -
   including a consumer that never finishes - every run of the shutdown completes, within B(defs, load) ticks *)
Theorem C18_stop_terminates_within_bound :
  forall (p : params) (sh : shape), params_ok p = true ->
  forall (ph : cphase18) (t : option Z),
  runs (agent p sh ph) 0 t -> exists z, t = Some z /\ 0 <= z <= B p sh.
Proof. exact stop_bound_lemma. Qed.
Print Assumptions C18_stop_terminates_within_bound.

(* every wait the real client passes after the stop - idle, waiting for an ACK, sending or re-sending on the
   session the stop signal aborts, connecting, retry wait, and (with the repair caaa160) on a session that became
   active after the signal - has a stop edge: the client needs no tick *)
Theorem C18_client_waits_have_stop_edge :
  forall (p : params) (sh : shape), params_ok p = true ->
  forall ph, aborted_phase sh ph = true -> bnd (client p sh ph) = Some 0.
Proof. exact client_instant_lemma. Qed.
Print Assumptions C18_client_waits_have_stop_edge.

(* ... and then the whole shutdown needs no tick (usable directory, live workers): what remains is scheduler
   latency and I/O, and Destroy returns because the feeder has stopped, not through its deadline *)
Theorem C18_stop_instant :
  forall (p : params) (sh : shape), params_ok p = true ->
  forall ph t, aborted_phase sh ph = true -> worker_live sh = true -> has_dir sh = true ->
  runs (agent p sh ph) 0 t -> t = Some 0.
Proof. exact stop_instant_lemma. Qed.
Print Assumptions C18_stop_instant.

(* the feeder waits for its consumers WITHOUT deadline and WITHOUT stop edge (consumerCounter.Wait()); it is
   bounded by the client: it stops within the client's own bound *)
Theorem C18_feeder_bounded_by_client :
  forall (p : params) (sh : shape), params_ok p = true ->
  forall ph c s t, bnd (client p sh ph) = Some c -> 0 <= c ->
  runs (feeder p sh ph) s t -> exists z, t = Some z /\ s <= z <= s + c.
Proof. exact feeder_in_time_lemma. Qed.
Print Assumptions C18_feeder_bounded_by_client.

(* the same on the client MACHINE (Model/Metrics.v section E, the one replayed against the real client's traces for
   C19), with a variant measure: from every reachable state, a run after the stop signal - whatever the connection,
   the acknowledger and Go's select do - has at most [variant s w] steps (explicit in the chunks held and the w
   chunks left in the closed output channel), and it cannot stop before CStopped: some step woken by the stop
   signal, a closed channel or a returning connection operation is always enabled *)
Theorem C18_client_steps_after_stop_bounded :
  forall cfg evs0 s, c_run cfg c_init evs0 = Some s ->
  forall w evs s' w', 0 <= w -> c_run_stop cfg s w evs = Some (s', w') ->
  Z.of_nat (length evs) <= variant s w.
Proof. exact client_stop_steps_bounded_reachable_lemma. Qed.
Print Assumptions C18_client_steps_after_stop_bounded.

Theorem C18_client_never_stuck_after_stop :
  forall cfg s w, c_stop s = true -> c_phase s <> CStopped ->
  exists e s', post_stop_ok w e = true /\ c_step cfg s e = Some s'.
Proof. exact client_stop_progress_lemma. Qed.
Print Assumptions C18_client_never_stuck_after_stop.

(* the ORIGINAL code (late_abort = false): a session that became active after the abort-on-stop callback had run was
   not aborted by the stop: its sends were bounded by their deadline only.  Finding C18-late-session, fixed. *)
Theorem C18_late_session_bound_before_fix :
  forall (p : params) (sh : shape), params_ok p = true -> late_abort sh = false ->
  bnd (client p sh PSendingLate) = Some (t_send p) /\
  bnd (client p sh PConnectingLate) = Some (Z.of_nat (n_left sh) * t_send p).
Proof. exact client_late_lemma. Qed.
Print Assumptions C18_late_session_bound_before_fix.

(* nothing_only_in_memory: (a) for every place the real client can be at the stop (aborted_phase: all but the
   consumer that never finishes, given the repair) the feeder stops 0 ticks after Destroy released it - before Destroy's
   deadline -, so Destroy returns because the feeder has stopped: C18_feeder_bounded_by_client with c = 0;
   (b) at that moment (the buffer invariant of C19) nothing is left in the queues or with the consumer, and every
   chunk still pending has been saved to a file (or was counted dropped when the write was refused).
   PARTIAL: file writes are modelled as returning (no disk stall), and a consumer that never finishes is excluded. *)
Theorem C18_nothing_only_in_memory_partial :
  (forall (p : params) (sh : shape), params_ok p = true ->
   forall ph s t, aborted_phase sh ph = true -> runs (feeder p sh ph) s t -> t = Some s) /\
  (forall cfg n0 evs s, b_run cfg (b_init n0) evs = Some s -> b_phase s = BDone ->
   b_queue s = [] /\ b_hand s = None /\ b_window s = [] /\ b_held s = [] /\
   all_saved (b_parked s) /\ m_pending (b_m s) = zlen (b_parked s)).
Proof. exact (conj feeder_at_once_lemma buffer_done_locations_lemma). Qed.
Print Assumptions C18_nothing_only_in_memory_partial.

(* before the repair, with the production constants: the late session alone could need longer than Destroy's deadline *)
Theorem C18_late_session_exceeds_destroy_deadline_refuted :
  exists c, bnd (client prod_params prod_shape PConnectingLate) = Some c /\ run_timeout prod_params prod_shape < c.
Proof. exact late_session_exceeds_destroy_deadline_lemma. Qed.
Print Assumptions C18_late_session_exceeds_destroy_deadline_refuted.

(* non-vacuity: the production constants satisfy the hypotheses; B = 600 s for 2 outputs per pipeline *)
Theorem C18_example :
  params_ok prod_params = true /\ B prod_params prod_shape_repaired = 600 /\
  bnd (agent prod_params prod_shape_repaired PSending) = Some 0 /\
  bnd (agent prod_params prod_shape_repaired PConnectingLate) = Some 0 /\
  bnd (agent prod_params prod_shape_repaired PStuck) = Some 600.
Proof. exact prod_example_lemma. Qed.
Print Assumptions C18_example.

(* ------------------------------------------------------------------------------------------------------------ *)
(* "for every amount of pending data": the output feeder around the stop request (Model/ShutdownBacklog.v:
   outputFeeder.Run / loadToOutput / saveQueued / saveOutput and bufferer.Destroy at event granularity; the persistent
   queue is a list of ARBITRARY length; the scheduler - the event list - resolves every select).                  *)

(* In every reachable state after the stop request in which the feeder can forward a chunk (a select that can take
   outputChannel <- chunk), the stop branch of that select is enabled too: whether the feeder goes on never depends
   on the window being full, and never on what is left in the queue. *)
Theorem C18_feeder_stop_branch_always_enabled :
  forall cfg evs s, fg_fast cfg = false -> f_run cfg f_init evs = Some s ->
  f_closed s = true -> enabled cfg s FSend = true -> enabled cfg s FStop = true.
Proof. exact stop_branch_always_enabled_lemma. Qed.
Print Assumptions C18_feeder_stop_branch_always_enabled.

(* For ANY backlog and any run: the number of chunks sent to the output channel after the stop request (read off
   the history of the channel) equals the number of selects the scheduler resolved in favour of the send while the
   stop branch was offered.  Go resolves such a select by a fair coin: more than k forwards after the stop request
   have probability 2^-k, whatever the backlog. *)
Theorem C18_feeder_after_stop_bounded_by_choices :
  forall cfg evs s, fg_fast cfg = false -> f_run cfg f_init evs = Some s ->
  fwd_after s = f_choices cfg f_init evs.
Proof. exact after_stop_bounded_by_choices_lemma. Qed.
Print Assumptions C18_feeder_after_stop_bounded_by_choices.

(* The deterministic part: from any reachable state after the stop request, every run has at most
   (chunks in the queue) + (chunks in the window) + 5 + 2 * (selects resolved for the send) steps of the feeder: one
   cleanup iteration per pending chunk - a bounded-time file write for a chunk that is only in memory, nothing for a
   chunk that is on disk already - and nothing else grows with the backlog.  (The wait for the consumers inside the
   cleanup is the peer wait of C18_feeder_bounded_by_client.) *)
Theorem C18_feeder_steps_after_stop_bounded :
  forall cfg evs0 s, fg_fast cfg = false -> f_run cfg f_init evs0 = Some s -> f_closed s = true ->
  forall evs s', f_run cfg s evs = Some s' ->
  (f_steps evs <= length (f_queue s) + length (f_window s) + 5 + 2 * f_choices cfg s evs)%nat.
Proof. exact steps_after_stop_bounded_lemma. Qed.
Print Assumptions C18_feeder_steps_after_stop_bounded.

(* ... and the feeder is never stuck on its own after the stop request: in every reachable state before Stopped one
   of its steps is enabled - at the select it is the stop branch - except while it waits for its consumers. *)
Theorem C18_feeder_never_stuck_after_stop :
  forall cfg evs s, fg_fast cfg = false -> f_run cfg f_init evs = Some s ->
  f_closed s = true -> f_pc s <> PStopped ->
  (exists e, feeder_event e = true /\ enabled cfg s e = true /\ (forall c, f_pc s = PSelect c -> e = FStop)) \/
  (f_pc s = PWaitConsumers /\ f_cons s = true).
Proof. exact never_stuck_lemma. Qed.
Print Assumptions C18_feeder_never_stuck_after_stop.

(* The main loop holds at most one chunk: of the chunks it has taken from the queue all but one are forwarded or dropped
   (unloadable); so after the stop request it takes - and loads from disk - at most one chunk more than it forwards or
   drops.  (Observable on the real bufferer: recovered chunks minus the gauge queued_chunks{persistent}.) *)
Theorem C18_feeder_loop_holds_one_chunk :
  forall cfg evs s, f_run cfg f_init evs = Some s ->
  (f_loops s <= length (f_out s) + length (f_bad s) + 1)%nat.
Proof. exact loop_holds_one_chunk_lemma. Qed.
Print Assumptions C18_feeder_loop_holds_one_chunk.

(* The VARIANT with a non-blocking send in front of the two-way select (not the code of the repository; seeded to
   test this check) violates all of it, for every backlog length n and every window w > 0: after the stop request,
   with a consumer that takes each chunk at once, every step of the feeder is the ONLY step it can make (the stop
   branch is not offered while the window has room), all n chunks are forwarded after the stop request, and no select
   was resolved against the stop branch. *)
Theorem C18_fast_path_variant_refuted :
  forall n w q, (0 < w)%nat -> (n <= q)%nat ->
  let cfg := FCFG w q true in
  exists s0 s,
    f_run cfg f_init (accepts (backlog n) ++ [EDestroy]) = Some s0 /\
    length (f_queue s0) = n /\
    f_run_forced cfg s0 (rep n pass_one) = Some s /\
    fwd_after s = n /\ f_choices cfg s0 (rep n pass_one) = O /\ f_queue s = [] /\
    ((0 < n)%nat -> exists s1, f_run cfg s0 [FRecv] = Some s1 /\ f_closed s1 = true /\
                               enabled cfg s1 FSend = true /\ enabled cfg s1 FStop = false).
Proof. exact fast_path_variant_refuted_lemma. Qed.
Print Assumptions C18_fast_path_variant_refuted.

(* test on literals (non-vacuity): 40 chunk files, window 8, stop after 5 chunks, 3 selects resolved for the send:
   3 forwards after the stop, 8 received, 32 left to the cleanup, 9 taken from the queue by the main loop, stopped; the variant forwards them without a choice
   and (with the scheduler preferring the stop branch) never reaches it *)
Theorem C18_backlog_example :
  let cfg := FCFG 8 500 false in
  replay_backlog cfg 40 5 3 = Some (3, 3, 8, 32, 9, true)%nat /\
  (exists s, f_run cfg f_init (accepts (backlog 40) ++ rep 5 pass_one ++ [EDestroy] ++ rep 3 pass_one) = Some s /\
             f_closed s = true /\ fwd_after s = 3%nat /\ length (f_queue s) = 32%nat) /\
  replay_backlog (FCFG 8 500 true) 40 5 3 = Some (0, 3, 8, 0, 9, false)%nat.
Proof. exact backlog_example_lemma. Qed.
Print Assumptions C18_backlog_example.

(* ------------------------------------------------------------------------------------------------------------ *)
(* Waits of the shutdown path whose wake-up must not depend on the waiter itself (Model/ShutdownWaits.v).        *)

(* A. The pipeline stop with a bounded chunk queue, wired as in obase/pipelines.go: the worker hands its chunks to
   bufferer.Accept, ends, and only then Destroy() runs and raises the buffer's stop signal.  For every queue capacity,
   every number of chunks and every schedule - in particular a queue that is FULL and a feeder that never makes room
   (QRoom is an environment event: upstream down) - a step of the worker or of the chain behind it is enabled in
   every reachable state until Destroy has run: nothing on this path waits. *)
Theorem C18_pipeline_stop_never_waits :
  forall cfg p evs s, qg_block cfg = false -> q_run cfg (q_init p) evs = Some s -> q_pc s <> WDestroyed ->
  exists e s', q_own e = true /\ q_step cfg s e = Some s'.
Proof. exact pipeline_stop_never_waits_lemma. Qed.
Print Assumptions C18_pipeline_stop_never_waits.

(* ... every run has exactly p + 2 - (what is left) such steps: p Accept calls, the end of the worker, Destroy; and when
   Destroy has run, the stop signal is raised and each of the p chunks is in the queue (to be saved by the cleanup:
   C18_nothing_only_in_memory_partial) or counted dropped *)
Theorem C18_pipeline_stop_bounded :
  forall cfg p evs s, qg_block cfg = false -> q_run cfg (q_init p) evs = Some s ->
  (q_own_steps evs + q_measure s = p + 2)%nat /\
  (q_pc s = WDestroyed -> (q_kept s + q_dropped s = p)%nat /\ q_closed s = true).
Proof. exact pipeline_stop_bounded_lemma. Qed.
Print Assumptions C18_pipeline_stop_bounded.

(* The VARIANT in which Accept waits on a full queue for room or for the buffer's stop signal (not the code of the
   repository; seeded to test this check), for EVERY capacity and every number of chunks above it: a reachable state
   (after capacity + 1 Accept calls) with the worker inside Accept, the queue full, the signal
   not raised, and NO step of the shutdown path enabled - the signal is raised by Destroy, Destroy runs after the
   worker has ended, the worker is the waiter: a cycle in the wait-for relation. *)
Theorem C18_blocking_accept_variant_refuted :
  forall cap p, (cap < p)%nat -> exists evs s,
    q_run (QCFG cap true) (q_init p) evs = Some s /\ q_pc s <> WDestroyed /\ q_closed s = false /\
    q_len s = cap /\
    (forall e, q_own e = true -> q_step (QCFG cap true) s e = None).
Proof. exact blocking_accept_variant_refuted_lemma. Qed.
Print Assumptions C18_blocking_accept_variant_refuted.

(* B. The TCP listener: a closer per connection, launched after receiver.NewSink() returned, that fires when the stop
   request IS signalled (also when it already was).  For every interleaving of clients connecting, the stop request,
   NewSink returning and closers running: a state after the stop request in which none of the listener's goroutines
   can step has every connection closed - the input reports Stopped(). *)
Theorem C18_listener_quiescent_means_stopped :
  forall cfg evs s, lg_sweep cfg = false -> l_run cfg l_init evs = Some s -> l_stop s = true ->
  (forall e, l_own e = true -> l_step cfg s e = None) -> l_stopped s = true.
Proof. exact listener_quiescent_closed_lemma. Qed.
Print Assumptions C18_listener_quiescent_means_stopped.

(* progress: while some connection is not closed after the stop request, a step of the listener is enabled
   (NewSink returning is the hypothesis "callbacks return" of the wait graph) *)
Theorem C18_listener_progress_after_stop :
  forall cfg s, lg_sweep cfg = false -> l_stop s = true -> l_stopped s = false ->
  exists e s', l_own e = true /\ l_step cfg s e = Some s'.
Proof. exact listener_progress_lemma. Qed.
Print Assumptions C18_listener_progress_after_stop.

(* ... and every run after the stop request has exactly as many steps of the listener's goroutines as the measure
   drops: at most 2 per connection that was being set up, 1 per established connection *)
Theorem C18_listener_steps_after_stop_bounded :
  forall cfg evs s s', lg_sweep cfg = false -> l_stop s = true -> l_run cfg s evs = Some s' ->
  l_stop s' = true /\ (l_own_steps evs + l_measure (l_conns s') = l_measure (l_conns s))%nat.
Proof. exact listener_steps_after_stop_lemma. Qed.
Print Assumptions C18_listener_steps_after_stop_bounded.

(* The VARIANT with one listener-wide sweep over the registered connections when the stop request fires (seeded): a
   connection accepted before the stop request that registers after the sweep is never closed. *)
Theorem C18_single_sweep_variant_refuted :
  exists evs s, l_run (LCFG true) l_init evs = Some s /\ l_stop s = true /\
    (forall e, l_own e = true -> l_step (LCFG true) s e = None) /\ l_stopped s = false.
Proof. exact single_sweep_variant_refuted_lemma. Qed.
Print Assumptions C18_single_sweep_variant_refuted.

(* tests on literals (non-vacuity): the replays of the correspondence, kinds 3 and 4 *)
Theorem C18_stopwaits_example :
  (exists s, replay_qfull (QCFG 4 false) 12 3 = Some s /\ q_pc s = WDestroyed /\ q_kept s = 7%nat /\ q_dropped s = 5%nat) /\
  (exists s, replay_qfull (QCFG 4 true) 12 0 = None /\ q_run (QCFG 4 true) (q_init 12) (repq 5 [QAccept]) = Some s /\ q_pc s = WBlocked 7) /\
  (exists s, replay_listener (LCFG false) 3 2 = Some s /\ l_stopped s = true /\ length (l_conns s) = 5%nat) /\
  replay_listener (LCFG true) 3 2 = None.
Proof. exact stopwaits_example_lemma. Qed.
Print Assumptions C18_stopwaits_example.
