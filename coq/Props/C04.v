(* C04 - Spilled chunks survive I/O faults and crashes intact or not at all.
   Only the property theorems; each is closed by [exact] of a lemma from Proofs/.

   PARTIAL in one respect, stated here once: the file system is a model (Model/FileWrite.v).  A write that
   stops - short write, file-size or space limit, process killed at one of the kill points - leaves a prefix
   of the data in the file; renameat is atomic; what a killed process had written stays as it is.  Torn writes
   inside the kernel, power loss and the ordering of data and rename on stable storage (no fsync in the code)
   are outside what a process-level model and a process-level harness can exhibit.

   The quantifier of the property - every chunk size, every offset k at which the write stops, every position
   of the affected chunk in the queue, followed by a restart - is covered by quantifying over ALL runs of the
   LTS of Model/Buffer.v: k and the kind of stop are the write script of the EAccept / ELeftover / ESaveWrite
   event (ws_n = Some k with or without error, ws_kill = 1..4), the position is the history before it. *)
From SV Require Import Model.Common Model.FileWrite Model.Buffer Model.SpillFaults Spec.BufferSpec
     Model.ConcWrite Proofs.FileWriteProofs Proofs.ConcWriteProofs Proofs.BufferInv Proofs.BufferTheorems Proofs.BufferExamples Proofs.DrainProofs.

(* Intact or not at all, for what is sent upstream.  In every reachable state - after any faults, crashes and
   restarts - a chunk offered to a consumer under an ID that was ever given to Accept on this directory carries
   exactly the bytes that were given to Accept. *)
Theorem C04_intact_or_absent :
  forall matchf dirsize, matcher_ok matchf ->
  forall s, reachable matchf dirsize s -> st_up s = true ->
  forall c d, In c (g_offered (st_gh s)) -> In (c_id c, d) (st_ever s) -> c_data c = Some d.
Proof. exact intact_lemma. Qed.
Print Assumptions C04_intact_or_absent.

(* ... and for what is on disk: under the ID of a chunk ever accepted there is no file or the complete chunk,
   in every reachable state, also right after a crash. *)
Theorem C04_files_intact_or_absent :
  forall matchf dirsize, matcher_ok matchf ->
  forall s, reachable matchf dirsize s ->
  forall x d, In (x, d) (st_ever s) -> dir_get (st_dir s) x = None \/ dir_get (st_dir s) x = Some (EFile d).
Proof. exact files_intact_lemma. Qed.
Print Assumptions C04_files_intact_or_absent.

(* "... or is not forwarded at all and is accounted as dropped" when the process survives: the conservation
   theorem of C03 holds for every write script; a chunk whose write failed is in the class dropped (counted in
   dropped_chunks_total) and in no other.  Restated here for the chunks of the current generation. *)
Theorem C04_accounted_when_survived :
  forall matchf dirsize, matcher_ok matchf ->
  forall s, reachable matchf dirsize s -> settled s ->
  let g := st_gh s in
  NoDup (g_confirmed g ++ g_retained g ++ g_dropped g) /\
  (forall x, In x (entered g) <-> In x (g_confirmed g ++ g_retained g ++ g_dropped g)) /\
  m_dropped (st_met s) = Z.of_nat (length (g_dropped g)).
Proof.
  intros matchf dirsize Hm s Hr Hs g.
  destruct (conservation_lemma matchf dirsize Hm s Hr Hs) as (H1 & H2 & _ & _ & _ & H6 & _).
  exact (conj H1 (conj H2 H6)).
Qed.
Print Assumptions C04_accounted_when_survived.

(* One call of util.WriteFileAt, any script: under the chunk's name there is afterwards what was there before
   or the complete data - never a part of it; success means the complete data; a reported failure means the
   name is untouched; no other name than the chunk's and its temporary one is touched. *)
Theorem C04_write_atomic :
  forall ws d n data d' r,
  write_file_at ws d n data = (d', r) ->
  (dir_get d' n = dir_get d n \/ dir_get d' n = Some (EFile data)) /\
  (r = WOk -> dir_get d' n = Some (EFile data) /\ dir_get d' (tmp_name n) = None) /\
  (r = WErr -> dir_get d' n = dir_get d n) /\
  (forall m, m <> n -> m <> tmp_name n -> dir_get d' m = dir_get d m).
Proof.
  intros ws d n data d' r H. split; [eapply write_name_cases; exact H|]. split; [|split].
  - intros E. subst r. apply write_ok in H. exact H.
  - intros E. subst r. eapply write_err. exact H.
  - eapply write_frame. exact H.
Qed.
Print Assumptions C04_write_atomic.

(* A damaged or partial file never blocks the others.
   (1) Start-up enqueues by name only - what is in the files is not looked at - up to the queue capacity. *)
Theorem C04_recovery_enqueues_all :
  forall matchf dirsize s Q M maxb,
  st_queue (restart matchf dirsize Q M maxb true s) =
  firstn Q (map (fun n => {| c_id := n; c_data := None; c_saved := true |})
                (filter (fun n => negb (name_eqb n id_file_name) && matchf n) (dir_names (st_dir s)))).
Proof. exact restart_enqueues_lemma. Qed.
Print Assumptions C04_recovery_enqueues_all.

(* (2) The feeder is never stuck on the chunk it holds: the load step is always enabled, and when the chunk
   cannot be loaded (unreadable, a directory, vanished) or is empty, it is dropped and counted, the feeder is
   back at the queue, and queue and window are as they were; the next chunk is taken by an enabled step. *)
Theorem C04_recovery_not_blocked :
  forall matchf dirsize s c rerr,
  st_up s = true -> st_fpc s = FLoad c ->
  exists s', step matchf dirsize s (EFeedLoad rerr) = Some s' /\
    ((exists c', st_fpc s' = FPush c c' /\ c_id c' = c_id c /\ zero_length c' = false) \/
     (st_fpc s' = FRecv /\ st_queue s' = st_queue s /\ st_win s' = st_win s /\
      g_dropped (st_gh s') = g_dropped (st_gh s) ++ [c_id c] /\
      m_dropped (st_met s') = (m_dropped (st_met s) + 1)%Z)).
Proof. exact damaged_skipped_lemma. Qed.
Print Assumptions C04_recovery_not_blocked.

Theorem C04_feeder_takes_next :
  forall matchf dirsize s c q,
  st_up s = true -> st_fpc s = FRecv -> st_queue s = c :: q ->
  exists s', step matchf dirsize s EFeedTake = Some s' /\ st_fpc s' = FLoad c /\ st_queue s' = q /\ st_win s' = st_win s.
Proof. exact feeder_takes_lemma. Qed.
Print Assumptions C04_feeder_takes_next.

(* (3) Put together: from every reachable state in which no bufferer runs, after a start-up there is a schedule
   (the feeder runs, a consumer takes and confirms one chunk at a time) on which the consumer receives exactly
   the recovered chunks whose file is a non-empty regular file, each with its content, in name order - whatever
   empty files, directories or vanished names lie between them - and queue, window and consumer end empty. *)
Theorem C04_recovery_delivers_good :
  forall matchf dirsize, matcher_ok matchf ->
  forall s Q M maxb, reachable matchf dirsize s -> down s = true -> (1 <= Q)%nat -> (1 <= M)%nat ->
  exists evs s',
    run matchf dirsize s (ERestart Q M maxb true :: ERegister :: evs) = Some s' /\
    st_queue s' = [] /\ st_win s' = [] /\ st_hold s' = [] /\
    received s' = delivered (st_dir s) (recovered_names matchf Q (st_dir s)).
Proof. exact recovery_delivers_good_reachable. Qed.
Print Assumptions C04_recovery_delivers_good.

(* What was wrong before the two fix: commits (write_file_at_v0 = open+truncate the final name, one write whose
   count is ignored, close).  (a) A short write without error is reported as success and leaves a truncated,
   non-empty file under the chunk's ID: UnloadChunk marked it saved and the truncated chunk was forwarded.
   (b) A process killed in the middle of the write leaves a non-empty prefix under the chunk's ID: it was
   recovered at the next start and forwarded.  Both reproduced on the real code by the harness before the fix. *)
Theorem C04_short_write_v0_refuted :
  exists ws d n data d' part,
    write_file_at_v0 ws d n data = (d', WOk) /\ dir_get d' n = Some (EFile part) /\ part <> data /\ part <> [].
Proof. exact v0_short_write_refuted. Qed.
Print Assumptions C04_short_write_v0_refuted.

Theorem C04_crash_mid_write_v0_refuted :
  exists ws d n data d' part,
    write_file_at_v0 ws d n data = (d', WDied) /\ dir_get d' n = Some (EFile part) /\ part <> data /\ part <> [].
Proof. exact v0_crash_mid_write_refuted. Qed.
Print Assumptions C04_crash_mid_write_v0_refuted.

(* The hypothesis on the matcher is needed: with a matcher that accepts every name (the one used by the
   package's unit tests) the temporary file left by a crash is recovered and a truncated chunk - 2 of the 5
   bytes given to Accept for b.ff - is offered to the consumer. *)
Theorem C04_permissive_matcher_refuted :
  exists s h, replay match_all 4096 0 (map ROp crash_ops) None (init []) 0 = inl (s, h) /\
    map (fun c => (c_id c, c_data c)) (g_offered (st_gh s)) = [(n_a, Some [1; 2; 3]); (tmp_name n_b, Some [4; 5])] /\
    In (n_b, [4; 5; 6; 7; 8]) (st_ever s).
Proof. exact ex_permissive_matcher. Qed.
Print Assumptions C04_permissive_matcher_refuted.

(* Non-vacuity / examples on the model (evaluations): a kill after 2 of 5 bytes of the middle chunk - nothing
   under b.ff, the leftover b.ff.tmp is not recovered, a.ff is delivered intact after the restart; a short write
   without error - reported, chunk dropped and counted, the other chunks delivered; an empty file, a directory
   and a stale temporary file among recovered chunks - the good ones are delivered. *)
Theorem C04_example_crash :
  exists s h, replay match_ff 4096 0 (map ROp crash_ops) None (init []) 0 = inl (s, h) /\
    dir_get (st_dir s) n_b = None /\ dir_get (st_dir s) (tmp_name n_b) = Some (EFile [4; 5]) /\
    map (fun c => (c_id c, c_data c)) (g_offered (st_gh s)) = [(n_a, Some [1; 2; 3])] /\
    st_queue s = [] /\ st_fpc s = FRecv.
Proof. exact ex_crash_mid_write. Qed.
Print Assumptions C04_example_crash.

Theorem C04_example_short_write :
  exists s h, replay match_ff 4096 0 (map ROp short_ops) None (init []) 0 = inl (s, h) /\
    g_dropped (st_gh s) = [n_b] /\ m_dropped (st_met s) = 1%Z /\ m_ioerr (st_met s) = 1%Z /\
    map (fun c => (c_id c, c_data c)) (taken (st_gh s)) = [(n_a, Some [1; 2; 3]); (n_c, Some [9])] /\
    dir_get (st_dir s) n_b = None /\ dir_get (st_dir s) (tmp_name n_b) = None.
Proof. exact ex_short_write. Qed.
Print Assumptions C04_example_short_write.

Theorem C04_example_damaged_recovery :
  exists s h, replay match_ff 4096 0 (map ROp damaged_ops) None (init []) 0 = inl (s, h) /\
    map (fun c => (c_id c, c_data c)) (taken (st_gh s)) = [(n_a, Some [1; 2]); (n_d, Some [8])] /\
    g_dropped (st_gh s) = [n_b; n_c] /\ m_dropped (st_met s) = 2%Z /\ st_queue s = [].
Proof. exact ex_damaged_recovery. Qed.
Print Assumptions C04_example_damaged_recovery.

(* ---------- several writers of one queue directory at once (Model/ConcWrite.v) ----------
   Accept (spill), the consumer's OnChunkLeftover and the feeder's saveQueued / saveOutput write chunk files of the
   same directory from different goroutines; one write is open-truncate(tmp); write; close; rename(tmp, id), and the
   system calls of different writes interleave.  For ANY number of chunks with distinct IDs, ANY interleaving of
   their system calls (every schedule; a goroutine writing several chunks in turn, G goroutines, the leftover /
   saveQueued pair at shutdown are particular schedules) and at ANY moment (prefix-closed: [sched] is arbitrary):
   under every chunk's ID there is what was there before or exactly THAT chunk's bytes; a finished write has
   succeeded and its file holds exactly its chunk's bytes; no write fails (nothing is counted as dropped while its
   bytes are on disk).  Required of the temporary name: injective on the IDs and never an ID ([jobs_ok]). *)
Theorem C04_concurrent_writers_intact :
  forall tmpf js d0, jobs_ok tmpf js -> no_dirs tmpf js d0 ->
  forall sched, (forall j, In j sched -> In j js) ->
  forall d p, cw_run tmpf sched (d0, pc0) = (d, p) ->
  forall n data, In (n, data) js ->
    (dir_get d n = dir_get d0 n \/ dir_get d n = Some (EFile data)) /\
    (p n = 4%nat -> dir_get d n = Some (EFile data)) /\
    p n <> 9%nat.
Proof. exact conc_writers_intact_lemma. Qed.
Print Assumptions C04_concurrent_writers_intact.

(* ... and every write that was given its four steps ([occ n sched] = how often chunk n is scheduled) is complete:
   it has succeeded and the file under its ID holds exactly its own bytes - whatever the other writers did meanwhile. *)
Theorem C04_concurrent_writers_complete :
  forall tmpf js d0, jobs_ok tmpf js -> no_dirs tmpf js d0 ->
  forall sched, (forall j, In j sched -> In j js) ->
  forall d p, cw_run tmpf sched (d0, pc0) = (d, p) ->
  forall n data, In (n, data) js -> (4 <= occ n sched)%nat ->
  p n = 4%nat /\ dir_get d n = Some (EFile data).
Proof. exact conc_writers_complete_lemma. Qed.
Print Assumptions C04_concurrent_writers_complete.

(* ... and the temporary names of the tree (id ++ ".tmp") meet the requirement for distinct IDs accepted by a
   matcher that rejects temporary names. *)
Theorem C04_concurrent_writers_tmp_names :
  forall matchf js, matcher_ok matchf ->
  NoDup (map fst js) -> (forall n data, In (n, data) js -> matchf n = true) -> jobs_ok tmp_name js.
Proof. exact tmp_name_jobs_ok. Qed.
Print Assumptions C04_concurrent_writers_tmp_names.

(* The variant with ONE temporary name per directory (".chunk.tmp") violates it: two chunks, the interleaving
   open a; open b; write a; write b; close a; rename a; close b; rename b - a.ff holds b's bytes and is reported
   saved, b's write fails (dropped) and b.ff does not exist. *)
Theorem C04_shared_tmp_name_variant_refuted :
  exists js sched, NoDup (map fst js) /\ (forall j, In j sched -> In j js) /\
  exists n data other, In (n, data) js /\ In other js /\ fst other <> n /\
    let (d, p) := cw_run shared_tmp sched ([], pc0) in
    p n = 4%nat /\ dir_get d n = Some (EFile (snd other)) /\ snd other <> data /\
    p (fst other) = 9%nat /\ dir_get d (fst other) = None.
Proof. exact shared_tmp_refuted_lemma. Qed.
Print Assumptions C04_shared_tmp_name_variant_refuted.

(* Evaluation: the same two chunks and the same interleaving with the names of the tree end with both files intact. *)
Theorem C04_example_concurrent_writers :
  let (d, p) := cw_run tmp_name wit_sched ([], pc0) in
  dir_get d (fst wit_a) = Some (EFile (snd wit_a)) /\ dir_get d (fst wit_b) = Some (EFile (snd wit_b)) /\
  p (fst wit_a) = 4%nat /\ p (fst wit_b) = 4%nat.
Proof. exact own_tmp_witness_lemma. Qed.
Print Assumptions C04_example_concurrent_writers.
