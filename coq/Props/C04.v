From SV Require Import Model.Common Model.FileWrite Model.Buffer Model.SpillFaults.
Theorem C04_placeholder : True.
Proof. exact I. Qed.
Print Assumptions C04_placeholder.
