(* C12, part G: the long-lived stores keep copies - and what would happen if they kept the strings themselves. *)
From SV Require Import Model.Common Model.Memory Model.MemoryStores Proofs.MemoryProofs Proofs.MemoryWitnesses.
From Coq Require Import Lia.
Open Scope nat_scope.

Definition mem_entry_copied (e : list mem_stored) : Prop := Forall (fun s => exists b, s = StBytes b) e.
Definition mem_store_copied (st : mem_store) : Prop := Forall mem_entry_copied st.

(* a store of copies reads the same in every state of the pipeline: nothing that happens to records, buffers or
   pools afterwards can change a stored key set *)
Lemma mem_store_view_stable : forall st g g', mem_store_copied st -> mem_store_view g st = mem_store_view g' st.
Proof.
  intros st g g' H. unfold mem_store_view. apply map_ext_in. intros e He.
  unfold mem_store_copied in H. rewrite Forall_forall in H. specialize (H e He). apply map_ext_in. intros s Hs.
  unfold mem_entry_copied in H. rewrite Forall_forall in H. destruct (H s Hs) as (b & ->). reflexivity.
Qed.

Lemma mem_store_find_view : forall g st key i, mem_store_find g st key i =
  (fix go (v : list (list bytes)) (i : nat) : option nat :=
     match v with [] => None | e :: v' => if mem_keys_eqb e key then Some i else go v' (S i) end) (mem_store_view g st) i.
Proof. induction st as [|e st IH]; intros key i; cbn; [reflexivity|]. rewrite IH. reflexivity. Qed.

(* the code (copies): routing a record keeps the store a store of copies; either the record's key bytes are already
   there (the store is unchanged) or exactly these bytes are appended as a new entry *)
Lemma mem_store_route_copy : forall g st h keys st' i,
  mem_store_copied st -> mem_store_route KeepCopy g st h keys = Some (st', i) ->
  mem_store_copied st' /\ exists kf, mem_key_fields g h keys = Some kf /\
    ((st' = st /\ mem_store_find g st (map fst kf) 0 = Some i) \/
     (mem_store_find g st (map fst kf) 0 = None /\ i = length st /\ mem_store_view g st' = mem_store_view g st ++ [map fst kf])).
Proof.
  intros g st h keys st' i Hc H. unfold mem_store_route in H.
  destruct (mem_key_fields g h keys) as [kf|] eqn:Ek; [|discriminate].
  destruct (mem_store_find g st (map fst kf) 0) as [j|] eqn:Ef.
  - inversion H; subst. split; [exact Hc|]. exists kf. split; [reflexivity|]. left. split; [reflexivity|exact Ef].
  - inversion H; subst. split.
    + apply Forall_app. split; [exact Hc|]. constructor; [|constructor].
      unfold mem_entry_copied. apply Forall_forall. intros s0 Hs. apply in_map_iff in Hs. destruct Hs as (x & <- & _). eauto.
    + exists kf. split; [reflexivity|]. right. split; [exact Ef|]. split; [reflexivity|].
      unfold mem_store_view. rewrite map_app. cbn. f_equal. f_equal. rewrite map_map. reflexivity.
Qed.

(* ---- what the copies are needed for: a witness with KeepRef ---- *)
(* two records of the same size class whose "app" fields (index 4) differ at the same offsets *)
Definition wit_rec_a : bytes := (
  [60;49;54;51;62;49;32;50;48;49;57;45;48;56;45;49;53;84;49;53;58;53;48;58;52;54;90;32;104;111;115;116;49;32;97;112;112;65;32;
   49;50;51;32;115;114;99;32;45;32;104;101;108;108;111;32;119;111;114;108;100;44;32;116;104;105;115;32;105;115;32;97;32;109;
   101;115;115;97;103;101])%N.
Definition wit_rec_b : bytes := (
  [60;49;54;51;62;49;32;50;48;49;57;45;48;56;45;49;53;84;49;53;58;53;48;58;52;54;90;32;104;111;115;116;49;32;97;112;112;66;32;
   49;50;51;32;115;114;99;32;45;32;104;101;108;108;111;32;119;111;114;108;100;44;32;116;104;105;115;32;105;115;32;97;32;109;
   101;115;115;97;103;101])%N.

Definition wit_store_cfg : mem_config :=
  {| c_params := wit_params; c_nfields := 12; c_maxfields := 14; c_level_sites := Some 0%nat;
     c_cfg_init := wit_levels; c_extract := [TSimple (TDelFields [7%nat])]; c_transforms := [];
     c_outputs := [wit_out]; c_trunc_mode := TruncCopy; c_rw_sets_flag := false |}.

Definition wit_after (evs : list mem_event) : mem_gstate :=
  match mem_run wit_store_cfg (mem_init wit_store_cfg) evs with StepOk g => g | StepStop _ => mem_init wit_store_cfg end.

(* record A is parsed and routed (a new key set, entry 0), processed and released; record B then gets A's buffer *)
Definition wit_g_a := wit_after [EvParse None None wit_rec_a 1000%Z].
Definition wit_g_b := wit_after [EvParse None None wit_rec_a 1000%Z; EvTransform 0; EvOutput 0; EvParse (Some 0) (Some 0) wit_rec_b 2000%Z].

Definition wit_route_then (keep : mem_keep) : option (list (list bytes) * nat * list (list bytes) * nat) :=
  match mem_store_route keep wit_g_a [] 0 [4] with
  | Some (st1, ia) =>
    match mem_store_route keep wit_g_b st1 0 [4] with
    | Some (st2, ib) => Some (mem_store_view wit_g_a st1, ia, mem_store_view wit_g_b st2, ib)
    | None => None
    end
  | None => None
  end.

(* with copies: A's key set stays "appA", B gets a new entry (pipeline 1);
   with references: once B's bytes are in the recycled buffer the entry of A reads "appB" - B is sent to A's
   pipeline (index 0) and the key set "appA" has disappeared from the store *)
Lemma wit_store_copy_vs_ref :
  wit_route_then KeepCopy = Some ([[[97;112;112;65]%N]], 0, [[[97;112;112;65]%N]; [[97;112;112;66]%N]], 1) /\
  wit_route_then KeepRef  = Some ([[[97;112;112;65]%N]], 0, [[[97;112;112;66]%N]], 0).
Proof. split; vm_compute; reflexivity. Qed.
