(* Proofs about Model/ShutdownWaits.v (C18: the pipeline stop with a full chunk queue; the listener's connections at
   a stop request). *)
From SV Require Import Model.Common Model.ShutdownWaits.
From Coq Require Import Lia ZifyBool ZifyN ZifyNat.
Ltac Zify.zify_post_hook ::= Z.div_mod_to_equations.
Local Open Scope nat_scope.

(* ------------------------------------------------------------------------------------------ *)
(* A. pipeline stop, bounded queue                                                              *)

Definition q_noblock (s : qstate) : Prop := match q_pc s with WBlocked _ => False | _ => True end.

Ltac q_cases H :=
  repeat match type of H with
         | context [if ?b then _ else _] => destruct b eqn:?
         | context [match ?x with _ => _ end] => destruct x eqn:?
         end; try discriminate H.

Definition q_inv (s : qstate) : Prop := q_pc s = WDestroyed -> q_closed s = true.

Lemma q_step_facts : forall cfg s e s', q_step cfg s e = Some s' ->
  (* conservation, for the code and for the variant *)
  q_kept s' + q_dropped s' + q_remaining s' = q_kept s + q_dropped s + q_remaining s /\
  (* for the code: no blocked state, and every own step is one unit of the measure *)
  (qg_block cfg = false -> q_noblock s ->
     q_noblock s' /\ (if q_own e then 1 else 0) + q_measure s' = q_measure s) /\
  (q_inv s -> q_inv s').
Proof.
  intros cfg [pc len cl kp dr tk] e s' H.
  unfold q_step in H; cbn [q_pc q_len q_closed q_kept q_dropped q_taken] in H.
  destruct e; destruct pc as [[|k]|k| |]; cbn in H; q_cases H;
    inversion H; subst; clear H; unfold q_noblock, q_measure, q_remaining, q_inv; cbn;
    (split; [lia|]);
    (split; [|intros Hi Hd; first [discriminate Hd | reflexivity | (specialize (Hi eq_refl); congruence)]]);
    intros Hb Hn; first [contradiction | congruence | (split; [exact I|lia])].
Qed.

Lemma q_run_facts : forall cfg evs s s', qg_block cfg = false -> q_noblock s -> q_inv s -> q_run cfg s evs = Some s' ->
  q_noblock s' /\ q_own_steps evs + q_measure s' = q_measure s /\
  q_kept s' + q_dropped s' + q_remaining s' = q_kept s + q_dropped s + q_remaining s /\
  q_inv s'.
Proof.
  intros cfg evs; induction evs as [|e r IH]; intros s s' Hb Hn Hi H; cbn in H.
  - inversion H; subst. cbn. repeat split; auto.
  - destruct (q_step cfg s e) as [s1|] eqn:Hs; [|discriminate].
    destruct (q_step_facts _ _ _ _ Hs) as (Hc & Hm & Hd). destruct (Hm Hb Hn) as (Hn1 & Hm1).
    destruct (IH _ _ Hb Hn1 (Hd Hi) H) as (Hn' & Hm' & Hc' & Hd').
    split; [exact Hn'|]. split; [cbn [q_own_steps]; lia|]. split; [lia|exact Hd'].
Qed.

Lemma q_init_inv : forall p, q_inv (q_init p).
Proof. intros p H; cbn in H; discriminate. Qed.

(* the code: until Destroy has run, a step of the worker / of the chain behind it is enabled in every reachable
   state - whatever the queue length, whatever the feeder does (QRoom is never needed) *)
Lemma pipeline_stop_never_waits_lemma :
  forall cfg p evs s, qg_block cfg = false -> q_run cfg (q_init p) evs = Some s -> q_pc s <> WDestroyed ->
  exists e s', q_own e = true /\ q_step cfg s e = Some s'.
Proof.
  intros cfg p evs s Hb H Hp.
  destruct (q_run_facts cfg evs (q_init p) s Hb I (q_init_inv p) H) as (Hn & _).
  destruct s as [pc len cl kp dr tk]. unfold q_noblock in Hn; cbn in Hn, Hp.
  destruct pc as [[|k]|k| |]; try contradiction.
  - exists QEnd; eexists; split; [reflexivity|]; cbn; reflexivity.
  - exists QAccept. unfold q_step; cbn [q_pc q_len q_closed q_kept q_dropped q_taken]. rewrite Hb. destruct (Nat.ltb len (qg_cap cfg)); eexists; split; reflexivity.
  - exists QDestroy; eexists; split; [reflexivity|]; cbn; reflexivity.
Qed.

(* ... every run has at most p + 2 such steps (p Accept calls, the end of the worker, Destroy); when Destroy has run
   the stop signal of the buffer is raised and every one of the p chunks is in the queue or counted dropped *)
Lemma pipeline_stop_bounded_lemma :
  forall cfg p evs s, qg_block cfg = false -> q_run cfg (q_init p) evs = Some s ->
  q_own_steps evs + q_measure s = p + 2 /\
  (q_pc s = WDestroyed -> q_kept s + q_dropped s = p /\ q_closed s = true).
Proof.
  intros cfg p evs s Hb H.
  destruct (q_run_facts cfg evs (q_init p) s Hb I (q_init_inv p) H) as (_ & Hm & Hc & Hd).
  split; [exact Hm|]. intros Hp. cbn in Hc. unfold q_remaining in Hc. rewrite Hp in Hc.
  split; [lia|exact (Hd Hp)].
Qed.

(* the VARIANT (Accept waits on a full queue for room or for the signal raised by Destroy): the worker blocked inside
   Accept with the queue full; nothing of the shutdown path is enabled - only the environment (the feeder making room)
   could help: the wait depends on a signal that is raised only after the waiter has ended *)
Lemma q_run_app : forall cfg a b s, q_run cfg s (a ++ b) =
  match q_run cfg s a with Some s1 => q_run cfg s1 b | None => None end.
Proof.
  intros cfg a; induction a as [|e a IH]; intros b s; cbn; [reflexivity|].
  destruct (q_step cfg s e); [apply IH|reflexivity].
Qed.

Lemma fill_queue : forall cap n k len kp, len + n <= cap ->
  q_run (QCFG cap true) (QS (WRun (n + k)) len false kp 0 0) (repq n [QAccept]) =
  Some (QS (WRun k) (len + n) false (kp + n) 0 0).
Proof.
  intros cap n; induction n as [|n IH]; intros k len kp Hle.
  - cbn. rewrite !Nat.add_0_r. reflexivity.
  - cbn [repq app Nat.add q_run]. unfold q_step; cbn [q_pc q_len q_closed q_kept q_dropped q_taken qg_cap qg_block].
    assert (Hlt : Nat.ltb len cap = true) by (apply Nat.ltb_lt; lia). rewrite Hlt.
    rewrite IH by lia. f_equal. f_equal; lia.
Qed.

(* for EVERY capacity and every number of chunks above it *)
Lemma blocking_accept_variant_refuted_lemma :
  forall cap p, cap < p ->
  exists evs s,
    q_run (QCFG cap true) (q_init p) evs = Some s /\ q_pc s <> WDestroyed /\ q_closed s = false /\
    q_len s = cap /\
    (forall e, q_own e = true -> q_step (QCFG cap true) s e = None).
Proof.
  intros cap p Hlt. exists (repq cap [QAccept] ++ [QAccept]).
  exists (QS (WBlocked (p - cap - 1)) cap false cap 0 0).
  split.
  - rewrite q_run_app. unfold q_init. replace p with (cap + S (p - cap - 1)) at 1 by lia.
    rewrite fill_queue by lia. cbn [Nat.add q_run]. unfold q_step; cbn [q_pc q_len q_closed q_kept q_dropped q_taken qg_cap qg_block].
    rewrite Nat.ltb_irrefl. reflexivity.
  - split; [discriminate|]. split; [reflexivity|]. split; [reflexivity|].
    intros e He. destruct e; try reflexivity; [|discriminate He].
    unfold q_step; cbn [q_pc q_len q_closed q_kept q_dropped q_taken qg_cap qg_block]. rewrite Nat.ltb_irrefl. reflexivity.
Qed.

(* ------------------------------------------------------------------------------------------ *)
(* B. listener stop                                                                             *)

(* the code (a closer per connection, level-triggered): in EVERY state after the stop request in which no step of
   the listener's goroutines is enabled, every connection is closed - the input reports Stopped() *)
Lemma listener_quiescent_closed_state : forall cfg s, lg_sweep cfg = false -> l_stop s = true ->
  (forall e, l_own e = true -> l_step cfg s e = None) -> l_stopped s = true.
Proof.
  intros cfg s Hsw Hst Hq. unfold l_stopped. rewrite Hst. cbn.
  apply forallb_forall. intros c Hin. apply In_nth_error in Hin. destruct Hin as [i Hi].
  destruct c; [| |reflexivity].
  - pose proof (Hq (LRegister i) eq_refl) as H. cbn in H. rewrite Hi in H. discriminate.
  - pose proof (Hq (LCloser i) eq_refl) as H. cbn in H. rewrite Hsw, Hi, Hst in H. discriminate.
Qed.

Lemma listener_quiescent_closed_lemma : forall cfg evs s, lg_sweep cfg = false ->
  l_run cfg l_init evs = Some s -> l_stop s = true ->
  (forall e, l_own e = true -> l_step cfg s e = None) -> l_stopped s = true.
Proof. intros cfg evs s Hsw _ Hst Hq. exact (listener_quiescent_closed_state cfg s Hsw Hst Hq). Qed.

Lemma l_measure_app : forall a b, l_measure (a ++ b) = l_measure a + l_measure b.
Proof. induction a as [|x a IH]; intros b; cbn; [reflexivity|]. rewrite IH. lia. Qed.

Lemma l_measure_set : forall l i c c', nth_error l i = Some c ->
  l_measure (set_nth l i c') + c_weight c = l_measure l + c_weight c'.
Proof.
  induction l as [|x l IH]; intros i c c' H; destruct i; cbn in *; try discriminate.
  - inversion H; subst. lia.
  - pose proof (IH _ _ c' H). lia.
Qed.

Lemma l_step_after_stop : forall cfg s e s', lg_sweep cfg = false -> l_stop s = true -> l_step cfg s e = Some s' ->
  l_stop s' = true /\ (if l_own e then 1 else 0) + l_measure (l_conns s') = l_measure (l_conns s).
Proof.
  intros cfg [cs st sw] e s' Hsw Hst H. cbn in Hst; subst st.
  destruct e; cbn in H; rewrite ?Hsw in H; cbn in H.
  - inversion H; subst; cbn. split; [reflexivity|]. rewrite l_measure_app. cbn. lia.
  - discriminate.
  - destruct (nth_error cs i) as [[| |]|] eqn:Hi; try discriminate. inversion H; subst; cbn.
    split; [reflexivity|]. pose proof (l_measure_set _ _ _ CReg Hi). cbn in *. lia.
  - destruct (nth_error cs i) as [[| |]|] eqn:Hi; try discriminate. inversion H; subst; cbn.
    split; [reflexivity|]. pose proof (l_measure_set _ _ _ CClosed Hi). cbn in *. lia.
  - discriminate.
Qed.

(* ... and after the stop request every run - any interleaving of late clients, NewSink returning, closers - has
   exactly as many steps of the listener's goroutines as the measure drops: at most 2 per connection that was being
   set up and 1 per established connection *)
Lemma listener_steps_after_stop_lemma : forall cfg evs s s', lg_sweep cfg = false -> l_stop s = true ->
  l_run cfg s evs = Some s' ->
  l_stop s' = true /\ l_own_steps evs + l_measure (l_conns s') = l_measure (l_conns s).
Proof.
  intros cfg evs; induction evs as [|e r IH]; intros s s' Hsw Hst H; cbn in H.
  - inversion H; subst. split; [exact Hst|reflexivity].
  - destruct (l_step cfg s e) as [s1|] eqn:Hs; [|discriminate].
    destruct (l_step_after_stop _ _ _ _ Hsw Hst Hs) as (Hst1 & Hm1).
    destruct (IH _ _ Hsw Hst1 H) as (Hst' & Hm'). split; [exact Hst'|]. cbn [l_own_steps]. lia.
Qed.

(* progress: after the stop, while a connection is not closed, a step of the listener's goroutines is enabled *)
Lemma listener_progress_lemma : forall cfg s, lg_sweep cfg = false -> l_stop s = true -> l_stopped s = false ->
  exists e s', l_own e = true /\ l_step cfg s e = Some s'.
Proof.
  intros cfg s Hsw Hst Hns. unfold l_stopped in Hns. rewrite Hst in Hns. cbn in Hns.
  assert (Hex : exists c, In c (l_conns s) /\ is_closed c = false).
  { clear -Hns. induction (l_conns s) as [|x l IH]; cbn in Hns; [discriminate|].
    destruct (is_closed x) eqn:Hx; cbn in Hns.
    - destruct (IH Hns) as (c & Hin & Hc). exists c; split; [right; exact Hin|exact Hc].
    - exists x; split; [left; reflexivity|exact Hx]. }
  destruct Hex as (c & Hin & Hc). apply In_nth_error in Hin. destruct Hin as [i Hi].
  destruct c; [| |discriminate].
  - exists (LRegister i). eexists. split; [reflexivity|]. cbn. rewrite Hi. reflexivity.
  - exists (LCloser i). eexists. split; [reflexivity|]. cbn. rewrite Hsw, Hi, Hst. reflexivity.
Qed.

(* the VARIANT (one sweep over the registered connections when the stop request fires): a connection accepted before
   the stop request whose NewSink returns after the sweep is registered and never closed: no step of the listener is
   enabled any more and the input has not stopped *)
Lemma single_sweep_variant_refuted_lemma :
  exists evs s, l_run (LCFG true) l_init evs = Some s /\ l_stop s = true /\
    (forall e, l_own e = true -> l_step (LCFG true) s e = None) /\ l_stopped s = false.
Proof.
  exists [LAccept; LStop; LSweep; LRegister 0]. eexists. split; [vm_compute; reflexivity|].
  split; [reflexivity|]. split; [|reflexivity].
  intros e He. destruct e; try discriminate He; try reflexivity.
  destruct i as [|[|i]]; reflexivity.
Qed.

(* tests on literals (non-vacuity): the replays used by the correspondence *)
Lemma stopwaits_example_lemma :
  (exists s, replay_qfull (QCFG 4 false) 12 3 = Some s /\ q_pc s = WDestroyed /\ q_kept s = 7 /\ q_dropped s = 5) /\
  (exists s, replay_qfull (QCFG 4 true) 12 0 = None /\ q_run (QCFG 4 true) (q_init 12) (repq 5 [QAccept]) = Some s /\ q_pc s = WBlocked 7) /\
  (exists s, replay_listener (LCFG false) 3 2 = Some s /\ l_stopped s = true /\ length (l_conns s) = 5) /\
  replay_listener (LCFG true) 3 2 = None.
Proof.
  split; [eexists; vm_compute; repeat split; reflexivity|].
  split; [eexists; vm_compute; repeat split; reflexivity|].
  split; [eexists; vm_compute; repeat split; reflexivity|].
  vm_compute; reflexivity.
Qed.
