(* C15: the interpreter of the transform language (Model/Transforms.v): composition law,
   switch / if / block, drop sampling, mapValue / delFields / addFields, match operators,
   truncate, unescape, and panic-freedom of well-formed programs. *)
From SV Require Import Model.Common Model.TfUtf8 Model.TfUnescape Model.Template Model.Extractor
     Model.TinyRegex Model.Transforms
     Spec.TfUtf8Spec Spec.TfUnescapeSpec Spec.TransformsSpec
     Proofs.CommonFacts Proofs.TfUtf8Proofs Proofs.TfUnescapeProofs Proofs.TemplateProofs
     Proofs.TfStringFacts Proofs.ExtractorProofs.
From Coq Require Import Lia ZifyBool ZifyN ZifyNat Permutation.
Ltac Zify.zify_post_hook ::= Z.div_mod_to_equations.
Open Scope N_scope.

Scheme tf_ind' := Induction for tf Sort Prop
  with tfs_ind' := Induction for tfs Sort Prop
  with tcases_ind' := Induction for tcases Sort Prop.
Combined Scheme tf_mutind from tf_ind', tfs_ind', tcases_ind'.

(* ---------- fields ---------- *)

Lemma set_nth_length : forall fs loc v, length (set_nth fs loc v) = length fs.
Proof. induction fs as [|x t IH]; intros [|n] v; cbn [set_nth length]; try reflexivity. rewrite IH. reflexivity. Qed.

Lemma get_set_same : forall fs loc v, (loc < length fs)%nat -> get_field (set_nth fs loc v) loc = v.
Proof.
  unfold get_field. induction fs as [|x t IH]; intros [|n] v H; cbn in *; try lia; [reflexivity|]. apply IH. lia.
Qed.

Lemma get_set_other : forall fs loc loc' v, loc <> loc' -> get_field (set_nth fs loc v) loc' = get_field fs loc'.
Proof.
  unfold get_field. induction fs as [|x t IH]; intros [|n] [|n'] v H; cbn; try reflexivity; try congruence.
  apply IH. congruence.
Qed.

Lemma set_nth_out : forall fs loc v, (length fs <= loc)%nat -> set_nth fs loc v = fs.
Proof. induction fs as [|x t IH]; intros [|n] v H; cbn in *; try reflexivity; try lia. f_equal. apply IH. lia. Qed.

Definition getf (r : rec) (loc : nat) : bytes := get_field (r_fields r) loc.
Definition nfields (r : rec) : nat := length (r_fields r).

Lemma getf_set_same : forall r loc v, (loc < nfields r)%nat -> getf (set_field r loc v) loc = v.
Proof. intros. apply get_set_same. assumption. Qed.

Lemma getf_set_other : forall r loc loc' v, loc <> loc' -> getf (set_field r loc v) loc' = getf r loc'.
Proof. intros. apply get_set_other. assumption. Qed.

Lemma nfields_set : forall r loc v, nfields (set_field r loc v) = nfields r.
Proof. intros. apply set_nth_length. Qed.

Lemma rec_eta : forall r, {| r_fields := r_fields r; r_rawlen := r_rawlen r; r_unesc := r_unesc r |} = r.
Proof. intros []. reflexivity. Qed.

Section Laws.
Variable O : oracles.

(* ---------- match operators ---------- *)

Lemma index_of_occurs : forall s v, s <> [] ->
  ((exists i, index_of s v = Some i) <-> occurs s v).
Proof.
  intros s v Hs. split.
  - intros [i H]. apply index_of_first in H; [|assumption]. destruct H as ((b & Hb) & _). eexists; eexists; exact Hb.
  - intros H. destruct (index_of s v) as [i|] eqn:E; [eexists; reflexivity|].
    exfalso. apply (index_of_none_occurs _ _ E). assumption.
Qed.

Lemma match_ops_spec_lemma : forall v,
  (vm_match O VAny v = true <-> v <> []) /\
  (forall s, vm_match O (VEq s) v = true <-> v = s) /\
  (forall s, vm_match O (VNot s) v = true <-> v <> s) /\
  (forall s, vm_match O (VStart s) v = true <-> exists x, v = s ++ x) /\
  (forall s, vm_match O (VEnd s) v = true <-> exists x, v = x ++ s) /\
  (forall s, s <> [] -> (vm_match O (VContain s) v = true <-> exists a b, v = a ++ s ++ b)) /\
  (forall n, vm_match O (VLenGt n) v = true <-> (Z.of_nat (length v) > n)%Z) /\
  (forall n, vm_match O (VLenLt n) v = true <-> (Z.of_nat (length v) < n)%Z) /\
  (forall s, vm_match O (VGlob s) v = o_glob_match O s v) /\
  (forall s, vm_match O (VRegex s) v = o_re_match O s v).
Proof.
  intros v.
  split. { cbn. destruct v; split; try congruence; try discriminate; intros; reflexivity. }
  split. { intros s. cbn [vm_match]. apply bytes_eqb_eq. }
  split. { intros s. cbn [vm_match]. destruct (bytes_eqb v s) eqn:E.
           - apply bytes_eqb_eq in E. cbn. split; congruence.
           - cbn. split; [|reflexivity]. intros _ Hc. subst. rewrite bytes_eqb_refl in E. discriminate. }
  split. { intros s. cbn [vm_match]. apply is_prefix_iff. }
  split. { intros s. cbn [vm_match]. apply is_suffix_iff. }
  split. { intros s Hs. cbn [vm_match]. rewrite <- (index_of_occurs s v Hs).
           destruct (index_of s v) as [i|]; split; try discriminate; try reflexivity.
           - intros _. exists i. reflexivity.
           - intros [i Hi]. discriminate. }
  split. { intros n. cbn [vm_match]. lia. }
  split. { intros n. cbn [vm_match]. lia. }
  split; intros s; reflexivity.
Qed.

(* a matcher is the conjunction of its field matches *)
Lemma matches_forall : forall m fields,
  matches O m fields = true <-> Forall (fun lv => vm_match O (snd lv) (get_field fields (fst lv)) = true) m.
Proof.
  induction m as [|[loc v] m IH]; intros fields; cbn [matches].
  - split; [constructor|reflexivity].
  - destruct (vm_match O v (get_field fields loc)) eqn:E.
    + rewrite IH. split; [intros H; constructor; [exact E|exact H]|intros H; inversion H; assumption].
    + split; [discriminate|]. intros H. inversion H; subst. cbn in *. congruence.
Qed.

(* the order of the field matches (NewMatcher sorts them by cost) is irrelevant *)
Lemma matches_perm : forall m m' fields, Permutation m m' -> matches O m fields = matches O m' fields.
Proof.
  intros m m' fields Hp.
  destruct (matches O m fields) eqn:E1; destruct (matches O m' fields) eqn:E2; try reflexivity; exfalso.
  - apply matches_forall in E1. assert (H : matches O m' fields = true).
    { apply matches_forall. eapply Permutation_Forall; eassumption. } congruence.
  - apply matches_forall in E2. assert (H : matches O m fields = true).
    { apply matches_forall. eapply Permutation_Forall; [apply Permutation_sym|]; eassumption. } congruence.
Qed.

End Laws.

(* ---------- control flow ---------- *)
Section Control.
Variable O : oracles.

Fixpoint tapp (a b : tfs) : tfs :=
  match a with TNil => b | TCons t a' => TCons t (tapp a' b) end.

Fixpoint kapp (a b : tcases) : tcases :=
  match a with KNil => b | KCons m th a' => KCons m th (kapp a' b) end.

Lemma run_tfs_nil : forall cs r, run_tfs O TNil cs r = Ok (TNil, cs, r, true).
Proof. reflexivity. Qed.

Lemma run_tfs_cons : forall t ts cs r,
  run_tfs O (TCons t ts) cs r =
  match run_tf O t cs r with
  | Ok (t', cs', r', true) =>
    match run_tfs O ts cs' r' with
    | Ok (ts'', cs'', r'', b) => Ok (TCons t' ts'', cs'', r'', b)
    | Err e => Err e
    | Panic s => Panic s
    end
  | Ok (t', cs', r', false) => Ok (TCons t' ts, cs', r', false)
  | Err e => Err e
  | Panic s => Panic s
  end.
Proof. reflexivity. Qed.

Lemma run_cases_nil : forall cs r, run_cases O KNil cs r = Ok (KNil, cs, r, true).
Proof. reflexivity. Qed.

Lemma run_cases_cons : forall m th ks cs r,
  run_cases O (KCons m th ks) cs r =
  if matches O m (r_fields r) then
    match run_tfs O th cs r with
    | Ok (th', cs', r', b) => Ok (KCons m th' ks, cs', r', b)
    | Err e => Err e
    | Panic s => Panic s
    end
  else
    match run_cases O ks cs r with
    | Ok (ks'', cs', r', b) => Ok (KCons m th ks'', cs', r', b)
    | Err e => Err e
    | Panic s => Panic s
    end.
Proof. reflexivity. Qed.

Lemma run_tf_switch : forall ks cs r,
  run_tf O (TSwitch ks) cs r =
  match run_cases O ks cs r with
  | Ok (ks', cs', r', b) => Ok (TSwitch ks', cs', r', b)
  | Err e => Err e
  | Panic s => Panic s
  end.
Proof. reflexivity. Qed.

Lemma run_tf_drop : forall m rate label matched dropped cs r,
  run_tf O (TDrop m rate label matched dropped) cs r =
  if matches O m (r_fields r) then
    let '(t', cs', b) := run_drop_matched m rate label matched dropped cs (r_rawlen r) in Ok (t', cs', r, b)
  else Ok (TDrop m rate label matched dropped, cs, r, true).
Proof. reflexivity. Qed.

(* running a b = running a, then b on its result unless a dropped the record *)
Lemma run_app_lemma : forall a b cs r,
  run_tfs O (tapp a b) cs r =
  match run_tfs O a cs r with
  | Ok (a', cs', r', true) =>
    match run_tfs O b cs' r' with
    | Ok (b', cs'', r'', p) => Ok (tapp a' b', cs'', r'', p)
    | Err e => Err e
    | Panic s => Panic s
    end
  | Ok (a', cs', r', false) => Ok (tapp a' b, cs', r', false)
  | Err e => Err e
  | Panic s => Panic s
  end.
Proof.
  induction a as [|t a IH]; intros b cs r.
  - cbn [tapp]. rewrite run_tfs_nil. destruct (run_tfs O b cs r) as [[[[b' cs'] r'] p]| |]; reflexivity.
  - cbn [tapp]. rewrite !run_tfs_cons. destruct (run_tf O t cs r) as [[[[t' cs'] r'] [|]]| |]; try reflexivity.
    rewrite IH. destruct (run_tfs O a cs' r') as [[[[a' cs''] r''] [|]]| |]; try reflexivity.
    destruct (run_tfs O b cs'' r'') as [[[[b' cs3] r3] p]| |]; reflexivity.
Qed.

(* RunTransforms: the first DROP wins — the steps after it are not run (their state is unchanged) *)
Lemma first_drop_wins_lemma : forall t ts cs r t' cs' r',
  run_tf O t cs r = Ok (t', cs', r', false) ->
  run_tfs O (TCons t ts) cs r = Ok (TCons t' ts, cs', r', false).
Proof. intros. rewrite run_tfs_cons. rewrite H. reflexivity. Qed.

Fixpoint none_match (ks : tcases) (fields : list bytes) : Prop :=
  match ks with
  | KNil => True
  | KCons m _ ks' => matches O m fields = false /\ none_match ks' fields
  end.

(* switch: the first case whose matcher holds is run, and only that one *)
Lemma switch_first_match_lemma : forall pre m th post cs r,
  none_match pre (r_fields r) -> matches O m (r_fields r) = true ->
  run_tf O (TSwitch (kapp pre (KCons m th post))) cs r =
  match run_tfs O th cs r with
  | Ok (th', cs', r', b) => Ok (TSwitch (kapp pre (KCons m th' post)), cs', r', b)
  | Err e => Err e
  | Panic s => Panic s
  end.
Proof.
  intros pre m th post cs r Hpre Hm. rewrite run_tf_switch.
  assert (H : run_cases O (kapp pre (KCons m th post)) cs r =
              match run_tfs O th cs r with
              | Ok (th', cs', r', b) => Ok (kapp pre (KCons m th' post), cs', r', b)
              | Err e => Err e
              | Panic s => Panic s
              end).
  { induction pre as [|m0 th0 pre IH]; cbn [kapp]; rewrite run_cases_cons.
    - rewrite Hm. reflexivity.
    - destruct Hpre as [H0 Hpre]. rewrite H0. rewrite (IH Hpre).
      destruct (run_tfs O th cs r) as [[[[th' cs'] r'] b]| |]; reflexivity. }
  rewrite H. destruct (run_tfs O th cs r) as [[[[th' cs'] r'] b]| |]; reflexivity.
Qed.

(* switch: no case matches -> PASS, nothing changes *)
Lemma switch_no_match_lemma : forall ks cs r,
  none_match ks (r_fields r) -> run_tf O (TSwitch ks) cs r = Ok (TSwitch ks, cs, r, true).
Proof.
  intros ks cs r H. rewrite run_tf_switch.
  assert (Hc : run_cases O ks cs r = Ok (ks, cs, r, true)).
  { induction ks as [|m th ks IH]; [reflexivity|]. rewrite run_cases_cons.
    destruct H as [H0 H]. rewrite H0, (IH H). reflexivity. }
  rewrite Hc. reflexivity.
Qed.

Lemma if_spec_lemma : forall m th cs r,
  run_tf O (TIf m th) cs r =
  if matches O m (r_fields r) then
    match run_tfs O th cs r with
    | Ok (th', cs', r', b) => Ok (TIf m th', cs', r', b)
    | Err e => Err e
    | Panic s => Panic s
    end
  else Ok (TIf m th, cs, r, true).
Proof. reflexivity. Qed.

Lemma block_spec_lemma : forall b cs r,
  run_tf O (TBlock b) cs r =
  match run_tfs O b cs r with
  | Ok (b', cs', r', p) => Ok (TBlock b', cs', r', p)
  | Err e => Err e
  | Panic s => Panic s
  end.
Proof. reflexivity. Qed.

(* block steps = the same steps inlined in the surrounding list *)
Lemma block_inline_lemma : forall b ts cs r,
  match run_tfs O (TCons (TBlock b) ts) cs r, run_tfs O (tapp b ts) cs r with
  | Ok (_, cs1, r1, p1), Ok (_, cs2, r2, p2) => cs1 = cs2 /\ r1 = r2 /\ p1 = p2
  | Err e1, Err e2 => e1 = e2
  | Panic s1, Panic s2 => s1 = s2
  | _, _ => False
  end.
Proof.
  intros b ts cs r. rewrite run_app_lemma. rewrite run_tfs_cons, block_spec_lemma.
  destruct (run_tfs O b cs r) as [[[[b' cs'] r'] [|]]| |]; try reflexivity; [|repeat split].
  destruct (run_tfs O ts cs' r') as [[[[ts' cs''] r''] p]| |]; try reflexivity. repeat split.
Qed.

(* ---------- drop ---------- *)

Definition dev (rate matched dropped : Z) : Z := (100 * dropped - rate * matched)%Z.

(* one matched record through a sampled drop *)
Lemma drop_step : forall m rate label matched dropped cs rawlen,
  (1 <= rate <= 99)%Z -> (0 <= matched)%Z -> (-100 < dev rate matched dropped < 100)%Z ->
  exists (b : bool) cs',
    run_drop_matched m rate label matched dropped cs rawlen =
      (TDrop m rate label (matched + 1)%Z (dropped + (if b then 0 else 1))%Z, cs', b) /\
    (-100 < dev rate (matched + 1) (dropped + (if b then 0 else 1)) < 100)%Z /\
    cs' = cnt_add cs (if b then 33 :: label else label) 1%Z rawlen.
Proof.
  intros m rate label matched dropped cs rawlen Hr Hm Hd. unfold run_drop_matched, dev in *.
  destruct (rate =? 100)%Z eqn:E100; [lia|].
  destruct ((matched >? 0) && (100 * dropped / matched <? rate))%Z eqn:E.
  - exists false. eexists. split; [reflexivity|]. split; [|reflexivity].
    assert (Hlt : (100 * dropped < rate * matched)%Z).
    { apply andb_true_iff in E. destruct E as [E1 E2].
      assert (Hpos : (0 < matched)%Z) by lia.
      apply Z.ltb_lt in E2.
      pose proof (Z.mul_div_le (100 * dropped) matched Hpos).
      pose proof (Z.mod_pos_bound (100 * dropped) matched Hpos).
      pose proof (Z.div_mod (100 * dropped) matched ltac:(lia)). nia. }
    lia.
  - exists true. eexists. split; [f_equal; f_equal; f_equal; lia|]. split; [|reflexivity].
    assert (Hge : (matched = 0 \/ rate * matched <= 100 * dropped)%Z).
    { destruct (matched >? 0)%Z eqn:E1; [|left; lia]. right. cbn [andb] in E.
      assert (Hpos : (0 < matched)%Z) by lia.
      apply Z.ltb_ge in E.
      pose proof (Z.mul_div_le (100 * dropped) matched Hpos). nia. }
    destruct Hge as [->|Hge]; lia.
Qed.

Lemma drop_step_100 : forall m label matched dropped cs rawlen,
  run_drop_matched m 100%Z label matched dropped cs rawlen =
  (TDrop m 100%Z label matched dropped, cnt_add cs label 1%Z rawlen, false).
Proof. reflexivity. Qed.

(* the invariant of every sampled drop node: |100*dropped - rate*matched| < 100 *)
Definition drop_ok (rate matched dropped : Z) : Prop :=
  rate = 100%Z \/ ((1 <= rate <= 99)%Z /\ (0 <= dropped <= matched)%Z /\ (-100 < dev rate matched dropped < 100)%Z).

Fixpoint dinv_tf (t : tf) : Prop :=
  match t with
  | TIf _ th => dinv_tfs th
  | TSwitch ks => dinv_cases ks
  | TBlock b => dinv_tfs b
  | TDrop _ rate _ matched dropped => drop_ok rate matched dropped
  | _ => True
  end
with dinv_tfs (ts : tfs) : Prop :=
  match ts with TNil => True | TCons t ts' => dinv_tf t /\ dinv_tfs ts' end
with dinv_cases (ks : tcases) : Prop :=
  match ks with KNil => True | KCons _ th ks' => dinv_tfs th /\ dinv_cases ks' end.

Lemma drop_ok_step : forall m rate label matched dropped cs rawlen t' cs' b,
  drop_ok rate matched dropped ->
  run_drop_matched m rate label matched dropped cs rawlen = (t', cs', b) -> dinv_tf t'.
Proof.
  intros m rate label matched dropped cs rawlen t' cs' b [->|(Hr & Hd & Hv)] H.
  - rewrite drop_step_100 in H. inversion H; subst. cbn. left. reflexivity.
  - destruct (drop_step m rate label matched dropped cs rawlen Hr ltac:(lia) Hv) as (b0 & cs0 & Heq & Hv' & _).
    rewrite Heq in H. inversion H; subst. cbn. right. split; [assumption|]. split; [|assumption].
    destruct b; lia.
Qed.

(* preserved by every run of every program on every record: by induction over the program *)
Lemma dinv_preserved :
  (forall t, dinv_tf t -> forall cs r t' cs' r' b, run_tf O t cs r = Ok (t', cs', r', b) -> dinv_tf t') /\
  (forall ts, dinv_tfs ts -> forall cs r ts' cs' r' b, run_tfs O ts cs r = Ok (ts', cs', r', b) -> dinv_tfs ts') /\
  (forall ks, dinv_cases ks -> forall cs r ks' cs' r' b, run_cases O ks cs r = Ok (ks', cs', r', b) -> dinv_cases ks').
Proof.
  apply tf_mutind.
  - intros pairs _ cs r t' cs' r' b H. cbn [run_tf] in H. unfold lift in H.
    destruct (run_addfields pairs r); inversion H; subst; exact I.
  - intros locs _ cs r t' cs' r' b H. inversion H; subst; exact I.
  - intros loc m d _ cs r t' cs' r' b H. inversion H; subst; exact I.
  - intros m th IH Hd cs r t' cs' r' b H. rewrite if_spec_lemma in H.
    destruct (matches O m (r_fields r)).
    + destruct (run_tfs O th cs r) as [[[[th' cs1] r1] b1]| |] eqn:E; inversion H; subst.
      cbn. eapply IH; eassumption.
    + inversion H; subst. exact Hd.
  - intros ks IH Hd cs r t' cs' r' b H. rewrite run_tf_switch in H.
    destruct (run_cases O ks cs r) as [[[[ks' cs1] r1] b1]| |] eqn:E; inversion H; subst.
    cbn. eapply IH; eassumption.
  - intros bl IH Hd cs r t' cs' r' b H. rewrite block_spec_lemma in H.
    destruct (run_tfs O bl cs r) as [[[[b' cs1] r1] b1]| |] eqn:E; inversion H; subst.
    cbn. eapply IH; eassumption.
  - intros m rate label matched dropped Hd cs r t' cs' r' b H. rewrite run_tf_drop in H.
    destruct (matches O m (r_fields r)).
    + destruct (run_drop_matched m rate label matched dropped cs (r_rawlen r)) as [[t1 cs1] b1] eqn:E.
      inversion H; subst. eapply drop_ok_step; eassumption.
    + inversion H; subst. exact Hd.
  - intros ex src dst _ cs r t' cs' r' b H. cbn [run_tf] in H. unfold lift in H.
    destruct (run_extractsp ex src dst r); inversion H; subst; exact I.
  - intros loc maxlen suffix _ cs r t' cs' r' b H. cbn [run_tf] in H. unfold lift in H.
    destruct (run_truncate loc maxlen suffix r); inversion H; subst; exact I.
  - intros loc _ cs r t' cs' r' b H. cbn [run_tf] in H. unfold lift in H.
    destruct (run_unescape loc r); inversion H; subst; exact I.
  - intros loc pat repl _ cs r t' cs' r' b H. inversion H; subst; exact I.
  - intros loc pat locs _ cs r t' cs' r' b H. cbn [run_tf] in H. unfold lift in H.
    destruct (run_extractre O loc pat locs r); inversion H; subst; exact I.
  - intros _ cs r ts' cs' r' b H. inversion H; subst; exact I.
  - intros t IHt ts IHts [Ht Hts] cs r ts' cs' r' b H. rewrite run_tfs_cons in H.
    destruct (run_tf O t cs r) as [[[[t1 cs1] r1] [|]]| |] eqn:E; try discriminate.
    + destruct (run_tfs O ts cs1 r1) as [[[[ts1 cs2] r2] b2]| |] eqn:E2; inversion H; subst.
      split; [eapply IHt; eassumption|eapply IHts; eassumption].
    + inversion H; subst. split; [eapply IHt; eassumption|assumption].
  - intros _ cs r ks' cs' r' b H. inversion H; subst; exact I.
  - intros m th IHth ks IHks [Hth Hks] cs r ks' cs' r' b H. rewrite run_cases_cons in H.
    destruct (matches O m (r_fields r)).
    + destruct (run_tfs O th cs r) as [[[[th1 cs1] r1] b1]| |] eqn:E; inversion H; subst.
      split; [eapply IHth; eassumption|assumption].
    + destruct (run_cases O ks cs r) as [[[[ks1 cs1] r1] b1]| |] eqn:E; inversion H; subst.
      split; [assumption|eapply IHks; eassumption].
Qed.

End Control.

(* ---------- sampled drop over a stream: within one record of the rate at EVERY prefix ---------- *)
Section DropStream.
Variable O : oracles.

Definition is_drop (x : rec_result) : bool := match x with RDrop _ => true | _ => false end.
Definition count_matched (m : matcher) (rs : list rec) : Z :=
  Z.of_nat (length (filter (fun r => matches O m (r_fields r)) rs)).
Definition count_dropped (out : list rec_result) : Z := Z.of_nat (length (filter is_drop out)).

Lemma drop_node_step : forall m rate label matched dropped cs r,
  (1 <= rate <= 99)%Z -> (0 <= dropped <= matched)%Z -> (-100 < dev rate matched dropped < 100)%Z ->
  exists matched' dropped' cs' (b : bool),
    run_tfs O (TCons (TDrop m rate label matched dropped) TNil) cs r =
      Ok (TCons (TDrop m rate label matched' dropped') TNil, cs', r, b) /\
    matched' = (matched + (if matches O m (r_fields r) then 1 else 0))%Z /\
    dropped' = (dropped + (if b then 0 else 1))%Z /\
    (b = false -> matches O m (r_fields r) = true) /\
    (0 <= dropped' <= matched')%Z /\ (-100 < dev rate matched' dropped' < 100)%Z.
Proof.
  intros m rate label matched dropped cs r Hr Hd Hv.
  rewrite run_tfs_cons, run_tf_drop. destruct (matches O m (r_fields r)) eqn:Em.
  - destruct (drop_step m rate label matched dropped cs (r_rawlen r) Hr ltac:(lia) Hv) as (b & cs' & Heq & Hv' & _).
    rewrite Heq. exists (matched + 1)%Z, (dropped + (if b then 0 else 1))%Z, cs', b.
    destruct b; rewrite ?run_tfs_nil; (split; [reflexivity|]); repeat split; try lia; try assumption; try reflexivity.
  - rewrite run_tfs_nil. exists matched, dropped, cs, true. split; [reflexivity|]. repeat split; try lia; try discriminate.
Qed.

Lemma drop_stream_prefix : forall m rate label rs k matched dropped cs out cs',
  (1 <= rate <= 99)%Z -> (0 <= dropped <= matched)%Z -> (-100 < dev rate matched dropped < 100)%Z ->
  run_records O (TCons (TDrop m rate label matched dropped) TNil) cs rs = (out, cs') ->
  length out = length rs /\
  (-100 < dev rate (matched + count_matched m (firstn k rs)) (dropped + count_dropped (firstn k out)) < 100)%Z /\
  (0 <= dropped + count_dropped (firstn k out) <= matched + count_matched m (firstn k rs))%Z.
Proof.
  intros m rate label. induction rs as [|r rs IH]; intros k matched dropped cs out cs' Hr Hd Hv H.
  - cbn in H. inversion H; subst. rewrite !firstn_nil. unfold count_matched, count_dropped, dev in *. cbn [filter length Z.of_nat]. split; [reflexivity|]. split; lia.
  - cbn [run_records] in H.
    destruct (drop_node_step m rate label matched dropped cs r Hr Hd Hv)
      as (matched' & dropped' & cs1 & b & Heq & Hm' & Hd' & Hbm & Hd'' & Hv').
    rewrite Heq in H.
    destruct (run_records O (TCons (TDrop m rate label matched' dropped') TNil) cs1 rs) as [out1 cs2] eqn:E.
    inversion H; subst out cs'. clear H.
    destruct k as [|k].
    + destruct (IH 0%nat matched' dropped' cs1 out1 cs2 Hr Hd'' Hv' E) as (Hl & _).
      cbn [length firstn]. unfold count_matched, count_dropped, dev in *. cbn [filter length Z.of_nat]. split; [lia|]. split; lia.
    + destruct (IH k matched' dropped' cs1 out1 cs2 Hr Hd'' Hv' E) as (Hl & Hb & Hc).
      cbn [length firstn]. split; [lia|].
      assert (Hcm : count_matched m (r :: firstn k rs) =
                    ((if matches O m (r_fields r) then 1 else 0) + count_matched m (firstn k rs))%Z).
      { unfold count_matched. cbn [filter]. destruct (matches O m (r_fields r)); cbn [length]; lia. }
      assert (Hcd : count_dropped ((if b then RPass r else RDrop r) :: firstn k out1) =
                    ((if b then 0 else 1) + count_dropped (firstn k out1))%Z).
      { unfold count_dropped. cbn [filter]. destruct b; cbn [is_drop length]; lia. }
      rewrite Hcm, Hcd. subst matched' dropped'.
      replace (matched + ((if matches O m (r_fields r) then 1 else 0) + count_matched m (firstn k rs)))%Z
        with (matched + (if matches O m (r_fields r) then 1 else 0) + count_matched m (firstn k rs))%Z by lia.
      replace (dropped + ((if b then 0 else 1) + count_dropped (firstn k out1)))%Z
        with (dropped + (if b then 0 else 1) + count_dropped (firstn k out1))%Z by lia.
      split; assumption.
Qed.

(* rate 100 drops every matched record *)
Lemma drop_all_lemma : forall m label matched dropped cs r,
  run_tf O (TDrop m 100%Z label matched dropped) cs r =
  if matches O m (r_fields r)
  then Ok (TDrop m 100%Z label matched dropped, cnt_add cs label 1%Z (r_rawlen r), r, false)
  else Ok (TDrop m 100%Z label matched dropped, cs, r, true).
Proof. intros. rewrite run_tf_drop. destruct (matches O m (r_fields r)); reflexivity. Qed.

End DropStream.

(* ---------- mapValue / delFields / addFields ---------- *)

Lemma mapvalue_spec_lemma : forall loc m d r, (loc < nfields r)%nat ->
  let r' := run_mapvalue loc m d r in
  nfields r' = nfields r /\ r_unesc r' = r_unesc r /\ r_rawlen r' = r_rawlen r /\
  (forall j, j <> loc -> getf r' j = getf r j) /\
  (getf r loc = [] -> r' = r) /\
  (getf r loc <> [] -> getf r' loc = match assoc m (getf r loc) with Some v => v | None => d end).
Proof.
  intros loc m d r Hloc. unfold run_mapvalue. fold (getf r loc).
  destruct (getf r loc) as [|c v] eqn:E.
  - repeat split; try reflexivity; intros; congruence.
  - split; [apply nfields_set|]. split; [reflexivity|]. split; [reflexivity|]. split.
    + intros j Hj. apply getf_set_other. congruence.
    + split; [discriminate|]. intros _. apply getf_set_same. assumption.
Qed.

Lemma delfields_spec_lemma : forall locs r,
  let r' := run_delfields locs r in
  nfields r' = nfields r /\ r_unesc r' = r_unesc r /\ r_rawlen r' = r_rawlen r /\
  forall j, (j < nfields r)%nat -> getf r' j = if existsb (Nat.eqb j) locs then [] else getf r j.
Proof.
  induction locs as [|l locs IH]; intros r; cbn [run_delfields existsb].
  - repeat split; reflexivity.
  - destruct (IH (set_field r l [])) as (Hn & Hu & Hl & Hf). rewrite nfields_set in *.
    split; [assumption|]. split; [assumption|]. split; [assumption|].
    intros j Hj. rewrite (Hf j Hj). destruct (Nat.eqb j l) eqn:E; cbn [orb].
    + apply Nat.eqb_eq in E. subst. destruct (existsb (Nat.eqb l) locs); [reflexivity|]. apply getf_set_same. assumption.
    + apply Nat.eqb_neq in E. destruct (existsb (Nat.eqb j) locs); [reflexivity|]. apply getf_set_other. congruence.
Qed.

(* one field of addFields: an empty expansion leaves the field alone *)
Lemma addfields_one_lemma : forall dst tpl r, (dst < nfields r)%nat ->
  exists v, expand (r_fields r) tpl = Ok v /\
    run_addfields [(dst, tpl)] r = Ok (match v with [] => r | _ => set_field r dst v end) /\
    (v = [] -> run_addfields [(dst, tpl)] r = Ok r) /\
    (v <> [] -> exists r', run_addfields [(dst, tpl)] r = Ok r' /\ getf r' dst = v /\
                  nfields r' = nfields r /\ forall j, j <> dst -> getf r' j = getf r j).
Proof.
  intros dst tpl r Hd. destruct (expand_no_panic (r_fields r) tpl) as [v Hv]. exists v.
  split; [assumption|]. cbn [run_addfields]. rewrite Hv. cbn [obind]. split; [reflexivity|]. split.
  - intros ->. reflexivity.
  - intros Hne. destruct v as [|c v]; [congruence|]. eexists. split; [reflexivity|].
    split; [apply getf_set_same; assumption|]. split; [apply nfields_set|].
    intros j Hj. apply getf_set_other. congruence.
Qed.

Lemma addfields_no_panic : forall pairs r, exists r', run_addfields pairs r = Ok r' /\ nfields r' = nfields r.
Proof.
  induction pairs as [|[dst tpl] ps IH]; intros r; [exists r; split; reflexivity|].
  cbn [run_addfields]. destruct (expand_no_panic (r_fields r) tpl) as [v Hv]. rewrite Hv. cbn [obind].
  destruct (IH (match v with [] => r | _ :: _ => set_field r dst v end)) as (r' & Hr' & Hn).
  exists r'. split; [assumption|]. rewrite Hn. destruct v; [reflexivity|apply nfields_set].
Qed.

(* a list of fields = one field after the other *)
Lemma addfields_seq_lemma : forall p ps r,
  run_addfields (p :: ps) r = match run_addfields [p] r with Ok r1 => run_addfields ps r1 | Err e => Err e | Panic s => Panic s end.
Proof.
  intros [dst tpl] ps r. cbn [run_addfields]. destruct (expand (r_fields r) tpl); reflexivity.
Qed.

(* the fields a template reads *)
Definition part_reads (loc : nat) (p : part) : bool :=
  match p with PLit _ => false | PVar l => Nat.eqb l loc | PSlice l _ _ => Nat.eqb l loc end.
Definition tpl_reads (loc : nat) (tpl : list part) : bool := existsb (part_reads loc) tpl.

Lemma part_value_indep : forall fields dst v p, part_reads dst p = false ->
  part_value (set_nth fields dst v) p = part_value fields p.
Proof.
  intros fields dst v p H. destruct p as [s|l|l a b]; cbn in *; [reflexivity| |];
    apply Nat.eqb_neq in H; rewrite get_set_other by congruence; reflexivity.
Qed.

Lemma expand_all_indep : forall fields dst v tpl, tpl_reads dst tpl = false ->
  expand_all (set_nth fields dst v) tpl = expand_all fields tpl.
Proof.
  intros fields dst v. induction tpl as [|p tpl IH]; intros H; [reflexivity|].
  cbn [tpl_reads existsb] in H. apply orb_false_iff in H. destruct H as [Hp Ht].
  cbn [expand_all]. rewrite part_value_indep by assumption. rewrite IH by assumption. reflexivity.
Qed.

Lemma set_nth_comm : forall fs a b va vb, a <> b ->
  set_nth (set_nth fs a va) b vb = set_nth (set_nth fs b vb) a va.
Proof.
  induction fs as [|x t IH]; intros [|a] [|b] va vb H; cbn; try reflexivity; try congruence.
  f_equal. apply IH. congruence.
Qed.

(* two fields whose templates do not read each other's destination commute *)
Lemma addfields_swap_lemma : forall d1 t1 d2 t2 ps r, d1 <> d2 ->
  tpl_reads d1 t2 = false -> tpl_reads d2 t1 = false ->
  run_addfields ((d1, t1) :: (d2, t2) :: ps) r = run_addfields ((d2, t2) :: (d1, t1) :: ps) r.
Proof.
  intros d1 t1 d2 t2 ps r Hd H12 H21. cbn [run_addfields]. rewrite !expand_eq_all.
  destruct (expand_all_no_panic (r_fields r) t1) as [v1 Hv1].
  destruct (expand_all_no_panic (r_fields r) t2) as [v2 Hv2].
  rewrite Hv1, Hv2. cbn [obind].
  destruct v1 as [|c1 v1]; destruct v2 as [|c2 v2]; rewrite ?expand_eq_all; cbn [set_field r_fields];
    rewrite ?expand_all_indep by assumption; rewrite ?Hv1, ?Hv2; cbn [obind]; try reflexivity.
  unfold set_field. cbn [r_fields r_rawlen r_unesc]. rewrite set_nth_comm by assumption. reflexivity.
Qed.

(* ---------- truncate ---------- *)

Lemma go_slice_prefix : forall (v : bytes) n, (0 <= n <= Z.of_nat (length v))%Z ->
  go_slice v 0 n = Ok (firstn (Z.to_nat n) v).
Proof.
  intros v n H. unfold go_slice.
  replace ((0 <=? 0) && (0 <=? n) && (n <=? Z.of_nat (length v)))%Z%bool with true by lia.
  cbn [Z.to_nat skipn]. rewrite Z.sub_0_r. reflexivity.
Qed.

(* the value truncate writes: CleanUTF8 of the first maxlen bytes, then the suffix *)
Lemma truncate_value : forall loc maxlen suffix r, (0 <= maxlen)%Z ->
  (Z.of_nat (length (getf r loc)) > maxlen + Z.of_nat (length suffix))%Z ->
  exists p, clean_utf8 (firstn (Z.to_nat maxlen) (getf r loc)) = Ok p /\
            run_truncate loc maxlen suffix r = Ok (set_field r loc (p ++ suffix)).
Proof.
  intros loc maxlen suffix r Hm Hlen. unfold run_truncate. fold (getf r loc).
  set (v := getf r loc) in *.
  replace (Z.of_nat (length v) >? maxlen + Z.of_nat (length suffix))%Z with true by lia.
  replace (maxlen <? 0)%Z with false by lia.
  destruct (clean_utf8_never_panics (firstn (Z.to_nat maxlen) v)) as [p Hp].
  exists p. split; [assumption|]. rewrite Hp. reflexivity.
Qed.

Lemma truncate_spec_lemma : forall loc maxlen suffix r, (0 < maxlen)%Z ->
  let v := getf r loc in
  ((Z.of_nat (length v) <= maxlen + Z.of_nat (length suffix))%Z -> run_truncate loc maxlen suffix r = Ok r) /\
  ((Z.of_nat (length v) > maxlen + Z.of_nat (length suffix))%Z ->
   exists p, run_truncate loc maxlen suffix r = Ok (set_field r loc (p ++ suffix)) /\
     (Z.of_nat (length p) <= maxlen)%Z /\
     (* p = an untouched prefix of v up to its last ASCII byte, then a well-formed non-ASCII run *)
     (exists head tail, p = head ++ tail /\ is_prefix_of head v /\ valid_utf8 tail /\
                        Forall (fun b => 128 <= b) tail /\ (head = [] \/ exists h b, head = h ++ [b] /\ b <= 127)) /\
     (* on valid UTF-8 the result is a prefix of v cut at a rune boundary, at most 3 bytes short *)
     (valid_utf8 v -> is_prefix_of p v /\ valid_utf8 p /\ (maxlen - 3 <= Z.of_nat (length p))%Z /\
        forall q, is_prefix_of q v -> valid_utf8 q -> (Z.of_nat (length q) <= maxlen)%Z -> (length q <= length p)%nat)).
Proof.
  intros loc maxlen suffix r Hm v. split.
  - intros Hle. unfold run_truncate. fold (getf r loc). fold v.
    replace (Z.of_nat (length v) >? maxlen + Z.of_nat (length suffix))%Z with false by lia. reflexivity.
  - intros Hgt. destruct (truncate_value loc maxlen suffix r ltac:(lia) Hgt) as (p & Hp & Hrun). fold v in Hp.
    exists p. split; [assumption|].
    pose proof (clean_utf8_length _ _ Hp) as Hpl. rewrite firstn_length in Hpl. split; [lia|]. split.
    + destruct (clean_utf8_shape _ _ Hp) as (head & tail & Heq & Hpre & Hval & Hhigh & Hhead).
      exists head, tail. split; [assumption|]. split; [|tauto].
      destruct Hpre as [x Hx]. exists (x ++ skipn (Z.to_nat maxlen) v).
      rewrite <- (firstn_skipn (Z.to_nat maxlen) v) at 1. rewrite Hx, <- app_assoc. reflexivity.
    + intros Hv. destruct (valid_cut v Hv (Z.to_nat maxlen)) as (w & rr & Hcut & Hw & Hrr & Hrl).
      rewrite Hcut in Hp. rewrite (clean_valid_incomplete w rr Hw Hrr) in Hp. inversion Hp; subst p.
      split; [|split; [assumption|split]].
      * exists (rr ++ skipn (Z.to_nat maxlen) v). rewrite <- (firstn_skipn (Z.to_nat maxlen) v) at 1.
        rewrite Hcut, <- app_assoc. reflexivity.
      * apply (f_equal (@length N)) in Hcut. rewrite firstn_length, app_length in Hcut. lia.
      * intros q [x Hx] Hq Hql. apply (longest_valid_prefix w rr q Hw Hrr); [|assumption].
        rewrite <- Hcut. exists (firstn (Z.to_nat maxlen - length q) x).
        rewrite Hx, firstn_app. rewrite firstn_all2 by lia. reflexivity.
Qed.

(* ---------- unescape ---------- *)

Lemma unescape_transform_lemma : forall loc r, (loc < nfields r)%nat ->
  (r_unesc r = true -> run_unescape loc r = Ok r) /\
  (r_unesc r = false ->
   exists r', run_unescape loc r = Ok r' /\ r_unesc r' = true /\ r_rawlen r' = r_rawlen r /\
     nfields r' = nfields r /\
     getf r' loc = unesc_ref 92 (u_map syslog_unescaper) (getf r loc) /\
     (forall j, j <> loc -> getf r' j = getf r j) /\
     (length (getf r' loc) <= length (getf r loc))%nat).
Proof.
  intros loc r Hloc. unfold run_unescape. split; [intros ->; reflexivity|]. intros ->.
  cbn [r_fields]. fold (getf r loc). set (v := getf r loc) in *.
  set (r1 := {| r_fields := r_fields r; r_rawlen := r_rawlen r; r_unesc := true |}).
  assert (Hr1 : forall j, getf r1 j = getf r j) by reflexivity.
  pose proof (unesc_ref_length 92 (u_map syslog_unescaper) v) as Hlen.
  destruct v as [|c v'] eqn:Ev.
  - exists r1. repeat split; try reflexivity.
    + rewrite Hr1. fold v. rewrite Ev. reflexivity.
    + rewrite Hr1. fold v. rewrite Ev. cbn. lia.
  - rewrite <- Ev in *. destruct (index_byte v (u_esc syslog_unescaper)) as [first|] eqn:Ei.
    + rewrite (run_from_first_spec syslog_unescaper v first Ei).
      exists (set_field r1 loc (unesc_ref (u_esc syslog_unescaper) (u_map syslog_unescaper) v)).
      split; [reflexivity|]. split; [reflexivity|]. split; [reflexivity|]. split; [rewrite nfields_set; reflexivity|].
      split; [apply getf_set_same; exact Hloc|]. split.
      * intros j Hj. rewrite getf_set_other by congruence. apply Hr1.
      * rewrite getf_set_same by exact Hloc. exact Hlen.
    + exists r1. repeat split; try reflexivity.
      rewrite Hr1. fold v. symmetry. apply unesc_ref_no_esc_all. apply index_byte_none. assumption.
Qed.

(* ---------- well-formed programs never panic ---------- *)
Section NoPanic.
Variable O : oracles.

(* what the regexp oracle must deliver for the extract plumbing: one index pair per
   subexpression, each either "no match" (negative) or a range inside the value *)
Definition find_sane (pat : bytes) (nlocs : nat) : Prop :=
  forall v idx, o_re_find O pat v = Some idx ->
    length idx = nlocs /\
    Forall (fun ab => (fst ab < 0 \/ snd ab < 0)%Z \/ (0 <= fst ab <= snd ab /\ snd ab <= Z.of_nat (length v))%Z) idx.

Definition wf_extractor (ex : extractor) : Prop :=
  (0 <= ex_max ex)%Z /\
  (if ex_head ex then ex_right ex <> [] \/ ex_table ex <> None else ex_left ex <> [] \/ ex_table ex <> None).

Fixpoint wf_tf (t : tf) : Prop :=
  match t with
  | TIf _ th => wf_tfs th
  | TSwitch ks => wf_cases ks
  | TBlock b => wf_tfs b
  | TExtractSp ex _ _ => wf_extractor ex
  | TTruncate _ maxlen _ => (0 <= maxlen)%Z
  | TExtractRe _ pat locs => find_sane pat (length locs)
  | _ => True
  end
with wf_tfs (ts : tfs) : Prop :=
  match ts with TNil => True | TCons t ts' => wf_tf t /\ wf_tfs ts' end
with wf_cases (ks : tcases) : Prop :=
  match ks with KNil => True | KCons _ th ks' => wf_tfs th /\ wf_cases ks' end.

Lemma truncate_no_panic : forall loc maxlen suffix r, (0 <= maxlen)%Z ->
  exists r', run_truncate loc maxlen suffix r = Ok r'.
Proof.
  intros loc maxlen suffix r Hm.
  destruct (Z.of_nat (length (getf r loc)) >? maxlen + Z.of_nat (length suffix))%Z eqn:E.
  - destruct (truncate_value loc maxlen suffix r Hm ltac:(lia)) as (p & _ & H). eexists. exact H.
  - unfold run_truncate. fold (getf r loc). rewrite E. eexists. reflexivity.
Qed.

Lemma unescape_no_panic : forall loc r, exists r', run_unescape loc r = Ok r'.
Proof.
  intros loc r. unfold run_unescape. destruct (r_unesc r); [eexists; reflexivity|].
  cbn [r_fields]. destruct (get_field (r_fields r) loc) as [|c v] eqn:Ev; [eexists; reflexivity|].
  destruct (index_byte (c :: v) (u_esc syslog_unescaper)) as [first|] eqn:Ei; [|eexists; reflexivity].
  rewrite (run_from_first_spec syslog_unescaper (c :: v) first Ei). eexists. reflexivity.
Qed.

Lemma extractsp_no_panic : forall ex src dst r, wf_extractor ex -> exists r', run_extractsp ex src dst r = Ok r'.
Proof.
  intros ex src dst r [Hm Hb]. unfold run_extractsp.
  destruct (get_field (r_fields r) src) as [|c v]; [eexists; reflexivity|].
  destruct (extract_no_panic ex (c :: v) Hm Hb) as [[e rem] Hp]. rewrite Hp. cbn [obind].
  destruct (length rem =? length (c :: v))%nat; eexists; reflexivity.
Qed.

Lemma extractre_loop_no_panic : forall locs idx value r,
  length idx = length locs ->
  Forall (fun ab => (fst ab < 0 \/ snd ab < 0)%Z \/ (0 <= fst ab <= snd ab /\ snd ab <= Z.of_nat (length value))%Z) idx ->
  exists r', run_extractre_loop locs idx value r = Ok r'.
Proof.
  induction locs as [|l locs IH]; intros idx value r Hl Hs; [eexists; reflexivity|].
  destruct idx as [|[a b] idx]; [discriminate|]. inversion Hs as [|? ? Hab Hs']; subst. cbn in Hab.
  cbn [run_extractre_loop]. destruct l as [loc|].
  - destruct ((a <? 0) || (b <? 0))%Z eqn:E.
    + apply IH; [cbn in Hl; lia|assumption].
    + unfold go_slice. replace ((0 <=? a) && (a <=? b) && (b <=? Z.of_nat (length value)))%Z%bool with true by lia.
      cbn [obind]. apply IH; [cbn in Hl; lia|assumption].
  - cbn [tl]. apply IH; [cbn in Hl; lia|assumption].
Qed.

Lemma no_panic_lemma :
  (forall t, wf_tf t -> forall cs r, exists t' cs' r' b, run_tf O t cs r = Ok (t', cs', r', b) /\ wf_tf t') /\
  (forall ts, wf_tfs ts -> forall cs r, exists ts' cs' r' b, run_tfs O ts cs r = Ok (ts', cs', r', b) /\ wf_tfs ts') /\
  (forall ks, wf_cases ks -> forall cs r, exists ks' cs' r' b, run_cases O ks cs r = Ok (ks', cs', r', b) /\ wf_cases ks').
Proof.
  apply tf_mutind.
  - intros pairs _ cs r. destruct (addfields_no_panic pairs r) as (r' & Hr & _).
    cbn [run_tf]. rewrite Hr. do 4 eexists. split; [reflexivity|exact I].
  - intros locs _ cs r. do 4 eexists. split; [reflexivity|exact I].
  - intros loc m d _ cs r. do 4 eexists. split; [reflexivity|exact I].
  - intros m th IH Hw cs r. rewrite if_spec_lemma. destruct (matches O m (r_fields r)).
    + destruct (IH Hw cs r) as (th' & cs' & r' & b & H & Hw'). rewrite H. do 4 eexists. split; [reflexivity|exact Hw'].
    + do 4 eexists. split; [reflexivity|exact Hw].
  - intros ks IH Hw cs r. rewrite run_tf_switch.
    destruct (IH Hw cs r) as (ks' & cs' & r' & b & H & Hw'). rewrite H. do 4 eexists. split; [reflexivity|exact Hw'].
  - intros bl IH Hw cs r. rewrite block_spec_lemma.
    destruct (IH Hw cs r) as (b' & cs' & r' & b & H & Hw'). rewrite H. do 4 eexists. split; [reflexivity|exact Hw'].
  - intros m rate label matched dropped _ cs r. rewrite run_tf_drop. destruct (matches O m (r_fields r)).
    + unfold run_drop_matched.
      destruct (rate =? 100)%Z; [|destruct ((matched >? 0) && (100 * dropped / matched <? rate))%Z];
        do 4 eexists; (split; [reflexivity|exact I]).
    + do 4 eexists. split; [reflexivity|exact I].
  - intros ex src dst Hw cs r. destruct (extractsp_no_panic ex src dst r Hw) as (r' & Hr).
    cbn [run_tf]. rewrite Hr. do 4 eexists. split; [reflexivity|exact Hw].
  - intros loc maxlen suffix Hw cs r. destruct (truncate_no_panic loc maxlen suffix r Hw) as (r' & Hr).
    cbn [run_tf]. rewrite Hr. do 4 eexists. split; [reflexivity|exact Hw].
  - intros loc _ cs r. destruct (unescape_no_panic loc r) as (r' & Hr).
    cbn [run_tf]. rewrite Hr. do 4 eexists. split; [reflexivity|exact I].
  - intros loc pat repl _ cs r. do 4 eexists. split; [reflexivity|exact I].
  - intros loc pat locs Hw cs r. cbn [run_tf]. unfold run_extractre.
    destruct (o_re_find O pat (get_field (r_fields r) loc)) as [idx|] eqn:E.
    + destruct (Hw _ _ E) as [Hl Hs]. destruct (extractre_loop_no_panic locs idx _ r Hl Hs) as (r' & Hr).
      rewrite Hr. do 4 eexists. split; [reflexivity|exact Hw].
    + do 4 eexists. split; [reflexivity|exact Hw].
  - intros _ cs r. do 4 eexists. split; [reflexivity|exact I].
  - intros t IHt ts IHts [Ht Hts] cs r. rewrite run_tfs_cons.
    destruct (IHt Ht cs r) as (t' & cs' & r' & b & H & Hw'). rewrite H. destruct b.
    + destruct (IHts Hts cs' r') as (ts' & cs'' & r'' & b' & H' & Hw''). rewrite H'.
      do 4 eexists. split; [reflexivity|split; assumption].
    + do 4 eexists. split; [reflexivity|split; assumption].
  - intros _ cs r. do 4 eexists. split; [reflexivity|exact I].
  - intros m th IHth ks IHks [Hth Hks] cs r. rewrite run_cases_cons. destruct (matches O m (r_fields r)).
    + destruct (IHth Hth cs r) as (th' & cs' & r' & b & H & Hw'). rewrite H. do 4 eexists. split; [reflexivity|split; assumption].
    + destruct (IHks Hks cs r) as (ks' & cs' & r' & b & H & Hw'). rewrite H. do 4 eexists. split; [reflexivity|split; assumption].
Qed.

(* hence a whole stream of records through one instance never panics *)
Lemma run_records_no_panic : forall rs ts cs, wf_tfs ts ->
  Forall (fun x => x <> RPanic) (fst (run_records O ts cs rs)) /\
  length (fst (run_records O ts cs rs)) = length rs.
Proof.
  induction rs as [|r rs IH]; intros ts cs Hw; [split; [constructor|reflexivity]|].
  cbn [run_records]. destruct (proj1 (proj2 no_panic_lemma) ts Hw cs r) as (ts' & cs' & r' & b & H & Hw').
  rewrite H. destruct (run_records O ts' cs' rs) as [out cs''] eqn:E.
  specialize (IH ts' cs' Hw'). rewrite E in IH. cbn [fst] in *. destruct IH as [IH1 IH2].
  split; [constructor; [destruct b; discriminate|assumption]|cbn [length]; lia].
Qed.

End NoPanic.

(* ---------- every drop node of every program keeps its invariant along every record stream ---------- *)
Section DropProgram.
Variable O : oracles.

(* the successive states of one transform instance fed with a stream *)
Fixpoint run_states (ts : tfs) (cs : counters) (rs : list rec) : list tfs :=
  match rs with
  | [] => []
  | r :: rs' =>
    match run_tfs O ts cs r with
    | Ok (ts', cs', _, _) => ts' :: run_states ts' cs' rs'
    | _ => []
    end
  end.

Lemma dinv_stream : forall rs ts cs, dinv_tfs ts -> Forall dinv_tfs (run_states ts cs rs).
Proof.
  induction rs as [|r rs IH]; intros ts cs H; [constructor|].
  cbn [run_states]. destruct (run_tfs O ts cs r) as [[[[ts' cs'] r'] b]| |] eqn:E; try constructor.
  - eapply (proj1 (proj2 (dinv_preserved O))); eassumption.
  - apply IH. eapply (proj1 (proj2 (dinv_preserved O))); eassumption.
Qed.

(* a freshly constructed drop (counters 0/0, percentage accepted by VerifyConfig) satisfies it *)
Lemma drop_fresh_lemma : forall m rate label, (1 <= rate <= 100)%Z -> dinv_tf (TDrop m rate label 0 0).
Proof.
  intros m rate label H. cbn. unfold drop_ok, dev.
  destruct (Z.eq_dec rate 100); [left; assumption|right; lia].
Qed.

(* the invariant is the bound of the property: within one record (100 percent-points) of the rate *)
Lemma drop_ok_bound : forall rate matched dropped, drop_ok rate matched dropped -> rate <> 100%Z ->
  (Z.abs (100 * dropped - rate * matched) <= 100)%Z.
Proof. intros rate matched dropped [->|(Hr & Hd & Hv)] Hn; [congruence|]. unfold dev in Hv. lia. Qed.

End DropProgram.

Lemma drop_sampling_within_one_lemma : forall O m rate label rs k cs out cs',
  (1 <= rate <= 99)%Z ->
  run_records O (TCons (TDrop m rate label 0 0) TNil) cs rs = (out, cs') ->
  length out = length rs /\
  (Z.abs (100 * count_dropped (firstn k out) - rate * count_matched O m (firstn k rs)) <= 100)%Z /\
  (0 <= count_dropped (firstn k out) <= count_matched O m (firstn k rs))%Z.
Proof.
  intros O m rate label rs k cs out cs' Hr H.
  assert (H0 : (0 <= 0 <= 0)%Z) by lia.
  assert (H1 : (-100 < dev rate 0 0 < 100)%Z) by (unfold dev; lia).
  destruct (drop_stream_prefix O m rate label rs k 0%Z 0%Z cs out cs' Hr H0 H1 H) as (Hl & Hb & Hc).
  unfold dev in Hb. rewrite !Z.add_0_l in *. split; [exact Hl|]. split; [lia|exact Hc].
Qed.

(* ---------- a concrete instance (non-vacuity of the hypotheses) ---------- *)
Definition ex_schema : list bytes := [[108;111;103]; [97;117;120]].
Definition ex_items : list item := [ILit [120;61]; IBrace [108;111;103] (Some ([45;51], [45;49])); IVar [97;117;120]].
Definition ex_fields : list bytes := [[53;54;55;56;57]; [33]].

Lemma example_items_ok : items_ok ex_items.
Proof.
  unfold ex_items. cbn.
  assert (Hw : forall n, Forall (fun c => (97 <= c <= 122)%N) n -> Forall word_char n).
  { intros n H. eapply Forall_impl; [|exact H]. intros c Hc. cbv beta in Hc. unfold word_char. lia. }
  repeat split; try discriminate; try exact I.
  - repeat constructor; lia.
  - apply Hw. repeat constructor; lia.
  - apply BT_neg. repeat constructor; unfold digit_byte; lia.
  - apply BT_neg. repeat constructor; unfold digit_byte; lia.
  - apply Hw. repeat constructor; lia.
Qed.

(* "x=${log[-3:-1]}$aux" on log=56789, aux=! gives "x=78!"; "[Foo ] - msg" with pattern \[*\] - gives (Foo, msg);
   a 60 % drop passes, drops, drops, passes, drops, passes, drops, drops, passes, drops (the unit test's sequence) *)
Lemma example_values :
  new_expander ex_schema (render_items ex_items) = Ok [PLit [120;61]; PSlice 0 (-3) (-1); PVar 1] /\
  expand ex_fields [PLit [120;61]; PSlice 0 (-3) (-1); PVar 1] = Ok [120;61;55;56;33] /\
  head_match [91] [93;32;45;32] 100 None [91;70;111;111;32;93;32;45;32;109;115;103] [70;111;111;32] [109;115;103] /\
  extract_at_start [91;70;111;111;32;93;32;45;32;109;115;103] [91] [93;32;45;32] 100 None = Ok ([70;111;111], [109;115;103]) /\
  map is_drop (fst (run_records tiny_oracles (TCons (TDrop [] 60 [108] 0 0) TNil) []
         (repeat {| r_fields := []; r_rawlen := 10; r_unesc := false |} 10))) =
    [false; true; true; false; true; false; true; true; false; true].
Proof.
  split; [vm_compute; reflexivity|]. split; [vm_compute; reflexivity|]. split.
  - apply (HM_bounded [91] [93;32;45;32] 100 None [91;70;111;111;32;93;32;45;32;109;115;103] [70;111;111;32] [109;115;103]); try discriminate; try reflexivity; try exact I.
    + apply index_of_first; [discriminate|]. vm_compute. reflexivity.
    + left. cbn. lia.
  - split; vm_compute; reflexivity.
Qed.

(* ---------- replace / extract: the plumbing around the regexp oracle ---------- *)

Lemma replace_spec_lemma : forall O loc pat repl r, (loc < nfields r)%nat ->
  let r' := run_replace O loc pat repl r in
  (getf r loc = [] -> r' = r) /\
  (getf r loc <> [] -> getf r' loc = o_re_replace O pat repl (getf r loc)) /\
  (forall j, j <> loc -> getf r' j = getf r j) /\ nfields r' = nfields r.
Proof.
  intros O loc pat repl r Hloc. unfold run_replace. fold (getf r loc).
  destruct (getf r loc) as [|c v] eqn:E.
  - repeat split; try reflexivity; intros; congruence.
  - split; [discriminate|]. split; [intros _; apply getf_set_same; assumption|].
    split; [intros j Hj; apply getf_set_other; congruence|apply nfields_set].
Qed.

(* extract: no match -> nothing changes; a named group that took part sets its field to the
   matched substring, an unnamed or absent group is skipped *)
Lemma extractre_spec_lemma : forall O loc pat locs r,
  (o_re_find O pat (getf r loc) = None -> run_extractre O loc pat locs r = Ok r) /\
  (forall idx, o_re_find O pat (getf r loc) = Some idx ->
     run_extractre O loc pat locs r = run_extractre_loop locs idx (getf r loc) r) /\
  (forall locs' idx v r0, run_extractre_loop (None :: locs') idx v r0 = run_extractre_loop locs' (tl idx) v r0) /\
  (forall l locs' a b idx v r0, (a < 0 \/ b < 0)%Z ->
     run_extractre_loop (Some l :: locs') ((a, b) :: idx) v r0 = run_extractre_loop locs' idx v r0) /\
  (forall l locs' a b idx (v : bytes) r0, (0 <= a <= b)%Z -> (b <= Z.of_nat (length v))%Z ->
     run_extractre_loop (Some l :: locs') ((a, b) :: idx) v r0 =
     run_extractre_loop locs' idx v (set_field r0 l (firstn (Z.to_nat (b - a)) (skipn (Z.to_nat a) v)))).
Proof.
  intros O loc pat locs r. unfold run_extractre. fold (getf r loc). split; [intros ->; reflexivity|].
  split; [intros idx ->; reflexivity|]. split; [reflexivity|]. split.
  - intros l locs' a b idx v r0 H. cbn [run_extractre_loop].
    replace ((a <? 0) || (b <? 0))%Z%bool with true by lia. reflexivity.
  - intros l locs' a b idx v r0 H1 H2. cbn [run_extractre_loop].
    replace ((a <? 0) || (b <? 0))%Z%bool with false by lia. unfold go_slice.
    replace ((0 <=? a) && (a <=? b) && (b <=? Z.of_nat (length v)))%Z%bool with true by lia. reflexivity.
Qed.

(* ---------- custom counters: every matched record is counted exactly once ---------- *)

Lemma bytes_cmp_eq : forall a b, bytes_cmp a b = Eq <-> a = b.
Proof.
  induction a as [|x a IH]; intros [|y b]; cbn [bytes_cmp]; split; intro H; try reflexivity; try discriminate.
  - destruct (x ?= y) eqn:E; try discriminate. apply N.compare_eq_iff in E. apply IH in H. subst. reflexivity.
  - inversion H; subst. rewrite N.compare_refl. apply IH. reflexivity.
Qed.

(* what a label has accumulated (count, length) *)
Fixpoint cnt_sum (cs : counters) (label : bytes) : Z * Z :=
  match cs with
  | [] => (0, 0)%Z
  | (l, (c, n)) :: cs' =>
    let (c', n') := cnt_sum cs' label in
    if bytes_eqb l label then (c + c', n + n')%Z else (c', n')
  end.

Lemma cnt_sum_add : forall cs label dc dl q,
  cnt_sum (cnt_add cs label dc dl) q =
  (let (c, n) := cnt_sum cs q in if bytes_eqb label q then (c + dc, n + dl)%Z else (c, n)).
Proof.
  induction cs as [|[l [c n]] cs IH]; intros label dc dl q.
  - cbn [cnt_add cnt_sum]. destruct (bytes_eqb label q); f_equal; lia.
  - cbn [cnt_add]. destruct (bytes_cmp label l) eqn:E.
    + apply bytes_cmp_eq in E. subst l. cbn [cnt_sum]. destruct (cnt_sum cs q) as [c' n'].
      destruct (bytes_eqb label q); [f_equal; lia|reflexivity].
    + cbn [cnt_sum]. destruct (cnt_sum cs q) as [c' n'].
      destruct (bytes_eqb label q); destruct (bytes_eqb l q); f_equal; lia.
    + cbn [cnt_sum]. rewrite IH. destruct (cnt_sum cs q) as [c' n'].
      destruct (bytes_eqb label q); destruct (bytes_eqb l q); f_equal; lia.
Qed.

(* a matched record adds (1, RawLength) to the dropped label or to "!"+label, never to both, and
   to nothing else; which one says whether the record passed *)
Lemma drop_accounting_lemma : forall m rate label matched dropped cs rawlen t' cs' b,
  run_drop_matched m rate label matched dropped cs rawlen = (t', cs', b) ->
  let hit := if b then 33 :: label else label in
  forall q, cnt_sum cs' q =
    (let (c, n) := cnt_sum cs q in if bytes_eqb hit q then (c + 1, n + rawlen)%Z else (c, n)).
Proof.
  intros m rate label matched dropped cs rawlen t' cs' b H hit q. unfold run_drop_matched in H.
  destruct (rate =? 100)%Z; [|destruct ((matched >? 0) && (100 * dropped / matched <? rate))%Z];
    inversion H; subst; unfold hit; apply cnt_sum_add.
Qed.

(* ---------- addFields: any order of non-interfering fields ---------- *)

(* two fields of one addFields do not interfere: different destinations, neither template reads the other's *)
Definition fields_indep (p q : nat * list part) : Prop :=
  p = q \/ (fst p <> fst q /\ tpl_reads (fst p) (snd q) = false /\ tpl_reads (fst q) (snd p) = false).

Definition all_indep (ps : list (nat * list part)) : Prop :=
  forall p q, In p ps -> In q ps -> fields_indep p q.

Lemma all_indep_tail : forall p ps, all_indep (p :: ps) -> all_indep ps.
Proof. intros p ps H a b Ha Hb. apply H; right; assumption. Qed.

Lemma all_indep_perm : forall ps ps', Permutation ps ps' -> all_indep ps -> all_indep ps'.
Proof.
  intros ps ps' Hp H a b Ha Hb. apply H; eapply Permutation_in; try eassumption; apply Permutation_sym; assumption.
Qed.

(* the order of the fields of one addFields is irrelevant when they do not interfere *)
Lemma addfields_perm_lemma : forall ps ps', Permutation ps ps' -> all_indep ps ->
  forall r, run_addfields ps r = run_addfields ps' r.
Proof.
  intros ps ps' Hp. induction Hp as [|x l l' Hp IH|x y l|l l' l'' Hp1 IH1 Hp2 IH2]; intros Hind r.
  - reflexivity.
  - rewrite (addfields_seq_lemma x l), (addfields_seq_lemma x l').
    destruct (run_addfields [x] r); try reflexivity. apply IH. eapply all_indep_tail. eassumption.
  - destruct x as [d1 t1], y as [d2 t2].
    destruct (Hind (d2, t2) (d1, t1) ltac:(left; reflexivity) ltac:(right; left; reflexivity)) as [Heq|(Hd & H1 & H2)].
    + inversion Heq; subst. reflexivity.
    + cbn [fst snd] in *. apply addfields_swap_lemma; assumption.
  - rewrite IH1 by assumption. apply IH2. eapply all_indep_perm; eassumption.
Qed.

Lemma insert_pair_perm : forall p l, Permutation (insert_pair p l) (p :: l).
Proof.
  intros p. induction l as [|q l IH]; cbn [insert_pair]; [apply Permutation_refl|].
  destruct (bytes_cmp (fst p) (fst q)); try apply Permutation_refl.
  eapply Permutation_trans; [apply perm_skip; exact IH|apply perm_swap].
Qed.

(* the order in which the loader visits the fields is a permutation of the configured one *)
Lemma sort_pairs_perm : forall l, Permutation (sort_pairs l) l.
Proof.
  induction l as [|p l IH]; [apply Permutation_refl|]. unfold sort_pairs in *. cbn [fold_right].
  eapply Permutation_trans; [apply insert_pair_perm|apply perm_skip; exact IH].
Qed.
