(* C06 - the metric label values of a pipeline / a metric key set (base.MetricLabelValues, fix b1856f7) as a
   function of the key values: always valid UTF-8, a subsequence of the key value, idempotent; exactly the key
   values when these are valid UTF-8 - hence injective there - and NOT injective on arbitrary byte strings.
   The facts about strings.ToValidUTF8 itself come from Proofs/Utf8Proofs.v (property C09's development). *)
From SV Require Import Model.Common Model.Routing Spec.RoutingSpec Proofs.CommonFacts Proofs.RoutingProofs.
From SV Require Model.Utf8 Spec.Utf8Spec Proofs.Utf8Proofs.
From Coq Require Import Lia.
Open Scope N_scope.

Lemma subseq_refl : forall (A : Type) (l : list A), subseq l l.
Proof. induction l; constructor; assumption. Qed.

(* ToValidUTF8(s, "") only leaves bytes out *)
Lemma to_valid_aux_subseq : forall s skip, subseq (Utf8.to_valid_aux s skip) s.
Proof.
  induction s as [|b s IH]; intros skip; [constructor|].
  destruct skip as [|k]; cbn [Utf8.to_valid_aux].
  - destruct (Utf8.rune_width (b :: s)); [apply subseq_drop|apply subseq_keep]; apply IH.
  - apply subseq_keep. apply IH.
Qed.

Lemma label_value_spec : forall s,
  Utf8Spec.valid_utf8 (Utf8.to_valid_utf8 s) /\ subseq (Utf8.to_valid_utf8 s) s /\
  Utf8.to_valid_utf8 (Utf8.to_valid_utf8 s) = Utf8.to_valid_utf8 s.
Proof.
  intros s. split; [apply Utf8Proofs.to_valid_utf8_valid_lemma|]. split; [apply to_valid_aux_subseq|].
  apply Utf8Proofs.to_valid_id. apply Utf8Proofs.to_valid_utf8_valid_lemma.
Qed.

Lemma labels_exact_valid : forall ks, Forall Utf8Spec.valid_utf8 ks -> metric_label_values ks = ks.
Proof.
  intros ks H. unfold metric_label_values. induction H as [|k ks Hk _ IH]; [reflexivity|].
  cbn [map]. rewrite IH, (Utf8Proofs.to_valid_id _ Hk). reflexivity.
Qed.

(* the positive counterpart of the collision witness: on valid UTF-8 tuples the labels identify the tuple *)
Lemma labels_injective_valid : forall ks ks',
  Forall Utf8Spec.valid_utf8 ks -> Forall Utf8Spec.valid_utf8 ks' ->
  metric_label_values ks = metric_label_values ks' -> ks = ks'.
Proof. intros ks ks' H H' E. rewrite !labels_exact_valid in E by assumption. exact E. Qed.

(* in general only: equal labels iff the tuples are equal after the invalid bytes have been removed *)
Lemma labels_values_shape : forall ks,
  length (metric_label_values ks) = length ks /\
  Forall Utf8Spec.valid_utf8 (metric_label_values ks) /\
  Forall2 (fun l k => subseq l k) (metric_label_values ks) ks /\
  metric_label_values (metric_label_values ks) = metric_label_values ks.
Proof.
  intros ks. unfold metric_label_values. split; [apply map_length|]. split; [|split].
  - induction ks; cbn [map]; constructor; [apply Utf8Proofs.to_valid_utf8_valid_lemma|assumption].
  - induction ks; cbn [map]; constructor; [apply to_valid_aux_subseq|assumption].
  - rewrite map_map. apply map_ext. intros s. apply (label_value_spec s).
Qed.

(* ---------- routing level ---------- *)

(* a record whose key values are valid UTF-8 is served by a pipeline whose labels are exactly its key values *)
Lemma labels_exact_for_valid_lemma :
  forall parts n ids nsinks ops g0 g lms is,
    orch_init parts n ids = Ok g0 ->
    run_ops parts g0 (repeat [] nsinks) ops = Ok (g, lms, is) ->
    Forall2 (fun o i => Forall Utf8Spec.valid_utf8 (snd o) ->
                        exists p, nth_error (g_pipes g) i = Some p /\ p_labels p = snd o) ops is.
Proof.
  intros parts n ids nsinks ops g0 g lms is Hinit Hrun.
  eapply Forall2_weaken; [|exact (routing_own_keys_lemma _ _ _ _ _ _ _ _ _ Hinit Hrun)].
  intros o i [p [Hn [_ [_ [_ Hl]]]]] Hv. exists p. split; [exact Hn|]. rewrite Hl. apply labels_exact_valid. exact Hv.
Qed.

Lemma metric_labels_exact_for_valid_lemma : forall recs m is,
  metric_run m_init recs = (m, is) ->
  Forall2 (fun ks i => Forall Utf8Spec.valid_utf8 ks -> nth_error (m_labels m) i = Some ks) recs is.
Proof.
  intros recs m is H. destruct (metric_own_keys_lemma _ _ _ H) as [Hall _].
  eapply Forall2_weaken; [|exact Hall]. intros ks i [_ Hl] Hv. rewrite Hl, labels_exact_valid by exact Hv. reflexivity.
Qed.

(* ---------- the limit: labels do not identify the pipeline ---------- *)

(* template "$k0", records (0xFF) and (0xFE): two pipelines with different ids and tags whose label values coincide
   (both empty) - and, for the metric key sets, two counter sets with the same label values *)
Definition collide_parts : list tpart := [TVar 0].
Definition collide_ops : list op := [(O, [[255]]); (O, [[254]])].

Lemma labels_collide_witness :
  (exists ks ks' : list bytes, length ks = length ks' /\ ks <> ks' /\
     metric_label_values ks = metric_label_values ks') /\
  (exists g lms p q,
     run_ops collide_parts g_init [[]] collide_ops = Ok (g, lms, [0; 1]%nat) /\
     g_pipes g = [p; q] /\ p_keys p <> p_keys q /\ p_id p <> p_id q /\ p_tag p <> p_tag q /\
     p_labels p = p_labels q) /\
  (exists m, metric_run m_init [[[255]]; [[254]]] = (m, [0; 1]%nat) /\
     nth_error (m_labels m) 0 = nth_error (m_labels m) 1).
Proof.
  split; [|split].
  - exists [[255]], [[254]]. split; [reflexivity|]. split; [discriminate|vm_compute; reflexivity].
  - eexists. eexists. eexists. eexists. split; [vm_compute; reflexivity|]. split; [reflexivity|].
    cbn [p_keys p_id p_tag p_labels]. repeat split; try discriminate. 
  - eexists. split; [vm_compute; reflexivity|]. reflexivity.
Qed.

(* the valid encoding of U+FFFD itself (EF BF BD) is kept: only ill-formed bytes are removed *)
Lemma label_keeps_replacement_char : Utf8.to_valid_utf8 [97; 239; 191; 189; 255; 98] = [97; 239; 191; 189; 98].
Proof. vm_compute. reflexivity. Qed.
