(* C12: lemmas and proofs about Model/Memory.v *)
From SV Require Import Model.Common Model.Memory.
From Coq Require Import Lia ZifyBool ZifyN ZifyNat.
Ltac Zify.zify_post_hook ::= Z.div_mod_to_equations.
Open Scope N_scope.

(* ================================================================== *)
(* 1. pool classes                                                      *)
(* ================================================================== *)

Lemma mem_bitlen32_small : forall n, n < mem_two32 -> mem_bitlen32 n = N.size n.
Proof. intros n H. unfold mem_bitlen32. rewrite N.mod_small by exact H. reflexivity. Qed.

Lemma mem_size_pos_bounds : forall n, n <> 0 -> 2 ^ (N.size n - 1) <= n /\ n < 2 ^ N.size n.
Proof.
  intros n Hn. rewrite N.size_log2 by exact Hn.
  replace (N.succ (N.log2 n) - 1) with (N.log2 n) by lia.
  destruct (N.log2_spec n) as [H1 H2]; [lia|]. split; assumption.
Qed.

Lemma mem_size_le_31 : forall n, n < 2 ^ 31 -> N.size n <= 31.
Proof.
  intros n H. destruct (N.eq_dec n 0) as [->|Hn]; [cbn; lia|].
  rewrite N.size_log2 by exact Hn.
  assert (N.log2 n < 31) by (apply N.log2_lt_pow2; lia). lia.
Qed.

(* Get(n) for every n below 2^31: class c <= 31, the buffer (2^c bytes) is strictly larger than n and at
   most twice n *)
Lemma mem_get_class_sound : forall n, n < 2 ^ 31 ->
  exists c, mem_get_class n = Ok c /\ c <= 31 /\ n < mem_class_size c /\ (n <> 0 -> mem_class_size c <= 2 * n).
Proof.
  intros n H. exists (N.size n).
  assert (Hs : N.size n <= 31) by (apply mem_size_le_31; exact H).
  assert (H32 : n < mem_two32) by (unfold mem_two32; change (2^31) with 2147483648 in H; lia).
  unfold mem_get_class. rewrite mem_bitlen32_small by exact H32.
  replace (N.size n <? 32) with true by lia.
  split; [reflexivity|]. split; [exact Hs|]. unfold mem_class_size. split.
  - apply N.size_gt.
  - intros Hn. pose proof (N.size_le n) as Hle.
    rewrite N.succ_double_spec in Hle.
    assert (Hpos : 1 <= N.size n) by (rewrite N.size_log2 by exact Hn; lia).
    replace (N.size n) with (N.succ (N.size n - 1)) in * by lia.
    rewrite N.pow_succ_r' in *. lia.
Qed.

(* Put of a buffer created for class c returns it to class c *)
Lemma mem_put_class_pow2 : forall c, c <= 31 -> mem_put_class (mem_class_size c) = Ok c.
Proof.
  intros c Hc. unfold mem_put_class, mem_class_size.
  assert (Hlt : 2 ^ c < mem_two32).
  { unfold mem_two32. change 4294967296 with (2 ^ 32). apply N.pow_lt_mono_r; lia. }
  rewrite mem_bitlen32_small by exact Hlt.
  assert (Hnz : 2 ^ c <> 0) by (apply N.pow_nonzero; lia).
  rewrite N.size_log2 by exact Hnz. rewrite N.log2_pow2 by lia.
  replace (N.succ c =? 0) with false by lia. f_equal. lia.
Qed.

Lemma mem_get_put_roundtrip : forall n c, n < 2 ^ 31 -> mem_get_class n = Ok c ->
  mem_put_class (mem_class_size c) = Ok c.
Proof.
  intros n c H Hg. destruct (mem_get_class_sound n H) as (c' & Hg' & Hc & _).
  rewrite Hg in Hg'. inversion Hg'; subst. apply mem_put_class_pow2. exact Hc.
Qed.

(* a buffer of any length 1 <= L < 2^32 is filed under a class whose requests all fit into it *)
Lemma mem_put_class_fits : forall l k, 1 <= l -> l < mem_two32 -> mem_put_class l = Ok k ->
  mem_class_size k <= l /\ forall n c, mem_get_class n = Ok c -> n < mem_two32 -> c = k -> n < l.
Proof.
  intros l k H1 H2 Hp. unfold mem_put_class in Hp. rewrite mem_bitlen32_small in Hp by exact H2.
  assert (Hl : l <> 0) by lia.
  destruct (N.size l =? 0) eqn:E; [discriminate|]. inversion Hp; subst k; clear Hp.
  destruct (mem_size_pos_bounds l Hl) as [Hlo Hhi].
  split; [exact Hlo|].
  intros n c Hg Hn Hc. unfold mem_get_class in Hg. rewrite mem_bitlen32_small in Hg by exact Hn.
  destruct (N.size n <? 32); [|discriminate]. inversion Hg as [Hsz]; clear Hg.
  pose proof (N.size_gt n) as Hgt. rewrite Hsz, Hc in Hgt. unfold mem_class_size in Hlo. lia.
Qed.

(* beyond the stated maximum: 2^31 <= n < 2^32 is an index out of range, and the uint32 conversion wraps above *)
Lemma mem_get_class_limit : forall n, 2 ^ 31 <= n -> n < mem_two32 -> mem_get_class n = Panic 1.
Proof.
  intros n H1 H2. unfold mem_get_class. rewrite mem_bitlen32_small by exact H2.
  assert (Hn : n <> 0) by (change (2^31) with 2147483648 in H1; lia).
  assert (32 <= N.size n).
  { rewrite N.size_log2 by exact Hn. assert (31 <= N.log2 n) by (apply N.log2_le_pow2; lia). lia. }
  replace (N.size n <? 32) with false by lia. reflexivity.
Qed.

Lemma mem_get_class_wraps : mem_get_class (mem_two32 + 5) = Ok 3.
Proof. reflexivity. Qed.

(* ================================================================== *)
(* 2. local operations: shapes are preserved                            *)
(* ================================================================== *)
Open Scope nat_scope.

Lemma mem_list_set_length : forall {A} (l : list A) i x, length (mem_list_set l i x) = length l.
Proof. induction l as [|y l IH]; intros [|i] x; cbn; auto. Qed.

Lemma mem_list_set_nth_eq : forall {A} (l : list A) i x, i < length l -> nth_error (mem_list_set l i x) i = Some x.
Proof. induction l as [|y l IH]; intros [|i] x H; cbn in *; try lia; auto. apply IH. lia. Qed.

Lemma mem_list_set_nth_neq : forall {A} (l : list A) i j x, i <> j -> nth_error (mem_list_set l i x) j = nth_error l j.
Proof. induction l as [|y l IH]; intros [|i] [|j] x H; cbn in *; try congruence; auto. Qed.

Lemma mem_list_set_nth_default_neq : forall {A} (l : list A) i j x d, i <> j -> nth j (mem_list_set l i x) d = nth j l d.
Proof. induction l as [|y l IH]; intros [|i] [|j] x d H; cbn in *; try congruence; auto. Qed.

Lemma mem_list_set_nth_default_eq : forall {A} (l : list A) i x d, i < length l -> nth i (mem_list_set l i x) d = x.
Proof. induction l as [|y l IH]; intros [|i] x d H; cbn in *; try lia; auto. apply IH. lia. Qed.

Lemma mem_splice_length : forall old pos data, length (mem_splice old pos data) = length old.
Proof.
  intros. unfold mem_splice. rewrite !app_length, !firstn_length, skipn_length. lia.
Qed.

Definition mem_same_shape (m m' : mem_lmem) : Prop := length (m_own m') = length (m_own m).

Lemma mem_write_shape : forall m p pos data m', mem_write m p pos data = ROk m' -> mem_same_shape m m'.
Proof.
  intros m p pos data m' H. unfold mem_write in H. destruct data as [|d data]; [inversion H; reflexivity|].
  destruct p; inversion H; subst; unfold mem_same_shape; cbn; try reflexivity. apply mem_splice_length.
Qed.

Lemma mem_overwrite_shape : forall m p off len start tail m' n,
  mem_overwrite_n_truncate m p off len start tail = ROk (m', n) -> mem_same_shape m m'.
Proof.
  intros m p off len start tail m' n H. unfold mem_overwrite_n_truncate in H.
  destruct (Nat.ltb len start); [discriminate|].
  destruct (mem_write m p (off + start) (firstn (Nat.min (len - start) (length tail)) tail)) as [m1| |s] eqn:E; cbn in H; try discriminate.
  inversion H; subst. eapply mem_write_shape; eauto.
Qed.

Lemma mem_clean_shape : forall m p off len m' n, mem_clean_utf8 m p off len = ROk (m', n) -> mem_same_shape m m'.
Proof.
  intros m p off len m' n H. unfold mem_clean_utf8 in H. destruct len; [inversion H; reflexivity|].
  eapply mem_overwrite_shape; eauto.
Qed.

Lemma mem_set_field_length : forall r i v, length (lr_fields (mem_set_field r i v)) = length (lr_fields r).
Proof. intros. unfold mem_set_field. cbn. apply mem_list_set_length. Qed.

Lemma mem_parse_rest_length : forall own count r idx off len r' off' len',
  mem_parse_rest own r idx count off len = Some (r', off', len') -> length (lr_fields r') = length (lr_fields r).
Proof.
  induction count as [|c IH]; intros r idx off len r' off' len' H; cbn in H.
  - inversion H; reflexivity.
  - destruct (mem_next_field own off len) as [e|]; [|discriminate].
    apply IH in H. rewrite H. apply mem_set_field_length.
Qed.

Lemma mem_parse_head_length : forall ls m r,
  match mem_parse_head ls m r with
  | HdBad r' => length (lr_fields r') = length (lr_fields r)
  | HdPanic _ => True
  | HdOk r' _ _ => length (lr_fields r') = length (lr_fields r)
  end.
Proof.
  intros ls m r. unfold mem_parse_head.
  destruct (Nat.ltb (length (m_own m)) 32); [reflexivity|].
  destruct (negb (mem_first_is 60 (m_own m))); [reflexivity|].
  destruct (mem_next_field (m_own m) 0 (length (m_own m))) as [e|]; [|reflexivity].
  destruct (Nat.ltb e 2); [reflexivity|].
  destruct (negb _); [reflexivity|].
  destruct (mem_atoi _) as [pri|]; [|reflexivity].
  destruct (_ || _)%bool; [reflexivity|].
  destruct (mem_parse_rest _ _ _ _ _ _) as [[[r3 off] len]|] eqn:E.
  - erewrite mem_parse_rest_length by eauto. rewrite !mem_set_field_length. reflexivity.
  - rewrite !mem_set_field_length. reflexivity.
Qed.

Lemma mem_parse_msg_shape : forall pa m r off len m' r' ov,
  mem_parse_msg pa m r off len = ROk (m', r', ov) ->
  mem_same_shape m m' /\ length (lr_fields r') = length (lr_fields r).
Proof.
  intros pa m r off len m' r' ov H. unfold mem_parse_msg in H.
  match type of H with mem_rbind ?c _ = _ => destruct c as [[m1 l1]| |s] eqn:E end; cbn in H; try discriminate.
  inversion H; subst; clear H. cbn. rewrite mem_list_set_length. split; [|reflexivity].
  destruct ((p_max_msg pa <? N.of_nat len)%N || (p_max_rec pa <=? N.of_nat (length (m_own m)))%N)%bool.
  - eapply mem_clean_shape; eauto.
  - inversion E; subst. reflexivity.
Qed.

Lemma mem_parse_shape : forall pa ls m r m' r' st ov,
  mem_parse pa ls m r = ROk (m', r', st, ov) ->
  mem_same_shape m m' /\ length (lr_fields r') = length (lr_fields r).
Proof.
  intros pa ls m r m' r' st ov H. unfold mem_parse in H.
  pose proof (mem_parse_head_length ls m r) as Hh.
  destruct (mem_parse_head ls m r) as [rb|s|r3 off len]; try discriminate.
  - inversion H; subst. split; [reflexivity|exact Hh].
  - destruct (mem_parse_msg pa m r3 off len) as [[[m1 r1] o1]| |s] eqn:E; cbn in H; try discriminate.
    inversion H; subst. apply mem_parse_msg_shape in E. destruct E as [E1 E2]. split; [exact E1|congruence].
Qed.

Lemma mem_same_shape_trans : forall a b c, mem_same_shape a b -> mem_same_shape b c -> mem_same_shape a c.
Proof. unfold mem_same_shape. intros. congruence. Qed.

Lemma mem_alloc_shape : forall m data m' v, mem_alloc m data = (m', v) -> mem_same_shape m m'.
Proof. intros m data m' v H. unfold mem_alloc in H. inversion H; subst. reflexivity. Qed.

Lemma mem_delfields_length : forall keys r,
  length (lr_fields (fold_left (fun acc k => mem_set_field acc k EEmpty) keys r)) = length (lr_fields r).
Proof. induction keys as [|k ks IH]; intros r; cbn; [reflexivity|]. rewrite IH. apply mem_set_field_length. Qed.

Ltac mem_len := cbn; rewrite ?mem_set_field_length, ?mem_list_set_length; try reflexivity.

Lemma mem_run_stx_shape : forall mode m r t m' r',
  mem_run_stx mode m r t = ROk (m', r') ->
  mem_same_shape m m' /\ length (lr_fields r') = length (lr_fields r).
Proof.
  intros mode m r t m' r' H. destruct t; cbn [mem_run_stx] in H.
  - inversion H; subst. split; [reflexivity|]. destruct (Nat.ltb _ _); mem_len.
  - inversion H; subst. split; [reflexivity|]. destruct (Nat.ltb _ _); mem_len.
  - destruct (concat _) as [|d data] eqn:E; [inversion H; subst; split; reflexivity|].
    destruct (mem_alloc m (d :: data)) as [m1 v] eqn:Ea. inversion H; subst.
    split; [eapply mem_alloc_shape; eauto|mem_len].
  - destruct (Nat.eqb _ 0); inversion H; subst; (split; [reflexivity|mem_len]).
  - destruct (mem_get_field r key) as [|p off len] eqn:Ef; [inversion H; subst; split; reflexivity|].
    destruct (Nat.ltb (maxlen + length suffix) len); [|inversion H; subst; split; reflexivity].
    destruct mode.
    + destruct (mem_clean_utf8 m p off maxlen) as [[m1 tl]| |s] eqn:E1; cbn in H; try discriminate.
      destruct (mem_overwrite_n_truncate m1 p off len tl suffix) as [[m2 nl]| |s] eqn:E2; cbn in H; try discriminate.
      inversion H; subst. split; [|mem_len].
      eapply mem_same_shape_trans; [eapply mem_clean_shape|eapply mem_overwrite_shape]; eauto.
    + destruct (mem_alloc m _) as [m1 v] eqn:Ea.
      destruct v as [|q qoff qlen]; [inversion H; subst; split; [eapply mem_alloc_shape; eauto|reflexivity]|].
      destruct (mem_clean_utf8 m1 q qoff maxlen) as [[m2 tl]| |s] eqn:E1; cbn in H; try discriminate.
      inversion H; subst. split; [|mem_len].
      unfold mem_same_shape; cbn.
      apply mem_alloc_shape in Ea. apply mem_clean_shape in E1. unfold mem_same_shape in *. congruence.
  - destruct (lr_unesc r); [inversion H; subst; split; reflexivity|].
    destruct (mem_index_byte 92 _); [|inversion H; subst; split; reflexivity].
    destruct (mem_alloc m _) as [m1 v] eqn:Ea. inversion H; subst.
    split; [eapply mem_alloc_shape; eauto|mem_len].
  - inversion H; subst. split; [reflexivity|apply mem_delfields_length].
Qed.

Lemma mem_run_stxs_shape : forall mode ts m r m' r',
  mem_run_stxs mode m r ts = ROk (m', r') ->
  mem_same_shape m m' /\ length (lr_fields r') = length (lr_fields r).
Proof.
  induction ts as [|t ts IH]; intros m r m' r' H; cbn in H.
  - inversion H; subst. split; reflexivity.
  - destruct (mem_run_stx mode m r t) as [[m1 r1]| |s] eqn:E; cbn in H; try discriminate.
    apply mem_run_stx_shape in E. apply IH in H. destruct E, H. split; [eapply mem_same_shape_trans; eauto|congruence].
Qed.

Lemma mem_run_txs_shape : forall mode ts m r m' r' b,
  mem_run_txs mode m r ts = ROk (m', r', b) ->
  mem_same_shape m m' /\ length (lr_fields r') = length (lr_fields r).
Proof.
  induction ts as [|t ts IH]; intros m r m' r' b H; cbn in H.
  - inversion H; subst. split; reflexivity.
  - destruct t as [t|conds body|conds].
    + destruct (mem_run_stx mode m r t) as [[m1 r1]| |s] eqn:E; cbn in H; try discriminate.
      apply mem_run_stx_shape in E. apply IH in H. destruct E, H. split; [eapply mem_same_shape_trans; eauto|congruence].
    + destruct (forallb _ conds).
      * destruct (mem_run_stxs mode m r body) as [[m1 r1]| |s] eqn:E; cbn in H; try discriminate.
        apply mem_run_stxs_shape in E. apply IH in H. destruct E, H. split; [eapply mem_same_shape_trans; eauto|congruence].
      * eapply IH; eauto.
    + destruct (forallb _ conds).
      * inversion H; subst. split; reflexivity.
      * eapply IH; eauto.
Qed.

(* the serializer does not touch the fields *)
Lemma mem_rewrite_value_fields : forall f m r w v b r', mem_rewrite_value f m r w v = (b, r') -> lr_fields r' = lr_fields r.
Proof.
  intros f m r w v b r' H. unfold mem_rewrite_value in H.
  destruct (rw_unescape w); [destruct (lr_unesc r); [|destruct f]|]; inversion H; subst; reflexivity.
Qed.

Lemma mem_ser_fields_fields : forall f oc m fs r i l r', mem_ser_fields f oc m r i fs = (l, r') -> lr_fields r' = lr_fields r.
Proof.
  induction fs as [|v fs IH]; intros r i l r' H; cbn in H.
  - inversion H; reflexivity.
  - destruct (_ || _ || _)%bool; [eapply IH; eauto|].
    destruct (match mem_find_rw (oc_rewrite oc) i with Some w => mem_rewrite_value f m r w v | None => (mem_read m v, r) end) as [b r1] eqn:E1.
    destruct (mem_ser_fields f oc m r1 (S i) fs) as [rest r2] eqn:E2. inversion H; subst.
    apply IH in E2. rewrite E2.
    destruct (mem_find_rw (oc_rewrite oc) i); [eapply mem_rewrite_value_fields; eauto|inversion E1; reflexivity].
Qed.

Lemma mem_serialize_fields : forall f n oc m r d r', mem_serialize f n oc m r = (d, r') -> lr_fields r' = lr_fields r.
Proof.
  intros f n oc m r d r' H. unfold mem_serialize in H.
  destruct (mem_ser_fields f oc m r 0 (firstn n (lr_fields r))) as [vis r1] eqn:E. inversion H; subst.
  eapply mem_ser_fields_fields; eauto.
Qed.

(* ================================================================== *)
(* 3. the parser does not read the Unescaped flag it finds in the struct *)
(* ================================================================== *)

Definition mem_with_unesc (r : mem_lrec) (u : bool) : mem_lrec :=
  {| lr_fields := lr_fields r; lr_rawlen := lr_rawlen r; lr_ts := lr_ts r; lr_unesc := u |}.

Lemma mem_set_field_unesc : forall r u i v, mem_set_field (mem_with_unesc r u) i v = mem_with_unesc (mem_set_field r i v) u.
Proof. reflexivity. Qed.

Lemma mem_parse_rest_unesc : forall own u count r idx off len,
  mem_parse_rest own (mem_with_unesc r u) idx count off len =
  match mem_parse_rest own r idx count off len with
  | Some (r', o, l) => Some (mem_with_unesc r' u, o, l)
  | None => None
  end.
Proof.
  induction count as [|c IH]; intros r idx off len; cbn; [reflexivity|].
  destruct (mem_next_field own off len) as [e|]; [|reflexivity].
  rewrite mem_set_field_unesc. apply IH.
Qed.

Lemma mem_parse_head_unesc : forall ls m r u,
  mem_parse_head ls m (mem_with_unesc r u) =
  match mem_parse_head ls m r with
  | HdBad r' => HdBad (mem_with_unesc r' u)
  | HdPanic s => HdPanic s
  | HdOk r' o l => HdOk (mem_with_unesc r' u) o l
  end.
Proof.
  intros ls m r u. unfold mem_parse_head.
  destruct (Nat.ltb (length (m_own m)) 32); [reflexivity|].
  destruct (negb (mem_first_is 60 (m_own m))); [reflexivity|].
  destruct (mem_next_field (m_own m) 0 (length (m_own m))) as [e|]; [|reflexivity].
  destruct (Nat.ltb e 2); [reflexivity|].
  destruct (negb _); [reflexivity|].
  destruct (mem_atoi _) as [pri|]; [|reflexivity].
  destruct (_ || _)%bool; [reflexivity|].
  rewrite !mem_set_field_unesc, mem_parse_rest_unesc.
  destruct (mem_parse_rest _ _ _ _ _ _) as [[[r3 off] len]|]; reflexivity.
Qed.

Lemma mem_parse_msg_unesc : forall pa m r u off len, mem_parse_msg pa m (mem_with_unesc r u) off len = mem_parse_msg pa m r off len.
Proof. reflexivity. Qed.

Lemma mem_parse_unesc : forall pa ls m r u,
  mem_parse pa ls m (mem_with_unesc r u) =
  match mem_parse pa ls m r with
  | ROk (m', r', PsMalformed, ov) => ROk (m', mem_with_unesc r' u, PsMalformed, ov)
  | x => x
  end.
Proof.
  intros pa ls m r u. unfold mem_parse. rewrite mem_parse_head_unesc.
  destruct (mem_parse_head ls m r) as [rb|s|r3 off len]; try reflexivity.
  rewrite mem_parse_msg_unesc.
  destruct (mem_parse_msg pa m r3 off len) as [[[m1 r1] o1]| |s]; reflexivity.
Qed.

(* ================================================================== *)
(* 4. who writes shared configuration memory                            *)
(* ================================================================== *)

Definition mem_keeps_cfg (m m' : mem_lmem) : Prop := m_cfg m' = m_cfg m /\ m_dirty m' = m_dirty m.

Lemma mem_keeps_cfg_refl : forall m, mem_keeps_cfg m m.
Proof. split; reflexivity. Qed.

Lemma mem_keeps_cfg_trans : forall a b c, mem_keeps_cfg a b -> mem_keeps_cfg b c -> mem_keeps_cfg a c.
Proof. unfold mem_keeps_cfg. intros a b c [] []. split; congruence. Qed.

Definition mem_private (p : mem_eprov) : bool := match p with EOwn | EFresh _ => true | _ => false end.

Lemma mem_write_private : forall m p pos data m', mem_private p = true -> mem_write m p pos data = ROk m' -> mem_keeps_cfg m m'.
Proof.
  intros m p pos data m' Hp H. unfold mem_write in H. destruct data; [inversion H; apply mem_keeps_cfg_refl|].
  destruct p; try discriminate; inversion H; subst; split; reflexivity.
Qed.

Lemma mem_overwrite_private : forall m p off len start tail m' n, mem_private p = true ->
  mem_overwrite_n_truncate m p off len start tail = ROk (m', n) -> mem_keeps_cfg m m'.
Proof.
  intros m p off len start tail m' n Hp H. unfold mem_overwrite_n_truncate in H.
  destruct (Nat.ltb len start); [discriminate|].
  destruct (mem_write m p (off + start) _) as [m1| |s] eqn:E; cbn in H; try discriminate.
  inversion H; subst. eapply mem_write_private; eauto.
Qed.

Lemma mem_clean_private : forall m p off len m' n, mem_private p = true ->
  mem_clean_utf8 m p off len = ROk (m', n) -> mem_keeps_cfg m m'.
Proof.
  intros m p off len m' n Hp H. unfold mem_clean_utf8 in H. destruct len; [inversion H; apply mem_keeps_cfg_refl|].
  eapply mem_overwrite_private; eauto.
Qed.

Lemma mem_alloc_keeps : forall m data m' v, mem_alloc m data = (m', v) -> mem_keeps_cfg m m'.
Proof. intros m data m' v H. unfold mem_alloc in H. inversion H; subst. split; reflexivity. Qed.

(* the parser's in-place CleanUTF8 only ever touches the record's own bytes *)
Lemma mem_parse_keeps_cfg : forall pa ls m r m' r' st ov, mem_parse pa ls m r = ROk (m', r', st, ov) -> mem_keeps_cfg m m'.
Proof.
  intros pa ls m r m' r' st ov H. unfold mem_parse in H.
  destruct (mem_parse_head ls m r) as [rb|s|r3 off len]; try discriminate.
  - inversion H; subst. apply mem_keeps_cfg_refl.
  - destruct (mem_parse_msg pa m r3 off len) as [[[m1 r1] o1]| |s] eqn:E; cbn in H; try discriminate.
    inversion H; subst. unfold mem_parse_msg in E.
    match type of E with mem_rbind ?c _ = _ => destruct c as [[m2 l2]| |s] eqn:E2 end; cbn in E; try discriminate.
    inversion E; subst.
    destruct ((p_max_msg pa <? N.of_nat len)%N || (p_max_rec pa <=? N.of_nat (length (m_own m)))%N)%bool.
    + eapply mem_clean_private; [|exact E2]. reflexivity.
    + inversion E2; subst. apply mem_keeps_cfg_refl.
Qed.

(* after the repair of defect 19 (truncate copies) no transform writes outside the record's own allocations *)
Lemma mem_run_stx_copy_keeps : forall m r t m' r', mem_run_stx TruncCopy m r t = ROk (m', r') -> mem_keeps_cfg m m'.
Proof.
  intros m r t m' r' H. destruct t; cbn [mem_run_stx] in H.
  - inversion H; subst. apply mem_keeps_cfg_refl.
  - inversion H; subst. apply mem_keeps_cfg_refl.
  - destruct (concat _) as [|d data]; [inversion H; subst; apply mem_keeps_cfg_refl|].
    destruct (mem_alloc m (d :: data)) as [m1 v] eqn:Ea. inversion H; subst. eapply mem_alloc_keeps; eauto.
  - destruct (Nat.eqb _ 0); inversion H; subst; apply mem_keeps_cfg_refl.
  - destruct (mem_get_field r key) as [|p off len]; [inversion H; subst; apply mem_keeps_cfg_refl|].
    destruct (Nat.ltb (maxlen + length suffix) len); [|inversion H; subst; apply mem_keeps_cfg_refl].
    destruct (mem_alloc m _) as [m1 v] eqn:Ea.
    assert (Hv : match v with EStr q _ _ => mem_private q = true | EEmpty => True end).
    { unfold mem_alloc in Ea. inversion Ea; subst. reflexivity. }
    destruct v as [|q qoff qlen]; [inversion H; subst; eapply mem_alloc_keeps; eauto|].
    destruct (mem_clean_utf8 m1 q qoff maxlen) as [[m2 tl]| |s] eqn:E1; cbn in H; try discriminate.
    inversion H; subst.
    apply mem_alloc_keeps in Ea. apply mem_clean_private in E1; [|exact Hv].
    destruct Ea, E1. split; cbn; congruence.
  - destruct (lr_unesc r); [inversion H; subst; apply mem_keeps_cfg_refl|].
    destruct (mem_index_byte 92 _); [|inversion H; subst; apply mem_keeps_cfg_refl].
    destruct (mem_alloc m _) as [m1 v] eqn:Ea. inversion H; subst. eapply mem_alloc_keeps; eauto.
  - inversion H; subst. apply mem_keeps_cfg_refl.
Qed.

Lemma mem_run_stxs_copy_keeps : forall ts m r m' r', mem_run_stxs TruncCopy m r ts = ROk (m', r') -> mem_keeps_cfg m m'.
Proof.
  induction ts as [|t ts IH]; intros m r m' r' H; cbn in H.
  - inversion H; subst. apply mem_keeps_cfg_refl.
  - destruct (mem_run_stx TruncCopy m r t) as [[m1 r1]| |s] eqn:E; cbn in H; try discriminate.
    eapply mem_keeps_cfg_trans; [eapply mem_run_stx_copy_keeps; eauto|eapply IH; eauto].
Qed.

Lemma mem_run_txs_copy_keeps : forall ts m r m' r' b, mem_run_txs TruncCopy m r ts = ROk (m', r', b) -> mem_keeps_cfg m m'.
Proof.
  induction ts as [|t ts IH]; intros m r m' r' b H; cbn in H.
  - inversion H; subst. apply mem_keeps_cfg_refl.
  - destruct t as [t|conds body|conds].
    + destruct (mem_run_stx TruncCopy m r t) as [[m1 r1]| |s] eqn:E; cbn in H; try discriminate.
      eapply mem_keeps_cfg_trans; [eapply mem_run_stx_copy_keeps; eauto|eapply IH; eauto].
    + destruct (forallb _ conds).
      * destruct (mem_run_stxs TruncCopy m r body) as [[m1 r1]| |s] eqn:E; cbn in H; try discriminate.
        eapply mem_keeps_cfg_trans; [eapply mem_run_stxs_copy_keeps; eauto|eapply IH; eauto].
      * eapply IH; eauto.
    + destruct (forallb _ conds); [inversion H; subst; apply mem_keeps_cfg_refl|eapply IH; eauto].
Qed.

(* ================================================================== *)
(* 5. the record alone, as a composition of the local functions         *)
(* ================================================================== *)

Definition mem_spec_m0 (c : mem_config) (input : bytes) : mem_lmem :=
  {| m_own := input; m_fresh := []; m_cfg := c_cfg_init c; m_dirty := false |}.
Definition mem_spec_r0 (c : mem_config) (input : bytes) (ts : Z) (u : bool) : mem_lrec :=
  {| lr_fields := repeat EEmpty (c_maxfields c); lr_rawlen := Z.of_nat (length input); lr_ts := ts; lr_unesc := u |}.

Inductive mem_stage :=
| SgStop (s : mem_stop)
| SgGone (st : mem_status) (m : mem_lmem) (r : mem_lrec)
| SgLive (m : mem_lmem) (r : mem_lrec).

Definition mem_after_txs (c : mem_config) (m : mem_lmem) (r : mem_lrec) (ts : list mem_tx) : mem_stage :=
  match mem_run_txs (c_trunc_mode c) m r ts with
  | ROk (m2, r2, true) => SgLive m2 r2
  | ROk (m2, r2, false) => SgGone StDropped m2 r2
  | bad => SgStop (mem_lres_stop bad)
  end.

Definition mem_spec_parsed (c : mem_config) (input : bytes) (ts : Z) (u : bool) : mem_stage :=
  match mem_parse (c_params c) (c_level_sites c) (mem_spec_m0 c input) (mem_spec_r0 c input ts u) with
  | ROk (m1, r1, PsMalformed, _) => SgGone StMalformed m1 r1
  | ROk (m1, r1, PsOk, _) => mem_after_txs c m1 r1 (c_extract c)
  | bad => SgStop (mem_lres_stop bad)
  end.

Definition mem_spec_transformed (c : mem_config) (input : bytes) (ts : Z) : mem_stage :=
  match mem_spec_parsed c input ts false with
  | SgLive m r => mem_after_txs c m r (c_transforms c)
  | x => x
  end.

(* the struct after the first k outputs have been serialized (memory is not written by the serializer) *)
Fixpoint mem_ser_upto (c : mem_config) (m : mem_lmem) (r : mem_lrec) (outs : list mem_outcfg) (k : nat) {struct k} : mem_lrec :=
  match k, outs with
  | S k', oc :: outs' => mem_ser_upto c m (snd (mem_serialize (c_rw_sets_flag c) (c_nfields c) oc m r)) outs' k'
  | _, _ => r
  end.

Definition mem_spec_at (c : mem_config) (input : bytes) (ts : Z) (ph : mem_phase) : option (mem_lmem * mem_lrec) :=
  match ph with
  | PhParsed => match mem_spec_parsed c input ts false with SgLive m r => Some (m, r) | _ => None end
  | PhOut k => match mem_spec_transformed c input ts with
               | SgLive m r => Some (m, mem_ser_upto c m r (c_outputs c) k)
               | _ => None
               end
  end.

(* what output k of the record alone decodes to *)
Definition mem_spec_out (c : mem_config) (input : bytes) (ts : Z) (k : nat) : option mem_decoded :=
  match mem_spec_transformed c input ts, nth_error (c_outputs c) k with
  | SgLive m r, Some oc => Some (fst (mem_serialize (c_rw_sets_flag c) (c_nfields c) oc m (mem_ser_upto c m r (c_outputs c) k)))
  | _, _ => None
  end.

Definition mem_spec_status (c : mem_config) (input : bytes) (ts : Z) : option mem_status :=
  match mem_spec_parsed c input ts false with
  | SgStop _ => None
  | SgGone st _ _ => Some st
  | SgLive _ _ =>
    match mem_spec_transformed c input ts with
    | SgStop _ => None
    | SgGone st _ _ => Some st
    | SgLive _ _ => Some StPassed
    end
  end.

Lemma mem_ser_upto_step : forall c m outs k r oc, nth_error outs k = Some oc ->
  mem_ser_upto c m r outs (S k) = snd (mem_serialize (c_rw_sets_flag c) (c_nfields c) oc m (mem_ser_upto c m r outs k)).
Proof.
  induction outs as [|o outs IH]; intros k r oc H.
  - destruct k; discriminate.
  - destruct k as [|k]; cbn in H.
    + inversion H; subst. reflexivity.
    + change (mem_ser_upto c m r (o :: outs) (S (S k))) with
        (mem_ser_upto c m (snd (mem_serialize (c_rw_sets_flag c) (c_nfields c) o m r)) outs (S k)).
      rewrite (IH k _ oc H). reflexivity.
Qed.

Lemma mem_ser_upto_0 : forall c m r outs, mem_ser_upto c m r outs 0 = r.
Proof. reflexivity. Qed.

(* the configuration memory is as loaded and no shared write happened *)
Definition mem_cfg_clean (c : mem_config) (m : mem_lmem) : Prop := m_cfg m = c_cfg_init c /\ m_dirty m = false.

Definition mem_stage_clean (c : mem_config) (s : mem_stage) : Prop :=
  match s with SgStop _ => True | SgGone _ m _ => mem_cfg_clean c m | SgLive m _ => mem_cfg_clean c m end.

(* THE HYPOTHESIS about in-place writers: processing any single record on a fresh pipeline leaves the
   shared configuration memory untouched (no in-place target is a configuration string) *)
Definition mem_targets_own (c : mem_config) : Prop :=
  forall input ts u, mem_stage_clean c (mem_spec_parsed c input ts u) /\ mem_stage_clean c (mem_spec_transformed c input ts).

Lemma mem_after_txs_copy_clean : forall c m r ts, c_trunc_mode c = TruncCopy -> mem_cfg_clean c m ->
  mem_stage_clean c (mem_after_txs c m r ts).
Proof.
  intros c m r ts Hmode Hm. unfold mem_after_txs. rewrite Hmode.
  destruct (mem_run_txs TruncCopy m r ts) as [[[m2 r2] b]| |s] eqn:E; cbn; auto.
  apply mem_run_txs_copy_keeps in E. destruct E as [E1 E2], Hm as [H1 H2].
  destruct b; cbn; split; congruence.
Qed.

Lemma mem_spec_parsed_copy_clean : forall c input ts u, c_trunc_mode c = TruncCopy -> mem_stage_clean c (mem_spec_parsed c input ts u).
Proof.
  intros c input ts u Hmode. unfold mem_spec_parsed.
  destruct (mem_parse _ _ _ _) as [[[[m1 r1] st] ov]| |s] eqn:E; cbn; auto.
  apply mem_parse_keeps_cfg in E. destruct E as [E1 E2].
  assert (Hc : mem_cfg_clean c m1) by (split; [rewrite E1|rewrite E2]; reflexivity).
  destruct st; [apply mem_after_txs_copy_clean; assumption|exact Hc].
Qed.

(* with the repaired truncate the hypothesis holds for every configuration *)
Lemma mem_copy_mode_targets_own : forall c, c_trunc_mode c = TruncCopy -> mem_targets_own c.
Proof.
  intros c Hmode input ts u. split; [apply mem_spec_parsed_copy_clean; exact Hmode|].
  unfold mem_spec_transformed.
  pose proof (mem_spec_parsed_copy_clean c input ts false Hmode) as Hp.
  destruct (mem_spec_parsed c input ts false) as [s|st m r|m r]; cbn in *; auto.
  apply mem_after_txs_copy_clean; assumption.
Qed.

(* the flag found in a recycled struct does not matter *)
Lemma mem_spec_parsed_unesc : forall c input ts u,
  mem_spec_parsed c input ts u =
  match mem_spec_parsed c input ts false with
  | SgGone StMalformed m r => SgGone StMalformed m (mem_with_unesc r u)
  | x => x
  end.
Proof.
  intros c input ts u. unfold mem_spec_parsed.
  change (mem_spec_r0 c input ts u) with (mem_with_unesc (mem_spec_r0 c input ts false) u).
  rewrite mem_parse_unesc.
  destruct (mem_parse _ _ _ (mem_spec_r0 c input ts false)) as [[[[m1 r1] st] ov]| |s]; try reflexivity.
  destruct st; [|reflexivity].
  unfold mem_after_txs. destruct (mem_run_txs _ m1 r1 _) as [[[m2 r2] b]| |s]; try reflexivity. destruct b; reflexivity.
Qed.

(* shapes along the stages *)
Definition mem_stage_shape (c : mem_config) (input : bytes) (s : mem_stage) : Prop :=
  match s with
  | SgStop _ => True
  | SgGone _ m r | SgLive m r => length (m_own m) = length input /\ length (lr_fields r) = c_maxfields c
  end.

Lemma mem_after_txs_shape : forall c input m r ts,
  length (m_own m) = length input -> length (lr_fields r) = c_maxfields c -> mem_stage_shape c input (mem_after_txs c m r ts).
Proof.
  intros c input m r ts H1 H2. unfold mem_after_txs.
  destruct (mem_run_txs _ m r ts) as [[[m2 r2] b]| |s] eqn:E; cbn; auto.
  apply mem_run_txs_shape in E. destruct E as [E1 E2]. unfold mem_same_shape in E1.
  destruct b; cbn; split; congruence.
Qed.

Lemma mem_spec_parsed_shape : forall c input ts u, mem_stage_shape c input (mem_spec_parsed c input ts u).
Proof.
  intros c input ts u. unfold mem_spec_parsed.
  destruct (mem_parse _ _ _ _) as [[[[m1 r1] st] ov]| |s] eqn:E; cbn; auto.
  apply mem_parse_shape in E. destruct E as [E1 E2]. unfold mem_same_shape in E1. cbn in E1, E2. rewrite repeat_length in E2.
  destruct st; [apply mem_after_txs_shape; assumption|split; assumption].
Qed.

Lemma mem_spec_transformed_shape : forall c input ts, mem_stage_shape c input (mem_spec_transformed c input ts).
Proof.
  intros c input ts. unfold mem_spec_transformed.
  pose proof (mem_spec_parsed_shape c input ts false) as H.
  destruct (mem_spec_parsed c input ts false) as [s|st m r|m r]; cbn in *; auto.
  destruct H. apply mem_after_txs_shape; assumption.
Qed.

Lemma mem_ser_upto_fields : forall c m outs k r, lr_fields (mem_ser_upto c m r outs k) = lr_fields r.
Proof.
  induction outs as [|o outs IH]; intros k r; destruct k; cbn; try reflexivity.
  rewrite IH. destruct (mem_serialize (c_rw_sets_flag c) (c_nfields c) o m r) as [d r'] eqn:E. cbn. eapply mem_serialize_fields; eauto.
Qed.

Lemma mem_spec_at_shape : forall c input ts ph m r, mem_spec_at c input ts ph = Some (m, r) ->
  length (m_own m) = length input /\ length (lr_fields r) = c_maxfields c.
Proof.
  intros c input ts ph m r H. destruct ph as [|k]; cbn in H.
  - pose proof (mem_spec_parsed_shape c input ts false) as Hs.
    destruct (mem_spec_parsed c input ts false); try discriminate. inversion H; subst. exact Hs.
  - pose proof (mem_spec_transformed_shape c input ts) as Hs.
    destruct (mem_spec_transformed c input ts); try discriminate. inversion H; subst.
    rewrite mem_ser_upto_fields. exact Hs.
Qed.

(* ================================================================== *)
(* 6. the invariant of the pipeline state                               *)
(* ================================================================== *)

Lemma mem_erase_tag_str : forall r s, mem_erase_str r (mem_tag_str r s) = Some s.
Proof.
  intros r [|p off len]; cbn; [reflexivity|].
  destruct p; cbn; rewrite ?Nat.eqb_refl; reflexivity.
Qed.

Lemma mem_erase_tag_fields : forall r fs, mem_erase_fields r (map (mem_tag_str r) fs) = Some fs.
Proof.
  induction fs as [|s fs IH]; cbn; [reflexivity|]. rewrite mem_erase_tag_str, IH. reflexivity.
Qed.

Lemma mem_erase_empty : forall r n, mem_erase_fields r (repeat MEmpty n) = Some (repeat EEmpty n).
Proof. induction n as [|n IH]; cbn; [reflexivity|]. rewrite IH. reflexivity. Qed.

Lemma mem_map_empty : forall {A} (l : list A), map (fun _ => MEmpty) l = repeat MEmpty (length l).
Proof. induction l as [|x l IH]; cbn; [reflexivity|]. rewrite IH. reflexivity. Qed.

Definition mem_nout (c : mem_config) : nat := length (c_outputs c).

Definition mem_phase_refc (c : mem_config) (ph : mem_phase) : Z :=
  match ph with PhParsed => Z.of_nat (mem_nout c) | PhOut k => Z.of_nat (mem_nout c - k) end.

Definition mem_phase_ok (c : mem_config) (ph : mem_phase) : Prop :=
  match ph with PhParsed => True | PhOut k => k < mem_nout c end.

(* a struct in the pool carries nothing of its earlier uses - except the Unescaped flag *)
Definition mem_pooled_clean (c : mem_config) (r : mem_rstruct) : Prop :=
  r_fields r = repeat MEmpty (c_maxfields c) /\ r_rawlen r = 0%Z /\ r_ts r = 0%Z /\ r_backbuf r = None /\ r_refc r = 0%Z.

Definition mem_backbuf_ok (g : mem_gstate) (r : mem_rstruct) (n : nat) : Prop :=
  match r_backbuf r with
  | Some b => exists bf, nth_error (g_bufs g) b = Some bf /\ b_free bf = false /\ n <= length (b_data bf)
  | None => True
  end.

Definition mem_live_inv (c : mem_config) (g : mem_gstate) (r : mem_rstruct) (l : mem_live) : Prop :=
  exists input ts m lr,
    In (l_rid l, input, ts) (g_log g) /\ l_n l = length input /\
    mem_phase_ok c (l_phase l) /\ r_refc r = mem_phase_refc c (l_phase l) /\
    mem_local_of g r l = Some (m, lr) /\ mem_spec_at c input ts (l_phase l) = Some (m, lr) /\
    mem_backbuf_ok g r (l_n l).

Definition mem_slot_inv (c : mem_config) (g : mem_gstate) (s : mem_slot) : Prop :=
  match sl_state s with
  | SInPool => mem_pooled_clean c (sl_rec s)
  | SLive l => mem_live_inv c g (sl_rec s) l
  | SAbandoned => mem_backbuf_ok g (sl_rec s) 0
  end.

(* [x]: a slot that is being worked on and is exempt from mem_slot_inv *)
Record mem_inv_x (c : mem_config) (g : mem_gstate) (x : option nat) : Prop := {
  inv_cfg : g_cfg g = c_cfg_init c /\ g_dirty g = false;
  inv_slots : forall h s, Some h <> x -> nth_error (g_slots g) h = Some s -> mem_slot_inv c g s;
  inv_excl : forall h1 h2 s1 s2 b, h1 <> h2 -> nth_error (g_slots g) h1 = Some s1 -> nth_error (g_slots g) h2 = Some s2 ->
             r_backbuf (sl_rec s1) = Some b -> r_backbuf (sl_rec s2) = Some b -> False;
  inv_bufs : forall b bf, nth_error (g_bufs g) b = Some bf ->
             (b_class bf <= 31)%N /\ length (b_data bf) = N.to_nat (mem_class_size (b_class bf));
  inv_log : forall rid input ts, In (rid, input, ts) (g_log g) -> rid < g_next_rid g /\ (N.of_nat (length input) < 2 ^ 31)%N;
  inv_log_fun : forall rid i1 t1 i2 t2, In (rid, i1, t1) (g_log g) -> In (rid, i2, t2) (g_log g) -> i1 = i2 /\ t1 = t2;
  inv_out : forall rid k d, In (rid, k, d) (g_out g) ->
            exists input ts, In (rid, input, ts) (g_log g) /\ mem_spec_out c input ts k = Some d;
  inv_status : forall rid st, In (rid, st) (g_status g) ->
            exists input ts, In (rid, input, ts) (g_log g) /\ mem_spec_status c input ts = Some st
}.

Definition mem_inv (c : mem_config) (g : mem_gstate) : Prop := mem_inv_x c g None.

Lemma mem_inv_init : forall c, mem_inv c (mem_init c).
Proof.
  intros c. constructor; cbn; try (intros; contradiction); auto.
  - intros h s _ H. destruct h; discriminate.
  - intros h1 h2 s1 s2 b _ H. destruct h1; discriminate.
  - intros b bf H. destruct b; discriminate.
Qed.

(* ---- frame: what a slot's invariant depends on ---- *)
Definition mem_frame (g g' : mem_gstate) (ob : option nat) : Prop :=
  g_cfg g' = g_cfg g /\ g_dirty g' = g_dirty g /\ incl (g_log g) (g_log g') /\
  (forall b bf, ob = Some b -> nth_error (g_bufs g) b = Some bf -> nth_error (g_bufs g') b = Some bf).

Lemma mem_nth_of_nth_error : forall {A} (l : list A) i x d, nth_error l i = Some x -> nth i l d = x.
Proof. induction l as [|y l IH]; intros [|i] x d H; cbn in *; try discriminate; [inversion H; reflexivity|eauto]. Qed.

Lemma mem_backbuf_ok_frame : forall g g' r n, mem_frame g g' (r_backbuf r) -> mem_backbuf_ok g r n -> mem_backbuf_ok g' r n.
Proof.
  intros g g' r n (_ & _ & _ & Hb) H. unfold mem_backbuf_ok in *. destruct (r_backbuf r) as [b|]; [|exact I].
  destruct H as (bf & H1 & H2 & H3). exists bf. split; [eapply Hb; eauto|auto].
Qed.

Lemma mem_local_of_frame : forall g g' r l, mem_frame g g' (r_backbuf r) -> mem_backbuf_ok g r (l_n l) ->
  mem_local_of g' r l = mem_local_of g r l.
Proof.
  intros g g' r l (Hc & Hd & _ & Hb) Hok. unfold mem_local_of.
  destruct (mem_erase_fields (l_rid l) (r_fields r)); [|reflexivity].
  rewrite Hc, Hd. do 3 f_equal. unfold mem_own_view, mem_backbuf_ok in *.
  destruct (r_backbuf r) as [b|]; [|reflexivity].
  destruct Hok as (bf & H1 & _). pose proof (Hb b bf eq_refl H1) as H2.
  change {| b_data := []; b_class := 0; b_free := true; b_gen := 0 |} with mem_dummy_buf.
  rewrite (mem_nth_of_nth_error _ _ _ mem_dummy_buf H1), (mem_nth_of_nth_error _ _ _ mem_dummy_buf H2). reflexivity.
Qed.

Lemma mem_slot_inv_frame : forall c g g' s, mem_frame g g' (r_backbuf (sl_rec s)) -> mem_slot_inv c g s -> mem_slot_inv c g' s.
Proof.
  intros c g g' s Hf H. unfold mem_slot_inv in *. destruct (sl_state s) as [|l|].
  - exact H.
  - destruct H as (input & ts & m & lr & H1 & H2 & H3 & H4 & H5 & H6 & H7).
    exists input, ts, m, lr. repeat split; auto.
    + destruct Hf as (_ & _ & Hi & _). apply Hi. exact H1.
    + rewrite (mem_local_of_frame g g'); auto.
    + eapply mem_backbuf_ok_frame; eauto.
  - eapply mem_backbuf_ok_frame; eauto.
Qed.

(* ---- mem_global_of: writing the result of local processing back ---- *)
Definition mem_go_rec (r : mem_rstruct) (rid : nat) (lr : mem_lrec) : mem_rstruct :=
  {| r_fields := map (mem_tag_str rid) (lr_fields lr); r_rawlen := lr_rawlen lr; r_ts := lr_ts lr;
     r_unesc := lr_unesc lr; r_backbuf := r_backbuf r; r_refc := r_refc r |}.

Definition mem_go_live (r : mem_rstruct) (l : mem_live) (ph : mem_phase) (m : mem_lmem) : mem_live :=
  {| l_rid := l_rid l; l_n := l_n l; l_copy := match r_backbuf r with Some _ => l_copy l | None => m_own m end;
     l_fresh := m_fresh m; l_phase := ph |}.

Definition mem_go_bufs (bufs : list mem_buf) (r : mem_rstruct) (l : mem_live) (m : mem_lmem) : list mem_buf :=
  match r_backbuf r with
  | Some b =>
    let old := nth b bufs mem_dummy_buf in
    mem_list_set bufs b {| b_data := m_own m ++ skipn (l_n l) (b_data old); b_class := b_class old;
                           b_free := b_free old; b_gen := b_gen old |}
  | None => bufs
  end.

Lemma mem_global_of_eq : forall g h r l ph m lr,
  mem_global_of g h r l ph m lr =
  {| g_slots := mem_list_set (g_slots g) h {| sl_rec := mem_go_rec r (l_rid l) lr; sl_state := SLive (mem_go_live r l ph m) |};
     g_bufs := mem_go_bufs (g_bufs g) r l m; g_cfg := m_cfg m; g_dirty := m_dirty m; g_next_rid := g_next_rid g;
     g_log := g_log g; g_status := g_status g; g_out := g_out g |}.
Proof.
  intros. unfold mem_global_of, mem_store_own, mem_go_bufs, mem_go_live, mem_go_rec, mem_upd_slot.
  destruct (r_backbuf r); reflexivity.
Qed.

Lemma mem_firstn_app_exact : forall {A} (a b : list A) n, length a = n -> firstn n (a ++ b) = a.
Proof. intros A a b n H. subst n. rewrite firstn_app, Nat.sub_diag, firstn_all. cbn. apply app_nil_r. Qed.

Lemma mem_local_of_global_of : forall g h r l ph m lr g1,
  g1 = mem_global_of g h r l ph m lr ->
  mem_backbuf_ok g r (l_n l) -> length (m_own m) = l_n l ->
  mem_local_of g1 (mem_go_rec r (l_rid l) lr) (mem_go_live r l ph m) = Some (m, lr).
Proof.
  intros g h r l ph m lr g1 -> Hok Hlen. rewrite mem_global_of_eq.
  unfold mem_local_of. cbn [l_rid mem_go_live mem_go_rec r_fields]. rewrite mem_erase_tag_fields.
  cbn. f_equal. f_equal.
  - destruct m as [own fresh cfg dirty]. cbn in *. f_equal.
    unfold mem_own_view, mem_go_bufs, mem_backbuf_ok in *. cbn.
    destruct (r_backbuf r) as [b|]; [|reflexivity].
    destruct Hok as (bf & H1 & _ & _).
    assert (Hb : b < length (g_bufs g)) by (apply nth_error_Some; congruence).
    change {| b_data := []; b_class := 0; b_free := true; b_gen := 0 |} with mem_dummy_buf.
    rewrite mem_list_set_nth_default_eq by exact Hb. cbn. apply mem_firstn_app_exact. exact Hlen.
  - destruct lr; reflexivity.
Qed.

Lemma mem_go_bufs_other : forall bufs r l m b, r_backbuf r <> Some b -> nth_error (mem_go_bufs bufs r l m) b = nth_error bufs b.
Proof.
  intros bufs r l m b H. unfold mem_go_bufs. destruct (r_backbuf r) as [b'|]; [|reflexivity].
  apply mem_list_set_nth_neq. congruence.
Qed.

Lemma mem_go_bufs_same : forall bufs r l m b bf, r_backbuf r = Some b -> nth_error bufs b = Some bf ->
  length (m_own m) = l_n l -> l_n l <= length (b_data bf) ->
  exists bf', nth_error (mem_go_bufs bufs r l m) b = Some bf' /\ b_class bf' = b_class bf /\ b_free bf' = b_free bf /\
              length (b_data bf') = length (b_data bf).
Proof.
  intros bufs r l m b bf H H1 Hlen Hn. unfold mem_go_bufs. rewrite H.
  assert (Hb : b < length bufs) by (apply nth_error_Some; congruence).
  rewrite (mem_nth_of_nth_error _ _ _ mem_dummy_buf H1).
  eexists. split; [apply mem_list_set_nth_eq; exact Hb|]. cbn. repeat split.
  rewrite app_length, skipn_length. lia.
Qed.

Lemma mem_go_bufs_length : forall bufs r l m, length (mem_go_bufs bufs r l m) = length bufs.
Proof. intros. unfold mem_go_bufs. destruct (r_backbuf r); [apply mem_list_set_length|reflexivity]. Qed.

Lemma mem_global_of_inv : forall c g x0 h s0 r l ph m lr,
  mem_inv_x c g x0 -> (x0 = None \/ x0 = Some h) ->
  nth_error (g_slots g) h = Some s0 -> r_backbuf r = r_backbuf (sl_rec s0) ->
  mem_backbuf_ok g r (l_n l) -> length (m_own m) = l_n l -> mem_cfg_clean c m ->
  mem_inv_x c (mem_global_of g h r l ph m lr) (Some h).
Proof.
  intros c g x0 h s0 r l ph m lr Hinv Hx Hs0 Hbb Hok Hlen [Hc1 Hc2].
  destruct Hinv as [[Icfg Idirty] Islots Iexcl Ibufs Ilog Ilogf Iout Istat].
  assert (Hh : h < length (g_slots g)) by (apply nth_error_Some; congruence).
  rewrite mem_global_of_eq. constructor; cbn.
  - split; assumption.
  - intros h' s Hne Hs. assert (Hne' : h <> h') by congruence.
    rewrite mem_list_set_nth_neq in Hs by exact Hne'.
    assert (Hold : mem_slot_inv c g s).
    { apply (Islots h' s); [|exact Hs]. destruct Hx as [->| ->]; congruence. }
    eapply mem_slot_inv_frame; [|exact Hold].
    unfold mem_frame; cbn. split; [congruence|]. split; [congruence|]. split; [apply incl_refl|].
    intros b bf Hb Hnth. rewrite mem_go_bufs_other; [exact Hnth|].
    intros Hr. apply (Iexcl h h' s0 s b Hne' Hs0 Hs); congruence.
  - intros h1 h2 s1 s2 b Hne H1 H2 Hb1 Hb2.
    destruct (Nat.eq_dec h1 h) as [->|N1]; destruct (Nat.eq_dec h2 h) as [->|N2]; try congruence.
    + rewrite mem_list_set_nth_eq in H1 by exact Hh. inversion H1; subst s1; cbn in Hb1.
      rewrite mem_list_set_nth_neq in H2 by congruence.
      apply (Iexcl h h2 s0 s2 b); auto; congruence.
    + rewrite mem_list_set_nth_eq in H2 by exact Hh. inversion H2; subst s2; cbn in Hb2.
      rewrite mem_list_set_nth_neq in H1 by congruence.
      apply (Iexcl h1 h s1 s0 b); auto; congruence.
    + rewrite mem_list_set_nth_neq in H1 by congruence. rewrite mem_list_set_nth_neq in H2 by congruence.
      eapply (Iexcl h1 h2); eauto.
  - intros b bf Hnth. destruct (r_backbuf r) as [b0|] eqn:Eb.
    + destruct (Nat.eq_dec b b0) as [->|Nb].
      * unfold mem_backbuf_ok in Hok. rewrite Eb in Hok. destruct Hok as (bf0 & Hn0 & _ & Hle).
        destruct (mem_go_bufs_same (g_bufs g) r l m b0 bf0 Eb Hn0 Hlen Hle) as (bf' & Hn' & Hcl & _ & Hl').
        rewrite Hn' in Hnth. inversion Hnth; subst bf'. rewrite Hcl, Hl'. eapply Ibufs; eauto.
      * rewrite mem_go_bufs_other in Hnth by congruence. eapply Ibufs; eauto.
    + rewrite mem_go_bufs_other in Hnth by congruence. eapply Ibufs; eauto.
  - exact Ilog.
  - exact Ilogf.
  - exact Iout.
  - exact Istat.
Qed.

(* ---- LogAllocator.Release ---- *)
Definition mem_with_refc (r : mem_rstruct) (rc : Z) : mem_rstruct :=
  {| r_fields := r_fields r; r_rawlen := r_rawlen r; r_ts := r_ts r; r_unesc := r_unesc r; r_backbuf := r_backbuf r; r_refc := rc |}.

Definition mem_with_slots_only (g : mem_gstate) (slots : list mem_slot) : mem_gstate :=
  {| g_slots := slots; g_bufs := g_bufs g; g_cfg := g_cfg g; g_dirty := g_dirty g; g_next_rid := g_next_rid g;
     g_log := g_log g; g_status := g_status g; g_out := g_out g |}.

(* other references remain: only the count changes *)
Lemma mem_release_more : forall g h r st, nth_error (g_slots g) h = Some {| sl_rec := r; sl_state := st |} -> (1 < r_refc r)%Z ->
  mem_release g h = StepOk (mem_with_slots_only g (mem_list_set (g_slots g) h {| sl_rec := mem_with_refc r (r_refc r - 1); sl_state := st |})).
Proof.
  intros g h r st H Hrc. unfold mem_release. rewrite H. cbn.
  replace (r_refc r - 1 <? 0)%Z with false by lia. replace (0 <? r_refc r - 1)%Z with true by lia. reflexivity.
Qed.

Lemma mem_local_of_refc : forall g r l rc, mem_local_of g (mem_with_refc r rc) l = mem_local_of g r l.
Proof. reflexivity. Qed.

Lemma mem_release_more_inv : forall c g h r st,
  mem_inv_x c g (Some h) -> nth_error (g_slots g) h = Some {| sl_rec := r; sl_state := st |} ->
  mem_inv_x c (mem_with_slots_only g (mem_list_set (g_slots g) h {| sl_rec := mem_with_refc r (r_refc r - 1); sl_state := st |})) (Some h).
Proof.
  intros c g h r st [Icfg Islots Iexcl Ibufs Ilog Ilogf Iout Istat] Hs.
  assert (Hh : h < length (g_slots g)) by (apply nth_error_Some; congruence).
  constructor; cbn; auto.
  - intros h' s Hne Hs'. rewrite mem_list_set_nth_neq in Hs' by congruence.
    eapply mem_slot_inv_frame; [|eapply Islots; eauto].
    unfold mem_frame; cbn. repeat split; auto. apply incl_refl.
  - intros h1 h2 s1 s2 b Hne H1 H2 Hb1 Hb2.
    destruct (Nat.eq_dec h1 h) as [->|N1]; destruct (Nat.eq_dec h2 h) as [->|N2]; try congruence.
    + rewrite mem_list_set_nth_eq in H1 by exact Hh. inversion H1; subst s1; cbn in Hb1.
      rewrite mem_list_set_nth_neq in H2 by congruence. apply (Iexcl h h2 _ s2 b Hne Hs H2); auto.
    + rewrite mem_list_set_nth_eq in H2 by exact Hh. inversion H2; subst s2; cbn in Hb2.
      rewrite mem_list_set_nth_neq in H1 by congruence. apply (Iexcl h1 h s1 _ b Hne H1 Hs); auto.
    + rewrite mem_list_set_nth_neq in H1 by congruence. rewrite mem_list_set_nth_neq in H2 by congruence.
      eapply (Iexcl h1 h2); eauto.
Qed.

(* the last reference: the struct is cleared and goes to the pool, its buffer to the pool of its class *)
Lemma mem_release_last_inv : forall c g h r st,
  mem_inv_x c g (Some h) -> nth_error (g_slots g) h = Some {| sl_rec := r; sl_state := st |} ->
  r_refc r = 1%Z -> length (r_fields r) = c_maxfields c -> mem_backbuf_ok g r 0 ->
  exists g', mem_release g h = StepOk g' /\ mem_inv c g' /\
             g_log g' = g_log g /\ g_out g' = g_out g /\ g_status g' = g_status g /\
             (exists r', nth_error (g_slots g') h = Some {| sl_rec := r'; sl_state := SInPool |}).
Proof.
  intros c g h r st [Icfg Islots Iexcl Ibufs Ilog Ilogf Iout Istat] Hs Hrc Hlen Hok.
  assert (Hh : h < length (g_slots g)) by (apply nth_error_Some; congruence).
  unfold mem_release. rewrite Hs. cbn [sl_rec]. rewrite Hrc. cbn [Z.sub Z.ltb Z.compare Z.add Z.opp Z.pos_sub].
  change (1 - 1 <? 0)%Z with false. change (0 <? 1 - 1)%Z with false. cbn iota.
  set (cleared := {| r_fields := map (fun _ => MEmpty) (r_fields r); r_rawlen := 0; r_ts := 0; r_unesc := r_unesc r;
                     r_backbuf := None; r_refc := (1 - 1)%Z |}).
  assert (Hclean : mem_pooled_clean c cleared).
  { unfold mem_pooled_clean, cleared; cbn. rewrite mem_map_empty, Hlen. auto. }
  unfold mem_backbuf_ok in Hok. destruct (r_backbuf r) as [b|] eqn:Eb.
  - destruct Hok as (bf & Hnb & Hfree & _).
    rewrite (mem_nth_of_nth_error _ _ _ mem_dummy_buf Hnb).
    destruct (Ibufs b bf Hnb) as [Hcl Hl].
    assert (Hput : mem_put_class (N.of_nat (length (b_data bf))) = Ok (b_class bf)).
    { rewrite Hl, N2Nat.id. apply mem_put_class_pow2. exact Hcl. }
    rewrite Hput. eexists. split; [reflexivity|]. unfold mem_upd_slot. cbn.
    assert (Hbl : b < length (g_bufs g)) by (apply nth_error_Some; congruence).
    split; [|repeat split; auto; eexists; apply mem_list_set_nth_eq; exact Hh].
    constructor; cbn; auto.
    + intros h' s _ Hs'. destruct (Nat.eq_dec h' h) as [->|Nh].
      * rewrite mem_list_set_nth_eq in Hs' by exact Hh. inversion Hs'; subst s. exact Hclean.
      * rewrite mem_list_set_nth_neq in Hs' by congruence.
        eapply mem_slot_inv_frame; [|eapply (Islots h'); eauto; congruence].
        unfold mem_frame; cbn. split; [reflexivity|]. split; [reflexivity|]. split; [apply incl_refl|].
        intros b' bf' Hb' Hn'. rewrite mem_list_set_nth_neq; [exact Hn'|].
        intros ->. apply (Iexcl h h' _ s b' (not_eq_sym Nh) Hs Hs'); auto.
    + intros h1 h2 s1 s2 b' Hne H1 H2 Hb1 Hb2.
      destruct (Nat.eq_dec h1 h) as [->|N1]; [rewrite mem_list_set_nth_eq in H1 by exact Hh; inversion H1; subst s1; discriminate|].
      destruct (Nat.eq_dec h2 h) as [->|N2]; [rewrite mem_list_set_nth_eq in H2 by exact Hh; inversion H2; subst s2; discriminate|].
      rewrite mem_list_set_nth_neq in H1 by congruence. rewrite mem_list_set_nth_neq in H2 by congruence.
      eapply (Iexcl h1 h2); eauto.
    + intros b' bf' Hn'. destruct (Nat.eq_dec b' b) as [->|Nb].
      * rewrite mem_list_set_nth_eq in Hn' by exact Hbl. inversion Hn'; subst bf'; cbn. split; assumption.
      * rewrite mem_list_set_nth_neq in Hn' by congruence. eapply Ibufs; eauto.
  - eexists. split; [reflexivity|]. unfold mem_upd_slot. cbn.
    split; [|repeat split; auto; eexists; apply mem_list_set_nth_eq; exact Hh].
    constructor; cbn; auto.
    + intros h' s _ Hs'. destruct (Nat.eq_dec h' h) as [->|Nh].
      * rewrite mem_list_set_nth_eq in Hs' by exact Hh. inversion Hs'; subst s. exact Hclean.
      * rewrite mem_list_set_nth_neq in Hs' by congruence.
        eapply mem_slot_inv_frame; [|eapply (Islots h'); eauto; congruence].
        unfold mem_frame; cbn. repeat split; auto. apply incl_refl.
    + intros h1 h2 s1 s2 b' Hne H1 H2 Hb1 Hb2.
      destruct (Nat.eq_dec h1 h) as [->|N1]; [rewrite mem_list_set_nth_eq in H1 by exact Hh; inversion H1; subst s1; discriminate|].
      destruct (Nat.eq_dec h2 h) as [->|N2]; [rewrite mem_list_set_nth_eq in H2 by exact Hh; inversion H2; subst s2; discriminate|].
      rewrite mem_list_set_nth_neq in H1 by congruence. rewrite mem_list_set_nth_neq in H2 by congruence.
      eapply (Iexcl h1 h2); eauto.
Qed.

Lemma mem_inv_x_close : forall c g h, mem_inv_x c g (Some h) ->
  (forall s, nth_error (g_slots g) h = Some s -> mem_slot_inv c g s) -> mem_inv c g.
Proof.
  intros c g h [Icfg Islots Iexcl Ibufs Ilog Ilogf Iout Istat] Hh. constructor; auto.
  intros h' s _ Hs. destruct (Nat.eq_dec h' h) as [->|N]; [apply Hh; exact Hs|eapply Islots; eauto; congruence].
Qed.

Lemma mem_inv_x_open : forall c g h, mem_inv c g -> mem_inv_x c g (Some h).
Proof.
  intros c g h [Icfg Islots Iexcl Ibufs Ilog Ilogf Iout Istat]. constructor; auto.
  intros h' s _ Hs. eapply Islots; eauto. discriminate.
Qed.

Lemma mem_slot_inv_same_mem : forall c g g' s,
  g_bufs g' = g_bufs g -> g_cfg g' = g_cfg g -> g_dirty g' = g_dirty g -> g_log g' = g_log g ->
  mem_slot_inv c g s -> mem_slot_inv c g' s.
Proof.
  intros c g g' s Hb Hc Hd Hl H. eapply mem_slot_inv_frame; [|exact H].
  unfold mem_frame. rewrite Hb, Hc, Hd, Hl. repeat split; auto. apply incl_refl.
Qed.

Lemma mem_inv_set_status : forall c g rid st, mem_inv c g ->
  (exists input ts, In (rid, input, ts) (g_log g) /\ mem_spec_status c input ts = Some st) ->
  mem_inv c (mem_set_status g rid st).
Proof.
  intros c g rid st [Icfg Islots Iexcl Ibufs Ilog Ilogf Iout Istat] Hst. constructor; cbn; try assumption.
  intros rid' st' Hin. apply in_app_or in Hin. destruct Hin as [Hin|[Heq|[]]]; [eapply Istat; eauto|].
    inversion Heq; subst. exact Hst.
Qed.

Lemma mem_abandon_inv : forall c g h r l,
  mem_inv_x c g (Some h) -> nth_error (g_slots g) h = Some {| sl_rec := r; sl_state := SLive l |} ->
  mem_backbuf_ok g r 0 -> mem_inv c (mem_abandon_if_live g h).
Proof.
  intros c g h r l Hinv Hs Hok. unfold mem_abandon_if_live. rewrite Hs.
  assert (Hh : h < length (g_slots g)) by (apply nth_error_Some; congruence).
  destruct Hinv as [Icfg Islots Iexcl Ibufs Ilog Ilogf Iout Istat]. unfold mem_upd_slot.
  constructor; cbn; auto.
  - intros h' s _ Hs'. destruct (Nat.eq_dec h' h) as [->|Nh].
    + rewrite mem_list_set_nth_eq in Hs' by exact Hh. inversion Hs'; subst s. exact Hok.
    + rewrite mem_list_set_nth_neq in Hs' by congruence.
      eapply mem_slot_inv_same_mem; [| | | |eapply (Islots h'); eauto; congruence]; reflexivity.
  - intros h1 h2 s1 s2 b Hne H1 H2 Hb1 Hb2.
    destruct (Nat.eq_dec h1 h) as [->|N1]; destruct (Nat.eq_dec h2 h) as [->|N2]; try congruence.
    + rewrite mem_list_set_nth_eq in H1 by exact Hh. inversion H1; subst s1; cbn in Hb1.
      rewrite mem_list_set_nth_neq in H2 by congruence. apply (Iexcl h h2 _ s2 b Hne Hs H2); auto.
    + rewrite mem_list_set_nth_eq in H2 by exact Hh. inversion H2; subst s2; cbn in Hb2.
      rewrite mem_list_set_nth_neq in H1 by congruence. apply (Iexcl h1 h s1 _ b Hne H1 Hs); auto.
    + rewrite mem_list_set_nth_neq in H1 by congruence. rewrite mem_list_set_nth_neq in H2 by congruence.
      eapply (Iexcl h1 h2); eauto.
Qed.

Lemma mem_backbuf_ok_weaken : forall g r n, mem_backbuf_ok g r n -> mem_backbuf_ok g r 0.
Proof.
  intros g r n H. unfold mem_backbuf_ok in *. destruct (r_backbuf r); [|exact I].
  destruct H as (bf & H1 & H2 & _). exists bf. repeat split; auto. lia.
Qed.

(* Release of a record its holder gives up (malformed, dropped): with one output it is recycled,
   with several outputs the other references are never released - the record is left to the
   garbage collector and never enters a pool *)
Lemma mem_release_final_inv : forall c g h r l rid st,
  mem_inv_x c g (Some h) -> nth_error (g_slots g) h = Some {| sl_rec := r; sl_state := SLive l |} ->
  r_refc r = Z.of_nat (mem_nout c) -> 1 <= mem_nout c -> length (r_fields r) = c_maxfields c ->
  mem_backbuf_ok g r (l_n l) ->
  (exists input ts, In (rid, input, ts) (g_log g) /\ mem_spec_status c input ts = Some st) ->
  exists g', mem_release_final g h rid st = StepOk g' /\ mem_inv c g' /\ g_out g' = g_out g /\ g_log g' = g_log g.
Proof.
  intros c g h r l rid st Hinv Hs Hrc Hn Hlen Hok Hst.
  assert (Hh : h < length (g_slots g)) by (apply nth_error_Some; congruence).
  unfold mem_release_final.
  destruct (Nat.eq_dec (mem_nout c) 1) as [E1|N1].
  - destruct (mem_release_last_inv c g h r (SLive l) Hinv Hs) as (g' & Hrel & Hinv' & Hlog & Hout & Hstat & (r' & Hs'));
      [rewrite Hrc, E1; reflexivity|exact Hlen|eapply mem_backbuf_ok_weaken; eauto|].
    rewrite Hrel. eexists. split; [reflexivity|].
    assert (Hab : mem_abandon_if_live g' h = g') by (unfold mem_abandon_if_live; rewrite Hs'; reflexivity).
    rewrite Hab. split; [|split; cbn; assumption].
    apply mem_inv_set_status; [exact Hinv'|]. rewrite Hlog. exact Hst.
  - rewrite (mem_release_more g h r (SLive l) Hs) by lia.
    eexists. split; [reflexivity|].
    split; [|split; unfold mem_abandon_if_live; cbn; rewrite mem_list_set_nth_eq by exact Hh; reflexivity].
    apply mem_inv_set_status; [|unfold mem_abandon_if_live; cbn; rewrite mem_list_set_nth_eq by exact Hh; exact Hst].
    eapply mem_abandon_inv.
    + eapply mem_release_more_inv; eauto.
    + cbn. apply mem_list_set_nth_eq. exact Hh.
    + eapply mem_backbuf_ok_weaken. exact Hok.
Qed.

Lemma mem_backbuf_ok_global_of : forall g h r l ph m lr n,
  mem_backbuf_ok g r n -> length (m_own m) = l_n l -> l_n l <= n ->
  mem_backbuf_ok (mem_global_of g h r l ph m lr) (mem_go_rec r (l_rid l) lr) n.
Proof.
  intros g h r l ph m lr n Hok Hlen Hn. rewrite mem_global_of_eq. unfold mem_backbuf_ok in *. cbn.
  destruct (r_backbuf r) as [b|] eqn:Eb; [|exact I].
  destruct Hok as (bf & H1 & H2 & H3).
  destruct (mem_go_bufs_same (g_bufs g) r l m b bf Eb H1 Hlen) as (bf' & Hn' & _ & Hf & Hl'); [lia|].
  exists bf'. repeat split; [exact Hn'|congruence|lia].
Qed.

Lemma mem_live_inv_global_of : forall c g h r l ph m lr input ts,
  mem_backbuf_ok g r (l_n l) -> length (m_own m) = l_n l ->
  In (l_rid l, input, ts) (g_log g) -> l_n l = length input ->
  mem_phase_ok c ph -> r_refc r = mem_phase_refc c ph ->
  mem_spec_at c input ts ph = Some (m, lr) ->
  mem_live_inv c (mem_global_of g h r l ph m lr) (mem_go_rec r (l_rid l) lr) (mem_go_live r l ph m).
Proof.
  intros c g h r l ph m lr input ts Hok Hlen Hlog Hn Hpok Hrc Hspec.
  exists input, ts, m, lr. cbn [l_rid l_n l_phase mem_go_live].
  split; [rewrite mem_global_of_eq; exact Hlog|]. split; [exact Hn|]. split; [exact Hpok|]. split; [exact Hrc|].
  split; [eapply mem_local_of_global_of; eauto|]. split; [exact Hspec|].
  apply mem_backbuf_ok_global_of; auto.
Qed.

Lemma mem_lres_stop_benign : forall {A} (r : mem_res A), mem_lres_stop r <> Dangling /\ mem_lres_stop r <> NegativeRefCount.
Proof. intros A [a| |s]; cbn; split; discriminate. Qed.

Definition mem_step_ok (c : mem_config) (g : mem_gstate) (e : mem_event) : Prop :=
  match mem_step c g e with
  | StepOk g' => mem_inv c g'
  | StepStop s => s <> Dangling /\ s <> NegativeRefCount
  end.

Lemma mem_slot_nth_global_of : forall g h r l ph m lr s0, nth_error (g_slots g) h = Some s0 ->
  nth_error (g_slots (mem_global_of g h r l ph m lr)) h =
  Some {| sl_rec := mem_go_rec r (l_rid l) lr; sl_state := SLive (mem_go_live r l ph m) |}.
Proof.
  intros. rewrite mem_global_of_eq. cbn. apply mem_list_set_nth_eq. apply nth_error_Some. congruence.
Qed.

Lemma mem_go_rec_fields_length : forall r rid lr, length (r_fields (mem_go_rec r rid lr)) = length (lr_fields lr).
Proof. intros. cbn. apply map_length. Qed.

(* ---------------- the worker runs the transformations ---------------- *)
Lemma mem_step_transform_ok : forall c g h, mem_inv c g -> mem_targets_own c -> 1 <= mem_nout c ->
  mem_step_ok c g (EvTransform h).
Proof.
  intros c g h Hinv Htgt Hn1. unfold mem_step_ok. cbn [mem_step].
  destruct (nth_error (g_slots g) h) as [[r st]|] eqn:Hs; [|split; discriminate].
  destruct st as [|l|]; try (split; discriminate).
  destruct (l_phase l) eqn:Hph; [|split; discriminate].
  pose proof (inv_slots _ _ _ Hinv h _ ltac:(discriminate) Hs) as Hlive. cbn in Hlive.
  destruct Hlive as (input & ts & m & lr & Hlog & Hnl & Hpok & Hrc & Hloc & Hspec & Hbb).
  rewrite Hloc. rewrite Hph in *. cbn in Hspec.
  destruct (mem_spec_parsed c input ts false) as [s0|st0 m0 r0|m0 r0] eqn:Hsp; try discriminate.
  inversion Hspec; subst m0 r0.
  destruct (Htgt input ts false) as [_ Hc2].
  pose proof (mem_spec_transformed_shape c input ts) as Hshape.
  assert (Hstat : forall st, mem_spec_transformed c input ts = st -> True) by auto.
  unfold mem_spec_transformed in Hc2, Hshape. rewrite Hsp in Hc2, Hshape. unfold mem_after_txs in Hc2, Hshape.
  destruct (mem_run_txs (c_trunc_mode c) m lr (c_transforms c)) as [[[m2 lr2] b]| |s] eqn:Etx;
    [|apply (mem_lres_stop_benign (@RFault (mem_lmem * mem_lrec * bool)))|apply (mem_lres_stop_benign (@RPanic (mem_lmem * mem_lrec * bool) s))].
  destruct b; cbn in Hc2, Hshape; destruct Hshape as [Hsh1 Hsh2].
  - (* PASS *)
    apply mem_inv_set_status.
    + eapply mem_inv_x_close.
      * eapply (mem_global_of_inv c g None h); eauto. congruence.
      * intros s Hs'. rewrite (mem_slot_nth_global_of g h r l (PhOut 0) m2 lr2 _ Hs) in Hs'. inversion Hs'; subst s.
        cbn. apply (mem_live_inv_global_of c g h r l (PhOut 0) m2 lr2 input ts).
        -- exact Hbb.
        -- congruence.
        -- exact Hlog.
        -- exact Hnl.
        -- cbn. lia.
        -- cbn. rewrite Hrc. cbn. f_equal. lia.
        -- cbn. unfold mem_spec_transformed. rewrite Hsp. unfold mem_after_txs. rewrite Etx. reflexivity.
    + exists input, ts. split; [rewrite mem_global_of_eq; exact Hlog|].
      unfold mem_spec_status. rewrite Hsp. unfold mem_spec_transformed. rewrite Hsp. unfold mem_after_txs. rewrite Etx. reflexivity.
  - (* DROP *)
    destruct (mem_release_final_inv c (mem_global_of g h r l PhParsed m2 lr2) h
                (mem_go_rec r (l_rid l) lr2) (mem_go_live r l PhParsed m2) (l_rid l) StDropped) as (g' & Hrel & Hinv' & _).
    + eapply (mem_global_of_inv c g None h); eauto. congruence.
    + eapply mem_slot_nth_global_of; eauto.
    + cbn. exact Hrc.
    + exact Hn1.
    + rewrite mem_go_rec_fields_length. exact Hsh2.
    + apply mem_backbuf_ok_global_of; auto. congruence.
    + exists input, ts. split; [rewrite mem_global_of_eq; exact Hlog|].
      unfold mem_spec_status. rewrite Hsp. unfold mem_spec_transformed. rewrite Hsp. unfold mem_after_txs. rewrite Etx. reflexivity.
    + rewrite Hrel. exact Hinv'.
Qed.

Definition mem_add_out (g : mem_gstate) (e : nat * nat * mem_decoded) : mem_gstate :=
  {| g_slots := g_slots g; g_bufs := g_bufs g; g_cfg := g_cfg g; g_dirty := g_dirty g; g_next_rid := g_next_rid g;
     g_log := g_log g; g_status := g_status g; g_out := g_out g ++ [e] |}.

Lemma mem_inv_x_add_out : forall c g x rid k d, mem_inv_x c g x ->
  (exists input ts, In (rid, input, ts) (g_log g) /\ mem_spec_out c input ts k = Some d) ->
  mem_inv_x c (mem_add_out g (rid, k, d)) x.
Proof.
  intros c g x rid k d [Icfg Islots Iexcl Ibufs Ilog Ilogf Iout Istat] Ho. constructor; cbn; try assumption.
  intros rid' k' d' Hin. apply in_app_or in Hin. destruct Hin as [Hin|[Heq|[]]]; [eapply Iout; eauto|].
  inversion Heq; subst. exact Ho.
Qed.

Lemma mem_list_set_twice : forall {A} (l : list A) i x y, mem_list_set (mem_list_set l i x) i y = mem_list_set l i y.
Proof. induction l as [|z l IH]; intros [|i] x y; cbn; auto. rewrite IH. reflexivity. Qed.

Lemma mem_local_of_cfg : forall g r l m lr, mem_local_of g r l = Some (m, lr) -> m_cfg m = g_cfg g /\ m_dirty m = g_dirty g.
Proof.
  intros g r l m lr H. unfold mem_local_of in H. destruct (mem_erase_fields _ _); [|discriminate].
  inversion H; subst. split; reflexivity.
Qed.

(* ---------------- the worker serializes for the next output and releases once ---------------- *)
Lemma mem_step_output_ok : forall c g h, mem_inv c g -> mem_step_ok c g (EvOutput h).
Proof.
  intros c g h Hinv. unfold mem_step_ok. cbn [mem_step].
  destruct (nth_error (g_slots g) h) as [[r st]|] eqn:Hs; [|split; discriminate].
  destruct st as [|l|]; try (split; discriminate).
  destruct (l_phase l) as [|k] eqn:Hph; [split; discriminate|].
  pose proof (inv_slots _ _ _ Hinv h _ ltac:(discriminate) Hs) as Hlive. cbn in Hlive.
  destruct Hlive as (input & ts & m & lr & Hlog & Hnl & Hpok & Hrc & Hloc & Hspec & Hbb).
  rewrite Hph in *. cbn in Hpok, Hrc.
  destruct (nth_error (c_outputs c) k) as [oc|] eqn:Hoc; [|apply nth_error_None in Hoc; unfold mem_nout in Hpok; lia].
  rewrite Hloc.
  destruct (mem_serialize (c_rw_sets_flag c) (c_nfields c) oc m lr) as [d lr1] eqn:Eser.
  destruct (mem_spec_at_shape _ _ _ _ _ _ Hspec) as [Hsh1 Hsh2].
  assert (Hlen : length (m_own m) = l_n l) by congruence.
  destruct (mem_local_of_cfg _ _ _ _ _ Hloc) as [Hmc Hmd].
  assert (Hclean : mem_cfg_clean c m).
  { destruct (inv_cfg _ _ _ Hinv) as [Hc1 Hc2]. split; congruence. }
  cbn in Hspec.
  destruct (mem_spec_transformed c input ts) as [s0|st0 mT rT|mT rT] eqn:Hst; try discriminate.
  inversion Hspec; subst mT. clear Hspec. rename H1 into Hlr.
  assert (Hlr1 : lr1 = mem_ser_upto c m rT (c_outputs c) (S k)).
  { rewrite (mem_ser_upto_step c m (c_outputs c) k rT oc Hoc). rewrite Hlr, Eser. reflexivity. }
  assert (Hd : mem_spec_out c input ts k = Some d).
  { unfold mem_spec_out. rewrite Hst, Hoc, Hlr, Eser. reflexivity. }
  assert (Hfl : length (lr_fields lr1) = c_maxfields c).
  { rewrite (mem_serialize_fields _ _ _ _ _ _ _ Eser). exact Hsh2. }
  (* the state before Release *)
  change {| g_slots := g_slots (mem_global_of g h r l (PhOut (S k)) m lr1);
            g_bufs := g_bufs (mem_global_of g h r l (PhOut (S k)) m lr1);
            g_cfg := g_cfg (mem_global_of g h r l (PhOut (S k)) m lr1);
            g_dirty := g_dirty (mem_global_of g h r l (PhOut (S k)) m lr1);
            g_next_rid := g_next_rid (mem_global_of g h r l (PhOut (S k)) m lr1);
            g_log := g_log (mem_global_of g h r l (PhOut (S k)) m lr1);
            g_status := g_status (mem_global_of g h r l (PhOut (S k)) m lr1);
            g_out := g_out (mem_global_of g h r l (PhOut (S k)) m lr1) ++ [(l_rid l, k, d)] |}
    with (mem_add_out (mem_global_of g h r l (PhOut (S k)) m lr1) (l_rid l, k, d)).
  assert (Hout : exists input0 ts0, In (l_rid l, input0, ts0) (g_log (mem_global_of g h r l (PhOut (S k)) m lr1)) /\
                                    mem_spec_out c input0 ts0 k = Some d).
  { exists input, ts. split; [rewrite mem_global_of_eq; exact Hlog|exact Hd]. }
  assert (Hh : h < length (g_slots g)) by (apply nth_error_Some; congruence).
  destruct (Nat.eq_dec (S k) (mem_nout c)) as [Elast|Nlast].
  - (* last output: recycled *)
    destruct (mem_release_last_inv c (mem_add_out (mem_global_of g h r l (PhOut (S k)) m lr1) (l_rid l, k, d)) h
                (mem_go_rec r (l_rid l) lr1) (SLive (mem_go_live r l (PhOut (S k)) m))) as (g' & Hrel & Hinv' & _).
    + apply mem_inv_x_add_out; [|exact Hout]. eapply (mem_global_of_inv c g None h); eauto.
    + cbn. eapply mem_slot_nth_global_of; eauto.
    + cbn. rewrite Hrc. lia.
    + rewrite mem_go_rec_fields_length. exact Hfl.
    + eapply mem_backbuf_ok_weaken. apply (mem_backbuf_ok_global_of g h r l (PhOut (S k)) m lr1 (l_n l)); auto.
    + rewrite Hrel. exact Hinv'.
  - (* further outputs follow *)
    rewrite (mem_release_more _ h (mem_go_rec r (l_rid l) lr1) (SLive (mem_go_live r l (PhOut (S k)) m)));
      [|cbn; eapply mem_slot_nth_global_of; eauto|cbn; lia].
    (* this is the state reached by writing back a struct whose count is already decremented *)
    assert (Heq : mem_with_slots_only (mem_add_out (mem_global_of g h r l (PhOut (S k)) m lr1) (l_rid l, k, d))
                    (mem_list_set (g_slots (mem_add_out (mem_global_of g h r l (PhOut (S k)) m lr1) (l_rid l, k, d))) h
                       {| sl_rec := mem_with_refc (mem_go_rec r (l_rid l) lr1) (r_refc (mem_go_rec r (l_rid l) lr1) - 1);
                          sl_state := SLive (mem_go_live r l (PhOut (S k)) m) |})
                  = mem_add_out (mem_global_of g h (mem_with_refc r (r_refc r - 1)) l (PhOut (S k)) m lr1) (l_rid l, k, d)).
    { rewrite !mem_global_of_eq. unfold mem_with_slots_only, mem_add_out. cbn. rewrite mem_list_set_twice. reflexivity. }
    rewrite Heq.
    eapply mem_inv_x_close.
    + apply mem_inv_x_add_out; [|rewrite mem_global_of_eq; cbn; exists input, ts; split; [exact Hlog|exact Hd]].
      eapply (mem_global_of_inv c g None h); eauto.
    + intros s Hs'. cbn in Hs'.
      rewrite (mem_slot_nth_global_of g h (mem_with_refc r (r_refc r - 1)) l (PhOut (S k)) m lr1 _ Hs) in Hs'. inversion Hs'; subst s.
      cbn [mem_slot_inv sl_state sl_rec].
      destruct (mem_live_inv_global_of c g h (mem_with_refc r (r_refc r - 1)) l (PhOut (S k)) m lr1 input ts)
        as (i2 & t2 & m2 & l2 & A1 & A2 & A3 & A4 & A5 & A6 & A7); auto.
      * cbn. lia.
      * cbn. rewrite Hrc. lia.
      * cbn. rewrite Hst, Hlr1. reflexivity.
      * exists i2, t2, m2, l2. repeat split; auto.
Qed.

(* ---------------- Parse: NewRecord ---------------- *)
Lemma mem_new_record_cases : forall c g cs cb input h r bufs cpy slots,
  mem_new_record c g cs cb input = inl (Some (h, r, bufs, cpy, slots)) ->
  exists r0,
    ((cs = None /\ h = length (g_slots g) /\ r0 = mem_new_struct (c_maxfields c) /\
      slots = g_slots g ++ [{| sl_rec := r0; sl_state := SInPool |}])
     \/ (cs = Some h /\ nth_error (g_slots g) h = Some {| sl_rec := r0; sl_state := SInPool |} /\ slots = g_slots g)) /\
    r_fields r = r_fields r0 /\ r_rawlen r = r_rawlen r0 /\ r_ts r = r_ts r0 /\ r_unesc r = r_unesc r0 /\
    r_refc r = (r_refc r0 + Z.of_nat (mem_nout c))%Z /\
    ( (r_backbuf r = r_backbuf r0 /\ bufs = g_bufs g /\ cpy = input)
      \/ (exists cl, mem_get_class (N.of_nat (length input)) = Ok cl /\ cpy = [] /\
            ( (r_backbuf r = Some (length (g_bufs g)) /\
               bufs = g_bufs g ++ [{| b_data := input ++ repeat 0%N (N.to_nat (mem_class_size cl) - length input);
                                      b_class := cl; b_free := false; b_gen := 0 |}])
              \/ (exists b old, nth_error (g_bufs g) b = Some old /\ b_free old = true /\ b_class old = cl /\ r_backbuf r = Some b /\
                    bufs = mem_list_set (g_bufs g) b
                             {| b_data := firstn (length (b_data old)) input ++ skipn (length input) (b_data old);
                                b_class := b_class old; b_free := false; b_gen := b_gen old |}))) ).
Proof.
  intros c g cs cb input h r bufs cpy slots H. unfold mem_new_record in H.
  set (pick := match cs with
               | Some h0 => match nth_error (g_slots g) h0 with
                            | Some {| sl_rec := r1; sl_state := SInPool |} => Some (h0, r1, g_slots g)
                            | _ => None end
               | None => Some (length (g_slots g), mem_new_struct (c_maxfields c),
                               g_slots g ++ [{| sl_rec := mem_new_struct (c_maxfields c); sl_state := SInPool |}])
               end) in *.
  assert (Hpick : forall h0 r0 sl0, pick = Some (h0, r0, sl0) ->
            (cs = None /\ h0 = length (g_slots g) /\ r0 = mem_new_struct (c_maxfields c) /\
             sl0 = g_slots g ++ [{| sl_rec := r0; sl_state := SInPool |}])
            \/ (cs = Some h0 /\ nth_error (g_slots g) h0 = Some {| sl_rec := r0; sl_state := SInPool |} /\ sl0 = g_slots g)).
  { intros h0 r0 sl0 Hp. unfold pick in Hp. destruct cs as [hc|].
    - destruct (nth_error (g_slots g) hc) as [[r1 [|l1|]]|] eqn:E; try discriminate. inversion Hp; subst. right. auto.
    - inversion Hp; subst. left. auto. }
  destruct pick as [[[h0 r0] sl0]|] eqn:Ep; [|discriminate].
  specialize (Hpick h0 r0 sl0 eq_refl).
  exists r0.
  destruct (p_min_pool (c_params c) <? N.of_nat (length input))%N.
  - destruct (mem_get_class (N.of_nat (length input))) as [cl|e|p] eqn:Eg; try discriminate.
    destruct cb as [b|].
    + destruct (nth_error (g_bufs g) b) as [old|] eqn:Eb; [|discriminate].
      destruct (b_free old && (b_class old =? cl)%N)%bool eqn:Ef; [|discriminate].
      apply andb_true_iff in Ef. destruct Ef as [Ef1 Ef2]. apply N.eqb_eq in Ef2.
      inversion H; subst. cbn. split; [exact Hpick|]. repeat split; auto.
      right. exists (b_class old). repeat split; auto. right. exists b, old. repeat split; auto.
    + inversion H; subst. cbn. split; [exact Hpick|]. repeat split; auto.
      right. exists cl. repeat split; auto.
  - destruct cb; [discriminate|]. inversion H; subst. cbn. split; [exact Hpick|]. repeat split; auto.
Qed.

Lemma mem_slot_inv_backbuf : forall c g s b, mem_slot_inv c g s -> r_backbuf (sl_rec s) = Some b ->
  exists bf, nth_error (g_bufs g) b = Some bf /\ b_free bf = false.
Proof.
  intros c g s b H Hb. unfold mem_slot_inv in H. destruct (sl_state s) as [|l|].
  - destruct H as (_ & _ & _ & Hn & _). congruence.
  - destruct H as (input & ts & m & lr & _ & _ & _ & _ & _ & _ & Hok). unfold mem_backbuf_ok in Hok. rewrite Hb in Hok.
    destruct Hok as (bf & H1 & H2 & _). eauto.
  - unfold mem_backbuf_ok in H. rewrite Hb in H. destruct H as (bf & H1 & H2 & _). eauto.
Qed.

Definition mem_parse_state (g : mem_gstate) (slots : list mem_slot) (bufs : list mem_buf) (h : nat)
           (r1 : mem_rstruct) (l : mem_live) (input : bytes) (ts : Z) : mem_gstate :=
  {| g_slots := mem_list_set slots h {| sl_rec := r1; sl_state := SLive l |}; g_bufs := bufs; g_cfg := g_cfg g;
     g_dirty := g_dirty g; g_next_rid := S (g_next_rid g); g_log := g_log g ++ [(g_next_rid g, input, ts)];
     g_status := g_status g; g_out := g_out g |}.

Definition mem_parse_rec (r : mem_rstruct) (input : bytes) (ts : Z) : mem_rstruct :=
  {| r_fields := r_fields r; r_rawlen := Z.of_nat (length input); r_ts := ts; r_unesc := r_unesc r;
     r_backbuf := r_backbuf r; r_refc := r_refc r |}.

Definition mem_parse_live (g : mem_gstate) (input cpy : bytes) : mem_live :=
  {| l_rid := g_next_rid g; l_n := length input; l_copy := cpy; l_fresh := []; l_phase := PhParsed |}.

Lemma mem_class_fits_nat : forall n cl, (N.of_nat n < 2 ^ 31)%N -> mem_get_class (N.of_nat n) = Ok cl ->
  (cl <= 31)%N /\ n <= N.to_nat (mem_class_size cl).
Proof.
  intros n cl Hlt Hg. destruct (mem_get_class_sound _ Hlt) as (c' & Hg' & Hc & Hfit & _).
  rewrite Hg in Hg'. inversion Hg'; subst c'. split; [exact Hc|]. lia.
Qed.

Lemma mem_parse_prelude : forall c g cs cb input ts h r bufs cpy slots,
  mem_inv c g -> (N.of_nat (length input) < 2 ^ 31)%N ->
  mem_new_record c g cs cb input = inl (Some (h, r, bufs, cpy, slots)) ->
  let r1 := mem_parse_rec r input ts in
  let l := mem_parse_live g input cpy in
  let gA := mem_parse_state g slots bufs h r1 l input ts in
  mem_inv_x c gA (Some h) /\
  nth_error (g_slots gA) h = Some {| sl_rec := r1; sl_state := SLive l |} /\
  mem_local_of gA r1 l = Some (mem_spec_m0 c input, mem_spec_r0 c input ts (r_unesc r)) /\
  mem_backbuf_ok gA r1 (length input) /\ r_refc r1 = Z.of_nat (mem_nout c).
Proof.
  intros c g cs cb input ts h r bufs cpy slots Hinv Hsize Hnr r1 l gA.
  destruct (mem_new_record_cases _ _ _ _ _ _ _ _ _ _ Hnr) as (r0 & Hpick & Hf & Hrl & Hts & Hun & Hrc & Hbuf).
  destruct Hinv as [[Icfg Idirty] Islots Iexcl Ibufs Ilog Ilogf Iout Istat].
  (* the struct comes clean out of the pool *)
  assert (Hclean : mem_pooled_clean c r0).
  { destruct Hpick as [(_ & _ & -> & _)|(_ & Hs & _)].
    - unfold mem_pooled_clean, mem_new_struct; cbn. auto.
    - apply (Islots h _ ltac:(discriminate) Hs). }
  destruct Hclean as (Cf & Crl & Cts & Cbb & Crc).
  (* the slots *)
  assert (Hh : h < length slots).
  { destruct Hpick as [(_ & -> & _ & ->)|(_ & Hs & ->)]; [rewrite app_length; cbn; lia|apply nth_error_Some; congruence]. }
  assert (Hother : forall h' s, h' <> h -> nth_error (mem_list_set slots h {| sl_rec := r1; sl_state := SLive l |}) h' = Some s ->
                                nth_error (g_slots g) h' = Some s).
  { intros h' s Hne Hs. rewrite mem_list_set_nth_neq in Hs by congruence.
    destruct Hpick as [(_ & -> & _ & ->)|(_ & _ & ->)]; [|exact Hs].
    destruct (Nat.lt_ge_cases h' (length (g_slots g))) as [Hlt|Hge].
    - rewrite nth_error_app1 in Hs by exact Hlt. exact Hs.
    - assert (nth_error (g_slots g ++ [{| sl_rec := r0; sl_state := SInPool |}]) h' = None).
      { apply nth_error_None. rewrite app_length; cbn. lia. }
      congruence. }
  (* the buffers: those of g are kept, except a free one that is taken *)
  assert (Hbufs_old : forall b bf, nth_error (g_bufs g) b = Some bf -> b_free bf = false -> nth_error bufs b = Some bf).
  { intros b bf Hn Hfr. destruct Hbuf as [(_ & -> & _)|(cl & _ & _ & [(_ & ->)|(b0 & old & Ho & Hfo & _ & _ & ->)])].
    - exact Hn.
    - rewrite nth_error_app1; [exact Hn|apply nth_error_Some; congruence].
    - rewrite mem_list_set_nth_neq; [exact Hn|]. intros ->. congruence. }
  assert (Hframe : forall s, mem_slot_inv c g s -> mem_slot_inv c gA s).
  { intros s Hsi. eapply mem_slot_inv_frame; [|exact Hsi].
    unfold mem_frame; cbn. split; [reflexivity|]. split; [reflexivity|]. split; [apply incl_appl, incl_refl|].
    intros b bf Hb Hn. destruct (mem_slot_inv_backbuf c g s b Hsi Hb) as (bf' & Hn' & Hfr').
    rewrite Hn in Hn'. inversion Hn'; subst bf'. apply Hbufs_old; assumption. }
  (* the new record's buffer *)
  assert (Hmine : match r_backbuf r with
                  | None => cpy = input
                  | Some b => exists bf, nth_error bufs b = Some bf /\ b_free bf = false /\ (b_class bf <= 31)%N /\
                                         length (b_data bf) = N.to_nat (mem_class_size (b_class bf)) /\
                                         firstn (length input) (b_data bf) = input /\ length input <= length (b_data bf) /\
                                         (forall bf0, nth_error (g_bufs g) b = Some bf0 -> b_free bf0 = true)
                  end).
  { destruct Hbuf as [(Hb & _ & ->)|(cl & Hg & _ & [(Hb & ->)|(b0 & old & Ho & Hfo & Hco & Hb & ->)])].
    - rewrite Hb, Cbb. reflexivity.
    - rewrite Hb. destruct (mem_class_fits_nat _ _ Hsize Hg) as [Hcl Hfit].
      eexists. split; [rewrite nth_error_app2 by lia; rewrite Nat.sub_diag; reflexivity|]. cbn.
      repeat split; auto.
      + rewrite app_length, repeat_length. lia.
      + apply mem_firstn_app_exact. reflexivity.
      + rewrite app_length. lia.
      + intros bf0 Hn0. assert (length (g_bufs g) < length (g_bufs g)) by (apply nth_error_Some; congruence). lia.
    - rewrite Hb. destruct (mem_class_fits_nat _ _ Hsize Hg) as [Hcl Hfit].
      destruct (Ibufs b0 old Ho) as [_ Hlo]. rewrite Hco in Hlo.
      assert (Hb0 : b0 < length (g_bufs g)) by (apply nth_error_Some; congruence).
      eexists. split; [apply mem_list_set_nth_eq; exact Hb0|]. cbn.
      assert (Hfi : firstn (length (b_data old)) input = input) by (apply firstn_all2; lia).
      rewrite Hfi, Hco. repeat split; auto.
      + rewrite app_length, skipn_length. lia.
      + apply mem_firstn_app_exact. reflexivity.
      + rewrite app_length. lia.
      + intros bf0 Hn0. congruence. }
  assert (Hrb1 : r_backbuf r1 = r_backbuf r) by reflexivity.
  split; [|split; [|split; [|split]]].
  - (* invariant, slot h exempt *)
    constructor; cbn.
    + split; assumption.
    + intros h' s Hne Hs. apply Hframe. eapply (Islots h'); [discriminate|]. apply Hother; [congruence|exact Hs].
    + intros h1 h2 s1 s2 b Hne H1 H2 Hb1 Hb2.
      assert (Hclash : forall h' s', h' <> h -> nth_error (g_slots g) h' = Some s' -> r_backbuf (sl_rec s') = Some b ->
                                     r_backbuf r = Some b -> False).
      { intros h' s' Hne' Hs' Hb' Hrb. destruct (mem_slot_inv_backbuf c g s' b (Islots h' s' ltac:(discriminate) Hs') Hb') as (bf' & Hn' & Hfr').
        rewrite Hrb in Hmine. destruct Hmine as (_ & _ & _ & _ & _ & _ & _ & Hfree). specialize (Hfree bf' Hn'). congruence. }
      destruct (Nat.eq_dec h1 h) as [->|N1]; destruct (Nat.eq_dec h2 h) as [->|N2]; try congruence.
      * rewrite mem_list_set_nth_eq in H1 by exact Hh. inversion H1; subst s1. cbn in Hb1.
        apply (Hclash h2 s2); auto.
      * rewrite mem_list_set_nth_eq in H2 by exact Hh. inversion H2; subst s2. cbn in Hb2.
        apply (Hclash h1 s1); auto.
      * eapply (Iexcl h1 h2); eauto.
    + intros b bf Hn.
      destruct Hbuf as [(_ & -> & _)|(cl & Hg & _ & [(Hb & ->)|(b0 & old & Ho & Hfo & Hco & Hb & ->)])].
      * eapply Ibufs; eauto.
      * destruct (Nat.lt_ge_cases b (length (g_bufs g))) as [Hlt|Hge].
        -- rewrite nth_error_app1 in Hn by exact Hlt. eapply Ibufs; eauto.
        -- rewrite Hb in Hmine. destruct Hmine as (bf1 & Hn1 & _ & Hc1 & Hl1 & _).
           destruct (Nat.eq_dec b (length (g_bufs g))) as [->|Nb]; [rewrite Hn in Hn1; inversion Hn1; subst; auto|].
           assert (nth_error (g_bufs g ++ [{| b_data := input ++ repeat 0%N (N.to_nat (mem_class_size cl) - length input);
                                               b_class := cl; b_free := false; b_gen := 0 |}]) b = None).
           { apply nth_error_None. rewrite app_length; cbn. lia. }
           congruence.
      * destruct (Nat.eq_dec b b0) as [->|Nb].
        -- rewrite Hb in Hmine. destruct Hmine as (bf1 & Hn1 & _ & Hc1 & Hl1 & _). rewrite Hn in Hn1. inversion Hn1; subst. auto.
        -- rewrite mem_list_set_nth_neq in Hn by congruence. eapply Ibufs; eauto.
    + intros rid i t Hin. apply in_app_or in Hin. destruct Hin as [Hin|[Heq|[]]].
      * destruct (Ilog _ _ _ Hin). split; [lia|assumption].
      * inversion Heq; subst. split; [lia|exact Hsize].
    + intros rid i1 t1 i2 t2 H1 H2. apply in_app_or in H1. apply in_app_or in H2.
      destruct H1 as [H1|[H1|[]]]; destruct H2 as [H2|[H2|[]]].
      * eapply Ilogf; eauto.
      * inversion H2; subst. destruct (Ilog _ _ _ H1). lia.
      * inversion H1; subst. destruct (Ilog _ _ _ H2). lia.
      * inversion H1; inversion H2; subst. split; congruence.
    + intros rid k d Hin. destruct (Iout _ _ _ Hin) as (i & t & Hi & Ho). exists i, t. split; [apply in_or_app; left; exact Hi|exact Ho].
    + intros rid st Hin. destruct (Istat _ _ Hin) as (i & t & Hi & Ho). exists i, t. split; [apply in_or_app; left; exact Hi|exact Ho].
  - cbn. apply mem_list_set_nth_eq. exact Hh.
  - unfold mem_local_of. cbn [l_rid mem_parse_live r_fields mem_parse_rec r1 l].
    rewrite Hf, Cf, mem_erase_empty. unfold mem_spec_m0, mem_spec_r0. cbn. rewrite Icfg, Idirty. do 3 f_equal.
    unfold mem_own_view. cbn. change {| b_data := []; b_class := 0; b_free := true; b_gen := 0 |} with mem_dummy_buf.
    destruct (r_backbuf r) as [b|]; [|exact Hmine].
    destruct Hmine as (bf & Hn & _ & _ & _ & Hfirst & _). rewrite (mem_nth_of_nth_error _ _ _ mem_dummy_buf Hn). exact Hfirst.
  - unfold mem_backbuf_ok. cbn. destruct (r_backbuf r) as [b|]; [|exact I].
    destruct Hmine as (bf & Hn & Hfr & _ & _ & _ & Hle & _). exists bf. auto.
  - cbn. rewrite Hrc, Crc. lia.
Qed.

Lemma mem_spec_parsed_u_live : forall c input ts u m r,
  mem_spec_parsed c input ts u = SgLive m r -> mem_spec_parsed c input ts false = SgLive m r.
Proof.
  intros c input ts u m r H. rewrite mem_spec_parsed_unesc in H.
  destruct (mem_spec_parsed c input ts false) as [s|st m0 r0|m0 r0]; try discriminate; [destruct st; discriminate|exact H].
Qed.

Lemma mem_spec_parsed_u_gone : forall c input ts u st m r,
  mem_spec_parsed c input ts u = SgGone st m r -> exists r', mem_spec_parsed c input ts false = SgGone st m r'.
Proof.
  intros c input ts u st m r H. rewrite mem_spec_parsed_unesc in H.
  destruct (mem_spec_parsed c input ts false) as [s|st0 m0 r0|m0 r0]; try discriminate.
  destruct st0; inversion H; subst; eauto.
Qed.

Lemma mem_new_record_inr : forall c g cs cb input s, mem_new_record c g cs cb input = inr s -> s = PoolIndexPanic.
Proof.
  intros c g cs cb input s H. unfold mem_new_record in H.
  destruct (match cs with Some h => _ | None => _ end) as [[[h0 r0] sl0]|]; [|discriminate].
  destruct (p_min_pool (c_params c) <? N.of_nat (length input))%N.
  - destruct (mem_get_class _); try (inversion H; reflexivity).
    destruct cb as [b|]; [|discriminate].
    destruct (nth_error (g_bufs g) b); [|discriminate]. destruct (_ && _)%bool; discriminate.
  - destruct cb; discriminate.
Qed.

(* ---------------- one Parse call ---------------- *)
Lemma mem_step_parse_ok : forall c g cs cb input ts, mem_inv c g -> mem_targets_own c -> 1 <= mem_nout c ->
  (N.of_nat (length input) < 2 ^ 31)%N -> mem_step_ok c g (EvParse cs cb input ts).
Proof.
  intros c g cs cb input ts Hinv Htgt Hn1 Hsize. unfold mem_step_ok. cbn [mem_step].
  destruct (mem_new_record c g cs cb input) as [[[[[[h r] bufs] cpy] slots]|]|s] eqn:Enr.
  2: split; discriminate.
  2: apply mem_new_record_inr in Enr; subst s; split; discriminate.
  destruct (mem_parse_prelude c g cs cb input ts h r bufs cpy slots Hinv Hsize Enr) as (HinvA & HsA & HlocA & HbbA & HrcA).
  set (r1 := mem_parse_rec r input ts) in *. set (l := mem_parse_live g input cpy) in *.
  set (gA := mem_parse_state g slots bufs h r1 l input ts) in *.
  match goal with |- context [mem_local_of ?G ?R ?L] => change G with gA; change R with r1; change L with l end.
  rewrite HlocA.
  assert (HlogA : In (g_next_rid g, input, ts) (g_log gA)) by (cbn; apply in_or_app; right; left; reflexivity).
  destruct (Htgt input ts (r_unesc r)) as [Hc1 _].
  pose proof (mem_spec_parsed_shape c input ts (r_unesc r)) as Hshape.
  unfold mem_spec_parsed in Hc1, Hshape.
  pose proof (fun st m rr => mem_spec_parsed_u_gone c input ts (r_unesc r) st m rr) as Hgone.
  pose proof (fun m rr => mem_spec_parsed_u_live c input ts (r_unesc r) m rr) as Hlive.
  destruct (mem_parse (c_params c) (c_level_sites c) (mem_spec_m0 c input) (mem_spec_r0 c input ts (r_unesc r)))
    as [[[[m1 lr1] pst] ov]| |s] eqn:Eparse;
    [|apply (mem_lres_stop_benign (@RFault (mem_lmem * mem_lrec * mem_parse_status * bool)))
     |apply (mem_lres_stop_benign (@RPanic (mem_lmem * mem_lrec * mem_parse_status * bool) s))].
  assert (Hrel : forall m2 lr2 st, mem_cfg_clean c m2 -> length (m_own m2) = length input -> length (lr_fields lr2) = c_maxfields c ->
            (exists rr, mem_spec_parsed c input ts false = SgGone st m2 rr) ->
            match mem_release_final (mem_global_of gA h r1 l PhParsed m2 lr2) h (g_next_rid g) st with
            | StepOk g' => mem_inv c g' | StepStop s0 => s0 <> Dangling /\ s0 <> NegativeRefCount end).
  { intros m2 lr2 st Hcl Hl1 Hl2 (rr & Hsp).
    destruct (mem_release_final_inv c (mem_global_of gA h r1 l PhParsed m2 lr2) h
                (mem_go_rec r1 (l_rid l) lr2) (mem_go_live r1 l PhParsed m2) (g_next_rid g) st) as (g' & Hrel & Hinv' & _).
    - eapply (mem_global_of_inv c gA (Some h) h); eauto.
    - eapply mem_slot_nth_global_of; eauto.
    - cbn. exact HrcA.
    - exact Hn1.
    - rewrite mem_go_rec_fields_length. exact Hl2.
    - apply mem_backbuf_ok_global_of; auto.
    - exists input, ts. split; [rewrite mem_global_of_eq; exact HlogA|]. unfold mem_spec_status. rewrite Hsp. reflexivity.
    - rewrite Hrel. exact Hinv'. }
  destruct pst.
  - (* header accepted: the extractions run *)
    unfold mem_after_txs in Hc1, Hshape.
    destruct (mem_run_txs (c_trunc_mode c) m1 lr1 (c_extract c)) as [[[m2 lr2] b]| |s] eqn:Etx;
      [|apply (mem_lres_stop_benign (@RFault (mem_lmem * mem_lrec * bool)))|apply (mem_lres_stop_benign (@RPanic (mem_lmem * mem_lrec * bool) s))].
    destruct b; cbn in Hc1, Hshape; destruct Hshape as [Hsh1 Hsh2].
    + eapply mem_inv_x_close.
      * eapply (mem_global_of_inv c gA (Some h) h); eauto.
      * intros s Hs'. rewrite (mem_slot_nth_global_of gA h r1 l PhParsed m2 lr2 _ HsA) in Hs'. inversion Hs'; subst s.
        cbn. apply (mem_live_inv_global_of c gA h r1 l PhParsed m2 lr2 input ts); auto.
        -- exact I.
        -- cbn. rewrite (Hlive m2 lr2); [reflexivity|].
           unfold mem_spec_parsed. rewrite Eparse. unfold mem_after_txs. rewrite Etx. reflexivity.
    + apply Hrel; auto. apply (Hgone StDropped m2 lr2).
      unfold mem_spec_parsed. rewrite Eparse. unfold mem_after_txs. rewrite Etx. reflexivity.
  - (* malformed *)
    cbn in Hc1, Hshape. destruct Hshape as [Hsh1 Hsh2]. apply Hrel; auto. apply (Hgone StMalformed m1 lr1).
    unfold mem_spec_parsed. rewrite Eparse. reflexivity.
Qed.

(* ================================================================== *)
(* 7. all histories                                                     *)
(* ================================================================== *)

(* the stated maximum of a record's length (the listener's line buffer is far smaller) *)
Definition mem_ev_ok (e : mem_event) : Prop :=
  match e with EvParse _ _ input _ => (N.of_nat (length input) < 2 ^ 31)%N | _ => True end.

Lemma mem_step_preserves : forall c g e, mem_inv c g -> mem_targets_own c -> 1 <= mem_nout c -> mem_ev_ok e -> mem_step_ok c g e.
Proof.
  intros c g e Hinv Htgt Hn He. destruct e as [cs cb input ts|h|h].
  - apply mem_step_parse_ok; assumption.
  - apply mem_step_transform_ok; assumption.
  - apply mem_step_output_ok; assumption.
Qed.

Definition mem_run_ok (c : mem_config) (res : mem_step_res) : Prop :=
  match res with
  | StepOk g' => mem_inv c g'
  | StepStop s => s <> Dangling /\ s <> NegativeRefCount
  end.

Lemma mem_run_preserves : forall c evs g, mem_inv c g -> mem_targets_own c -> 1 <= mem_nout c -> Forall mem_ev_ok evs ->
  mem_run_ok c (mem_run c g evs).
Proof.
  induction evs as [|e evs IH]; intros g Hinv Htgt Hn Hev; cbn.
  - exact Hinv.
  - inversion Hev; subst.
    pose proof (mem_step_preserves c g e Hinv Htgt Hn H1) as Hs. unfold mem_step_ok in Hs.
    destruct (mem_step c g e) as [g'|s]; [apply IH; assumption|exact Hs].
Qed.

Lemma mem_reachable_inv : forall c evs g, mem_targets_own c -> 1 <= mem_nout c -> Forall mem_ev_ok evs ->
  mem_run c (mem_init c) evs = StepOk g -> mem_inv c g.
Proof.
  intros c evs g Htgt Hn Hev Hrun.
  pose proof (mem_run_preserves c evs (mem_init c) (mem_inv_init c) Htgt Hn Hev) as H. rewrite Hrun in H. exact H.
Qed.

(* ISOLATION, two-history form: whatever happened before and around it, on any pool behaviour, a record's
   decoded output for output k is a function of the record (input bytes, fallback timestamp) and the configuration *)
Lemma mem_isolation_two_runs : forall c evs1 evs2 g1 g2 input ts rid1 rid2 k d1 d2,
  mem_targets_own c -> 1 <= mem_nout c -> Forall mem_ev_ok evs1 -> Forall mem_ev_ok evs2 ->
  mem_run c (mem_init c) evs1 = StepOk g1 -> mem_run c (mem_init c) evs2 = StepOk g2 ->
  In (rid1, input, ts) (g_log g1) -> In (rid2, input, ts) (g_log g2) ->
  In (rid1, k, d1) (g_out g1) -> In (rid2, k, d2) (g_out g2) -> d1 = d2.
Proof.
  intros c evs1 evs2 g1 g2 input ts rid1 rid2 k d1 d2 Htgt Hn He1 He2 Hr1 Hr2 Hl1 Hl2 Ho1 Ho2.
  pose proof (mem_reachable_inv c evs1 g1 Htgt Hn He1 Hr1) as I1.
  pose proof (mem_reachable_inv c evs2 g2 Htgt Hn He2 Hr2) as I2.
  destruct (inv_out _ _ _ I1 _ _ _ Ho1) as (i1 & t1 & Hi1 & Hs1).
  destruct (inv_out _ _ _ I2 _ _ _ Ho2) as (i2 & t2 & Hi2 & Hs2).
  destruct (inv_log_fun _ _ _ I1 _ _ _ _ _ Hl1 Hi1) as [-> ->].
  destruct (inv_log_fun _ _ _ I2 _ _ _ _ _ Hl2 Hi2) as [E1 E2]. subst i2 t2. congruence.
Qed.

(* the same for what happens to the record: malformed, dropped, passed *)
Lemma mem_isolation_status : forall c evs1 evs2 g1 g2 input ts rid1 rid2 s1 s2,
  mem_targets_own c -> 1 <= mem_nout c -> Forall mem_ev_ok evs1 -> Forall mem_ev_ok evs2 ->
  mem_run c (mem_init c) evs1 = StepOk g1 -> mem_run c (mem_init c) evs2 = StepOk g2 ->
  In (rid1, input, ts) (g_log g1) -> In (rid2, input, ts) (g_log g2) ->
  In (rid1, s1) (g_status g1) -> In (rid2, s2) (g_status g2) -> s1 = s2.
Proof.
  intros c evs1 evs2 g1 g2 input ts rid1 rid2 s1 s2 Htgt Hn He1 He2 Hr1 Hr2 Hl1 Hl2 Ho1 Ho2.
  pose proof (mem_reachable_inv c evs1 g1 Htgt Hn He1 Hr1) as I1.
  pose proof (mem_reachable_inv c evs2 g2 Htgt Hn He2 Hr2) as I2.
  destruct (inv_status _ _ _ I1 _ _ Ho1) as (i1 & t1 & Hi1 & Hs1).
  destruct (inv_status _ _ _ I2 _ _ Ho2) as (i2 & t2 & Hi2 & Hs2).
  destruct (inv_log_fun _ _ _ I1 _ _ _ _ _ Hl1 Hi1) as [-> ->].
  destruct (inv_log_fun _ _ _ I2 _ _ _ _ _ Hl2 Hi2) as [E1 E2]. subst i2 t2. congruence.
Qed.

(* NO DANGLING: no step of any history dereferences a string that points into another record's memory, and ... *)
Lemma mem_no_dangling_step : forall c evs, mem_targets_own c -> 1 <= mem_nout c -> Forall mem_ev_ok evs ->
  mem_run c (mem_init c) evs <> StepStop Dangling.
Proof.
  intros c evs Htgt Hn Hev H.
  pose proof (mem_run_preserves c evs (mem_init c) (mem_inv_init c) Htgt Hn Hev) as Hr. rewrite H in Hr. destruct Hr as [Hr _]. congruence.
Qed.

(* ... no string held by a struct (live, pooled or abandoned) points into a buffer that is in the pool *)
Definition mem_str_owner (s : mem_str) : option nat :=
  match s with MStr (Own r) _ _ => Some r | MStr (Fresh r _) _ _ => Some r | _ => None end.

Lemma mem_tag_owner : forall rid s o, mem_str_owner (mem_tag_str rid s) = Some o -> o = rid.
Proof. intros rid [|p off len] o H; cbn in H; [discriminate|]. destruct p; cbn in H; inversion H; reflexivity. Qed.

Lemma mem_erase_owner : forall rid fs efs, mem_erase_fields rid fs = Some efs ->
  forall s o, In s fs -> mem_str_owner s = Some o -> o = rid.
Proof.
  induction fs as [|s0 fs IH]; intros efs H s o Hin Ho; [contradiction|]. cbn in H.
  destruct (mem_erase_str rid s0) as [e0|] eqn:E0; [|discriminate].
  destruct (mem_erase_fields rid fs) as [es|] eqn:E1; [|discriminate].
  destruct Hin as [->|Hin]; [|eapply IH; eauto].
  destruct s as [|p off len]; [discriminate|]. cbn in E0, Ho.
  destruct p as [r'|r' k|site|site]; cbn in E0, Ho; try discriminate; inversion Ho; subst;
    destruct (Nat.eqb rid o) eqn:E; try discriminate; apply Nat.eqb_eq in E; congruence.
Qed.

Lemma mem_no_dangling_state : forall c evs g, mem_targets_own c -> 1 <= mem_nout c -> Forall mem_ev_ok evs ->
  mem_run c (mem_init c) evs = StepOk g ->
  forall h s, nth_error (g_slots g) h = Some s ->
    match sl_state s with
    | SInPool => (* a pooled struct holds no string at all and no buffer *)
        (forall f, In f (r_fields (sl_rec s)) -> f = MEmpty) /\ r_backbuf (sl_rec s) = None
    | SLive l => (* a live struct's strings point into its own memory (or configuration / constants); its buffer is not in the pool *)
        (forall f o, In f (r_fields (sl_rec s)) -> mem_str_owner f = Some o -> o = l_rid l) /\
        (forall b, r_backbuf (sl_rec s) = Some b -> exists bf, nth_error (g_bufs g) b = Some bf /\ b_free bf = false)
    | SAbandoned => forall b, r_backbuf (sl_rec s) = Some b -> exists bf, nth_error (g_bufs g) b = Some bf /\ b_free bf = false
    end.
Proof.
  intros c evs g Htgt Hn Hev Hrun h s Hs.
  pose proof (mem_reachable_inv c evs g Htgt Hn Hev Hrun) as Hinv.
  pose proof (inv_slots _ _ _ Hinv h s ltac:(discriminate) Hs) as Hsi.
  pose proof (fun b => mem_slot_inv_backbuf c g s b Hsi) as Hbb.
  unfold mem_slot_inv in Hsi. destruct (sl_state s) as [|l|].
  - destruct Hsi as (Hf & _ & _ & Hb & _). split; [|exact Hb]. intros f Hin. rewrite Hf in Hin. apply repeat_spec in Hin. exact Hin.
  - split; [|exact Hbb]. destruct Hsi as (input & ts & m & lr & _ & _ & _ & _ & Hloc & _).
    unfold mem_local_of in Hloc. destruct (mem_erase_fields (l_rid l) (r_fields (sl_rec s))) as [efs|] eqn:E; [|discriminate].
    intros f o Hin Ho. eapply mem_erase_owner; eauto.
  - exact Hbb.
Qed.

(* exclusive ownership: two structs never share a backing buffer *)
Lemma mem_buffers_exclusive : forall c evs g, mem_targets_own c -> 1 <= mem_nout c -> Forall mem_ev_ok evs ->
  mem_run c (mem_init c) evs = StepOk g ->
  forall h1 h2 s1 s2 b, h1 <> h2 -> nth_error (g_slots g) h1 = Some s1 -> nth_error (g_slots g) h2 = Some s2 ->
    r_backbuf (sl_rec s1) = Some b -> r_backbuf (sl_rec s2) = Some b -> False.
Proof.
  intros c evs g Htgt Hn Hev Hrun. exact (inv_excl _ _ _ (mem_reachable_inv c evs g Htgt Hn Hev Hrun)).
Qed.

(* POOL CLASSES in every reachable state: a buffer has the size of its class, every buffer attached to a live record
   is at least as long as the record, and a released buffer is filed under the class it was created for *)
Lemma mem_pool_state_sound : forall c evs g, mem_targets_own c -> 1 <= mem_nout c -> Forall mem_ev_ok evs ->
  mem_run c (mem_init c) evs = StepOk g ->
  (forall b bf, nth_error (g_bufs g) b = Some bf ->
     (b_class bf <= 31)%N /\ length (b_data bf) = N.to_nat (mem_class_size (b_class bf)) /\
     mem_put_class (N.of_nat (length (b_data bf))) = Ok (b_class bf)) /\
  (forall h r l b, nth_error (g_slots g) h = Some {| sl_rec := r; sl_state := SLive l |} -> r_backbuf r = Some b ->
     exists bf, nth_error (g_bufs g) b = Some bf /\ l_n l <= length (b_data bf)).
Proof.
  intros c evs g Htgt Hn Hev Hrun. pose proof (mem_reachable_inv c evs g Htgt Hn Hev Hrun) as Hinv. split.
  - intros b bf Hb. destruct (inv_bufs _ _ _ Hinv b bf Hb) as [H1 H2]. repeat split; auto.
    rewrite H2, N2Nat.id. apply mem_put_class_pow2. exact H1.
  - intros h r l b Hs Hb. pose proof (inv_slots _ _ _ Hinv h _ ltac:(discriminate) Hs) as Hsi. cbn in Hsi.
    destruct Hsi as (input & ts & m & lr & _ & _ & _ & _ & _ & _ & Hok). unfold mem_backbuf_ok in Hok. rewrite Hb in Hok.
    destruct Hok as (bf & H1 & _ & H3). eauto.
Qed.

(* REFERENCE COUNTS: never negative in any history; a live record that has been serialized for k outputs holds
   exactly (number of outputs - k) references; a struct in the pool holds none *)
Lemma mem_refcount_never_negative : forall c evs, mem_targets_own c -> 1 <= mem_nout c -> Forall mem_ev_ok evs ->
  mem_run c (mem_init c) evs <> StepStop NegativeRefCount.
Proof.
  intros c evs Htgt Hn Hev H.
  pose proof (mem_run_preserves c evs (mem_init c) (mem_inv_init c) Htgt Hn Hev) as Hr. rewrite H in Hr. destruct Hr as [_ Hr]. congruence.
Qed.

Lemma mem_refcount_balanced : forall c evs g, mem_targets_own c -> 1 <= mem_nout c -> Forall mem_ev_ok evs ->
  mem_run c (mem_init c) evs = StepOk g ->
  forall h s, nth_error (g_slots g) h = Some s ->
    match sl_state s with
    | SInPool => r_refc (sl_rec s) = 0%Z
    | SLive l => match l_phase l with
                 | PhParsed => r_refc (sl_rec s) = Z.of_nat (mem_nout c)
                 | PhOut k => k < mem_nout c /\ r_refc (sl_rec s) = Z.of_nat (mem_nout c - k)
                 end
    | SAbandoned => True
    end.
Proof.
  intros c evs g Htgt Hn Hev Hrun h s Hs.
  pose proof (mem_reachable_inv c evs g Htgt Hn Hev Hrun) as Hinv.
  pose proof (inv_slots _ _ _ Hinv h s ltac:(discriminate) Hs) as Hsi.
  unfold mem_slot_inv in Hsi. destruct (sl_state s) as [|l|]; [|
    destruct Hsi as (input & ts & m & lr & _ & _ & Hpok & Hrc & _); destruct (l_phase l); cbn in *; auto|exact I].
  destruct Hsi as (_ & _ & _ & _ & H). exact H.
Qed.

(* what Release leaves in a recycled struct: every field, the length and the timestamp are cleared *)
Lemma mem_recycled_clean : forall c evs g, mem_targets_own c -> 1 <= mem_nout c -> Forall mem_ev_ok evs ->
  mem_run c (mem_init c) evs = StepOk g ->
  forall h s, nth_error (g_slots g) h = Some s -> sl_state s = SInPool -> mem_pooled_clean c (sl_rec s).
Proof.
  intros c evs g Htgt Hn Hev Hrun h s Hs Hst.
  pose proof (mem_reachable_inv c evs g Htgt Hn Hev Hrun) as Hinv.
  pose proof (inv_slots _ _ _ Hinv h s ltac:(discriminate) Hs) as Hsi. unfold mem_slot_inv in Hsi. rewrite Hst in Hsi. exact Hsi.
Qed.

(* the shared configuration memory is never written *)
Lemma mem_config_memory_constant : forall c evs g, mem_targets_own c -> 1 <= mem_nout c -> Forall mem_ev_ok evs ->
  mem_run c (mem_init c) evs = StepOk g -> g_cfg g = c_cfg_init c /\ g_dirty g = false.
Proof.
  intros c evs g Htgt Hn Hev Hrun. exact (inv_cfg _ _ _ (mem_reachable_inv c evs g Htgt Hn Hev Hrun)).
Qed.

(* ================================================================== *)
(* 8. progress: the record alone on a fresh pipeline does produce its outputs *)
(* ================================================================== *)

Lemma mem_spec_parsed_live_any_u : forall c input ts u m r,
  mem_spec_parsed c input ts false = SgLive m r -> mem_spec_parsed c input ts u = SgLive m r.
Proof. intros c input ts u m r H. rewrite mem_spec_parsed_unesc, H. reflexivity. Qed.

Lemma mem_step_parse_progress : forall c g cs cb input ts h r bufs cpy slots m2 lr2,
  mem_inv c g -> (N.of_nat (length input) < 2 ^ 31)%N ->
  mem_new_record c g cs cb input = inl (Some (h, r, bufs, cpy, slots)) ->
  mem_spec_parsed c input ts false = SgLive m2 lr2 ->
  exists g' r' l', mem_step c g (EvParse cs cb input ts) = StepOk g' /\
    nth_error (g_slots g') h = Some {| sl_rec := r'; sl_state := SLive l' |} /\
    l_rid l' = g_next_rid g /\ l_phase l' = PhParsed /\ g_out g' = g_out g /\ g_log g' = g_log g ++ [(g_next_rid g, input, ts)].
Proof.
  intros c g cs cb input ts h r bufs cpy slots m2 lr2 Hinv Hsize Enr Hsp.
  cbn [mem_step]. rewrite Enr.
  destruct (mem_parse_prelude c g cs cb input ts h r bufs cpy slots Hinv Hsize Enr) as (HinvA & HsA & HlocA & HbbA & HrcA).
  set (r1 := mem_parse_rec r input ts) in *. set (l := mem_parse_live g input cpy) in *.
  set (gA := mem_parse_state g slots bufs h r1 l input ts) in *.
  match goal with |- context [mem_local_of ?G ?R ?L] => change G with gA; change R with r1; change L with l end.
  rewrite HlocA.
  pose proof (mem_spec_parsed_live_any_u c input ts (r_unesc r) m2 lr2 Hsp) as Hu. unfold mem_spec_parsed in Hu.
  destruct (mem_parse (c_params c) (c_level_sites c) (mem_spec_m0 c input) (mem_spec_r0 c input ts (r_unesc r)))
    as [[[[m1 lr1] pst] ov]| |s]; try discriminate.
  destruct pst; [|discriminate]. unfold mem_after_txs in Hu.
  destruct (mem_run_txs (c_trunc_mode c) m1 lr1 (c_extract c)) as [[[m3 lr3] b]| |s]; try discriminate.
  destruct b; [|discriminate]. inversion Hu; subst m3 lr3.
  eexists. exists (mem_go_rec r1 (l_rid l) lr2), (mem_go_live r1 l PhParsed m2). split; [reflexivity|].
  split; [eapply mem_slot_nth_global_of; eauto|]. split; [reflexivity|]. split; [reflexivity|].
  rewrite mem_global_of_eq. cbn. split; reflexivity.
Qed.

Lemma mem_step_transform_progress : forall c g h r l input ts mT rT,
  mem_inv c g -> nth_error (g_slots g) h = Some {| sl_rec := r; sl_state := SLive l |} -> l_phase l = PhParsed ->
  In (l_rid l, input, ts) (g_log g) -> mem_spec_transformed c input ts = SgLive mT rT ->
  exists g' r' l', mem_step c g (EvTransform h) = StepOk g' /\
    nth_error (g_slots g') h = Some {| sl_rec := r'; sl_state := SLive l' |} /\
    l_rid l' = l_rid l /\ l_phase l' = PhOut 0 /\ g_out g' = g_out g /\ g_log g' = g_log g.
Proof.
  intros c g h r l input ts mT rT Hinv Hs Hph Hlog HspT.
  cbn [mem_step]. rewrite Hs, Hph.
  pose proof (inv_slots _ _ _ Hinv h _ ltac:(discriminate) Hs) as Hlive. cbn in Hlive.
  destruct Hlive as (i0 & t0 & m & lr & Hlog0 & Hnl & Hpok & Hrc & Hloc & Hspec & Hbb).
  destruct (inv_log_fun _ _ _ Hinv _ _ _ _ _ Hlog Hlog0) as [<- <-].
  rewrite Hloc. rewrite Hph in Hspec. cbn in Hspec.
  unfold mem_spec_transformed in HspT.
  destruct (mem_spec_parsed c input ts false) as [s0|st0 m0 r0|m0 r0]; try discriminate.
  inversion Hspec; subst m0 r0. unfold mem_after_txs in HspT.
  destruct (mem_run_txs (c_trunc_mode c) m lr (c_transforms c)) as [[[m3 lr3] b]| |s]; try discriminate.
  destruct b; [|discriminate]. inversion HspT; subst m3 lr3.
  eexists. exists (mem_go_rec r (l_rid l) rT), (mem_go_live r l (PhOut 0) mT). split; [reflexivity|].
  split; [cbn; eapply mem_slot_nth_global_of; eauto|]. repeat split; rewrite mem_global_of_eq; reflexivity.
Qed.

Lemma mem_step_output_full : forall c g h r l k, mem_inv c g ->
  nth_error (g_slots g) h = Some {| sl_rec := r; sl_state := SLive l |} -> l_phase l = PhOut k ->
  exists g' input ts d, mem_step c g (EvOutput h) = StepOk g' /\ mem_inv c g' /\
    In (l_rid l, input, ts) (g_log g) /\ mem_spec_out c input ts k = Some d /\
    g_out g' = g_out g ++ [(l_rid l, k, d)] /\ g_log g' = g_log g /\
    (S k < mem_nout c -> exists r' l', nth_error (g_slots g') h = Some {| sl_rec := r'; sl_state := SLive l' |} /\
                                       l_rid l' = l_rid l /\ l_phase l' = PhOut (S k)).
Proof.
  intros c g h r l k Hinv Hs Hph. cbn [mem_step]. rewrite Hs, Hph.
  pose proof (inv_slots _ _ _ Hinv h _ ltac:(discriminate) Hs) as Hlive. cbn in Hlive.
  destruct Hlive as (input & ts & m & lr & Hlog & Hnl & Hpok & Hrc & Hloc & Hspec & Hbb).
  rewrite Hph in *. cbn in Hpok, Hrc.
  destruct (nth_error (c_outputs c) k) as [oc|] eqn:Hoc; [|apply nth_error_None in Hoc; unfold mem_nout in Hpok; lia].
  rewrite Hloc.
  destruct (mem_serialize (c_rw_sets_flag c) (c_nfields c) oc m lr) as [d lr1] eqn:Eser.
  destruct (mem_spec_at_shape _ _ _ _ _ _ Hspec) as [Hsh1 Hsh2].
  assert (Hlen : length (m_own m) = l_n l) by congruence.
  destruct (mem_local_of_cfg _ _ _ _ _ Hloc) as [Hmc Hmd].
  assert (Hclean : mem_cfg_clean c m).
  { destruct (inv_cfg _ _ _ Hinv) as [Hc1 Hc2]. split; congruence. }
  cbn in Hspec.
  destruct (mem_spec_transformed c input ts) as [s0|st0 mT rT|mT rT] eqn:Hst; try discriminate.
  inversion Hspec; subst mT. clear Hspec. rename H1 into Hlr.
  assert (Hlr1 : lr1 = mem_ser_upto c m rT (c_outputs c) (S k)).
  { rewrite (mem_ser_upto_step c m (c_outputs c) k rT oc Hoc). rewrite Hlr, Eser. reflexivity. }
  assert (Hd : mem_spec_out c input ts k = Some d).
  { unfold mem_spec_out. rewrite Hst, Hoc, Hlr, Eser. reflexivity. }
  assert (Hfl : length (lr_fields lr1) = c_maxfields c).
  { rewrite (mem_serialize_fields _ _ _ _ _ _ _ Eser). exact Hsh2. }
  (* the state before Release *)
  change {| g_slots := g_slots (mem_global_of g h r l (PhOut (S k)) m lr1);
            g_bufs := g_bufs (mem_global_of g h r l (PhOut (S k)) m lr1);
            g_cfg := g_cfg (mem_global_of g h r l (PhOut (S k)) m lr1);
            g_dirty := g_dirty (mem_global_of g h r l (PhOut (S k)) m lr1);
            g_next_rid := g_next_rid (mem_global_of g h r l (PhOut (S k)) m lr1);
            g_log := g_log (mem_global_of g h r l (PhOut (S k)) m lr1);
            g_status := g_status (mem_global_of g h r l (PhOut (S k)) m lr1);
            g_out := g_out (mem_global_of g h r l (PhOut (S k)) m lr1) ++ [(l_rid l, k, d)] |}
    with (mem_add_out (mem_global_of g h r l (PhOut (S k)) m lr1) (l_rid l, k, d)).
  assert (Hout : exists input0 ts0, In (l_rid l, input0, ts0) (g_log (mem_global_of g h r l (PhOut (S k)) m lr1)) /\
                                    mem_spec_out c input0 ts0 k = Some d).
  { exists input, ts. split; [rewrite mem_global_of_eq; exact Hlog|exact Hd]. }
  assert (Hh : h < length (g_slots g)) by (apply nth_error_Some; congruence).
  destruct (Nat.eq_dec (S k) (mem_nout c)) as [Elast|Nlast].
  - (* last output: recycled *)
    destruct (mem_release_last_inv c (mem_add_out (mem_global_of g h r l (PhOut (S k)) m lr1) (l_rid l, k, d)) h
                (mem_go_rec r (l_rid l) lr1) (SLive (mem_go_live r l (PhOut (S k)) m))) as (g' & Hrel & Hinv' & Hlog' & Hout' & _).
    + apply mem_inv_x_add_out; [|exact Hout]. eapply (mem_global_of_inv c g None h); eauto.
    + cbn. eapply mem_slot_nth_global_of; eauto.
    + cbn. rewrite Hrc. lia.
    + rewrite mem_go_rec_fields_length. exact Hfl.
    + eapply mem_backbuf_ok_weaken. apply (mem_backbuf_ok_global_of g h r l (PhOut (S k)) m lr1 (l_n l)); auto.
    + rewrite Hrel. exists g', input, ts, d. split; [reflexivity|]. split; [exact Hinv'|]. split; [exact Hlog|]. split; [exact Hd|].
      split; [rewrite Hout'; cbn; rewrite mem_global_of_eq; reflexivity|]. split; [rewrite Hlog'; cbn; rewrite mem_global_of_eq; reflexivity|].
      intros Hlt. lia.
  - (* further outputs follow *)
    rewrite (mem_release_more _ h (mem_go_rec r (l_rid l) lr1) (SLive (mem_go_live r l (PhOut (S k)) m)));
      [|cbn; eapply mem_slot_nth_global_of; eauto|cbn; lia].
    (* this is the state reached by writing back a struct whose count is already decremented *)
    assert (Heq : mem_with_slots_only (mem_add_out (mem_global_of g h r l (PhOut (S k)) m lr1) (l_rid l, k, d))
                    (mem_list_set (g_slots (mem_add_out (mem_global_of g h r l (PhOut (S k)) m lr1) (l_rid l, k, d))) h
                       {| sl_rec := mem_with_refc (mem_go_rec r (l_rid l) lr1) (r_refc (mem_go_rec r (l_rid l) lr1) - 1);
                          sl_state := SLive (mem_go_live r l (PhOut (S k)) m) |})
                  = mem_add_out (mem_global_of g h (mem_with_refc r (r_refc r - 1)) l (PhOut (S k)) m lr1) (l_rid l, k, d)).
    { rewrite !mem_global_of_eq. unfold mem_with_slots_only, mem_add_out. cbn. rewrite mem_list_set_twice. reflexivity. }
    rewrite Heq.
    eexists. exists input, ts, d. split; [reflexivity|].
    split; [|split; [exact Hlog|split; [exact Hd|split; [cbn; rewrite mem_global_of_eq; reflexivity|split; [cbn; rewrite mem_global_of_eq; reflexivity|]]]]].
    2:{ intros _. eexists. eexists. split; [cbn; eapply mem_slot_nth_global_of; eauto|]. split; reflexivity. }
    eapply mem_inv_x_close.
    + apply mem_inv_x_add_out; [|rewrite mem_global_of_eq; cbn; exists input, ts; split; [exact Hlog|exact Hd]].
      eapply (mem_global_of_inv c g None h); eauto.
    + intros s Hs'. cbn in Hs'.
      rewrite (mem_slot_nth_global_of g h (mem_with_refc r (r_refc r - 1)) l (PhOut (S k)) m lr1 _ Hs) in Hs'. inversion Hs'; subst s.
      cbn [mem_slot_inv sl_state sl_rec].
      destruct (mem_live_inv_global_of c g h (mem_with_refc r (r_refc r - 1)) l (PhOut (S k)) m lr1 input ts)
        as (i2 & t2 & m2 & l2 & A1 & A2 & A3 & A4 & A5 & A6 & A7); auto.
      * cbn. lia.
      * cbn. rewrite Hrc. lia.
      * cbn. rewrite Hst, Hlr1. reflexivity.
      * exists i2, t2, m2, l2. repeat split; auto.
Qed.


Lemma mem_outputs_run : forall c n g h r l k,
  mem_inv c g -> nth_error (g_slots g) h = Some {| sl_rec := r; sl_state := SLive l |} -> l_phase l = PhOut k ->
  k + n = mem_nout c ->
  exists g', mem_run c g (repeat (EvOutput h) n) = StepOk g' /\ mem_inv c g' /\ g_log g' = g_log g /\ incl (g_out g) (g_out g') /\
    forall j, k <= j < mem_nout c ->
      exists input ts d, In (l_rid l, input, ts) (g_log g) /\ mem_spec_out c input ts j = Some d /\ In (l_rid l, j, d) (g_out g').
Proof.
  induction n as [|n IH]; intros g h r l k Hinv Hs Hph Hk.
  - exists g. cbn. split; [reflexivity|]. split; [exact Hinv|]. split; [reflexivity|]. split; [apply incl_refl|]. intros j Hj. lia.
  - cbn [repeat mem_run].
    destruct (mem_step_output_full c g h r l k Hinv Hs Hph) as (g1 & input & ts & d & Hstep & Hinv1 & Hlog & Hd & Hout1 & Hlog1 & Hnext).
    rewrite Hstep.
    destruct n as [|n'].
    + exists g1. cbn. split; [reflexivity|]. split; [exact Hinv1|]. split; [exact Hlog1|].
      split; [rewrite Hout1; apply incl_appl, incl_refl|].
      intros j Hj. assert (j = k) by lia. subst j. exists input, ts, d. split; [exact Hlog|]. split; [exact Hd|].
      rewrite Hout1. apply in_or_app. right. left. reflexivity.
    + destruct Hnext as (r' & l' & Hs1 & Hrid & Hph1); [lia|].
      destruct (IH g1 h r' l' (S k) Hinv1 Hs1 Hph1 ltac:(lia)) as (g' & Hrun & Hinv' & Hlog' & Hincl & Hall).
      exists g'. split; [exact Hrun|]. split; [exact Hinv'|]. split; [congruence|].
      split; [intros x Hx; apply Hincl; rewrite Hout1; apply in_or_app; left; exact Hx|].
      intros j Hj. destruct (Nat.eq_dec j k) as [->|Nj].
      * exists input, ts, d. split; [exact Hlog|]. split; [exact Hd|]. apply Hincl. rewrite Hout1. apply in_or_app. right. left. reflexivity.
      * destruct (Hall j ltac:(lia)) as (i2 & t2 & d2 & A & B & C). exists i2, t2, d2. rewrite Hrid, Hlog1 in *. auto.
Qed.

Lemma mem_new_record_fresh : forall c input, (N.of_nat (length input) < 2 ^ 31)%N ->
  exists r bufs cpy slots, mem_new_record c (mem_init c) None None input = inl (Some (0, r, bufs, cpy, slots)).
Proof.
  intros c input Hsize. unfold mem_new_record. cbn [g_slots mem_init length].
  destruct (p_min_pool (c_params c) <? N.of_nat (length input))%N.
  - destruct (mem_get_class_sound _ Hsize) as (cl & Hg & _). rewrite Hg. eauto.
  - eauto.
Qed.

(* the record alone on a fresh pipeline: the history runs to its end and yields every output the local composition defines *)
Lemma mem_alone_produces : forall c input ts, mem_targets_own c -> 1 <= mem_nout c -> (N.of_nat (length input) < 2 ^ 31)%N ->
  forall mT rT, mem_spec_transformed c input ts = SgLive mT rT ->
  exists g, mem_run c (mem_init c) (mem_alone_trace c input ts) = StepOk g /\ mem_inv c g /\ g_log g = [(0, input, ts)] /\
    forall k, k < mem_nout c -> exists d, mem_spec_out c input ts k = Some d /\ In (0, k, d) (g_out g).
Proof.
  intros c input ts Htgt Hn Hsize mT rT HspT.
  assert (Hsp : exists m2 lr2, mem_spec_parsed c input ts false = SgLive m2 lr2).
  { unfold mem_spec_transformed in HspT. destruct (mem_spec_parsed c input ts false); try discriminate. eauto. }
  destruct Hsp as (m2 & lr2 & Hsp).
  destruct (mem_new_record_fresh c input Hsize) as (r & bufs & cpy & slots & Enr).
  pose proof (mem_inv_init c) as Hinv0.
  destruct (mem_step_parse_progress c (mem_init c) None None input ts 0 r bufs cpy slots m2 lr2 Hinv0 Hsize Enr Hsp)
    as (g1 & r1 & l1 & Hstep1 & Hs1 & Hrid1 & Hph1 & Hout1 & Hlog1).
  pose proof (mem_step_preserves c (mem_init c) (EvParse None None input ts) Hinv0 Htgt Hn Hsize) as Hok1.
  unfold mem_step_ok in Hok1. rewrite Hstep1 in Hok1. cbn in Hrid1, Hlog1.
  destruct (mem_step_transform_progress c g1 0 r1 l1 input ts mT rT Hok1 Hs1 Hph1) as (g2 & r2 & l2 & Hstep2 & Hs2 & Hrid2 & Hph2 & Hout2 & Hlog2);
    [rewrite Hlog1, Hrid1; left; reflexivity|exact HspT|].
  pose proof (mem_step_preserves c g1 (EvTransform 0) Hok1 Htgt Hn I) as Hok2.
  unfold mem_step_ok in Hok2. rewrite Hstep2 in Hok2.
  destruct (mem_outputs_run c (mem_nout c) g2 0 r2 l2 0 Hok2 Hs2 Hph2 eq_refl) as (g3 & Hrun3 & Hinv3 & Hlog3 & _ & Hall).
  exists g3. unfold mem_alone_trace. cbn [mem_run]. rewrite Hstep1, Hstep2. fold (mem_nout c). split; [exact Hrun3|].
  split; [exact Hinv3|]. split; [congruence|].
  intros k Hk. destruct (Hall k ltac:(lia)) as (i2 & t2 & d & A & B & C).
  rewrite Hlog2, Hlog1, Hrid2, Hrid1 in A. destruct A as [A|[]]. inversion A; subst i2 t2.
  exists d. rewrite Hrid2, Hrid1 in C. auto.
Qed.

(* ISOLATION, as the property states it: the output a record gets in any history equals the output of the same record
   processed alone on a fresh pipeline - which exists and is unique *)
Lemma mem_isolation_alone : forall c evs g input ts rid k d,
  mem_targets_own c -> 1 <= mem_nout c -> Forall mem_ev_ok evs ->
  mem_run c (mem_init c) evs = StepOk g -> In (rid, input, ts) (g_log g) -> In (rid, k, d) (g_out g) ->
  exists g1, mem_run c (mem_init c) (mem_alone_trace c input ts) = StepOk g1 /\ In (0, k, d) (g_out g1) /\
             forall r' d', In (r', k, d') (g_out g1) -> d' = d.
Proof.
  intros c evs g input ts rid k d Htgt Hn Hev Hrun Hlog Hout.
  pose proof (mem_reachable_inv c evs g Htgt Hn Hev Hrun) as Hinv.
  destruct (inv_out _ _ _ Hinv _ _ _ Hout) as (i1 & t1 & Hi1 & Hs1).
  destruct (inv_log_fun _ _ _ Hinv _ _ _ _ _ Hlog Hi1) as [<- <-].
  assert (Hsize : (N.of_nat (length input) < 2 ^ 31)%N) by (apply (inv_log _ _ _ Hinv _ _ _ Hlog)).
  assert (HT : exists mT rT, mem_spec_transformed c input ts = SgLive mT rT).
  { unfold mem_spec_out in Hs1. destruct (mem_spec_transformed c input ts); try discriminate. eauto. }
  destruct HT as (mT & rT & HT).
  assert (Hk : k < mem_nout c).
  { unfold mem_spec_out in Hs1. rewrite HT in Hs1. destruct (nth_error (c_outputs c) k) eqn:E; [|discriminate].
    apply nth_error_Some. congruence. }
  destruct (mem_alone_produces c input ts Htgt Hn Hsize mT rT HT) as (g1 & Hrun1 & Hinv1 & Hlog1 & Hall).
  exists g1. split; [exact Hrun1|]. destruct (Hall k Hk) as (d0 & Hd0 & Hin0). assert (d0 = d) by congruence. subst d0.
  split; [exact Hin0|]. intros r' d' Hin'.
  destruct (inv_out _ _ _ Hinv1 _ _ _ Hin') as (i2 & t2 & Hi2 & Hs2). rewrite Hlog1 in Hi2. destruct Hi2 as [Hi2|[]].
  inversion Hi2; subst. congruence.
Qed.

(* ================================================================== *)
(* 9. after the repair no write can hit read-only memory                *)
(* ================================================================== *)

Lemma mem_write_private_no_fault : forall m p pos data, mem_private p = true -> mem_write m p pos data <> RFault.
Proof. intros m p pos data Hp. unfold mem_write. destruct data; [discriminate|]. destruct p; try discriminate. Qed.

Lemma mem_overwrite_private_no_fault : forall m p off len start tail, mem_private p = true ->
  mem_overwrite_n_truncate m p off len start tail <> RFault.
Proof.
  intros m p off len start tail Hp. unfold mem_overwrite_n_truncate. destruct (Nat.ltb len start); [discriminate|].
  pose proof (mem_write_private_no_fault m p (off + start) (firstn (Nat.min (len - start) (length tail)) tail) Hp) as Hw.
  destruct (mem_write m p (off + start) _); cbn; congruence.
Qed.

Lemma mem_clean_private_no_fault : forall m p off len, mem_private p = true -> mem_clean_utf8 m p off len <> RFault.
Proof.
  intros m p off len Hp. unfold mem_clean_utf8. destruct len; [discriminate|]. apply mem_overwrite_private_no_fault. exact Hp.
Qed.

Lemma mem_parse_no_fault : forall pa ls m r, mem_parse pa ls m r <> RFault.
Proof.
  intros pa ls m r. unfold mem_parse. destruct (mem_parse_head ls m r) as [rb|s|r3 off len]; try discriminate.
  unfold mem_parse_msg.
  destruct ((p_max_msg pa <? N.of_nat len)%N || (p_max_rec pa <=? N.of_nat (length (m_own m)))%N)%bool.
  - pose proof (mem_clean_private_no_fault m EOwn off (if (p_max_msg pa <? N.of_nat len)%N then N.to_nat (p_max_msg pa) else len) eq_refl) as Hc.
    destruct (mem_clean_utf8 m EOwn off _); cbn; congruence.
  - cbn. discriminate.
Qed.

Lemma mem_run_stx_copy_no_fault : forall m r t, mem_run_stx TruncCopy m r t <> RFault.
Proof.
  intros m r t. destruct t; cbn [mem_run_stx]; try discriminate.
  - destruct (concat _); [discriminate|]. destruct (mem_alloc m _). discriminate.
  - destruct (Nat.eqb _ 0); discriminate.
  - destruct (mem_get_field r key) as [|p off len]; [discriminate|].
    destruct (Nat.ltb _ len); [|discriminate].
    destruct (mem_alloc m _) as [m1 v] eqn:Ea.
    assert (Hv : match v with EStr q _ _ => mem_private q = true | EEmpty => True end) by (unfold mem_alloc in Ea; inversion Ea; subst; reflexivity).
    destruct v as [|q qoff qlen]; [discriminate|].
    pose proof (mem_clean_private_no_fault m1 q qoff maxlen Hv) as Hc.
    destruct (mem_clean_utf8 m1 q qoff maxlen) as [[m2 tl]| |s]; cbn; congruence.
  - destruct (lr_unesc r); [discriminate|]. destruct (mem_index_byte 92 _); [|discriminate]. destruct (mem_alloc m _). discriminate.
Qed.

Lemma mem_run_stxs_copy_no_fault : forall ts m r, mem_run_stxs TruncCopy m r ts <> RFault.
Proof.
  induction ts as [|t ts IH]; intros m r; cbn; [discriminate|].
  pose proof (mem_run_stx_copy_no_fault m r t) as H.
  destruct (mem_run_stx TruncCopy m r t) as [[m1 r1]| |s]; cbn; [apply IH|congruence|discriminate].
Qed.

Lemma mem_run_txs_copy_no_fault : forall ts m r, mem_run_txs TruncCopy m r ts <> RFault.
Proof.
  induction ts as [|t ts IH]; intros m r; cbn; [discriminate|].
  destruct t as [t|conds body|conds].
  - pose proof (mem_run_stx_copy_no_fault m r t) as H.
    destruct (mem_run_stx TruncCopy m r t) as [[m1 r1]| |s]; cbn; [apply IH|congruence|discriminate].
  - destruct (forallb _ conds); [|apply IH].
    pose proof (mem_run_stxs_copy_no_fault body m r) as H.
    destruct (mem_run_stxs TruncCopy m r body) as [[m1 r1]| |s]; cbn; [apply IH|congruence|discriminate].
  - destruct (forallb _ conds); [discriminate|apply IH].
Qed.

Lemma mem_release_no_fault : forall g h, mem_release g h <> StepStop Fault.
Proof.
  intros g h. unfold mem_release. destruct (nth_error (g_slots g) h); [|discriminate].
  destruct (_ <? 0)%Z; [discriminate|]. destruct (0 <? _)%Z; [discriminate|].
  destruct (r_backbuf _); [|discriminate]. destruct (mem_put_class _); discriminate.
Qed.

Lemma mem_release_final_no_fault : forall g h rid st, mem_release_final g h rid st <> StepStop Fault.
Proof.
  intros g h rid st. unfold mem_release_final. pose proof (mem_release_no_fault g h) as H.
  destruct (mem_release g h); [discriminate|congruence].
Qed.

Lemma mem_step_copy_no_fault : forall c g e, c_trunc_mode c = TruncCopy -> mem_step c g e <> StepStop Fault.
Proof.
  intros c g e Hmode. destruct e as [cs cb input ts|h|h]; cbn [mem_step]; rewrite ?Hmode.
  - destruct (mem_new_record c g cs cb input) as [[[[[[h r] bufs] cpy] slots]|]|s] eqn:Enr; [|discriminate|].
    2:{ apply mem_new_record_inr in Enr. subst s. discriminate. }
    destruct (mem_local_of _ _ _) as [[m lr]|]; [|discriminate].
    pose proof (mem_parse_no_fault (c_params c) (c_level_sites c) m lr) as Hp.
    destruct (mem_parse (c_params c) (c_level_sites c) m lr) as [[[[m1 lr1] pst] ov]| |s]; [|congruence|discriminate].
    destruct pst; [|apply mem_release_final_no_fault].
    pose proof (mem_run_txs_copy_no_fault (c_extract c) m1 lr1) as Ht.
    destruct (mem_run_txs TruncCopy m1 lr1 (c_extract c)) as [[[m2 lr2] b]| |s]; [|congruence|discriminate].
    destruct b; [discriminate|apply mem_release_final_no_fault].
  - destruct (nth_error (g_slots g) h) as [[r st]|]; [|discriminate].
    destruct st as [|l|]; try discriminate. destruct (l_phase l); [|discriminate].
    destruct (mem_local_of g r l) as [[m lr]|]; [|discriminate].
    pose proof (mem_run_txs_copy_no_fault (c_transforms c) m lr) as Ht.
    destruct (mem_run_txs TruncCopy m lr (c_transforms c)) as [[[m2 lr2] b]| |s]; [|congruence|discriminate].
    destruct b; [discriminate|apply mem_release_final_no_fault].
  - destruct (nth_error (g_slots g) h) as [[r st]|]; [|discriminate].
    destruct st as [|l|]; try discriminate. destruct (l_phase l); [discriminate|].
    destruct (nth_error (c_outputs c) done) as [oc|]; [|discriminate].
    destruct (mem_local_of g r l) as [[m lr]|]; [|discriminate].
    destruct (mem_serialize _ _ oc m lr) as [d lr1]. apply mem_release_no_fault.
Qed.

(* whatever the configuration and the records: the repaired code never writes to read-only memory *)
Lemma mem_run_copy_no_fault : forall c evs g, c_trunc_mode c = TruncCopy -> mem_run c g evs <> StepStop Fault.
Proof.
  intros c evs. induction evs as [|e evs IH]; intros g Hmode; cbn; [discriminate|].
  pose proof (mem_step_copy_no_fault c g e Hmode) as H.
  destruct (mem_step c g e) as [g'|s]; [apply IH; exact Hmode|congruence].
Qed.

(* ================================================================== *)
(* 10. the in-place helpers never slice out of range                    *)
(* ================================================================== *)

Lemma mem_last_ascii_end_aux_le : forall s i best, best <= i -> mem_last_ascii_end_aux s i best <= i + length s.
Proof.
  induction s as [|c s IH]; intros i best H; cbn; [lia|].
  destruct (c <=? 127)%N; (eapply Nat.le_trans; [apply IH; lia|lia]).
Qed.

Lemma mem_last_ascii_end_le : forall s, mem_last_ascii_end s <= length s.
Proof. intros s. unfold mem_last_ascii_end. apply (mem_last_ascii_end_aux_le s 0 0). lia. Qed.

Lemma mem_overwrite_in_range : forall m p off len start tail, start <= len ->
  (forall s, mem_overwrite_n_truncate m p off len start tail <> RPanic s) /\
  (forall m' n, mem_overwrite_n_truncate m p off len start tail = ROk (m', n) -> n <= len).
Proof.
  intros m p off len start tail H. unfold mem_overwrite_n_truncate.
  replace (Nat.ltb len start) with false by (symmetry; apply Nat.ltb_ge; exact H).
  destruct (mem_write m p (off + start) (firstn (Nat.min (len - start) (length tail)) tail)) as [m1| |s] eqn:E; cbn.
  - split; [discriminate|]. intros m' n Heq. inversion Heq; subst. lia.
  - split; discriminate.
  - exfalso. unfold mem_write in E. destruct (firstn _ tail); [discriminate|]. destruct p; discriminate.
Qed.

Lemma mem_clean_in_range : forall m p off len,
  (forall s, mem_clean_utf8 m p off len <> RPanic s) /\
  (forall m' n, mem_clean_utf8 m p off len = ROk (m', n) -> n <= len).
Proof.
  intros m p off len. unfold mem_clean_utf8. destruct len as [|len'].
  - split; [discriminate|]. intros m' n H. inversion H; subst. lia.
  - apply mem_overwrite_in_range.
    eapply Nat.le_trans; [apply mem_last_ascii_end_le|]. rewrite firstn_length. lia.
Qed.

Lemma mem_run_stx_no_panic : forall mode m r t s, mem_run_stx mode m r t <> RPanic s.
Proof.
  intros mode m r t s. destruct t; cbn [mem_run_stx]; try discriminate.
  - destruct (concat _); [discriminate|]. destruct (mem_alloc m _). discriminate.
  - destruct (Nat.eqb _ 0); discriminate.
  - destruct (mem_get_field r key) as [|p off len]; [discriminate|].
    destruct (Nat.ltb (maxlen + length suffix) len) eqn:El; [|discriminate]. apply Nat.ltb_lt in El.
    destruct mode.
    + destruct (mem_clean_in_range m p off maxlen) as [Hc1 Hc2].
      destruct (mem_clean_utf8 m p off maxlen) as [[m1 tl]| |s1] eqn:E1; cbn; [|discriminate|exfalso; exact (Hc1 s1 eq_refl)].
      specialize (Hc2 m1 tl eq_refl).
      destruct (mem_overwrite_in_range m1 p off len tl suffix ltac:(lia)) as [Ho1 _].
      destruct (mem_overwrite_n_truncate m1 p off len tl suffix) as [[m2 nl]| |s2] eqn:E2; cbn; [discriminate|discriminate|exfalso; exact (Ho1 s2 eq_refl)].
    + destruct (mem_alloc m _) as [m1 v]. destruct v as [|q qoff qlen]; [discriminate|].
      destruct (mem_clean_in_range m1 q qoff maxlen) as [Hc1 _].
      destruct (mem_clean_utf8 m1 q qoff maxlen) as [[m2 tl]| |s1] eqn:E1; cbn; [discriminate|discriminate|exfalso; exact (Hc1 s1 eq_refl)].
  - destruct (lr_unesc r); [discriminate|]. destruct (mem_index_byte 92 _); [|discriminate]. destruct (mem_alloc m _). discriminate.
Qed.

Lemma mem_run_stxs_no_panic : forall mode ts m r s, mem_run_stxs mode m r ts <> RPanic s.
Proof.
  induction ts as [|t ts IH]; intros m r s; cbn; [discriminate|].
  pose proof (mem_run_stx_no_panic mode m r t) as H.
  destruct (mem_run_stx mode m r t) as [[m1 r1]| |s1]; cbn; [apply IH|discriminate|exfalso; exact (H s1 eq_refl)].
Qed.

Lemma mem_run_txs_no_panic : forall mode ts m r s, mem_run_txs mode m r ts <> RPanic s.
Proof.
  induction ts as [|t ts IH]; intros m r s; cbn; [discriminate|].
  destruct t as [t|conds body|conds].
  - pose proof (mem_run_stx_no_panic mode m r t) as H.
    destruct (mem_run_stx mode m r t) as [[m1 r1]| |s1]; cbn; [apply IH|discriminate|exfalso; exact (H s1 eq_refl)].
  - destruct (forallb _ conds); [|apply IH].
    pose proof (mem_run_stxs_no_panic mode body m r) as H.
    destruct (mem_run_stxs mode m r body) as [[m1 r1]| |s1]; cbn; [apply IH|discriminate|exfalso; exact (H s1 eq_refl)].
  - destruct (forallb _ conds); [discriminate|apply IH].
Qed.

(* the parser: the first-token slice of defect 1 (property C09) has been repaired; nothing else can panic *)
Lemma mem_parse_head_no_panic : forall ls m r s, mem_parse_head ls m r <> HdPanic s.
Proof.
  intros ls m r s. unfold mem_parse_head.
  destruct (Nat.ltb (length (m_own m)) 32); [discriminate|].
  destruct (negb (mem_first_is 60 (m_own m))); [discriminate|].
  destruct (mem_next_field (m_own m) 0 (length (m_own m))) as [e|]; [|discriminate].
  destruct (Nat.ltb e 2); [discriminate|].
  destruct (negb _); [discriminate|]. destruct (mem_atoi _); [|discriminate].
  destruct (_ || _)%bool; [discriminate|]. destruct (mem_parse_rest _ _ _ _ _ _) as [[[? ?] ?]|]; discriminate.
Qed.

Lemma mem_parse_no_panic : forall pa ls m r s, mem_parse pa ls m r <> RPanic s.
Proof.
  intros pa ls m r s H. unfold mem_parse in H.
  destruct (mem_parse_head ls m r) as [rb|s0|r3 off len] eqn:Eh; try discriminate.
  - eapply mem_parse_head_no_panic; eauto.
  - unfold mem_parse_msg in H.
    destruct ((p_max_msg pa <? N.of_nat len)%N || (p_max_rec pa <=? N.of_nat (length (m_own m)))%N)%bool.
    + destruct (mem_clean_in_range m EOwn off (if (p_max_msg pa <? N.of_nat len)%N then N.to_nat (p_max_msg pa) else len)) as [Hc _].
      destruct (mem_clean_utf8 m EOwn off _) as [[m1 l1]| |s1]; cbn in H; [discriminate|discriminate|exact (Hc s1 eq_refl)].
    + cbn in H. discriminate.
Qed.

Lemma mem_release_no_gopanic : forall g h s, mem_release g h <> StepStop (GoPanic s).
Proof.
  intros g h s. unfold mem_release. destruct (nth_error (g_slots g) h); [|discriminate].
  destruct (_ <? 0)%Z; [discriminate|]. destruct (0 <? _)%Z; [discriminate|].
  destruct (r_backbuf _); [|discriminate]. destruct (mem_put_class _); discriminate.
Qed.

Lemma mem_release_final_no_gopanic : forall g h rid st s, mem_release_final g h rid st <> StepStop (GoPanic s).
Proof.
  intros g h rid st s. unfold mem_release_final. pose proof (mem_release_no_gopanic g h s) as H.
  destruct (mem_release g h); [discriminate|congruence].
Qed.

Lemma mem_step_no_gopanic : forall c g e s, mem_step c g e <> StepStop (GoPanic s).
Proof.
  intros c g e s H. destruct e as [cs cb input ts|h|h]; cbn [mem_step] in H.
  - destruct (mem_new_record c g cs cb input) as [[[[[[h r] bufs] cpy] slots]|]|s0] eqn:Enr; [|discriminate|].
    2:{ apply mem_new_record_inr in Enr. subst s0. discriminate. }
    destruct (mem_local_of _ _ _) as [[m lr]|]; [|discriminate].
    pose proof (mem_parse_no_panic (c_params c) (c_level_sites c) m lr) as Hp.
    destruct (mem_parse (c_params c) (c_level_sites c) m lr) as [[[[m1 lr1] pst] ov]| |s1]; [|discriminate|exact (Hp s1 eq_refl)].
    destruct pst; [|eapply mem_release_final_no_gopanic; eauto].
    pose proof (mem_run_txs_no_panic (c_trunc_mode c) (c_extract c) m1 lr1) as Ht.
    destruct (mem_run_txs (c_trunc_mode c) m1 lr1 (c_extract c)) as [[[m2 lr2] b]| |s1]; [|discriminate|exact (Ht s1 eq_refl)].
    destruct b; [discriminate|eapply mem_release_final_no_gopanic; eauto].
  - destruct (nth_error (g_slots g) h) as [[r st]|]; [|discriminate].
    destruct st as [|l|]; try discriminate. destruct (l_phase l); [|discriminate].
    destruct (mem_local_of g r l) as [[m lr]|]; [|discriminate].
    pose proof (mem_run_txs_no_panic (c_trunc_mode c) (c_transforms c) m lr) as Ht.
    destruct (mem_run_txs (c_trunc_mode c) m lr (c_transforms c)) as [[[m2 lr2] b]| |s1]; [|discriminate|exact (Ht s1 eq_refl)].
    destruct b; [discriminate|eapply mem_release_final_no_gopanic; eauto].
  - destruct (nth_error (g_slots g) h) as [[r st]|]; [|discriminate].
    destruct st as [|l|]; try discriminate. destruct (l_phase l); [discriminate|].
    destruct (nth_error (c_outputs c) done) as [oc|]; [|discriminate].
    destruct (mem_local_of g r l) as [[m lr]|]; [|discriminate].
    destruct (mem_serialize _ _ oc m lr) as [d lr1]. eapply mem_release_no_gopanic; eauto.
Qed.

Lemma mem_run_no_gopanic : forall c evs g s, mem_run c g evs <> StepStop (GoPanic s).
Proof.
  intros c evs. induction evs as [|e evs IH]; intros g s H; cbn in H; [discriminate|].
  destruct (mem_step c g e) as [g'|s0] eqn:E; [eapply IH; eauto|]. inversion H; subst. eapply mem_step_no_gopanic; eauto.
Qed.
