(* C11 follow-up (wave-4 miss seeded/C11/8): how intermediateChunk.Write feeds the chunk's sink.
   The sink (gzip writer / write buffer) receives the records in write order - for the real mechanism
   (FeedDirect), for a batch buffer that is handed over before a large record bypasses it, and for ANY
   staging as long as no record reaches the bypass; the variant that bypasses without handing over is refuted. *)
From SV Require Import Model.Common Model.ChunkId Model.Packer.
From Coq Require Import Lia ZifyBool ZifyN ZifyNat.
Open Scope Z_scope.

Section FeedFacts.
Variable R : Type.
Variable rlen : R -> Z.

(* the records a Write may see without the mechanism [m] taking the unsafe bypass *)
Definition bypass_safe (m : feed_mode) (r : R) : Prop :=
  match m with
  | FeedDirect => True
  | FeedStaged cap flush_first => flush_first = true \/ rlen r < cap
  end.

(* invariant: sink ++ pending = everything written so far, in write order; nothing ever waits in direct mode *)
Definition feed_seen (f : feed R) : list R := fd_sink R f ++ fd_pending R f.

Definition feed_wf (m : feed_mode) (f : feed R) : Prop :=
  match m with FeedDirect => fd_pending R f = [] | FeedStaged _ _ => True end.

Lemma feed_write_inv : forall m f r,
  bypass_safe m r -> feed_wf m f ->
  feed_wf m (feed_write R rlen m f r) /\ feed_seen (feed_write R rlen m f r) = feed_seen f ++ [r].
Proof.
  intros m f r Hsafe Hwf. destruct m as [|cap fb]; cbn [feed_write feed_wf] in *.
  - unfold feed_seen, feed_sink_write. cbn. rewrite Hwf. rewrite !app_nil_r. split; reflexivity.
  - split; [exact I|].
    destruct (rlen r >=? cap) eqn:Hbig.
    + destruct Hsafe as [Hfb | Hsmall]; [|lia].
      subst fb. unfold feed_seen, feed_sink_write, feed_flush. cbn. now rewrite !app_nil_r.
    + destruct (fd_pending_len R f + rlen r >? cap); unfold feed_seen, feed_flush; cbn.
      * now rewrite <- !app_assoc.
      * now rewrite <- !app_assoc.
Qed.

Lemma feed_run_inv : forall m rs f,
  Forall (bypass_safe m) rs -> feed_wf m f ->
  feed_seen (feed_run R rlen m f rs) = feed_seen f ++ rs.
Proof.
  intros m rs. induction rs as [|r rs IH]; intros f Hall Hwf; cbn [feed_run].
  - now rewrite app_nil_r.
  - inversion Hall as [|? ? Hr Hrs]; subst.
    destruct (feed_write_inv m f r Hr Hwf) as [Hwf' Hseen'].
    rewrite (IH _ Hrs Hwf'), Hseen', <- app_assoc. reflexivity.
Qed.

Lemma feed_close_seen : forall f, feed_close R f = feed_seen f.
Proof. intros f. reflexivity. Qed.

(* the sink holds exactly the written records, in write order, when the chunk is finalized *)
Theorem feed_all_in_order : forall m rs,
  Forall (bypass_safe m) rs -> feed_all R rlen m rs = rs.
Proof.
  intros m rs Hall. unfold feed_all. rewrite feed_close_seen.
  rewrite (feed_run_inv m rs (feed_init R) Hall).
  - reflexivity.
  - destruct m; cbn; auto.
Qed.

(* the real mechanism: every record, of every length *)
Theorem feed_direct_in_order : forall rs, feed_all R rlen FeedDirect rs = rs.
Proof.
  intros rs. apply feed_all_in_order. apply Forall_forall. intros; exact I.
Qed.

(* a batch buffer of any capacity is fine if it is handed over before a large record goes past it *)
Theorem feed_staged_flush_first_in_order : forall cap rs, feed_all R rlen (FeedStaged cap true) rs = rs.
Proof.
  intros cap rs. apply feed_all_in_order. apply Forall_forall. intros; left; reflexivity.
Qed.

(* ... and even the unsafe variant is invisible as long as every record is shorter than the buffer *)
Theorem feed_bypass_invisible_below_cap : forall cap rs,
  Forall (fun r => rlen r < cap) rs -> feed_all R rlen (FeedStaged cap false) rs = rs.
Proof.
  intros cap rs Hall. apply feed_all_in_order.
  eapply Forall_impl; [|exact Hall]. intros r Hr. right. exact Hr.
Qed.

(* every emitted body: what the sink received is the body's records in order; on bytes, the sink's content *)
Theorem feed_direct_bytes : forall (rbytes : R -> bytes) rs,
  concat (map rbytes (feed_all R rlen FeedDirect rs)) = concat (map rbytes rs).
Proof. intros. now rewrite feed_direct_in_order. Qed.

(* compressed path: decompress(payload) *)
Theorem feed_payload_is_concat : forall (rbytes : R -> bytes) (gz gunz : bytes -> bytes),
  (forall b, gunz (gz b) = b) ->
  forall rs : list R,
  gunz (gz (concat (map rbytes (feed_all R rlen FeedDirect rs)))) = concat (map rbytes rs).
Proof. intros rbytes gz gunz Hrt rs. rewrite Hrt. apply feed_direct_bytes. Qed.

End FeedFacts.

(* the seeded variant: 64 KiB batch buffer, a record of >= 64 KiB bypasses it without handing it over first.
   Records of 10 and 65536 bytes (lengths stand for the records): the sink receives the large one first. *)
Theorem feed_bypass_variant_refuted :
  exists rs : list Z,
    Forall (fun r => 0 <= r) rs /\
    feed_all Z (fun n => n) (FeedStaged 65536 false) rs = rev rs /\
    feed_all Z (fun n => n) (FeedStaged 65536 false) rs <> rs.
Proof.
  exists [10; 65536]. split; [repeat constructor; lia|].
  split; [vm_compute; reflexivity|]. vm_compute. discriminate.
Qed.
