(* C12, part H: what a transform instance keeps across records does not let one record into another - as long as it
   keeps copies; and what happens when it keeps the record's own strings. *)
From SV Require Import Model.Common Model.Memory Model.MemoryStores Model.ParseTime Model.MemoryXfState
                       Proofs.CommonFacts Proofs.ParseTimeProofs Proofs.MemoryProofs Proofs.MemoryWitnesses Proofs.MemoryStoresProofs.
From Coq Require Import Lia.
Open Scope nat_scope.

(* ---- parseRFC3339Timestamp = head, then the location ---- *)
Definition pt_tail (lo : Z) (x : Z * Z * bytes) : outcome (Z * Z) :=
  let '(base, nsec, tz) := x in
  match (match tz with [] => Ok lo | _ => parse_tz tz end) with
  | Ok off => Ok ((base - off)%Z, nsec)
  | Err e => Err e
  | Panic s => Panic s
  end.

Lemma pt_head_spec : forall lo t,
  parse_rfc3339 lo t = match pt_head t with Ok x => pt_tail lo x | Err e => Err e | Panic s => Panic s end.
Proof.
  intros lo t. unfold parse_rfc3339, pt_head.
  destruct (length t <? 19); [reflexivity|].
  destruct (idx t 4) as [c4| |]; cbn [bind]; [|reflexivity|reflexivity].
  destruct (idx t 7) as [c7| |]; cbn [bind]; [|reflexivity|reflexivity].
  destruct (idx t 10) as [c10| |]; cbn [bind]; [|reflexivity|reflexivity].
  destruct (idx t 13) as [c13| |]; cbn [bind]; [|reflexivity|reflexivity].
  destruct (idx t 16) as [c16| |]; cbn [bind]; [|reflexivity|reflexivity].
  destruct (negb _); [reflexivity|].
  destruct (atoi4 t 0) as [year| |]; cbn [bind]; [|reflexivity|reflexivity].
  destruct (atoi2 t 5) as [month| |]; cbn [bind]; [|reflexivity|reflexivity].
  destruct (atoi2 t 8) as [day| |]; cbn [bind]; [|reflexivity|reflexivity].
  destruct (atoi2 t 11) as [hour| |]; cbn [bind]; [|reflexivity|reflexivity].
  destruct (atoi2 t 14) as [mi| |]; cbn [bind]; [|reflexivity|reflexivity].
  destruct (atoi2 t 17) as [sec| |]; cbn [bind]; [|reflexivity|reflexivity].
  destruct (split_frac_tz (skipn 19 t)) as [frac tz].
  destruct (parse_fraction_nanos frac) as [nsec| |]; cbn [bind]; [|reflexivity|reflexivity].
  unfold pt_tail. destruct tz as [|c tz']; [reflexivity|].
  destruct (parse_tz (c :: tz')); reflexivity.
Qed.

(* ---- the invariant of an instance that keeps copies ---- *)
Definition pt_zone_ok (z : pt_zone) : Prop := exists k, pz_key z = StBytes k /\ parse_tz k = Ok (pz_off z).

Definition pt_last_ok (lo : Z) (l : option (mem_stored * Z * Z)) : Prop :=
  match l with
  | None => True
  | Some (k, u, n) => exists b, k = StBytes b /\ parse_rfc3339 lo b = Ok (u, n)
  end.

Definition pt_inv (cfg : pt_config) (st : pt_state) : Prop :=
  Forall pt_zone_ok (ps_zones st) /\ pt_last_ok (pt_local_off cfg) (ps_last st).

(* the instance keeps copies: the repaired code (no shortcut) or a shortcut that copies *)
Definition pt_copies (cfg : pt_config) : Prop :=
  pt_zone_keep cfg = KeepCopy /\ (pt_last_keep cfg = None \/ pt_last_keep cfg = Some KeepCopy).

Lemma pt_inv_init : forall cfg, pt_inv cfg pt_init.
Proof. intros cfg. split; [constructor|exact I]. Qed.

Lemma pt_zone_find_ok : forall g zs slot tz o,
  Forall pt_zone_ok zs -> pt_zone_find g zs slot tz = Some o -> parse_tz tz = Ok o.
Proof.
  intros g zs slot tz o Hz. induction Hz as [|z zs Hzok _ IH]; cbn [pt_zone_find]; [discriminate|].
  destruct ((pz_slot z =? slot)%N && bytes_eqb (mem_stored_read g (pz_key z)) tz) eqn:E.
  - intros H. inversion H; subst o. apply andb_true_iff in E. destruct E as [_ E].
    destruct Hzok as (k & Hk & Hp). rewrite Hk in E. cbn [mem_stored_read] in E.
    apply bytes_eqb_eq in E. subst k. exact Hp.
  - exact IH.
Qed.

Lemma pt_locate_ok : forall cfg g zones tz tzref r zs,
  pt_zone_keep cfg = KeepCopy -> Forall pt_zone_ok zones ->
  pt_locate cfg g zones tz tzref = (r, zs) ->
  r = match tz with [] => Ok (pt_local_off cfg) | _ => parse_tz tz end /\ Forall pt_zone_ok zs.
Proof.
  intros cfg g zones tz tzref r zs Hk Hz H. unfold pt_locate in H.
  destruct tz as [|c tz']; [inversion H; subst; split; [reflexivity|exact Hz]|].
  destruct (pt_zone_find g zones (pt_hash cfg (c :: tz')) (c :: tz')) as [o|] eqn:Ef.
  - inversion H; subst. split; [|exact Hz]. symmetry. exact (pt_zone_find_ok _ _ _ _ _ Hz Ef).
  - destruct (parse_tz (c :: tz')) as [o| |] eqn:Ep; inversion H; subst; (split; [reflexivity|]); try exact Hz.
    apply Forall_app. split; [exact Hz|]. constructor; [|constructor].
    exists (c :: tz'). cbn [pz_key pz_off]. rewrite Hk. cbn [pt_keep_str]. split; [reflexivity|exact Ep].
Qed.

Lemma pt_parse_ok : forall cfg g zones t tref r zs,
  pt_zone_keep cfg = KeepCopy -> Forall pt_zone_ok zones ->
  pt_parse cfg g zones t tref = (r, zs) ->
  r = parse_rfc3339 (pt_local_off cfg) t /\ Forall pt_zone_ok zs.
Proof.
  intros cfg g zones t tref r zs Hk Hz H. unfold pt_parse in H. rewrite (pt_head_spec (pt_local_off cfg) t).
  destruct (pt_head t) as [[[base nsec] tz]| |]; [|inversion H; subst; split; [reflexivity|exact Hz]..].
  destruct (pt_locate cfg g zones tz (mem_stored_sub tref (length t - length tz) (length tz))) as [r1 zs1] eqn:El.
  destruct (pt_locate_ok _ _ _ _ _ _ _ Hk Hz El) as [Hr Hzs]. unfold pt_tail. rewrite <- Hr.
  destruct r1; inversion H; subst; split; try reflexivity; exact Hzs.
Qed.

(* ONE CALL.  An instance that keeps copies, in any state it can be in, gives the record in front of it exactly what
   the stateless transform gives - whatever the heap [g] holds (whatever happened to records, buffers and pools
   since the state was built) - and stays an instance of copies. *)
Lemma pt_apply_isolated : forall cfg g st v ref st' r,
  pt_copies cfg -> pt_inv cfg st -> pt_apply cfg g st v ref = (st', r) ->
  r = transform_parse_time (pt_local_off cfg) v /\ pt_inv cfg st'.
Proof.
  intros cfg g st v ref st' r [Hk Hl] [Hz Hlast] H. unfold pt_apply in H.
  destruct v as [|c v']; [inversion H; subst; split; [reflexivity|split; assumption]|].
  set (v := c :: v') in *.
  destruct (pt_last_hit cfg g st v) as [[u n]|] eqn:Eh.
  - inversion H; subst st' r. split; [|split; assumption].
    unfold pt_last_hit in Eh. destruct (pt_last_keep cfg); [|discriminate].
    destruct (ps_last st) as [[[k u0] n0]|]; [|discriminate].
    destruct Hlast as (b & -> & Hp). cbn [mem_stored_read] in Eh.
    destruct (bytes_eqb b v) eqn:Eb; [|discriminate]. inversion Eh; subst u0 n0.
    apply bytes_eqb_eq in Eb. subst b. unfold transform_parse_time, v. fold v. rewrite Hp. reflexivity.
  - destruct (pt_parse cfg g (ps_zones st) v ref) as [pr zs] eqn:Ep.
    destruct (pt_parse_ok _ _ _ _ _ _ _ Hk Hz Ep) as [Hr Hzs].
    unfold transform_parse_time, v. fold v. rewrite <- Hr.
    destruct pr as [[u n]|e|s]; inversion H; subst st' r; (split; [reflexivity|]); split; cbn [ps_zones ps_last]; try assumption.
    destruct Hl as [-> | ->]; [exact Hlast|]. cbn [pt_keep_str pt_last_ok]. exists v. split; [reflexivity|]. symmetry. exact Hr.
Qed.

(* compared with a NEW instance (a fresh pipeline), on any heap and through any reference *)
Lemma pt_apply_as_fresh : forall cfg g st v ref g0 ref0,
  pt_copies cfg -> pt_inv cfg st ->
  snd (pt_apply cfg g st v ref) = snd (pt_apply cfg g0 pt_init v ref0).
Proof.
  intros cfg g st v ref g0 ref0 Hc Hi.
  destruct (pt_apply cfg g st v ref) as [s1 r1] eqn:E1. destruct (pt_apply cfg g0 pt_init v ref0) as [s2 r2] eqn:E2.
  destruct (pt_apply_isolated _ _ _ _ _ _ _ Hc Hi E1) as [-> _].
  destruct (pt_apply_isolated _ _ _ _ _ _ _ Hc (pt_inv_init cfg) E2) as [-> _]. reflexivity.
Qed.

(* ---- ALL HISTORIES ---- *)
Definition pt_log_ok (lo : Z) (log : list (bytes * tp_result)) : Prop :=
  Forall (fun e => snd e = transform_parse_time lo (fst e)) log.

Lemma pt_sys_step_ok : forall c cfg key s e s',
  pt_copies cfg -> pt_inv cfg (xs_st s) -> pt_log_ok (pt_local_off cfg) (xs_log s) ->
  pt_sys_step c cfg key s e = Some s' ->
  pt_inv cfg (xs_st s') /\ pt_log_ok (pt_local_off cfg) (xs_log s').
Proof.
  intros c cfg key s e s' Hc Hi Hl H. destruct e as [ev|h]; cbn [pt_sys_step] in H.
  - destruct (mem_step c (xs_g s) ev); inversion H; subst. split; assumption.
  - unfold pt_transform in H. destruct (mem_key_fields (xs_g s) h [key]) as [[|[v ref] [|? ?]]|]; try discriminate.
    destruct (pt_apply cfg (xs_g s) (xs_st s) v ref) as [st' r] eqn:Ea.
    destruct (pt_apply_isolated _ _ _ _ _ _ _ Hc Hi Ea) as [Hr Hi'].
    inversion H; subst s'. cbn [xs_st xs_log]. split; [exact Hi'|].
    apply Forall_app. split; [exact Hl|]. constructor; [exact Hr|constructor].
Qed.

Lemma pt_sys_run_ok : forall c cfg key evs s s',
  pt_copies cfg -> pt_inv cfg (xs_st s) -> pt_log_ok (pt_local_off cfg) (xs_log s) ->
  pt_sys_run c cfg key s evs = Some s' ->
  pt_inv cfg (xs_st s') /\ pt_log_ok (pt_local_off cfg) (xs_log s').
Proof.
  intros c cfg key evs. induction evs as [|e evs IH]; intros s s' Hc Hi Hl H; cbn [pt_sys_run] in H.
  - inversion H; subst. split; assumption.
  - destruct (pt_sys_step c cfg key s e) as [s1|] eqn:Es; [|discriminate].
    destruct (pt_sys_step_ok _ _ _ _ _ _ Hc Hi Hl Es) as [Hi1 Hl1]. exact (IH _ _ Hc Hi1 Hl1 H).
Qed.

(* Every history of every pipeline configuration - any interleaving of Parse (with any choice of pooled struct and
   pooled buffer), other transformations, outputs, releases and parseTime calls, any number of records in flight:
   each parseTime call returned what the stateless transform returns for the value it read, i.e. what a new instance
   on a fresh pipeline returns for that record alone. *)
Lemma pt_history_isolated : forall c cfg key evs s,
  pt_copies cfg -> pt_sys_run c cfg key (pt_sys_init c) evs = Some s ->
  Forall (fun e => snd e = transform_parse_time (pt_local_off cfg) (fst e) /\
                   forall g0 ref0, snd e = snd (pt_apply cfg g0 pt_init (fst e) ref0)) (xs_log s).
Proof.
  intros c cfg key evs s Hc H.
  destruct (pt_sys_run_ok c cfg key evs (pt_sys_init c) s Hc (pt_inv_init cfg) (Forall_nil _) H) as [_ Hl].
  unfold pt_log_ok in Hl. rewrite Forall_forall in *. intros e He. split; [exact (Hl e He)|].
  intros g0 ref0. destruct (pt_apply cfg g0 pt_init (fst e) ref0) as [s2 r2] eqn:E2.
  destruct (pt_apply_isolated _ _ _ _ _ _ _ Hc (pt_inv_init cfg) E2) as [-> _]. exact (Hl e He).
Qed.

(* the record's timestamp after the call: the parsed instant, or untouched *)
Lemma pt_transform_ts : forall cfg g st h key st' r v g',
  pt_transform cfg g st h key = Some (st', r, v, g') ->
  g' = match r with TpSet u n => pt_set_ts g h (pt_ts_code u n) | _ => g end.
Proof.
  intros cfg g st h key st' r v g' H. unfold pt_transform in H.
  destruct (mem_key_fields g h [key]) as [[|[v0 ref] [|? ?]]|]; try discriminate.
  destruct (pt_apply cfg g st v0 ref) as [s1 r1]. inversion H; subst. reflexivity.
Qed.

(* ---- witnesses: two pooled records through one instance, the second in the recycled buffer of the first ---- *)
Open Scope N_scope.
(* "<163>1 2019-08-15T15:50:46+03:00 host1 app 123 src - hello world, this is a message" *)
Definition xw_rec_a : bytes :=
  [60;49;54;51;62;49;32;50;48;49;57;45;48;56;45;49;53;84;49;53;58;53;48;58;52;54;43;48;51;58;48;48;32;104;111;115;116;49;32;97;112;112;32;
   49;50;51;32;115;114;99;32;45;32;104;101;108;108;111;32;119;111;114;108;100;44;32;116;104;105;115;32;105;115;32;97;32;109;
   101;115;115;97;103;101].
(* "<163>1 2019-08-15T15:50:47+05:00 host1 app 123 src - hello world, this is a message" *)
Definition xw_rec_b : bytes :=
  [60;49;54;51;62;49;32;50;48;49;57;45;48;56;45;49;53;84;49;53;58;53;48;58;52;55;43;48;53;58;48;48;32;104;111;115;116;49;32;97;112;112;32;
   49;50;51;32;115;114;99;32;45;32;104;101;108;108;111;32;119;111;114;108;100;44;32;116;104;105;115;32;105;115;32;97;32;109;
   101;115;115;97;103;101].
Close Scope N_scope.

Definition xw_cfg (zk : mem_keep) (lk : option mem_keep) (hash : bytes -> N) : pt_config :=
  {| pt_local_off := 0; pt_hash := hash; pt_zone_keep := zk; pt_last_keep := lk |}.

(* A: parse, parseTime, the rest of the worker, output and release; B gets A's struct and A's buffer *)
Definition xw_events (b : bytes) : list pt_event :=
  [XMem (EvParse None None xw_rec_a 1000%Z); XParseTime 0; XMem (EvTransform 0); XMem (EvOutput 0);
   XMem (EvParse (Some 0) (Some 0) b 2000%Z); XParseTime 0; XMem (EvTransform 0); XMem (EvOutput 0)].

Definition xw_run (cfg : pt_config) (b : bytes) : option (list tp_result * list Z) :=
  match pt_sys_run wit_store_cfg cfg 2 (pt_sys_init wit_store_cfg) (xw_events b) with
  | Some s => Some (map snd (xs_log s), map (fun e => d_ts (snd e)) (g_out (xs_g s)))
  | None => None
  end.

(* what A and B get alone: 2019-08-15T12:50:46Z and 2019-08-15T10:50:47Z *)
Lemma xw_alone :
  transform_parse_time 0 (firstn 25 (skipn 7 xw_rec_a)) = TpSet 1565873446 0 /\
  transform_parse_time 0 (firstn 25 (skipn 7 xw_rec_b)) = TpSet 1565866247 0.
Proof. split; vm_compute; reflexivity. Qed.

(* the code (copied keys), with the worst filing function (everything collides), and a shortcut that copies: both right,
   in the results and in the serialized outputs *)
Lemma xw_copy_run :
  pt_copies (xw_cfg KeepCopy None (fun _ => 0%N)) /\ pt_copies (xw_cfg KeepCopy (Some KeepCopy) (fun _ => 0%N)) /\
  xw_run (xw_cfg KeepCopy None (fun _ => 0%N)) xw_rec_b
    = Some ([TpSet 1565873446 0; TpSet 1565866247 0], [1565873446000000000; 1565866247000000000]%Z) /\
  xw_run (xw_cfg KeepCopy (Some KeepCopy) (fun _ => 0%N)) xw_rec_b
    = Some ([TpSet 1565873446 0; TpSet 1565866247 0], [1565873446000000000; 1565866247000000000]%Z).
Proof.
  split; [split; [reflexivity|left; reflexivity]|]. split; [split; [reflexivity|right; reflexivity]|].
  split; vm_compute; reflexivity.
Qed.

(* the seeded shortcut (the remembered string is the record's own): B is given A's timestamp *)
Lemma xw_last_ref_run :
  xw_run (xw_cfg KeepCopy (Some KeepRef) (fun _ => 0%N)) xw_rec_b
    = Some ([TpSet 1565873446 0; TpSet 1565873446 0], [1565873446000000000; 1565873446000000000]%Z).
Proof. vm_compute; reflexivity. Qed.

(* the code before the fix (the map key is the record's own substring), when "+03:00" and "+05:00" are filed in the
   same place: B's instant is computed with A's zone, two hours off (10:50:47Z becomes 12:50:47Z) *)
Lemma xw_zone_ref_run :
  xw_run (xw_cfg KeepRef None (fun _ => 0%N)) xw_rec_b
    = Some ([TpSet 1565873446 0; TpSet 1565873447 0], [1565873446000000000; 1565873447000000000]%Z).
Proof. vm_compute; reflexivity. Qed.

(* ... and with a filing function that separates the two strings the stale entry is not found (the defect needs a
   collision: about one pair of zones in 4096 for a Go map of 16 buckets) *)
Lemma xw_zone_ref_no_collision :
  xw_run (xw_cfg KeepRef None (fun b => N.of_nat (length b) + nth 2 b 0)%N) xw_rec_b
    = Some ([TpSet 1565873446 0; TpSet 1565866247 0], [1565873446000000000; 1565866247000000000]%Z).
Proof. vm_compute; reflexivity. Qed.

(* ---- setting record.Timestamp touches nothing else: no buffer, no string, no reference count, no other record ---- *)
Lemma mem_list_set_map_same : forall {A B} (f : A -> B) (l : list A) (i : nat) (x y : A),
  nth_error l i = Some y -> f x = f y -> map f (mem_list_set l i x) = map f l.
Proof.
  intros A B f l. induction l as [|a l IH]; intros i x y Hn Hf; destruct i; cbn in *; try discriminate.
  - inversion Hn; subst. rewrite Hf. reflexivity.
  - rewrite (IH _ _ _ Hn Hf). reflexivity.
Qed.

Definition pt_slot_rest (s : mem_slot) := (r_fields (sl_rec s), r_rawlen (sl_rec s), r_unesc (sl_rec s), r_backbuf (sl_rec s), r_refc (sl_rec s), sl_state s).

Lemma pt_set_ts_frame : forall g h ts,
  let g' := pt_set_ts g h ts in
  g_bufs g' = g_bufs g /\ g_cfg g' = g_cfg g /\ g_dirty g' = g_dirty g /\ g_out g' = g_out g /\ g_log g' = g_log g /\
  g_status g' = g_status g /\ g_next_rid g' = g_next_rid g /\ map pt_slot_rest (g_slots g') = map pt_slot_rest (g_slots g).
Proof.
  intros g h ts. unfold pt_set_ts. destruct (nth_error (g_slots g) h) as [s|] eqn:E; cbn.
  - repeat (split; [reflexivity|]). unfold mem_upd_slot. apply (mem_list_set_map_same pt_slot_rest _ _ _ s E). reflexivity.
  - repeat (split; [reflexivity|]). reflexivity.
Qed.
