(* Proofs about Model/ShutdownBacklog.v (C18: the feeder around a stop request, backlog of arbitrary length). *)
From SV Require Import Model.Common Model.ShutdownBacklog.
From Coq Require Import Lia ZifyBool ZifyN ZifyNat.
Ltac Zify.zify_post_hook ::= Z.div_mod_to_equations.
Local Open Scope nat_scope.

(* ------------------------------------------------------------------------------------------ *)
(* 1. invariants of the reachable states                                                        *)

Definition no_fast (s : fstate) : Prop := match f_pc s with PFast _ => False | _ => True end.

Definition mark_inv (s : fstate) : Prop :=
  match f_mark s with
  | Some m => f_closed s = true /\ m <= length (f_out s)
  | None => f_closed s = false
  end.

Definition in_cleanup (pc : fpc) : bool :=
  match pc with PRecv | PFast _ | PSelect _ => false | _ => true end.

Definition cleanup_closed (s : fstate) : Prop := in_cleanup (f_pc s) = true -> f_closed s = true.

Definition good (s : fstate) : Prop := no_fast s /\ mark_inv s /\ cleanup_closed s.

Ltac step_cases H :=
  repeat match type of H with
  | context [match ?x with _ => _ end] => destruct x eqn:?; try discriminate
  end.

Ltac step_inv H := unfold f_step, do_send, do_leave, set_pc, has_room in H; step_cases H; inversion H; subst; clear H.

Lemma good_init : good f_init.
Proof. repeat split; cbn; try discriminate. Qed.

Lemma good_with_queue : forall l, good (with_queue l).
Proof. intros l. repeat split; cbn; try discriminate. Qed.

Lemma good_step : forall cfg s e s', fg_fast cfg = false -> good s -> f_step cfg s e = Some s' -> good s'.
Proof.
  intros cfg s e s' Hf (Hn & Hm & Hc) H.
  unfold good, no_fast, mark_inv, cleanup_closed in *.
  destruct e; step_inv H; cbn in *;
    repeat match goal with
    | H : ?a = _ |- context [?a] => rewrite H in *
    | H : ?a = _, H' : context [?a] |- _ => rewrite H in H'
    end; cbn in *;
    try (repeat split; auto; try discriminate; try congruence; try lia; fail).
  all: destruct (f_mark s) as [m|]; [destruct Hm as [Hm1 Hm2]|]; repeat split; auto; try discriminate; try congruence; try lia.
Qed.

Lemma good_run : forall cfg evs s s', fg_fast cfg = false -> good s -> f_run cfg s evs = Some s' -> good s'.
Proof.
  induction evs as [|e evs IH]; intros s s' Hf Hg H; cbn in H.
  - inversion H; subst; exact Hg.
  - destruct (f_step cfg s e) as [s1|] eqn:E; [|discriminate].
    eapply IH; [exact Hf| |exact H]. eapply good_step; eauto.
Qed.

(* ------------------------------------------------------------------------------------------ *)
(* 2. the stop branch is offered whenever a forward is possible                                 *)

Lemma stop_branch_enabled_good : forall cfg s, fg_fast cfg = false -> good s ->
  f_closed s = true -> enabled cfg s FSend = true -> enabled cfg s FStop = true.
Proof.
  intros cfg s Hf (Hn & _ & _) Hcl Hs. unfold enabled, no_fast in *. cbn in *.
  destruct (f_pc s); try discriminate; try contradiction. rewrite Hcl. reflexivity.
Qed.

Lemma stop_branch_always_enabled_lemma : forall cfg evs s, fg_fast cfg = false ->
  f_run cfg f_init evs = Some s ->
  f_closed s = true -> enabled cfg s FSend = true -> enabled cfg s FStop = true.
Proof.
  intros cfg evs s Hf Hr. apply stop_branch_enabled_good; [exact Hf|]. eapply good_run; eauto using good_init.
Qed.

(* after the stop request the feeder is never stuck on its own: some step of the feeder is enabled in every state
   but the wait for the consumers (a peer wait: Model/Shutdown.v feeder, C18_feeder_bounded_by_client); at the receive
   it is FRecv / FEnd, at the select it is the stop branch *)
Lemma never_stuck_good : forall cfg s, fg_fast cfg = false -> good s -> f_closed s = true ->
  f_pc s <> PStopped ->
  (exists e, feeder_event e = true /\ enabled cfg s e = true /\
             (forall c, f_pc s = PSelect c -> e = FStop)) \/
  (f_pc s = PWaitConsumers /\ f_cons s = true).
Proof.
  intros cfg s Hf (Hn & _ & _) Hcl Hne. unfold no_fast in Hn. unfold enabled.
  destruct (f_pc s) as [|c|c|last|c| | |] eqn:Epc; try contradiction.
  - destruct (f_queue s) as [|c q] eqn:Eq.
    + left. exists FEnd. cbn. rewrite Epc, Eq, Hcl. repeat split; intros; discriminate.
    + left. exists FRecv. cbn. rewrite Epc, Eq. destruct (fc_ok c); repeat split; intros; discriminate.
  - left. exists FStop. cbn. rewrite Epc, Hcl. repeat split; intros; reflexivity.
  - left. exists FSave. cbn. rewrite Epc. destruct (f_queue s); repeat split; intros; discriminate.
  - left. exists FSave. cbn. rewrite Epc. repeat split; intros; discriminate.
  - destruct (f_cons s) eqn:Ec.
    + right. split; reflexivity.
    + left. exists FWaitDone. cbn. rewrite Epc, Ec. repeat split; intros; discriminate.
  - left. exists FSave. cbn. rewrite Epc. destruct (f_window s); repeat split; intros; discriminate.
Qed.

Lemma never_stuck_lemma : forall cfg evs s, fg_fast cfg = false -> f_run cfg f_init evs = Some s ->
  f_closed s = true -> f_pc s <> PStopped ->
  (exists e, feeder_event e = true /\ enabled cfg s e = true /\
             (forall c, f_pc s = PSelect c -> e = FStop)) \/
  (f_pc s = PWaitConsumers /\ f_cons s = true).
Proof.
  intros cfg evs s Hf Hr. apply never_stuck_good; [exact Hf|]. eapply good_run; eauto using good_init.
Qed.

(* ------------------------------------------------------------------------------------------ *)
(* 3. chunks forwarded after the stop request = selects resolved in favour of the send           *)

Lemma fwd_step : forall cfg s e s', fg_fast cfg = false -> good s -> f_step cfg s e = Some s' ->
  fwd_after s' = fwd_after s + (if is_choice cfg s e then 1 else 0).
Proof.
  intros cfg s e s' Hf (Hn & Hm & _) H.
  unfold no_fast, mark_inv in *. unfold fwd_after, is_choice, enabled.
  destruct e; cbn [same_fev andb]; try (step_inv H; cbn; lia).
  - (* EDestroy *) step_inv H. cbn. destruct (f_mark s) as [m|]; [destruct Hm; congruence|]. lia.
  - (* FSend *)
    unfold f_step at 1 in H. unfold has_room, do_send in H.
    destruct (f_pc s) as [|c|c|last|c| | |] eqn:Epc; try discriminate; try contradiction.
    destruct (Nat.ltb _ _); [|discriminate]. inversion H; subst; clear H. cbn -[Nat.sub]. rewrite Epc.
    destruct (f_mark s) as [m|].
    + destruct Hm as [Hcl Hle]. rewrite Hcl. cbn -[Nat.sub]. lia.
    + rewrite Hm. cbn. reflexivity.
Qed.

Lemma fwd_run : forall cfg evs s s', fg_fast cfg = false -> good s -> f_run cfg s evs = Some s' ->
  fwd_after s' = fwd_after s + f_choices cfg s evs.
Proof.
  induction evs as [|e evs IH]; intros s s' Hf Hg H; cbn in H |- *.
  - inversion H; subst. lia.
  - destruct (f_step cfg s e) as [s1|] eqn:E; [|discriminate].
    rewrite (IH s1 s' Hf (good_step _ _ _ _ Hf Hg E) H), (fwd_step _ _ _ _ Hf Hg E). lia.
Qed.

Lemma after_stop_bounded_by_choices_lemma : forall cfg evs s, fg_fast cfg = false ->
  f_run cfg f_init evs = Some s -> fwd_after s = f_choices cfg f_init evs.
Proof. intros cfg evs s Hf Hr. rewrite (fwd_run _ _ _ _ Hf good_init Hr). reflexivity. Qed.

(* ------------------------------------------------------------------------------------------ *)
(* 4. steps of the feeder after the stop request                                                 *)

Lemma cost_step : forall cfg s e s', fg_fast cfg = false -> good s -> f_closed s = true ->
  f_step cfg s e = Some s' ->
  f_closed s' = true /\
  (if feeder_event e then 1 else 0) + stop_cost s' <= stop_cost s + 2 * (if is_choice cfg s e then 1 else 0).
Proof.
  intros cfg s e s' Hf (Hn & _ & _) Hcl H.
  unfold no_fast in Hn. unfold stop_cost, is_choice, enabled.
  destruct e; cbn [same_fev andb feeder_event];
    try (step_inv H; try congruence; cbn -[Nat.mul]; (split; [assumption|]);
         repeat match goal with He : ?a = _ |- context [?a] => rewrite He end;
         cbn [length pc_cost]; lia).
  - (* FSend *)
    unfold f_step at 1 in H. unfold has_room, do_send in H.
    destruct (f_pc s) as [|c|c|last|c| | |] eqn:Epc; try discriminate; try contradiction.
    destruct (Nat.ltb _ _); [|discriminate]. inversion H; subst; clear H. cbn -[Nat.mul]. rewrite Epc, Hcl.
    cbn -[Nat.mul]. split; [reflexivity|]. rewrite app_length. cbn. lia.
Qed.

Lemma steps_run : forall cfg evs s s', fg_fast cfg = false -> good s -> f_closed s = true ->
  f_run cfg s evs = Some s' ->
  f_steps evs + stop_cost s' <= stop_cost s + 2 * f_choices cfg s evs.
Proof.
  induction evs as [|e evs IH]; intros s s' Hf Hg Hcl H; cbn in H.
  - inversion H; subst. cbn. lia.
  - destruct (f_step cfg s e) as [s1|] eqn:E; [|discriminate].
    destruct (cost_step _ _ _ _ Hf Hg Hcl E) as [Hcl1 Hle].
    specialize (IH s1 s' Hf (good_step _ _ _ _ Hf Hg E) Hcl1 H).
    unfold f_steps in *. cbn [filter f_choices]. rewrite E.
    destruct (feeder_event e); cbn [length] in *; lia.
Qed.

Lemma steps_after_stop_bounded_lemma : forall cfg evs0 s, fg_fast cfg = false ->
  f_run cfg f_init evs0 = Some s -> f_closed s = true ->
  forall evs s', f_run cfg s evs = Some s' ->
  f_steps evs <= length (f_queue s) + length (f_window s) + 5 + 2 * f_choices cfg s evs.
Proof.
  intros cfg evs0 s Hf Hr Hcl evs s' Hr'.
  pose proof (steps_run _ _ _ _ Hf (good_run _ _ _ _ Hf good_init Hr) Hcl Hr') as H.
  assert (pc_cost (f_pc s) <= 5) by (destruct (f_pc s) as [| | |[|]| | | |]; cbn; lia).
  unfold stop_cost in H. lia.
Qed.

(* ------------------------------------------------------------------------------------------ *)
(* 4b. the main loop holds at most one chunk: what it has taken from the queue is forwarded, dropped, or the one
       chunk in its hand (which becomes lastInputChunk); holds for the variant too                                *)

Definition loops_inv (s : fstate) : Prop :=
  match f_pc s with
  | PRecv => f_loops s = length (f_out s) + length (f_bad s)
  | PFast _ | PSelect _ => f_loops s = length (f_out s) + length (f_bad s) + 1
  | _ => f_loops s <= length (f_out s) + length (f_bad s) + 1
  end.

Lemma loops_step : forall cfg s e s', loops_inv s -> f_step cfg s e = Some s' -> loops_inv s'.
Proof.
  intros cfg s e s' Hi H. unfold loops_inv in *.
  destruct e; step_inv H; cbn in *;
    repeat match goal with He : f_pc _ = _ |- _ => rewrite He in * end; cbn in *; try lia;
    repeat match goal with
           | |- context [match f_pc ?x with _ => _ end] => destruct (f_pc x)
           | Hx : context [match f_pc ?x with _ => _ end] |- _ => destruct (f_pc x)
           end; cbn in *; try lia.
Qed.

Lemma loops_run : forall cfg evs s s', loops_inv s -> f_run cfg s evs = Some s' -> loops_inv s'.
Proof.
  induction evs as [|e evs IH]; intros s s' Hi H; cbn in H.
  - inversion H; subst; exact Hi.
  - destruct (f_step cfg s e) as [s1|] eqn:E; [|discriminate]. eapply IH; [|exact H]. eapply loops_step; eauto.
Qed.

Lemma loop_holds_one_chunk_lemma : forall cfg evs s, f_run cfg f_init evs = Some s ->
  f_loops s <= length (f_out s) + length (f_bad s) + 1.
Proof.
  intros cfg evs s Hr. assert (Hi : loops_inv f_init) by reflexivity.
  pose proof (loops_run _ _ _ _ Hi Hr) as H. unfold loops_inv in H. destruct (f_pc s); lia.
Qed.

(* ------------------------------------------------------------------------------------------ *)
(* 5. the variant with the non-blocking send first                                              *)

Lemma run_app : forall cfg a b s, f_run cfg s (a ++ b) =
  match f_run cfg s a with Some s1 => f_run cfg s1 b | None => None end.
Proof.
  induction a as [|e a IH]; intros b s; cbn; [reflexivity|].
  destruct (f_step cfg s e); [apply IH|reflexivity].
Qed.

Lemma run_accepts_from : forall cfg l l0, length l0 + length l <= fg_qcap cfg ->
  f_run cfg (with_queue l0) (accepts l) = Some (with_queue (l0 ++ l)).
Proof.
  induction l as [|c l IH]; intros l0 Hle; cbn.
  - rewrite app_nil_r. reflexivity.
  - cbn in Hle. cbn. destruct (fg_qcap cfg) as [|m'] eqn:Eq; [lia|].
    assert (E : Nat.leb (length l0) m' = true) by (apply PeanoNat.Nat.leb_le; lia). rewrite E.
    change (FS PRecv (l0 ++ [c]) false [] false true [] None [] [] 0 0) with (with_queue (l0 ++ [c])).
    fold (accepts l). rewrite IH; [|rewrite app_length; cbn; lia]. rewrite <- app_assoc. reflexivity.
Qed.

Lemma run_accepts_lemma : forall cfg l, length l <= fg_qcap cfg ->
  f_run cfg f_init (accepts l) = Some (with_queue l).
Proof. intros cfg l H. exact (run_accepts_from cfg l [] H). Qed.

Lemma backlog_from_length : forall n i, length (backlog_from i n) = n.
Proof. induction n as [|n IH]; intros i; cbn; [reflexivity|]. rewrite IH. reflexivity. Qed.

(* the state after the stop request with l in the queue, [out] already forwarded and taken *)
Definition stopped_with (l out : list fchunk) (m taken loops : nat) : fstate :=
  FS PRecv l true [] false true out (Some m) [] [] taken loops.

Lemma fast_forced : forall w q n i out m taken loops, 0 < w ->
  let cfg := FCFG w q true in
  exists out',
    f_run_forced cfg (stopped_with (backlog_from i n) out m taken loops) (rep n pass_one)
      = Some (stopped_with [] out' m (n + taken) (n + loops)) /\
    length out' = n + length out /\
    f_choices cfg (stopped_with (backlog_from i n) out m taken loops) (rep n pass_one) = 0.
Proof.
  intros w q n. induction n as [|n IH]; intros i out m taken loops Hw cfg.
  - exists out. cbn. repeat split.
  - destruct w as [|w']; [lia|].
    destruct (IH (i + 1)%Z (FC i true :: out) m (S taken) (S loops) Hw) as (out' & Hr & Hl & Hc).
    exists out'. cbn [backlog_from rep pass_one app].
    split; [|split].
    + cbn. cbn in Hr. rewrite <- !plus_n_Sm in Hr. exact Hr.
    + rewrite Hl. cbn. lia.
    + cbn. cbn in Hc. exact Hc.
Qed.

Lemma fast_path_variant_refuted_lemma : forall n w q, 0 < w -> n <= q ->
  let cfg := FCFG w q true in
  exists s0 s,
    f_run cfg f_init (accepts (backlog n) ++ [EDestroy]) = Some s0 /\
    length (f_queue s0) = n /\
    f_run_forced cfg s0 (rep n pass_one) = Some s /\
    fwd_after s = n /\ f_choices cfg s0 (rep n pass_one) = 0 /\ f_queue s = [] /\
    (0 < n -> exists s1, f_run cfg s0 [FRecv] = Some s1 /\ f_closed s1 = true /\
                         enabled cfg s1 FSend = true /\ enabled cfg s1 FStop = false).
Proof.
  intros n w q Hw Hn cfg.
  destruct (fast_forced w q n 0%Z [] 0 0 0 Hw) as (out' & Hr & Hl & Hc).
  exists (stopped_with (backlog n) [] 0 0 0), (stopped_with [] out' 0 (n + 0) (n + 0)).
  split; [|split; [|split; [|split; [|split; [|split]]]]].
  - rewrite run_app, run_accepts_lemma; [reflexivity|]. unfold backlog. rewrite backlog_from_length. exact Hn.
  - cbn. unfold backlog. apply backlog_from_length.
  - exact Hr.
  - unfold fwd_after. cbn. cbn in Hl. lia.
  - exact Hc.
  - reflexivity.
  - intros Hpos. destruct n as [|n]; [lia|]. destruct w as [|w']; [lia|].
    eexists. cbn. repeat split.
Qed.

(* ------------------------------------------------------------------------------------------ *)
(* 6. a concrete run (test on literals: non-vacuity)                                            *)

Lemma backlog_example_lemma :
  let cfg := FCFG 8 500 false in
  replay_backlog cfg 40 5 3 = Some (3, 3, 8, 32, 9, true) /\
  (exists s, f_run cfg f_init (accepts (backlog 40) ++ rep 5 pass_one ++ [EDestroy] ++ rep 3 pass_one) = Some s /\
             f_closed s = true /\ fwd_after s = 3 /\ length (f_queue s) = 32) /\
  replay_backlog (FCFG 8 500 true) 40 5 3 = Some (0, 3, 8, 0, 9, false).
Proof. vm_compute. repeat split. eexists. repeat split. Qed.
