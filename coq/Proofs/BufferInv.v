(* The invariant of the hybrid-buffer LTS (Model/Buffer.v) and the helper lemmas used to show that
   every event preserves it (Proofs/BufferProofs.v). *)
From SV Require Import Model.Common Model.FileWrite Model.Buffer Spec.BufferSpec Proofs.CommonFacts Proofs.FileWriteProofs.
From Coq Require Import Lia ZifyBool ZifyN ZifyNat Sorting.Sorted.
Ltac Zify.zify_post_hook ::= Z.div_mod_to_equations.

(* ---------- counting names ---------- *)
Definition cnt (x : name) (l : list name) : nat := count_occ name_eq_dec l x.

Lemma cnt_nil : forall x, cnt x [] = 0%nat.
Proof. reflexivity. Qed.

Lemma cnt_app : forall x l1 l2, cnt x (l1 ++ l2) = (cnt x l1 + cnt x l2)%nat.
Proof. intros. unfold cnt. apply count_occ_app. Qed.

Lemma cnt_cons : forall x y l, cnt x (y :: l) = (cnt x [y] + cnt x l)%nat.
Proof. intros. change (y :: l) with ([y] ++ l). apply cnt_app. Qed.

Lemma cnt_single_same : forall x, cnt x [x] = 1%nat.
Proof. intros. unfold cnt. cbn. destruct (name_eq_dec x x); [reflexivity|congruence]. Qed.

Lemma cnt_single_other : forall x y, x <> y -> cnt x [y] = 0%nat.
Proof. intros. unfold cnt. cbn. destruct (name_eq_dec y x); [congruence|reflexivity]. Qed.

Lemma cnt_single_le : forall x y, (cnt x [y] <= 1)%nat.
Proof. intros. unfold cnt. cbn. destruct (name_eq_dec y x); lia. Qed.

Lemma cnt_in : forall x l, In x l <-> (cnt x l > 0)%nat.
Proof. intros. unfold cnt. apply count_occ_In. Qed.

Lemma cnt_notin : forall x l, ~ In x l <-> cnt x l = 0%nat.
Proof. intros. unfold cnt. apply count_occ_not_In. Qed.

Lemma nodup_cnt : forall l, NoDup l <-> (forall x, (cnt x l <= 1)%nat).
Proof. intros. unfold cnt. apply NoDup_count_occ. Qed.

Definition ids (l : list chunk) : list name := map c_id l.

Lemma ids_app : forall a b, ids (a ++ b) = ids a ++ ids b.
Proof. intros. apply map_app. Qed.

Lemma ids_in : forall c l, In c l -> In (c_id c) (ids l).
Proof. intros. apply in_map. assumption. Qed.

Lemma nth_error_split_remove : forall {A} (l : list A) i c,
  nth_error l i = Some c -> exists l1 l2, l = l1 ++ c :: l2 /\ remove_nth i l = l1 ++ l2.
Proof.
  intros A l i c H. apply nth_error_split in H. destruct H as (l1 & l2 & Hl & Hlen).
  exists l1, l2. split; [assumption|]. subst l i. unfold remove_nth.
  rewrite firstn_app, firstn_all, Nat.sub_diag, firstn_O, app_nil_r.
  change (S (length l1)) with (1 + length l1)%nat. rewrite Nat.add_comm.
  rewrite skipn_app. rewrite skipn_all2 by lia.
  replace (length l1 + 1 - length l1)%nat with 1%nat by lia. reflexivity.
Qed.

Lemma cnt_remove_nth : forall x l i c,
  nth_error l i = Some c -> cnt x (ids l) = (cnt x [c_id c] + cnt x (ids (remove_nth i l)))%nat.
Proof.
  intros x l i c H. apply nth_error_split_remove in H. destruct H as (l1 & l2 & Hl & Hr).
  rewrite Hr, Hl. rewrite !ids_app. cbn [ids map]. rewrite !cnt_app. rewrite (cnt_cons x (c_id c)).
  fold (ids l2). lia.
Qed.

Lemma in_firstn_in : forall {A} n (l : list A) x, In x (firstn n l) -> In x l.
Proof.
  induction n as [|n IH]; intros l x H; [contradiction|].
  destruct l as [|a l]; [contradiction|]. cbn [firstn] in H. destruct H as [H|H]; [left; exact H|right; apply IH; exact H].
Qed.

Lemma in_skipn_in : forall {A} n (l : list A) x, In x (skipn n l) -> In x l.
Proof.
  induction n as [|n IH]; intros l x H; [exact H|].
  destruct l as [|a l]; [contradiction|]. cbn [skipn] in H. right. apply IH. exact H.
Qed.

Lemma in_remove_nth : forall {A} (l : list A) i x, In x (remove_nth i l) -> In x l.
Proof.
  intros A l i x H. unfold remove_nth in H. apply in_app_or in H. destruct H as [H|H].
  - eapply in_firstn_in. eassumption.
  - eapply in_skipn_in. eassumption.
Qed.

(* ---------- derived views of the state ---------- *)
(* the chunk(s) the feeder holds, counted once *)
Definition hand (p : fpc) : list chunk :=
  match p with
  | FLoad c => [c]
  | FPush _ c' => [c']
  | FSave (Some c) => [c]
  | FSaveW (Some l) c => [c; l]
  | FSaveW None c => [c]
  | FSaveOutW c => [c]
  | _ => []
  end.

(* ... and every copy it holds (Run's own copy and the loaded one) *)
Definition hand_all (p : fpc) : list chunk :=
  match p with
  | FPush c c' => [c; c']
  | _ => hand p
  end.

Definition inflight (s : state) : list chunk := st_queue s ++ hand (st_fpc s) ++ st_win s ++ st_hold s.
Definition tracked (s : state) : list chunk := st_queue s ++ hand_all (st_fpc s) ++ st_win s ++ st_hold s.

(* the feeder is past saveQueued: the queue has been drained for good *)
Definition after_queue (p : fpc) : bool :=
  match p with FWait | FSaveOut | FSaveOutW _ | FStopped => true | _ => false end.

Definition main_loop (p : fpc) : bool :=
  match p with FRecv | FLoad _ | FPush _ _ => true | _ => false end.

Definition feeder_ids (p : fpc) : list name :=
  match p with FLoad c => [c_id c] | FPush c _ => [c_id c] | _ => [] end.

Definition wf_chunk (s : state) (c : chunk) : Prop :=
  match c_data c, c_saved c with
  | Some d, false => (exists b, In (c_id c, d, b) (g_acc (st_gh s))) /\ dir_get (st_dir s) (c_id c) = None
  | Some d, true => dir_get (st_dir s) (c_id c) = Some (EFile d) /\ is_orig (st_gh s) (c_id c) (EFile d) /\ st_dirok s = true
  | None, true => (exists e, dir_get (st_dir s) (c_id c) = Some e /\ is_orig (st_gh s) (c_id c) e) /\ st_dirok s = true
  | None, false => False
  end.

Section Sizes.
Variable dirsize : Z.

(* ---------- owned_sum ---------- *)
Lemma owned_sum_app : forall d l1 l2, owned_sum dirsize d (l1 ++ l2) = (owned_sum dirsize d l1 + owned_sum dirsize d l2)%Z.
Proof. induction l1 as [|x l1 IH]; intros; cbn [owned_sum app]; [lia|]. rewrite IH. lia. Qed.

Lemma owned_sum_ext : forall d d' l,
  (forall x, In x l -> dir_get d' x = dir_get d x) -> owned_sum dirsize d' l = owned_sum dirsize d l.
Proof.
  induction l as [|x l IH]; intros H; cbn [owned_sum]; [reflexivity|].
  rewrite H by (left; reflexivity). rewrite IH; [reflexivity|]. intros y Hy. apply H. right. exact Hy.
Qed.

Lemma owned_sum_change : forall d d' l x,
  NoDup l -> In x l ->
  (forall y, In y l -> y <> x -> dir_get d' y = dir_get d y) ->
  owned_sum dirsize d' l = (owned_sum dirsize d l - esize dirsize (dir_get d x) + esize dirsize (dir_get d' x))%Z.
Proof.
  induction l as [|a l IH]; intros x Hnd Hin Hfr; [contradiction|].
  inversion Hnd as [|? ? Hnotin Hnd']; subst. cbn [owned_sum].
  destruct Hin as [Hin|Hin].
  - subst a. rewrite (owned_sum_ext d d' l); [lia|].
    intros y Hy. apply Hfr; [right; exact Hy|]. intros E; subst. contradiction.
  - rewrite (IH x Hnd' Hin) by (intros y Hy Hne; apply Hfr; [right; exact Hy|exact Hne]).
    rewrite (Hfr a) by (try (left; reflexivity); intros E; subst; contradiction). lia.
Qed.

End Sizes.

Section Inv.
Variable matchf : name -> bool.
Variable dirsize : Z.

(* holds whether or not a bufferer is running *)
Record PInv (s : state) : Prop := {
  p_sorted : dir_sorted (st_dir s);
  p_ever_files : forall x d, In (x, d) (st_ever s) ->
                   dir_get (st_dir s) x = None \/ dir_get (st_dir s) x = Some (EFile d);
  p_ever_nodup : NoDup (map fst (st_ever s));
  p_ever_match : forall x, In x (map fst (st_ever s)) -> matchf x = true
}.

(* holds while a bufferer exists (st_up) *)
Record Inv (s : state) : Prop := {
  i_nodup : NoDup (entered (st_gh s));
  i_count : forall x, (cnt x (ids (inflight s)) + cnt x (g_confirmed (st_gh s)) + cnt x (g_dropped (st_gh s))
                       + cnt x (g_retained (st_gh s)) = cnt x (entered (st_gh s)))%nat;
  i_match : forall x, In x (entered (st_gh s)) -> matchf x = true;
  i_chunk : forall c, In c (tracked s) -> wf_chunk s c;
  i_ret : forall x, In x (g_retained (st_gh s)) ->
            exists e, dir_get (st_dir s) x = Some e /\ is_orig (st_gh s) x e;
  i_conf : forall x, In x (g_confirmed (st_gh s)) -> dir_get (st_dir s) x = None;
  i_space : m_pbytes (st_met s) = owned_sum dirsize (st_dir s) (entered (st_gh s));
  i_bound : (m_pbytes (st_met s) <= Z.max (g_initbytes (st_gh s)) (st_max s) + g_maxfw (st_gh s))%Z
            /\ (0 <= g_maxfw (st_gh s))%Z;
  i_savew : forall c back, saving (st_fpc s) = Some (c, back) ->
              (m_pbytes (st_met s) <= st_max s)%Z /\ (dlen c <= g_maxfw (st_gh s))%Z /\
              c_saved c = false /\ exists d, c_data c = Some d;
  i_push : forall c c', st_fpc s = FPush c c' -> c_id c' = c_id c /\ zero_length c' = false;
  i_dropped : m_dropped (st_met s) = Z.of_nat (length (g_dropped (st_gh s)));
  i_consumed : m_consumed (st_met s) = Z.of_nat (length (g_confirmed (st_gh s)));
  i_fifo : exists rest, g_rec (st_gh s) ++ enq_ids (st_gh s) = map fst (g_proc (st_gh s)) ++ rest /\
             (main_loop (st_fpc s) = true -> rest = feeder_ids (st_fpc s) ++ ids (st_queue s));
  i_offered_ids : ids (g_offered (st_gh s)) = offered_ids (st_gh s);
  i_offered_orig : forall c, In c (g_offered (st_gh s)) ->
                     exists d, c_data c = Some d /\ is_orig (st_gh s) (c_id c) (EFile d);
  i_win : g_offered (st_gh s) = map fst (g_out (st_gh s)) ++ st_win s;
  i_hold : forall c, In c (st_hold s) -> In c (g_offered (st_gh s));
  i_winbound : (length (st_win s) <= st_M s)%nat;
  i_qbound : (length (st_queue s) <= st_Q s)%nat;
  i_closed : main_loop (st_fpc s) = false -> st_closed s = true;
  i_empty : (after_queue (st_fpc s) = true -> st_queue s = []) /\ (st_fpc s = FStopped -> st_win s = []);
  i_recsorted : StronglySorted name_lt (g_rec (st_gh s));
  i_acc_ever : forall x d b, In (x, d, b) (g_acc (st_gh s)) -> In (x, d) (st_ever s);
  i_rec_ever : forall x d e, In (x, d) (st_ever s) -> In x (g_rec (st_gh s)) ->
                 dir_get (g_init (st_gh s)) x = Some e -> e = EFile d;
  i_rec_def : g_rec (st_gh s) = ids (firstn (st_Q s) (scan matchf (st_dirok s) (g_init (st_gh s))))
}.

Definition Good (s : state) : Prop := PInv s /\ (st_up s = true -> Inv s).

(* ---------- is_orig / wf_chunk are stable ---------- *)
Lemma is_orig_mono : forall g g' x e,
  incl (g_acc g) (g_acc g') -> g_rec g' = g_rec g -> g_init g' = g_init g ->
  is_orig g x e -> is_orig g' x e.
Proof.
  intros g g' x e Hi Hr Hn [(d & b & Hin & He)|[Hin Hg]].
  - left. exists d, b. split; [apply Hi; exact Hin|exact He].
  - right. rewrite Hr, Hn. split; assumption.
Qed.

Lemma wf_chunk_frame : forall s s' c,
  dir_get (st_dir s') (c_id c) = dir_get (st_dir s) (c_id c) ->
  incl (g_acc (st_gh s)) (g_acc (st_gh s')) ->
  g_rec (st_gh s') = g_rec (st_gh s) -> g_init (st_gh s') = g_init (st_gh s) ->
  st_dirok s' = st_dirok s ->
  wf_chunk s c -> wf_chunk s' c.
Proof.
  intros s s' c Hd Hi Hr Hn Hok Hwf. unfold wf_chunk in *.
  destruct (c_data c) as [d|]; destruct (c_saved c); rewrite ?Hd, ?Hok.
  - destruct Hwf as (H1 & H2 & H3). repeat split; try assumption. eapply is_orig_mono; eassumption.
  - destruct Hwf as ((b & Hb) & H2). split; [exists b; apply Hi; exact Hb|exact H2].
  - destruct Hwf as ((e & H1 & H2) & H3). split; [|exact H3]. exists e. split; [exact H1|].
    eapply is_orig_mono; eassumption.
  - exact Hwf.
Qed.

End Inv.
