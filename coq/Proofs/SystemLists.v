(* List facts used by the proofs about Model/System.v. *)
From Coq Require Import List Arith Bool Lia PeanoNat Permutation NArith.
From SV Require Import Model.Common Model.System.
Import ListNotations.
Open Scope nat_scope.

Lemma take_first_spec : forall A (f : A -> bool) l x r,
  take_first f l = Some (x, r) ->
  f x = true /\ exists a b, l = a ++ x :: b /\ r = a ++ b /\ (forall y, In y a -> f y = false).
Proof.
  induction l as [|y l IH]; intros x r H; cbn in H; [discriminate|].
  destruct (f y) eqn:Fy.
  - inversion H; subst. split; [assumption|]. exists [], r. cbn. repeat split; auto. intros ? [].
  - destruct (take_first f l) as [[z r']|] eqn:T; [|discriminate].
    inversion H; subst. destruct (IH _ _ eq_refl) as [Fx [a [b [E1 [E2 Ha]]]]].
    split; [assumption|]. exists (y :: a), b. subst. cbn. repeat split; auto.
    intros w [->|Hw]; auto.
Qed.

Lemma take_first_in : forall A (f : A -> bool) l x r,
  take_first f l = Some (x, r) -> forall y, In y l <-> x = y \/ In y r.
Proof.
  intros A f l x r H y. destruct (take_first_spec _ _ _ _ _ H) as [_ [a [b [-> [-> _]]]]].
  rewrite !in_app_iff. cbn. intuition.
Qed.

Lemma take_first_none : forall A (f : A -> bool) l, take_first f l = None -> forall y, In y l -> f y = false.
Proof.
  induction l as [|x l IH]; intros H y Hy; [destruct Hy|]. cbn in H.
  destruct (f x) eqn:Fx; [discriminate|].
  destruct (take_first f l) as [[z r']|] eqn:T; [discriminate|].
  destruct Hy as [->|Hy]; auto.
Qed.

Lemma take_first_flat : forall A B (g : A -> list B) (f : A -> bool) l x r,
  take_first f l = Some (x, r) -> forall y, In y (flat_map g l) <-> In y (g x) \/ In y (flat_map g r).
Proof.
  intros A B g f l x r H y. destruct (take_first_spec _ _ _ _ _ H) as [_ [a [b [-> [-> _]]]]].
  rewrite !flat_map_app. cbn. rewrite !in_app_iff. intuition.
Qed.

Lemma partition_in : forall A (f : A -> bool) l a b,
  partition f l = (a, b) -> forall y, In y l <-> In y a \/ In y b.
Proof. intros. eapply elements_in_partition; eauto. Qed.

Lemma partition_flat : forall A B (g : A -> list B) (f : A -> bool) l a b,
  partition f l = (a, b) -> forall y, In y (flat_map g l) <-> In y (flat_map g a) \/ In y (flat_map g b).
Proof.
  intros A B g f l a b H y. rewrite !in_flat_map. split.
  - intros [x [Hx Hy]]. apply (partition_in _ _ _ _ _ H) in Hx. destruct Hx; [left|right]; eauto.
  - intros [[x [Hx Hy]]|[x [Hx Hy]]]; exists x; split; auto; apply (partition_in _ _ _ _ _ H); auto.
Qed.

Lemma partition_fst_true : forall A (f : A -> bool) l a b, partition f l = (a, b) -> forall y, In y a -> f y = true.
Proof.
  induction l as [|x l IH]; intros a b H y Hy; cbn in H.
  - inversion H; subst. destruct Hy.
  - destruct (partition f l) as [a' b'] eqn:P. destruct (f x) eqn:Fx; inversion H; subst.
    + destruct Hy as [->|Hy]; auto. eapply IH; eauto.
    + eapply IH; eauto.
Qed.

Lemma partition_snd_false : forall A (f : A -> bool) l a b, partition f l = (a, b) -> forall y, In y b -> f y = false.
Proof.
  induction l as [|x l IH]; intros a b H y Hy; cbn in H.
  - inversion H; subst. destruct Hy.
  - destruct (partition f l) as [a' b'] eqn:P. destruct (f x) eqn:Fx; inversion H; subst.
    + eapply IH; eauto.
    + destruct Hy as [->|Hy]; auto. eapply IH; eauto.
Qed.

Lemma partition_as_filter : forall A (f : A -> bool) l,
  partition f l = (filter f l, filter (fun x => negb (f x)) l).
Proof.
  induction l as [|x l IH]; cbn; [reflexivity|]. rewrite IH. destruct (f x); reflexivity.
Qed.

Lemma insert_item_in : forall x l y, In y (insert_item x l) <-> y = x \/ In y l.
Proof.
  induction l as [|z l IH]; intros y; cbn; [intuition|].
  destruct (Nat.leb (q_id x) (q_id z)); cbn; [intuition|]. rewrite IH. intuition.
Qed.

Lemma sort_items_in : forall l y, In y (sort_items l) <-> In y l.
Proof.
  induction l as [|x l IH]; intros y; cbn; [tauto|]. rewrite insert_item_in, IH. intuition.
Qed.

Lemma sort_items_flat : forall B (g : qitem -> list B) l y, In y (flat_map g (sort_items l)) <-> In y (flat_map g l).
Proof.
  intros. rewrite !in_flat_map. split; intros [x [Hx Hy]]; exists x; split; auto; apply sort_items_in; auto.
Qed.

Lemma none_of_spec : forall A (f : A -> bool) l, none_of f l = true <-> forall y, In y l -> f y = false.
Proof.
  intros. unfold none_of. rewrite negb_true_iff. split.
  - intros H y Hy. destruct (f y) eqn:Fy; auto.
    assert (existsb f l = true) by (apply existsb_exists; eauto). congruence.
  - intros H. destruct (existsb f l) eqn:E; auto. apply existsb_exists in E. destruct E as [y [Hy Fy]].
    rewrite (H _ Hy) in Fy. discriminate.
Qed.

Lemma mem_nat_spec : forall k l, mem_nat k l = true <-> In k l.
Proof.
  intros. unfold mem_nat. rewrite existsb_exists. split.
  - intros [x [Hx E]]. apply Nat.eqb_eq in E. subst. auto.
  - intros H. exists k. split; auto. apply Nat.eqb_refl.
Qed.

Lemma remove_nat_in : forall k l x, In x (remove_nat k l) <-> In x l /\ x <> k.
Proof.
  intros. unfold remove_nat. rewrite filter_In, negb_true_iff, Nat.eqb_neq. tauto.
Qed.

Lemma add_pipe_in : forall p l x, In x (add_pipe p l) <-> x = p \/ In x l.
Proof.
  intros. unfold add_pipe. destruct (existsb (Nat.eqb p) l) eqn:E.
  - apply existsb_exists in E. destruct E as [y [Hy E]]. apply Nat.eqb_eq in E. subst. intuition. subst. auto.
  - rewrite in_app_iff. cbn. intuition.
Qed.

Lemma add_pipe_list_in : forall ps l x, In x (add_pipe_list ps l) <-> In x ps \/ In x l.
Proof.
  unfold add_pipe_list. induction ps as [|p ps IH]; intros l x; cbn; [tauto|].
  rewrite IH, add_pipe_in. intuition.
Qed.

Lemma add_pipes_in : forall ts l x, In x (add_pipes ts l) <-> (exists t, In t ts /\ t_pipe t = x) \/ In x l.
Proof.
  intros. unfold add_pipes. rewrite add_pipe_list_in, in_map_iff. split.
  - intros [[t [E H]]|H]; [left; eauto|right; auto].
  - intros [[t [H E]]|H]; [left; eauto|right; auto].
Qed.

Lemma singleton_batches_toks : forall l, toks_of_batches (singleton_batches l) = l.
Proof. induction l as [|x l IH]; cbn; [reflexivity|]. unfold toks_of_batches, singleton_batches in *. rewrite IH. reflexivity. Qed.

Lemma singleton_batches_in : forall l b, In b (singleton_batches l) -> exists t, In t l /\ b = (t_pipe t, [t]).
Proof. intros l b H. unfold singleton_batches in H. apply in_map_iff in H. destruct H as [t [E H]]. eauto. Qed.

Lemma singleton_batches_flat : forall l, flat_map snd (singleton_batches l) = l.
Proof. exact singleton_batches_toks. Qed.

Lemma toks_of_batches_app : forall a b, toks_of_batches (a ++ b) = toks_of_batches a ++ toks_of_batches b.
Proof. intros. apply flat_map_app. Qed.
Lemma toks_of_items_app : forall a b, toks_of_items (a ++ b) = toks_of_items a ++ toks_of_items b.
Proof. intros. apply flat_map_app. Qed.
Lemma toks_of_chunks_app : forall a b, toks_of_chunks (a ++ b) = toks_of_chunks a ++ toks_of_chunks b.
Proof. intros. apply flat_map_app. Qed.

Lemma tok_eqb_eq : forall a b, tok_eqb a b = true <-> a = b.
Proof.
  intros [a1 a2 a3 a4 a5] [b1 b2 b3 b4 b5]. unfold tok_eqb. cbn.
  rewrite !andb_true_iff, !Nat.eqb_eq, Bool.eqb_true_iff, N.eqb_eq. split.
  - intros [[[[-> ->] ->] ->] ->]. reflexivity.
  - intros H. inversion H. auto.
Qed.

Lemma toks_eqb_eq : forall a b, toks_eqb a b = true <-> a = b.
Proof.
  induction a as [|x a IH]; intros [|y b]; cbn; try (split; [discriminate|discriminate]); [tauto|].
  rewrite andb_true_iff, tok_eqb_eq, IH. split; [intros [-> ->]; reflexivity|intros H; inversion H; auto].
Qed.

Lemma chunk_eqb_eq : forall a b, chunk_eqb a b = true <-> a = b.
Proof.
  intros [a1 a2 a3] [b1 b2 b3]. unfold chunk_eqb. cbn.
  rewrite !andb_true_iff, !Nat.eqb_eq, toks_eqb_eq. split.
  - intros [[-> ->] ->]. reflexivity.
  - intros H. inversion H. auto.
Qed.

Lemma remove_file_in : forall c0 l c, In c (remove_file c0 l) <-> In c l /\ c <> c0.
Proof.
  intros. unfold remove_file. rewrite filter_In, negb_true_iff. split; intros [H1 H2]; split; auto.
  - intros ->. assert (chunk_eqb c0 c0 = true) by (apply chunk_eqb_eq; reflexivity). congruence.
  - destruct (chunk_eqb c c0) eqn:E; auto. apply chunk_eqb_eq in E. contradiction.
Qed.

Lemma existsb_chunk_in : forall c l, existsb (chunk_eqb c) l = true <-> In c l.
Proof.
  intros. rewrite existsb_exists. split.
  - intros [x [Hx E]]. apply chunk_eqb_eq in E. subst. auto.
  - intros H. exists c. split; auto. apply chunk_eqb_eq. reflexivity.
Qed.

Lemma tf_head_in : forall A (f : A -> bool) l x r, take_first f l = Some (x, r) -> In x l.
Proof. intros. apply (take_first_in _ _ _ _ _ H). left. reflexivity. Qed.
Lemma tf_rest_in : forall A (f : A -> bool) l x r y, take_first f l = Some (x, r) -> In y r -> In y l.
Proof. intros. apply (take_first_in _ _ _ _ _ H). right. assumption. Qed.
Lemma part_fst_in : forall A (f : A -> bool) l a b y, partition f l = (a, b) -> In y a -> In y l.
Proof. intros. apply (partition_in _ _ _ _ _ H). left. assumption. Qed.
Lemma part_snd_in : forall A (f : A -> bool) l a b y, partition f l = (a, b) -> In y b -> In y l.
Proof. intros. apply (partition_in _ _ _ _ _ H). right. assumption. Qed.
