(* Proofs about Model/SystemQuota.v: on the guarded agent a chunk is discarded only when the queue directory of its
   pipeline, AS IT IS AT THAT MOMENT, cannot take it, or the queue is full; the runs of the guarded agent are runs of
   Model/System.v (conservation, at-least-once); the agent whose space check reads an only-growing counter discards a
   chunk at an EMPTY directory (witness history). *)
From Coq Require Import List Arith Bool Lia PeanoNat NArith.
From SV Require Import Model.Common Model.System Model.SystemAccept Model.SystemQuota
  Proofs.SystemLists Proofs.SystemProofs Proofs.SystemAlo.
Import ListNotations.
Open Scope nat_scope.

Section QuotaProofs.
Variable sz : chunk -> nat.
Variable lim qmax : nat.

Notation dir_full := (dir_full sz lim).
Notation queue_full := (queue_full qmax).
Notation qstep := (qstep sz lim qmax).
Notation qsteps := (qsteps sz lim qmax).

(* the overflow condition, evaluated in state s for chunk c *)
Definition overflow (s : state) (c : chunk) : Prop := dir_full s c = true \/ queue_full s (c_pipe c) = true.

Definition drop_effect (s s' : state) : Prop :=
  dropped s' = dropped s \/ exists c, dropped s' = dropped s ++ [c] /\ overflow s c.

Lemma close_chunk_drop : forall s p id o s',
  close_chunk s p id o = Some s' -> outcome_ok sz lim qmax s (closing_chunk s p id) o = true -> drop_effect s s'.
Proof.
  intros s p id o s' H J. unfold close_chunk in H. unfold outcome_ok, closing_chunk in J.
  destruct (partition (on_pipe p) (cur s)) as [mine others] eqn:E. cbn [fst c_toks c_pipe] in J.
  destruct mine as [|t mine]; [discriminate H|].
  destruct (Nat.ltb (lastid s) id); [|discriminate H]. inversion H; subst; clear H.
  unfold drop_effect, overflow.
  destruct o; cbn [do_accept dropped].
  - left. reflexivity.
  - left. reflexivity.
  - right. eexists. split; [reflexivity|]. left. exact J.
  - right. eexists. split; [reflexivity|]. right. exact J.
  - right. eexists. split; [reflexivity|]. right. apply andb_true_iff in J. tauto.
Qed.

Lemma persist_drop : forall s src p ok q rest fl dr,
  take_first (item_on p) src = Some (q, rest) -> persist_ok sz lim s src p ok = true ->
  persist q ok (files s) (dropped s) = (fl, dr) ->
  dr = dropped s \/ (dr = dropped s ++ [q_chunk q] /\ dir_full s (q_chunk q) = true).
Proof.
  intros s src p ok q rest fl dr T J P. unfold persist_ok in J. rewrite T in J. unfold persist in P.
  destruct (q_saved q); [inversion P; left; reflexivity|].
  destruct ok; inversion P; subst; [left; reflexivity|]. right. split; [reflexivity|exact J].
Qed.

(* ONE STEP: the dropped-chunk history grows by at most one chunk, and only under the overflow condition evaluated
   on the state in which the step is taken *)
Lemma qstep_drop_only_when_full : forall s e s', qstep s e = Some s' -> drop_effect s s'.
Proof.
  intros s e s' H. unfold SystemQuota.qstep in H. destruct (justified sz lim qmax s e) eqn:J; [|discriminate].
  destruct e; cbn [justified] in J;
    try (step_inv H; left; reflexivity).
  - (* EChunkClose *) cbn [step] in H. destruct (pphase_eqb (pph s p) PRun); [|discriminate].
    eapply close_chunk_drop; eassumption.
  - (* EWorkerStop *) cbn [step] in H.
    destruct (gphase_eqb (phase s) Draining && pphase_eqb (pph s p) PRun && mem_nat p (pipes s)
              && none_of (batch_on p) (chans s) && none_of (on_pipe p) (hand s)); [|discriminate].
    destruct (none_of (on_pipe p) (cur s)).
    + inversion H; subst. left. reflexivity.
    + destruct (close_chunk s p id o) as [s1|] eqn:C; [|discriminate]. inversion H; subst.
      destruct (close_chunk_drop _ _ _ _ _ C J) as [E|[c [E O]]]; [left|right; exists c; split]; try exact E; exact O.
  - (* EFeederLoad *) destruct ok; [|discriminate J]. step_inv H; left; reflexivity.
  - (* ESave *) cbn [step] in H.
    destruct (pphase_eqb (pph s p) PSaving && match w with WWindow => cphase_eqb (cph s p) CDone | _ => true end); [|discriminate].
    destruct w; cbn [justified] in J.
    + destruct (take_first (item_on p) (queue s)) as [[q rest]|] eqn:T; [|discriminate].
      destruct (persist q ok (files s) (dropped s)) as [fl dr] eqn:P. inversion H; subst.
      destruct (persist_drop _ _ _ _ _ _ _ _ T J P) as [E|[E O]]; [left; exact E|right; exists (q_chunk q); split; [exact E|left; exact O]].
    + destruct (take_first (item_on p) (fhand s)) as [[q rest]|] eqn:T; [|discriminate].
      destruct (persist q ok (files s) (dropped s)) as [fl dr] eqn:P. inversion H; subst.
      destruct (persist_drop _ _ _ _ _ _ _ _ T J P) as [E|[E O]]; [left; exact E|right; exists (q_chunk q); split; [exact E|left; exact O]].
    + destruct (take_first (item_on p) (window s)) as [[q rest]|] eqn:T; [|discriminate].
      destruct (persist q ok (files s) (dropped s)) as [fl dr] eqn:P. inversion H; subst.
      destruct (persist_drop _ _ _ _ _ _ _ _ T J P) as [E|[E O]]; [left; exact E|right; exists (q_chunk q); split; [exact E|left; exact O]].
  - (* EHandback *) cbn [step] in H. destruct (cphase_eqb (cph s p) CHanding); [|discriminate].
    destruct (take_first (item_on p) (leftovers s)) as [[q rest]|] eqn:T; [|discriminate].
    destruct (persist q ok (files s) (dropped s)) as [fl dr] eqn:P. inversion H; subst.
    destruct (persist_drop _ _ _ _ _ _ _ _ T J P) as [E|[E O]]; [left; exact E|right; exists (q_chunk q); split; [exact E|left; exact O]].
Qed.

(* runs of the guarded agent are runs of Model/System.v *)
Lemma qsteps_steps : forall es s s', qsteps s es = Some s' -> steps s es = Some s'.
Proof.
  induction es as [|e es IH]; intros s s' H; cbn in *; [assumption|].
  unfold SystemQuota.qstep in H. destruct (justified sz lim qmax s e); [|discriminate].
  destruct (step s e) as [s1|]; [|discriminate]. apply IH. assumption.
Qed.

(* ALL RUNS: every chunk in the dropped history was discarded by a step taken in a state — reached by a prefix of the
   run — in which the overflow condition held for it: the directory of its pipeline, with the files it contained AT
   THAT MOMENT, could not take it, or its queue was full *)
Lemma qsteps_drop_only_when_full : forall es s0 s, qsteps s0 es = Some s ->
  forall c, In c (dropped s) -> In c (dropped s0) \/
    exists es1 e es2 s1, es = es1 ++ e :: es2 /\ qsteps s0 es1 = Some s1 /\ overflow s1 c.
Proof.
  induction es as [|e es IH]; intros s0 s H c Hc; cbn in H.
  - inversion H; subst. left. assumption.
  - destruct (qstep s0 e) as [s1|] eqn:E; [|discriminate].
    destruct (IH _ _ H c Hc) as [Hin|[es1 [e1 [es2 [s2 [-> [R O]]]]]]].
    + destruct (qstep_drop_only_when_full _ _ _ E) as [D|[c' [D O]]]; rewrite D in Hin.
      * left. assumption.
      * apply in_app_iff in Hin. destruct Hin as [Hin|[<-|[]]]; [left; assumption|].
        right. exists [], e, es, s0. repeat split; assumption.
    + right. exists (e :: es1), e1, es2, s2. split; [reflexivity|]. split; [|assumption]. cbn. rewrite E. assumption.
Qed.

Lemma quota_at_least_once : forall es s, qsteps init es = Some s -> no_timeout es = true -> phase s = Stopped ->
  forall t, In t (ingested s) -> t_keep t = true ->
    In t (toks_of_chunks (acked s)) \/ In t (toks_of_chunks (files s)) \/
    (exists c, In c (dropped s) /\ In t (c_toks c) /\
               exists es1 e es2 s1, es = es1 ++ e :: es2 /\ qsteps init es1 = Some s1 /\ overflow s1 c).
Proof.
  intros es s H N HP t Ht Hk.
  destruct (at_least_once_lemma es s (qsteps_steps _ _ _ H) N HP t Ht Hk) as [A|[F|D]]; [tauto|tauto|].
  right. right. unfold toks_of_chunks in D. apply in_flat_map in D. destruct D as [c [Hc Hin]].
  exists c. split; [assumption|]. split; [assumption|].
  destruct (qsteps_drop_only_when_full _ _ _ H c Hc) as [[]|X]. exact X.
Qed.

End QuotaProofs.

(* ---------- the only-growing counter (seeded change C01/7) ---------- *)

Definition wt1 : tok := mkTok 0 0 1 true 1%N.
Definition wt2 : tok := mkTok 0 1 1 true 2%N.

(* limit 1, a chunk of one record has size 1.  Outage: the first chunk is spilled (directory 1 = full).  Healthy: it
   is loaded, sent, acknowledged, its file removed (directory EMPTY).  Second outage: the next chunk must be spilled. *)
Definition cumulative_history : list event :=
  [EConnOpen 0; EIngest wt1; EFrame 0; ESinkSend 0; EKeyFlush 0 1; EWorkerTake 1; EWorkerStep 1; EChunkClose 1 1 ADisk;
   EFeederTake 1; EFeederLoad 1 true; EFeederPush 1; EConnect 1; ESendNew 1; ESrvAck 1 1; EAckRead 1 1;
   EIngest wt2; EFrame 0; ESinkSend 0; EKeyFlush 0 1; EWorkerTake 1; EWorkerStep 1].

Definition cumulative_drop : event := EChunkClose 1 2 ADropQuota.

Definition force_c (o : option cstate) : cstate := match o with Some x => x | None => (init, fun _ => 0) end.
Definition w1 : cstate := force_c (csteps qsz 1 64 (init, fun _ => 0) cumulative_history).
Definition w2 : cstate := force_c (cstep qsz 1 64 w1 cumulative_drop).

Lemma cumulative_counter_witness :
  exists s1 u1 s2 u2 c,
    csteps qsz 1 64 (init, fun _ => 0) cumulative_history = Some (s1, u1) /\
    qsteps qsz 1 64 init cumulative_history = Some s1 /\
    files s1 = [] /\ queue s1 = [] /\                                   (* the directory and the queue are EMPTY *)
    cstep qsz 1 64 (s1, u1) cumulative_drop = Some (s2, u2) /\         (* the variant discards the chunk ... *)
    dropped s2 = [c] /\ c_toks c = [wt2] /\
    dir_full qsz 1 s1 c = false /\ queue_full 64 s1 (c_pipe c) = false /\ (* ... although neither limit is reached *)
    qstep qsz 1 64 s1 cumulative_drop = None /\                        (* the guarded agent cannot take this step *)
    exists s3, qstep qsz 1 64 s1 (EChunkClose 1 2 ADisk) = Some s3 /\ In wt2 (toks_of_chunks (files s3)).
Proof.
  exists (fst w1), (snd w1), (fst w2), (snd w2), (mkChunk 2 1 [wt2]).
  split; [vm_compute; reflexivity|].
  split; [vm_compute; reflexivity|].
  split; [vm_compute; reflexivity|].
  split; [vm_compute; reflexivity|].
  split; [vm_compute; reflexivity|].
  split; [vm_compute; reflexivity|].
  split; [reflexivity|].
  split; [vm_compute; reflexivity|].
  split; [vm_compute; reflexivity|].
  split; [vm_compute; reflexivity|].
  eexists. split; [vm_compute; reflexivity|]. cbn. left. reflexivity.
Qed.
