From SV Require Import Model.Common Model.Utf8 Model.Parser Spec.Utf8Spec Spec.SyslogSpec Proofs.CommonFacts Proofs.Utf8Proofs.
From Coq Require Import Lia ZifyBool ZifyN ZifyNat.
Ltac Zify.zify_post_hook ::= Z.div_mod_to_equations.
Open Scope N_scope.
(* Proofs about Model/Parser.v against Spec/SyslogSpec.v and Spec/Utf8Spec.v. *)

(* ---------- strings.IndexByte, nextFieldBySpace ---------- *)

Lemma index_byte_app : forall t c rest, ~ In c t -> index_byte (t ++ c :: rest) c = Some (length t).
Proof.
  induction t as [|b t IH]; intros c rest H; cbn [app index_byte length].
  - rewrite N.eqb_refl. reflexivity.
  - destruct (b =? c) eqn:E; [exfalso; apply H; left; lia|].
    rewrite IH; [reflexivity|]. intros Hin. apply H. right. exact Hin.
Qed.

Lemma index_byte_some : forall s c e, index_byte s c = Some e ->
  s = firstn e s ++ c :: skipn (S e) s /\ ~ In c (firstn e s) /\ (e < length s)%nat.
Proof.
  induction s as [|b s IH]; intros c e H; [discriminate|].
  cbn [index_byte] in H. destruct (b =? c) eqn:E.
  - injection H as <-. cbn [firstn skipn app length]. split; [f_equal; lia|]. split; [intros []|lia].
  - destruct (index_byte s c) as [e'|] eqn:E'; [|discriminate]. injection H as <-.
    destruct (IH c e' E') as [H1 [H2 H3]]. cbn [firstn skipn app length].
    split; [f_equal; exact H1|]. split; [|lia].
    intros [Hb|Hin]; [lia|]. apply H2. exact Hin.
Qed.

Lemma index_byte_none : forall s c, index_byte s c = None -> ~ In c s.
Proof.
  induction s as [|b s IH]; intros c H; [intros []|].
  cbn [index_byte] in H. destruct (b =? c) eqn:E; [discriminate|].
  destruct (index_byte s c) eqn:E'; [discriminate|].
  intros [Hb|Hin]; [lia|]. exact (IH c E' Hin).
Qed.

Lemma next_field_app : forall t rest, no_space t -> next_field_by_space (t ++ 32 :: rest) = Some (t, rest).
Proof.
  intros t rest H. unfold next_field_by_space. rewrite index_byte_app by exact H.
  rewrite firstn_app, firstn_all, Nat.sub_diag. cbn [firstn]. rewrite app_nil_r.
  replace (S (length t)) with (length (t ++ [32])) by (rewrite app_length; cbn [length]; lia).
  replace (t ++ 32 :: rest) with ((t ++ [32]) ++ rest) by (rewrite <- app_assoc; reflexivity).
  rewrite skipn_app, skipn_all, Nat.sub_diag. reflexivity.
Qed.

Lemma next_field_some : forall s v r, next_field_by_space s = Some (v, r) -> s = v ++ 32 :: r /\ no_space v.
Proof.
  intros s v r H. unfold next_field_by_space in H.
  destruct (index_byte s 32) as [e|] eqn:E; [|discriminate]. injection H as <- <-.
  destruct (index_byte_some s 32 e E) as [H1 [H2 _]]. split; assumption.
Qed.

(* ---------- strings.HasSuffix ---------- *)

Lemma has_suffix_app : forall body suf, has_suffix (body ++ suf) suf = true.
Proof.
  intros body suf. unfold has_suffix. rewrite app_length.
  replace (length body + length suf - length suf)%nat with (length body) by lia.
  rewrite skipn_app, skipn_all, Nat.sub_diag. cbn [skipn app].
  rewrite bytes_eqb_refl. replace (length suf <=? length body + length suf)%nat with true by lia. reflexivity.
Qed.

Lemma has_suffix_inv : forall s suf, has_suffix s suf = true -> exists body, s = body ++ suf.
Proof.
  intros s suf H. unfold has_suffix in H. apply andb_true_iff in H. destruct H as [_ H].
  apply bytes_eqb_eq in H. exists (firstn (length s - length suf) s).
  rewrite <- H at 2. symmetry. apply firstn_skipn.
Qed.

(* ---------- strconv.Atoi ---------- *)

Definition dec_step (a : Z) (d : N) : Z := (a * 10 + (Z.of_N d - 48))%Z.

Lemma digits_value_unfold : forall ds, digits_value ds = fold_left dec_step ds 0%Z.
Proof. reflexivity. Qed.

Lemma N_of_dec_acc_some : forall ds acc v, N_of_dec_acc ds acc = Some v ->
  Forall digit ds /\ Z.of_N v = fold_left dec_step ds (Z.of_N acc).
Proof.
  induction ds as [|d ds IH]; intros acc v H; cbn [N_of_dec_acc] in H.
  - injection H as <-. split; [constructor|reflexivity].
  - destruct (is_digit d) eqn:E; [|discriminate]. apply is_digit_spec in E.
    destruct (IH _ _ H) as [H1 H2]. split; [constructor; [exact E|exact H1]|].
    rewrite H2. cbn [fold_left]. f_equal. unfold dec_step. lia.
Qed.

Lemma N_of_dec_acc_digits : forall ds acc, Forall digit ds ->
  exists v, N_of_dec_acc ds acc = Some v /\ Z.of_N v = fold_left dec_step ds (Z.of_N acc).
Proof.
  induction ds as [|d ds IH]; intros acc H; cbn [N_of_dec_acc].
  - exists acc. split; reflexivity.
  - inversion H as [|? ? Hd Hds]; subst.
    replace (is_digit d) with true by (symmetry; apply is_digit_spec; exact Hd).
    destruct (IH (acc * 10 + (d - 48)) Hds) as [v [E1 E2]]. exists v. split; [exact E1|].
    rewrite E2. cbn [fold_left]. f_equal. unfold dec_step, digit in *. lia.
Qed.

Lemma fold_dec_nonneg : forall ds a, Forall digit ds -> (0 <= a)%Z -> (0 <= fold_left dec_step ds a)%Z.
Proof.
  induction ds as [|d ds IH]; intros a H Ha; [exact Ha|].
  inversion H as [|? ? Hd Hds]; subst. cbn [fold_left]. apply IH; [exact Hds|]. unfold dec_step, digit in *. lia.
Qed.

Lemma digits_value_nonneg : forall ds, Forall digit ds -> (0 <= digits_value ds)%Z.
Proof. intros ds H. apply fold_dec_nonneg; [exact H|lia]. Qed.

Definition int64_range (n : Z) : Prop := (- 9223372036854775808 <= n <= 9223372036854775807)%Z.

(* Atoi returns n exactly for the integer literals denoting an int64 *)
Lemma atoi_some : forall s n, atoi s = Some n -> int_literal s n /\ int64_range n.
Proof.
  intros s n H. unfold atoi in H.
  assert (K : forall (ds : bytes) (neg : bool), ds <> [] ->
            match N_of_dec_acc ds 0 with
            | Some m => let v := if neg then (- Z.of_N m)%Z else Z.of_N m in
                        if ((v <? -9223372036854775808) || (9223372036854775807 <? v))%Z then None else Some v
            | None => None
            end = Some n ->
            Forall digit ds /\ n = (if neg then - digits_value ds else digits_value ds)%Z /\ int64_range n).
  { intros ds neg Hne K. destruct (N_of_dec_acc ds 0) as [m|] eqn:E; [|discriminate].
    destruct (N_of_dec_acc_some _ _ _ E) as [H1 H2]. cbn [Z.of_N] in H2. rewrite <- digits_value_unfold in H2.
    cbv zeta in K. destruct ((_ <? _) || (_ <? _))%Z eqn:R; [discriminate|]. injection K as <-.
    split; [exact H1|]. rewrite H2. split; [reflexivity|]. unfold int64_range. destruct neg; lia. }
  destruct s as [|c s]; [discriminate|].
  destruct (c =? 45) eqn:E45.
  - replace ((c =? 43) || true) with true in H by (destruct (c =? 43); reflexivity).
    assert (c = 45) by lia. subst c.
    destruct s as [|d s]; [discriminate|].
    destruct (K (d :: s) true) as [H1 [H2 H3]]; [discriminate|exact H|]. subst n. split; [|exact H3].
    apply IL_minus; [discriminate|exact H1].
  - destruct (c =? 43) eqn:E43; cbn [orb] in H.
    + assert (c = 43) by lia. subst c. destruct s as [|d s]; [discriminate|].
      destruct (K (d :: s) false) as [H1 [H2 H3]]; [discriminate|exact H|]. subst n. split; [|exact H3].
      apply IL_plus; [discriminate|exact H1].
    + destruct (K (c :: s) false) as [H1 [H2 H3]]; [discriminate|exact H|]. subst n. split; [|exact H3].
      apply IL_plain; [discriminate|exact H1].
Qed.

Lemma atoi_literal : forall s n, int_literal s n -> int64_range n -> atoi s = Some n.
Proof.
  intros s n H R. unfold int64_range in R.
  assert (K : forall ds : bytes, Forall digit ds -> exists m, N_of_dec_acc ds 0 = Some m /\ Z.of_N m = digits_value ds).
  { intros ds Hd. destruct (N_of_dec_acc_digits ds 0 Hd) as [m [E1 E2]]. exists m. split; [exact E1|exact E2]. }
  destruct H as [ds Hne Hd|ds Hne Hd|ds Hne Hd]; destruct (K ds Hd) as [m [E1 E2]].
  - destruct ds as [|c ds]; [contradiction|]. inversion Hd as [|? ? Hc _]; subst. unfold digit in Hc.
    unfold atoi. replace (c =? 45) with false by lia. replace (c =? 43) with false by lia. cbn [orb].
    rewrite E1. cbv zeta. rewrite E2.
    replace ((_ <? _) || (_ <? _))%Z with false by lia. reflexivity.
  - unfold atoi. cbn [N.eqb Pos.eqb orb]. destruct ds as [|c ds]; [contradiction|]. rewrite E1. cbv zeta. rewrite E2.
    replace ((_ <? _) || (_ <? _))%Z with false by lia. reflexivity.
  - unfold atoi. cbn [N.eqb Pos.eqb orb]. destruct ds as [|c ds]; [contradiction|]. rewrite E1. cbv zeta. rewrite E2.
    replace ((_ <? _) || (_ <? _))%Z with false by lia. reflexivity.
Qed.

(* ---------- PRI arithmetic and the name tables ---------- *)

Lemma shiftr3 : forall n, Z.shiftr n 3 = (n / 8)%Z.
Proof. intros n. rewrite Z.shiftr_div_pow2 by lia. reflexivity. Qed.

Lemma land7 : forall n, Z.land n 7 = (n mod 8)%Z.
Proof. intros n. change 7%Z with (Z.ones 3). rewrite Z.land_ones by lia. reflexivity. Qed.

Lemma facility_names_nth : forall k, (k < 24)%nat ->
  nth_error facility_names k = Some (facility_keyword (N.of_nat k)).
Proof.
  intros k H. do 24 (destruct k as [|k]; [reflexivity|]). lia.
Qed.

Lemma facility_lookup : forall f, (0 <= f < 24)%Z ->
  nth_error facility_names (Z.to_nat f) = Some (facility_keyword (Z.to_N f)).
Proof.
  intros f H. rewrite facility_names_nth by lia. f_equal. f_equal. lia.
Qed.

Lemma facility_names_length : length facility_names = 24%nat.
Proof. reflexivity. Qed.

Lemma index_byte_has_newline : forall s,
  match index_byte s 10 with Some _ => true | None => false end = has_newline s.
Proof.
  induction s as [|b s IH]; [reflexivity|].
  unfold has_newline in *. cbn [index_byte existsb]. rewrite (N.eqb_sym 10 b).
  destruct (b =? 10); [reflexivity|]. cbn [orb]. rewrite <- IH.
  destruct (index_byte s 10); reflexivity.
Qed.

Lemma digit_not_space : forall ds, Forall digit ds -> no_space ds.
Proof.
  intros ds H Hin. rewrite Forall_forall in H. specialize (H 32 Hin). unfold digit in H. lia.
Qed.

Lemma int_literal_no_space : forall lit n, int_literal lit n -> no_space lit.
Proof.
  intros lit n H. destruct H as [ds _ Hd|ds _ Hd|ds _ Hd]; try (apply digit_not_space; exact Hd);
    intros [E|Hin]; try discriminate; exact (digit_not_space ds Hd Hin).
Qed.

Lemma pri_token_no_space : forall lit, no_space lit -> no_space (60 :: lit ++ [62; 49]).
Proof.
  intros lit H [E|Hin]; [discriminate|]. apply in_app_or in Hin. destruct Hin as [Hin|[E|[E|[]]]]; try discriminate.
  exact (H Hin).
Qed.

Lemma go_slice_pri : forall lit,
  go_slice (60 :: lit ++ [62; 49]) 1 (Z.of_nat (length (60 :: lit ++ [62; 49])) - 2) = Some lit.
Proof.
  intros lit. unfold go_slice. cbn [length]. rewrite app_length. cbn [length].
  replace ((1 <? 0) || (Z.of_nat (S (length lit + 2)) - 2 <? 1) || (Z.of_nat (S (length lit + 2)) <? Z.of_nat (S (length lit + 2)) - 2))%Z
    with false by lia.
  f_equal. replace (Z.to_nat (Z.of_nat (S (length lit + 2)) - 2) - Z.to_nat 1)%nat with (length lit) by lia.
  change (Z.to_nat 1) with 1%nat. cbn [skipn]. rewrite firstn_app, firstn_all, Nat.sub_diag. cbn [firstn]. apply app_nil_r.
Qed.

(* ---------- a rendered line is parsed into its parts ---------- *)

(* the message as delivered (stated with the model's CleanUTF8; characterised in Props through Utf8Proofs) *)
Definition delivered_log (cfg : config) (linelen : nat) (msg : bytes) : bytes :=
  if max_msg cfg <? N.of_nat (length msg) then clean_utf8 (firstn (N.to_nat (max_msg cfg)) msg)
  else if max_rec cfg <=? N.of_nat linelen then clean_utf8 msg
  else msg.

Definition counters_after_pass (cfg : config) (cnt : counters) (linelen : nat) (msg : bytes) : counters :=
  count_pass (if max_msg cfg <? N.of_nat (length msg) then count_overflow cnt linelen else cnt) linelen.

Lemma parse_render_gen : forall cfg cnt lit n h msg,
  length (level_mapping cfg) = 8%nat ->
  int_literal lit n -> (0 <= n <= 191)%Z -> header_ok h ->
  (32 <= length (render_with lit h msg))%nat ->
  parse cfg cnt (render_with lit h msg) =
    (Ok (Some (record_of (level_mapping cfg) n h
                 (delivered_log cfg (length (render_with lit h msg)) msg)
                 (length (render_with lit h msg)))),
     counters_after_pass cfg cnt (length (render_with lit h msg)) msg).
Proof.
  intros cfg cnt lit n h msg Hlv Hlit Hn [H1 [H2 [H3 [H4 [H5 H6]]]]] Hlen.
  unfold parse.
  set (line := render_with lit h msg) in *.
  replace (length line <? 32)%nat with false by lia.
  assert (Es : starts_with_lt line = true) by reflexivity. rewrite Es. cbn [negb orb].
  unfold line at 1. unfold render_with.
  rewrite next_field_app by (apply pri_token_no_space; exact (int_literal_no_space _ _ Hlit)).
  replace (60 :: lit ++ [62; 49]) with ((60 :: lit) ++ [62; 49]) at 1 by reflexivity.
  rewrite has_suffix_app. cbn [negb].
  rewrite go_slice_pri.
  rewrite (atoi_literal lit n Hlit) by (unfold int64_range; lia).
  rewrite shiftr3, land7, facility_names_length.
  replace ((n / 8 <? 0) || (Z.of_nat 24 <=? n / 8))%Z with false by lia.
  rewrite facility_lookup by lia.
  rewrite (nth_error_nth' (level_mapping cfg) []) by lia.
  rewrite !next_field_app by assumption.
  fold line.
  unfold delivered_log, counters_after_pass, record_of.
  destruct (max_msg cfg <? N.of_nat (length msg)) eqn:Eo.
  - unfold go_slice_to. replace (N.of_nat (length msg) <? max_msg cfg) with false by lia.
    cbn [orb]. rewrite index_byte_has_newline. reflexivity.
  - cbn [orb]. destruct (max_rec cfg <=? N.of_nat (length line)); rewrite index_byte_has_newline; reflexivity.
Qed.

(* ---------- every input: dropped and counted, or a line of the accepted form ---------- *)

Lemma parse_cases : forall cfg cnt input,
  length (level_mapping cfg) = 8%nat ->
  parse cfg cnt input = (Ok None, count_drop cnt (length input)) \/
  exists lit n h msg,
    input = render_with lit h msg /\ int_literal lit n /\ (0 <= n <= 191)%Z /\ header_ok h /\ (32 <= length input)%nat.
Proof.
  intros cfg cnt input Hlv. unfold parse.
  destruct ((length input <? 32)%nat || negb (starts_with_lt input)) eqn:E0; [left; reflexivity|].
  apply orb_false_iff in E0. destruct E0 as [El Es]. apply negb_false_iff in Es.
  destruct (next_field_by_space input) as [[val next]|] eqn:F0; [|left; reflexivity].
  destruct (next_field_some _ _ _ F0) as [Ei Hv].
  destruct (has_suffix val [62; 49]) eqn:Hs; cbn [negb]; [|left; reflexivity].
  destruct (has_suffix_inv _ _ Hs) as [body Eb].
  assert (Hb : exists lit, body = 60 :: lit).
  { rewrite Ei, Eb in Es. destruct body as [|b0 body]; [discriminate Es|].
    cbn [app starts_with_lt] in Es. exists body. f_equal. lia. }
  destruct Hb as [lit ->]. cbn [app] in Eb. rewrite Eb. rewrite go_slice_pri.
  destruct (atoi lit) as [v|] eqn:A; [|left; reflexivity].
  destruct (atoi_some _ _ A) as [Hlit _].
  rewrite shiftr3, facility_names_length.
  destruct ((v / 8 <? 0) || (Z.of_nat 24 <=? v / 8))%Z eqn:Ef; [left; reflexivity|].
  rewrite facility_lookup by lia.
  rewrite land7. rewrite (nth_error_nth' (level_mapping cfg) []) by lia.
  destruct (next_field_by_space next) as [[v1 r1]|] eqn:F1; [|left; reflexivity].
  destruct (next_field_by_space r1) as [[v2 r2]|] eqn:F2; [|left; reflexivity].
  destruct (next_field_by_space r2) as [[v3 r3]|] eqn:F3; [|left; reflexivity].
  destruct (next_field_by_space r3) as [[v4 r4]|] eqn:F4; [|left; reflexivity].
  destruct (next_field_by_space r4) as [[v5 r5]|] eqn:F5; [|left; reflexivity].
  destruct (next_field_by_space r5) as [[v6 r6]|] eqn:F6; [|left; reflexivity].
  right.
  destruct (next_field_some _ _ _ F1) as [E1 N1]. destruct (next_field_some _ _ _ F2) as [E2 N2].
  destruct (next_field_some _ _ _ F3) as [E3 N3]. destruct (next_field_some _ _ _ F4) as [E4 N4].
  destruct (next_field_some _ _ _ F5) as [E5 N5]. destruct (next_field_some _ _ _ F6) as [E6 N6].
  exists lit, v, {| h_time := v1; h_host := v2; h_app := v3; h_pid := v4; h_msgid := v5; h_sd := v6 |}, r6.
  split; [unfold render_with; cbn [h_time h_host h_app h_pid h_msgid h_sd]; rewrite Ei, Eb, E1, E2, E3, E4, E5, E6; reflexivity|].
  split; [exact Hlit|]. split; [lia|]. split; [repeat split; assumption|lia].
Qed.

(* Parse never panics; a message is dropped and counted as such, or it has the accepted form,
   is passed with exactly the fields of the line and counted as such *)
Lemma parse_total : forall cfg cnt input,
  length (level_mapping cfg) = 8%nat ->
  parse cfg cnt input = (Ok None, count_drop cnt (length input)) \/
  exists lit n h msg,
    input = render_with lit h msg /\ int_literal lit n /\ (0 <= n <= 191)%Z /\ header_ok h /\ (32 <= length input)%nat /\
    parse cfg cnt input =
      (Ok (Some (record_of (level_mapping cfg) n h (delivered_log cfg (length input) msg) (length input))),
       counters_after_pass cfg cnt (length input) msg).
Proof.
  intros cfg cnt input Hlv. destruct (parse_cases cfg cnt input Hlv) as [H|[lit [n [h [msg [E [Hl [Hn [Hh Hlen]]]]]]]]]; [left; exact H|].
  right. exists lit, n, h, msg. repeat (split; [assumption|]).
  subst input. apply parse_render_gen; assumption.
Qed.

(* ---------- the first token decides ---------- *)

Lemma first_token_unique : forall t t' r r',
  no_space t -> no_space t' -> t ++ 32 :: r = t' ++ 32 :: r' -> t = t' /\ r = r'.
Proof.
  induction t as [|b t IH]; intros t' r r' H H' E.
  - destruct t' as [|b' t']; cbn [app] in E.
    + injection E as <-. split; reflexivity.
    + injection E as <- _. exfalso. apply H'. left. reflexivity.
  - destruct t' as [|b' t']; cbn [app] in E.
    + injection E as -> _. exfalso. apply H. left. reflexivity.
    + injection E as <- E. destruct (IH t' r r') as [-> ->]; [| |exact E|split; reflexivity].
      * intros Hin. apply H. right. exact Hin.
      * intros Hin. apply H'. right. exact Hin.
Qed.

Lemma parse_rejects : forall cfg cnt tok rest,
  length (level_mapping cfg) = 8%nat -> no_space tok -> ~ pri_token_ok tok ->
  parse cfg cnt (tok ++ 32 :: rest) = (Ok None, count_drop cnt (length (tok ++ 32 :: rest))).
Proof.
  intros cfg cnt tok rest Hlv Ht Hno.
  destruct (parse_total cfg cnt (tok ++ 32 :: rest) Hlv) as [H|[lit [n [h [msg [E [Hl [Hn _]]]]]]]]; [exact H|].
  exfalso. apply Hno. unfold render_with in E.
  destruct (first_token_unique _ _ _ _ Ht (pri_token_no_space lit (int_literal_no_space _ _ Hl)) E) as [-> _].
  exists lit, n. split; [reflexivity|]. split; assumption.
Qed.

Lemma int_literal_functional : forall lit n n', int_literal lit n -> int_literal lit n' -> n = n'.
Proof.
  intros lit n n' H H'.
  assert (D : forall c ds, Forall digit (c :: ds) -> c <> 43 /\ c <> 45).
  { intros c ds F. inversion F as [|? ? Hc _]; subst. unfold digit in Hc. lia. }
  destruct H as [ds _ Hd|ds _ Hd|ds _ Hd]; inversion H' as [ds' _ Hd' E|ds' _ Hd' E|ds' _ Hd' E]; subst;
    try reflexivity;
    try (exfalso; destruct (D _ _ Hd) as [? ?]; congruence);
    try (exfalso; destruct (D _ _ Hd') as [? ?]; congruence).
Qed.

Lemma pri_digits_literal : forall p, p < 1000 -> int_literal (pri_digits p) (Z.of_N p).
Proof.
  intros p H. unfold pri_digits.
  destruct (p <? 10) eqn:E1; [|destruct (p <? 100) eqn:E2].
  - replace (Z.of_N p) with (digits_value [48 + p]) by (unfold digits_value; cbn [fold_left]; lia).
    apply IL_plain; [discriminate|]. repeat constructor; lia.
  - replace (Z.of_N p) with (digits_value [48 + p / 10; 48 + p mod 10]) by (unfold digits_value; cbn [fold_left]; lia).
    apply IL_plain; [discriminate|]. repeat constructor; lia.
  - replace (Z.of_N p) with (digits_value [48 + p / 100; 48 + (p / 10) mod 10; 48 + p mod 10])
      by (unfold digits_value; cbn [fold_left]; lia).
    apply IL_plain; [discriminate|]. repeat constructor; lia.
Qed.

(* ---------- the message as delivered ---------- *)

Lemma delivered_log_exact : forall cfg linelen msg,
  N.of_nat (length msg) <= max_msg cfg ->
  (N.of_nat linelen < max_rec cfg \/ valid_utf8 msg) ->
  delivered_log cfg linelen msg = msg.
Proof.
  intros cfg linelen msg H1 H2. unfold delivered_log.
  replace (max_msg cfg <? N.of_nat (length msg)) with false by lia.
  destruct (max_rec cfg <=? N.of_nat linelen) eqn:E; [|reflexivity].
  destruct H2 as [H2|H2]; [lia|]. apply clean_utf8_valid_id_lemma. exact H2.
Qed.

Lemma delivered_log_length : forall cfg linelen msg,
  (length (delivered_log cfg linelen msg) <= length msg)%nat /\
  (max_msg cfg < N.of_nat (length msg) -> N.of_nat (length (delivered_log cfg linelen msg)) <= max_msg cfg).
Proof.
  intros cfg linelen msg. unfold delivered_log.
  destruct (max_msg cfg <? N.of_nat (length msg)) eqn:E.
  - pose proof (clean_utf8_length_lemma (firstn (N.to_nat (max_msg cfg)) msg)) as L.
    rewrite firstn_length in L. split; lia.
  - split; [|lia]. destruct (max_rec cfg <=? N.of_nat linelen); [apply clean_utf8_length_lemma|lia].
Qed.

Lemma delivered_log_cut : forall cfg linelen msg,
  max_msg cfg < N.of_nat (length msg) ->
  delivered_log cfg linelen msg = clean_utf8 (firstn (N.to_nat (max_msg cfg)) msg).
Proof.
  intros cfg linelen msg H. unfold delivered_log.
  replace (max_msg cfg <? N.of_nat (length msg)) with true by lia. reflexivity.
Qed.

Lemma counters_after_pass_spec : forall cfg cnt linelen msg,
  counted_passed cnt (counters_after_pass cfg cnt linelen msg) linelen /\
  (max_msg cfg < N.of_nat (length msg) -> one_overflow cnt (counters_after_pass cfg cnt linelen msg) linelen) /\
  (N.of_nat (length msg) <= max_msg cfg -> same_overflow cnt (counters_after_pass cfg cnt linelen msg)).
Proof.
  intros cfg cnt linelen msg. unfold counters_after_pass, counted_passed, one_overflow, same_overflow.
  destruct (max_msg cfg <? N.of_nat (length msg)) eqn:E; cbn; repeat split; lia.
Qed.

Lemma count_drop_spec : forall cnt len, counted_dropped cnt (count_drop cnt len) len.
Proof. intros cnt len. unfold counted_dropped, same_overflow. cbn. repeat split; lia. Qed.

(* ---------- sequences through one parser ---------- *)

Definition counters_add (a d : counters) : counters :=
  {| passed_n := passed_n a + passed_n d; passed_bytes := passed_bytes a + passed_bytes d;
     dropped_n := dropped_n a + dropped_n d; dropped_bytes := dropped_bytes a + dropped_bytes d;
     overflow_n := overflow_n a + overflow_n d; overflow_bytes := overflow_bytes a + overflow_bytes d |}.

(* the outcome for a message does not depend on the counters, and the increments do not either *)
Lemma parse_history_independent : forall cfg cnt input,
  length (level_mapping cfg) = 8%nat ->
  parse cfg cnt input =
    (fst (parse cfg counters_zero input), counters_add cnt (snd (parse cfg counters_zero input))).
Proof.
  intros cfg cnt input Hlv.
  destruct (parse_total cfg cnt input Hlv) as [H|[lit [n [h [msg [E [Hl [Hn [Hh [Hlen H]]]]]]]]]].
  - destruct (parse_total cfg counters_zero input Hlv) as [H0|[lit [n [h [msg [E [Hl [Hn [Hh [Hlen H0]]]]]]]]]].
    + rewrite H, H0. cbn [fst snd]. f_equal. unfold count_drop, counters_add. destruct cnt; cbn. f_equal; lia.
    + exfalso. subst input. rewrite (parse_render_gen cfg cnt lit n h msg) in H by assumption. discriminate.
  - subst input. rewrite (parse_render_gen cfg cnt lit n h msg), (parse_render_gen cfg counters_zero lit n h msg) by assumption.
    cbn [fst snd]. f_equal. generalize (length (render_with lit h msg)). intros L.
    unfold counters_after_pass, counters_add, count_pass, count_overflow.
    destruct (max_msg cfg <? N.of_nat (length msg)); destruct cnt; cbn; f_equal; lia.
Qed.

Definition final_counters (cfg : config) (cnt : counters) (msgs : list bytes) : counters :=
  fold_left (fun c m => snd (parse cfg c m)) msgs cnt.

Lemma parse_one_accounting : forall cfg cnt input,
  length (level_mapping cfg) = 8%nat ->
  total_n (snd (parse cfg cnt input)) = total_n cnt + 1 /\
  total_bytes (snd (parse cfg cnt input)) = total_bytes cnt + N.of_nat (length input).
Proof.
  intros cfg cnt input Hlv. unfold total_n, total_bytes.
  destruct (parse_total cfg cnt input Hlv) as [H|[lit [n [h [msg [E [Hl [Hn [Hh [Hlen H]]]]]]]]]]; rewrite H; cbn [snd].
  - cbn. lia.
  - unfold counters_after_pass. destruct (max_msg cfg <? N.of_nat (length msg)); cbn; lia.
Qed.

Lemma stream_accounting : forall cfg msgs cnt,
  length (level_mapping cfg) = 8%nat ->
  total_n (final_counters cfg cnt msgs) = total_n cnt + N.of_nat (length msgs) /\
  total_bytes (final_counters cfg cnt msgs) = total_bytes cnt + sum_lengths msgs.
Proof.
  intros cfg msgs cnt Hlv. revert cnt. induction msgs as [|m ms IH]; intros cnt.
  - cbn. lia.
  - unfold final_counters in *. cbn [fold_left length sum_lengths fold_right].
    destruct (IH (snd (parse cfg cnt m))) as [I1 I2]. destruct (parse_one_accounting cfg cnt m Hlv) as [A1 A2].
    fold (sum_lengths ms). split; lia.
Qed.

Lemma last_nonempty_default : forall (A : Type) (l : list A) (x d d' : A), last (x :: l) d = last (x :: l) d'.
Proof.
  intros A. induction l as [|y l IH]; intros x d d'; [reflexivity|].
  change (last (y :: l) d = last (y :: l) d'). apply IH.
Qed.

Lemma parse_stream_spec : forall cfg msgs cnt,
  length (level_mapping cfg) = 8%nat ->
  map fst (parse_stream cfg cnt msgs) = map (fun m => fst (parse cfg counters_zero m)) msgs /\
  last (map snd (parse_stream cfg cnt msgs)) cnt = final_counters cfg cnt msgs.
Proof.
  intros cfg msgs cnt Hlv. revert cnt. induction msgs as [|m ms IH]; intros cnt; [split; reflexivity|].
  cbn [parse_stream map]. destruct (IH (snd (parse cfg cnt m))) as [I1 I2]. split.
  - rewrite I1. f_equal. rewrite (parse_history_independent cfg cnt m Hlv). reflexivity.
  - unfold final_counters in *. cbn [fold_left]. rewrite <- I2. cbn [snd].
    destruct (map snd (parse_stream cfg (snd (parse cfg cnt m)) ms)) as [|c l] eqn:E; [reflexivity|].
    change (last (c :: l) cnt = last (c :: l) (snd (parse cfg cnt m))). apply last_nonempty_default.
Qed.

Lemma parse_stream_no_panic : forall cfg msgs cnt,
  length (level_mapping cfg) = 8%nat ->
  Forall (fun r => is_panic (fst r) = false) (parse_stream cfg cnt msgs).
Proof.
  intros cfg msgs cnt Hlv. revert cnt. induction msgs as [|m ms IH]; intros cnt; [constructor|].
  cbn [parse_stream]. constructor; [|apply IH].
  destruct (parse_total cfg cnt m Hlv) as [H|[lit [n [h [msg [E [Hl [Hn [Hh [Hlen H]]]]]]]]]]; rewrite H; reflexivity.
Qed.

Lemma new_parser_levels : forall mm mr mapping cfg, new_parser mm mr mapping = Ok cfg ->
  length (level_mapping cfg) = 8%nat /\ max_msg cfg = mm /\ max_rec cfg = mr /\
  (mapping = [] -> level_mapping cfg = severity_names) /\ (mapping <> [] -> level_mapping cfg = mapping).
Proof.
  intros mm mr mapping cfg H. unfold new_parser in H. destruct mapping as [|x l].
  - injection H as <-. cbn. repeat split; try reflexivity. intros C. contradiction.
  - destruct (length (x :: l) =? 8)%nat eqn:E; [|discriminate]. injection H as <-. cbn [level_mapping max_msg max_rec].
    repeat split; try (intros; reflexivity); [lia|intros C; discriminate].
Qed.

(* ====================================================================== *)
(* The statements used by Props/C09.v                                      *)
(* ====================================================================== *)

Definition cfg_ok (cfg : config) : Prop := length (level_mapping cfg) = 8%nat.

(* 1. parse (render ...) returns exactly the parts *)
Lemma parse_render_lemma : forall cfg cnt pri h msg,
  cfg_ok cfg -> pri <= 191 -> header_ok h ->
  (32 <= length (render pri h msg))%nat ->
  N.of_nat (length msg) <= max_msg cfg ->
  (N.of_nat (length (render pri h msg)) < max_rec cfg \/ valid_utf8 msg) ->
  exists cnt',
    parse cfg cnt (render pri h msg) =
      (Ok (Some (record_of (level_mapping cfg) (Z.of_N pri) h msg (length (render pri h msg)))), cnt') /\
    counted_passed cnt cnt' (length (render pri h msg)) /\ same_overflow cnt cnt'.
Proof.
  intros cfg cnt pri h msg Hc Hp Hh Hlen Hm Hr. unfold render in *.
  eexists. split.
  - rewrite (parse_render_gen cfg cnt (pri_digits pri) (Z.of_N pri) h msg Hc); [|apply pri_digits_literal; lia|lia|exact Hh|exact Hlen].
    rewrite delivered_log_exact by assumption. reflexivity.
  - destruct (counters_after_pass_spec cfg cnt (length (render_with (pri_digits pri) h msg)) msg) as [A [_ B]].
    split; [exact A|apply B; exact Hm].
Qed.

(* 1b. the header fields are exact whatever the message; the message is never longer than sent or than the limit *)
Lemma parse_render_any_message_lemma : forall cfg cnt pri h msg,
  cfg_ok cfg -> pri <= 191 -> header_ok h ->
  (32 <= length (render pri h msg))%nat ->
  exists log cnt',
    parse cfg cnt (render pri h msg) =
      (Ok (Some (record_of (level_mapping cfg) (Z.of_N pri) h log (length (render pri h msg)))), cnt') /\
    counted_passed cnt cnt' (length (render pri h msg)) /\
    (length log <= length msg)%nat /\
    (max_msg cfg < N.of_nat (length msg) -> N.of_nat (length log) <= max_msg cfg).
Proof.
  intros cfg cnt pri h msg Hc Hp Hh Hlen. unfold render in *.
  eexists. eexists. split.
  - apply (parse_render_gen cfg cnt (pri_digits pri) (Z.of_N pri) h msg Hc); [apply pri_digits_literal; lia|lia|exact Hh|exact Hlen].
  - split; [apply counters_after_pass_spec|]. apply delivered_log_length.
Qed.

(* 3. an over-long message is cut to the limit, never inside a character, and counted as overflow once *)
Lemma truncation_lemma : forall cfg cnt pri h msg,
  cfg_ok cfg -> pri <= 191 -> header_ok h ->
  (32 <= length (render pri h msg))%nat ->
  max_msg cfg < N.of_nat (length msg) ->
  exists log cnt',
    parse cfg cnt (render pri h msg) =
      (Ok (Some (record_of (level_mapping cfg) (Z.of_N pri) h log (length (render pri h msg)))), cnt') /\
    counted_passed cnt cnt' (length (render pri h msg)) /\
    one_overflow cnt cnt' (length (render pri h msg)) /\
    N.of_nat (length log) <= max_msg cfg /\
    ends_on_boundary log.
Proof.
  intros cfg cnt pri h msg Hc Hp Hh Hlen Ho. unfold render in *.
  eexists. eexists. split.
  - apply (parse_render_gen cfg cnt (pri_digits pri) (Z.of_N pri) h msg Hc); [apply pri_digits_literal; lia|lia|exact Hh|exact Hlen].
  - destruct (counters_after_pass_spec cfg cnt (length (render_with (pri_digits pri) h msg)) msg) as [A [B _]].
    split; [exact A|]. split; [apply B; exact Ho|]. split; [apply delivered_log_length; exact Ho|].
    rewrite delivered_log_cut by exact Ho. apply clean_utf8_boundary_lemma.
Qed.

(* 3b. ... and for a message that is valid UTF-8: exactly the whole characters that fit into the limit *)
Lemma truncation_valid_utf8_lemma : forall cfg cnt pri h cs,
  cfg_ok cfg -> pri <= 191 -> header_ok h -> Forall scalar cs ->
  (32 <= length (render pri h (utf8_encode_all cs)))%nat ->
  max_msg cfg < N.of_nat (length (utf8_encode_all cs)) ->
  exists cs1 c cs2 cnt',
    cs = cs1 ++ c :: cs2 /\
    parse cfg cnt (render pri h (utf8_encode_all cs)) =
      (Ok (Some (record_of (level_mapping cfg) (Z.of_N pri) h (utf8_encode_all cs1)
                   (length (render pri h (utf8_encode_all cs))))), cnt') /\
    N.of_nat (length (utf8_encode_all cs1)) <= max_msg cfg /\
    max_msg cfg < N.of_nat (length (utf8_encode_all cs1) + length (utf8_encode c)) /\
    one_overflow cnt cnt' (length (render pri h (utf8_encode_all cs))).
Proof.
  intros cfg cnt pri h cs Hc Hp Hh Hs Hlen Ho. unfold render in *.
  destruct (clean_cut_valid_lemma cs (N.to_nat (max_msg cfg)) Hs) as [cs1 [c [cs2 [E [Ecl L]]]]]; [lia|].
  exists cs1, c, cs2. eexists. split; [exact E|]. split.
  - rewrite (parse_render_gen cfg cnt (pri_digits pri) (Z.of_N pri) h (utf8_encode_all cs) Hc); [|apply pri_digits_literal; lia|lia|exact Hh|exact Hlen].
    rewrite delivered_log_cut by exact Ho. rewrite Ecl. reflexivity.
  - split; [lia|]. split; [lia|]. apply counters_after_pass_spec. exact Ho.
Qed.

(* 2. a first token that is not "<PRI>1" with PRI denoting 0..191 : dropped and counted *)
Lemma pri_rejected_lemma : forall cfg cnt tok rest,
  cfg_ok cfg -> no_space tok -> ~ pri_token_ok tok ->
  exists cnt',
    parse cfg cnt (tok ++ 32 :: rest) = (Ok None, cnt') /\
    counted_dropped cnt cnt' (length (tok ++ 32 :: rest)).
Proof.
  intros cfg cnt tok rest Hc Ht Hno. eexists. split; [apply parse_rejects; assumption|apply count_drop_spec].
Qed.

Lemma not_pri_token_cases : forall tok,
  (~ exists body, tok = body ++ [62; 49]) \/                                   (* no ">1" at the end *)
  (exists lit, tok = 60 :: lit ++ [62; 49] /\
     ((forall n, ~ int_literal lit n) \/                                       (* not a number *)
      (exists n, int_literal lit n /\ (n < 0 \/ 191 < n)%Z))) \/              (* negative or >= 192 *)
  (exists c t, tok = c :: t /\ c <> 60) ->                                    (* does not start with "<" *)
  ~ pri_token_ok tok.
Proof.
  intros tok H [lit [n [E [Hl Hn]]]]. destruct H as [H|[[lit' [E' H]]|[c [t [E' H]]]]].
  - apply H. exists (60 :: lit). rewrite E. reflexivity.
  - rewrite E in E'. injection E' as E'. apply app_inv_tail in E'. subst lit'.
    destruct H as [H|[n' [Hl' Hn']]]; [exact (H n Hl)|].
    rewrite (int_literal_functional _ _ _ Hl Hl') in Hn. lia.
  - rewrite E in E'. injection E' as <- _. apply H. reflexivity.
Qed.

(* 4. accounting for every byte string: never a panic; exactly one of passed / dropped moves by one,
      with the byte length; overflow only together with passed, once, with the byte length *)
Lemma accounting_lemma : forall cfg cnt input,
  cfg_ok cfg ->
  exists res cnt',
    parse cfg cnt input = (Ok res, cnt') /\
    match res with
    | Some r => counted_passed cnt cnt' (length input) /\ raw_length r = length input /\
                (same_overflow cnt cnt' \/ one_overflow cnt cnt' (length input))
    | None => counted_dropped cnt cnt' (length input)
    end.
Proof.
  intros cfg cnt input Hc.
  destruct (parse_total cfg cnt input Hc) as [H|[lit [n [h [msg [E [Hl [Hn [Hh [Hlen H]]]]]]]]]].
  - exists None. eexists. split; [exact H|apply count_drop_spec].
  - eexists (Some _). eexists. split; [exact H|].
    destruct (counters_after_pass_spec cfg cnt (length input) msg) as [A [B C]].
    split; [exact A|]. split; [reflexivity|].
    destruct (N.lt_ge_cases (max_msg cfg) (N.of_nat (length msg))) as [Ho|Ho]; [right; apply B; exact Ho|left; apply C; exact Ho].
Qed.

Lemma no_panic_lemma : forall cfg cnt input, cfg_ok cfg -> is_panic (fst (parse cfg cnt input)) = false.
Proof.
  intros cfg cnt input Hc. destruct (accounting_lemma cfg cnt input Hc) as [res [cnt' [H _]]]. rewrite H. reflexivity.
Qed.

(* 4b. only lines of the accepted form are passed, and then with exactly the parts of the line *)
Lemma passed_only_wellformed_lemma : forall cfg cnt input r cnt',
  cfg_ok cfg -> parse cfg cnt input = (Ok (Some r), cnt') ->
  exists lit n h msg log,
    input = render_with lit h msg /\ int_literal lit n /\ (0 <= n <= 191)%Z /\ header_ok h /\
    (32 <= length input)%nat /\
    r = record_of (level_mapping cfg) n h log (length input) /\
    (length log <= length msg)%nat /\
    (N.of_nat (length msg) <= max_msg cfg -> N.of_nat (length input) < max_rec cfg -> log = msg).
Proof.
  intros cfg cnt input r cnt' Hc H.
  destruct (parse_total cfg cnt input Hc) as [H0|[lit [n [h [msg [E [Hl [Hn [Hh [Hlen H0]]]]]]]]]]; rewrite H0 in H; [discriminate|].
  injection H as <- _. exists lit, n, h, msg, (delivered_log cfg (length input) msg).
  repeat (split; [assumption|]). split; [reflexivity|]. split; [apply delivered_log_length|].
  intros A B. apply delivered_log_exact; [exact A|left; exact B].
Qed.

(* too short, not starting with "<", or fewer than seven spaces: dropped *)
Lemma count_space_step : forall a b,
  (S (count_occ N.eq_dec b 32%N) <= count_occ N.eq_dec (a ++ 32%N :: b) 32%N)%nat.
Proof.
  intros a b. rewrite count_occ_app, count_occ_cons_eq by reflexivity. lia.
Qed.

Lemma count_space_render : forall lit h msg, (7 <= count_occ N.eq_dec (render_with lit h msg) 32%N)%nat.
Proof.
  intros lit h msg. unfold render_with.
  pose proof (count_space_step (60 :: lit ++ [62; 49])
    (h_time h ++ 32 :: h_host h ++ 32 :: h_app h ++ 32 :: h_pid h ++ 32 :: h_msgid h ++ 32 :: h_sd h ++ 32 :: msg)) as S1.
  pose proof (count_space_step (h_time h)
    (h_host h ++ 32 :: h_app h ++ 32 :: h_pid h ++ 32 :: h_msgid h ++ 32 :: h_sd h ++ 32 :: msg)) as S2.
  pose proof (count_space_step (h_host h) (h_app h ++ 32 :: h_pid h ++ 32 :: h_msgid h ++ 32 :: h_sd h ++ 32 :: msg)) as S3.
  pose proof (count_space_step (h_app h) (h_pid h ++ 32 :: h_msgid h ++ 32 :: h_sd h ++ 32 :: msg)) as S4.
  pose proof (count_space_step (h_pid h) (h_msgid h ++ 32 :: h_sd h ++ 32 :: msg)) as S5.
  pose proof (count_space_step (h_msgid h) (h_sd h ++ 32 :: msg)) as S6.
  pose proof (count_space_step (h_sd h) msg) as S7.
  lia.
Qed.

Lemma malformed_dropped_lemma : forall cfg cnt input,
  cfg_ok cfg ->
  ((length input < 32)%nat \/ hd 0 input <> 60 \/ (count_occ N.eq_dec input 32%N < 7)%nat) ->
  exists cnt', parse cfg cnt input = (Ok None, cnt') /\ counted_dropped cnt cnt' (length input).
Proof.
  intros cfg cnt input Hc H.
  destruct (parse_total cfg cnt input Hc) as [H0|[lit [n [h [msg [E [Hl [Hn [Hh [Hlen H0]]]]]]]]]].
  - eexists. split; [exact H0|apply count_drop_spec].
  - exfalso. destruct H as [H|[H|H]]; [lia| |].
    + apply H. rewrite E. reflexivity.
    + pose proof (count_space_render lit h msg). rewrite <- E in *. lia.
Qed.

(* 5. sequences through one parser *)
Lemma stream_lemma : forall cfg cnt msgs,
  cfg_ok cfg ->
  Forall (fun r => is_panic (fst r) = false) (parse_stream cfg cnt msgs) /\
  map fst (parse_stream cfg cnt msgs) = map (fun m => fst (parse cfg counters_zero m)) msgs /\
  last (map snd (parse_stream cfg cnt msgs)) cnt = final_counters cfg cnt msgs /\
  total_n (final_counters cfg cnt msgs) = total_n cnt + N.of_nat (length msgs) /\
  total_bytes (final_counters cfg cnt msgs) = total_bytes cnt + sum_lengths msgs.
Proof.
  intros cfg cnt msgs Hc. split; [apply parse_stream_no_panic; exact Hc|].
  destruct (parse_stream_spec cfg msgs cnt Hc) as [A B]. destruct (stream_accounting cfg msgs cnt Hc) as [C D].
  repeat split; assumption.
Qed.

(* example: the line of the package's own unit test *)
Definition example_header : header :=
  {| h_time := [50;48;49;57;45;48;56;45;49;53;84;49;53;58;53;48;58;52;54;46;56;54;54;57;49;53;43;48;51;58;48;48];
     h_host := [108;111;99;97;108;49]; h_app := [109;121;45;97;112;112;49]; h_pid := [49;50;51];
     h_msgid := [102;110;49]; h_sd := [45] |}.
Definition example_msg : bytes := [83;111;109;101;116;104;105;110;103].   (* "Something" *)
Definition example_cfg : config := {| max_msg := 1048576; max_rec := 1048832; level_mapping := severity_names |}.

Lemma example_lemma :
  cfg_ok example_cfg /\ header_ok example_header /\ (32 <= length (render 163 example_header example_msg))%nat /\
  valid_utf8 example_msg /\
  fst (parse example_cfg counters_zero (render 163 example_header example_msg)) =
    Ok (Some (record_of severity_names 163 example_header example_msg 74)) /\
  f_facility (record_of severity_names 163 example_header example_msg 74) = [108;111;99;97;108;52] /\   (* local4 *)
  f_level (record_of severity_names 163 example_header example_msg 74) = [101;114;114].                  (* err *)
Proof.
  split; [reflexivity|]. split.
  - unfold header_ok, no_space. cbn. repeat split; intros H; repeat (destruct H as [H|H]; [discriminate H|]); exact H.
  - split; [cbn; lia|]. split; [apply valid_iff_lemma; reflexivity|]. split; [vm_compute; reflexivity|]. split; reflexivity.
Qed.

(* a message is passed exactly when it has the accepted form *)
Lemma passed_iff_lemma : forall cfg cnt input,
  cfg_ok cfg ->
  ((exists r cnt', parse cfg cnt input = (Ok (Some r), cnt')) <->
   ((32 <= length input)%nat /\
    exists lit n h msg, input = render_with lit h msg /\ int_literal lit n /\ (0 <= n <= 191)%Z /\ header_ok h)).
Proof.
  intros cfg cnt input Hc. split.
  - intros [r [cnt' H]]. destruct (passed_only_wellformed_lemma cfg cnt input r cnt' Hc H)
      as [lit [n [h [msg [log [E [Hl [Hn [Hh [Hlen _]]]]]]]]]].
    split; [exact Hlen|]. exists lit, n, h, msg. split; [exact E|]. split; [exact Hl|]. split; [exact Hn|exact Hh].
  - intros [Hlen [lit [n [h [msg [E [Hl [Hn Hh]]]]]]]]. subst input.
    eexists. eexists. apply (parse_render_gen cfg cnt lit n h msg); assumption.
Qed.
