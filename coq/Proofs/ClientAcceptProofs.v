(* C02 — soundness of the trace acceptor: an accepted observation list is the observable projection of
   a run of the client LTS (inside the connection contract when the acceptor was asked to stay inside it),
   and the projection printed is that of the state the run ends in. *)
From SV Require Import Model.Common Model.Client Model.ClientAccept Spec.ClientSpec
     Proofs.ClientBase Proofs.ClientSafety Proofs.ClientHistory.
From Coq Require Import Lia.

Lemma obs_of_snoc : forall tr e, obs_of (tr ++ [e]) = obs_of tr ++ (if is_obs e then [e] else []).
Proof. intros. unfold obs_of. rewrite filter_app. simpl. destruct (is_obs e); reflexivity. Qed.

Section Acceptor.
Variable P : params.
Variable bug : bool.

(* every state of the set is reached by a run whose observable projection is [os] *)
Definition good (os : list event) (S : list state) : Prop :=
  forall s, In s S -> exists tr, run P init tr = Some s /\ obs_of tr = os /\ (bug = false -> in_contract tr).

Lemma taus_hidden : forall s e, In e (taus bug s) -> is_obs e = false /\ (bug = false -> e <> EBugTimeout).
Proof.
  intros s e H. unfold taus in H. repeat (apply in_app_or in H; destruct H as [H|H]).
  - simpl in H. repeat (destruct H as [<-|H]; [split; [reflexivity|discriminate]|]). contradiction.
  - destruct bug; simpl in H; [|contradiction]. destruct H as [<-|[]]. split; [reflexivity|discriminate].
  - unfold hd_events in H. destruct (lo s); simpl in H; [contradiction|]. destruct H as [<-|[]]. split; [reflexivity|discriminate].
  - unfold hd_events in H. destruct (inq s); simpl in H; [contradiction|]. destruct H as [<-|[]]. split; [reflexivity|discriminate].
  - destruct (cur s) as [ss|]; [|contradiction]. unfold hd_events in H. destruct (s_achan ss); simpl in H; [contradiction|].
    destruct H as [<-|[]]. split; [reflexivity|discriminate].
Qed.

Lemma add_new_In : forall l acc x, In x (add_new l acc) -> In x l \/ In x acc.
Proof.
  induction l as [|a l IH]; intros acc x H; simpl in H; [right; exact H|].
  destruct (existsb (state_eqb a) acc).
  - destruct (IH _ _ H); auto. left. right. assumption.
  - destruct (IH _ _ H) as [H1|H1]; [left; right; exact H1|].
    apply in_app_or in H1. destruct H1 as [H1|[<-|[]]]; [right; exact H1|left; left; reflexivity].
Qed.

Lemma filter_map_In : forall (A B : Type) (f : A -> option B) l y,
  In y (filter_map f l) -> exists x, In x l /\ f x = Some y.
Proof.
  induction l as [|a l IH]; intros y H; simpl in H; [contradiction|].
  destruct (f a) eqn:E.
  - destruct H as [<-|H]; [exists a; split; [left; reflexivity|exact E]|].
    destruct (IH _ H) as (x & Hx & Hf). exists x. split; [right; exact Hx|exact Hf].
  - destruct (IH _ H) as (x & Hx & Hf). exists x. split; [right; exact Hx|exact Hf].
Qed.

Lemma in_contract_snoc : forall tr e, in_contract tr -> e <> EBugTimeout -> in_contract (tr ++ [e]).
Proof.
  unfold in_contract. intros tr e H1 H2 H. apply in_app_or in H. destruct H as [H|[H|[]]]; [auto|congruence].
Qed.

Lemma good_tau : forall os S, good os S -> good os (add_new (tau_succ P bug S) S).
Proof.
  intros os S HS s' Hin. apply add_new_In in Hin. destruct Hin as [Hin|Hin]; [|apply HS; exact Hin].
  unfold tau_succ in Hin. apply in_flat_map in Hin. destruct Hin as (s & Hs & Hin).
  apply filter_map_In in Hin. destruct Hin as (e & He & Hst).
  destruct (HS s Hs) as (tr & Hr & Ho & Hc). destruct (taus_hidden s e He) as [Hh Hb].
  exists (tr ++ [e]). split; [rewrite run_snoc, Hr; exact Hst|].
  split; [rewrite obs_of_snoc, Hh, app_nil_r; exact Ho|].
  intro Hbug. apply in_contract_snoc; auto.
Qed.

Lemma good_closure : forall fuel os S, good os S -> good os (closure P bug fuel S).
Proof.
  induction fuel as [|f IH]; intros os S HS; simpl; [exact HS|].
  destruct (Nat.eqb _ _); [exact HS|]. apply IH. apply good_tau. exact HS.
Qed.

Lemma good_obs : forall os S o, is_obs o = true -> good os S -> good (os ++ [o]) (obs_succ P S o).
Proof.
  intros os S o Ho HS s' Hin. unfold obs_succ in Hin. apply add_new_In in Hin. destruct Hin as [Hin|[]].
  apply filter_map_In in Hin. destruct Hin as (s & Hs & Hst).
  destruct (HS s Hs) as (tr & Hr & Hob & Hc).
  exists (tr ++ [o]). split; [rewrite run_snoc, Hr; exact Hst|].
  split; [rewrite obs_of_snoc, Ho, Hob; reflexivity|].
  intro Hbug. apply in_contract_snoc; auto. intro; subst o; discriminate.
Qed.

Lemma good_sim : forall fuel os pre S n S' n',
  Forall (fun e => is_obs e = true) os -> good pre S -> sim P bug fuel S os n = (S', n') ->
  S' <> [] -> good (pre ++ os) S'.
Proof.
  induction os as [|o os IH]; intros pre S n S' n' Hf HS Hsim Hne; simpl in Hsim.
  - inversion Hsim; subst. rewrite app_nil_r. apply good_closure. exact HS.
  - inversion Hf as [|? ? Ho Hf']; subst.
    destruct (obs_succ P (closure P bug fuel S) o) as [|x S1] eqn:E.
    + inversion Hsim; subst. contradiction.
    + replace (pre ++ o :: os) with ((pre ++ [o]) ++ os) by (rewrite <- app_assoc; reflexivity).
      eapply IH; eauto. rewrite <- E. apply good_obs; [exact Ho|]. apply good_closure. exact HS.
Qed.

Lemma good_init : good [] [init].
Proof.
  intros s [<-|[]]. exists []. split; [reflexivity|]. split; [reflexivity|]. intros _ H. exact H.
Qed.

Lemma accept_sound_lemma : forall os out,
  Forall (fun e => is_obs e = true) os ->
  accept_out P bug os = str_accept ++ colon :: out ->
  exists tr s, run P init tr = Some s /\ obs_of tr = os /\ (bug = false -> in_contract tr) /\ render_proj s = out.
Proof.
  intros os out Hf Ha. unfold accept_out in Ha.
  destruct (sim P bug fuel0 [init] os 0) as [S n] eqn:E.
  destruct S as [|s rest]; [discriminate Ha|].
  destruct (forallb (proj_eqb s) rest); [|discriminate Ha].
  unfold str_accept in Ha. simpl in Ha. inversion Ha; subst out.
  pose proof (good_sim fuel0 os [] [init] 0 (s :: rest) n Hf good_init E) as Hg.
  destruct (Hg ltac:(discriminate) s (or_introl eq_refl)) as (tr & Hr & Ho & Hc).
  exists tr, s. auto.
Qed.

End Acceptor.

(* decoded traces contain observable events only *)
Lemma decode_obs_obs : forall code a b c e, decode_obs code a b c = Some e -> is_obs e = true.
Proof.
  intros code a b c e H. unfold decode_obs in H.
  repeat match type of H with
  | context [match ?x with _ => _ end] => destruct x; try discriminate H
  end; inversion H; reflexivity.
Qed.

Lemma decode_trace_obs : forall fuel zs os, decode_trace fuel zs = Some os -> Forall (fun e => is_obs e = true) os.
Proof.
  induction fuel as [|f IH]; intros zs os H; simpl in H.
  - destruct zs; inversion H; constructor.
  - destruct zs as [|code [|a [|b [|c rest]]]]; try discriminate H; [inversion H; constructor|].
    destruct (decode_obs code a b c) eqn:E1; [|discriminate H].
    destruct (decode_trace f rest) eqn:E2; [|discriminate H].
    inversion H; subst. constructor; [eapply decode_obs_obs; eauto|eapply IH; eauto].
Qed.
