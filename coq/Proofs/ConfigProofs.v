(* C16 - proofs about Model/Config.v:
   A. verify never panics (errors are values);
   B. verify = Ok  ->  construct = Ok p  with  pipeline_safe p;
   C. pipeline_safe p  ->  no record reaches a panic site;
   D. verify = Ok  ->  every reference site is valid (Spec/ConfigSpec.v);
   E. the defects of the original code as witnesses. *)
From SV Require Import Model.Common Model.ConfigTemplate Model.ConfigExtractor Model.Config Spec.ConfigSpec
  Proofs.CommonFacts Proofs.ConfigTemplateProofs Proofs.ConfigExtractorProofs Proofs.ConfigEquations.
From Coq Require Import Lia ZifyBool ZifyN ZifyNat.
Ltac Zify.zify_post_hook ::= Z.div_mod_to_equations.
Open Scope Z_scope.

Scheme transform_ind2 := Induction for transform Sort Prop
  with tlist_ind2 := Induction for tlist Sort Prop
  with clist_ind2 := Induction for clist Sort Prop.
Combined Scheme transform_mutind from transform_ind2, tlist_ind2, clist_ind2.

Scheme rtransform_ind2 := Induction for rtransform Sort Prop
  with rtlist_ind2 := Induction for rtlist Sort Prop
  with rclist_ind2 := Induction for rclist Sort Prop.
Combined Scheme rtransform_mutind from rtransform_ind2, rtlist_ind2, rclist_ind2.

Notation fq := fixed_quirks.

Ltac destr_unit := repeat match goal with u : unit |- _ => destruct u end.

(* decompose  (let* x := a in b) = Ok v  hypotheses *)
Ltac binds H :=
  repeat match type of H with
         | obind _ _ = Ok _ =>
           let a := fresh "ub" in let Ha := fresh "Hb" in
           apply obind_ok in H; destruct H as [a [Ha H]]
         end; destr_unit.

(* unfold the mutually recursive functions on a constructor, keeping the calls folded *)
Ltac veq H := rewrite ?verify_t_block, ?verify_t_if, ?verify_t_switch, ?verify_tl_cons, ?verify_cl_cons in H;
              cbn [verify_t verify_tl verify_cl] in H.
Ltac deq H := rewrite ?decodes_block, ?decodes_if, ?decodes_switch, ?decodes_tcons, ?decodes_ccons in H;
              cbn [transform_decodes tlist_decodes clist_decodes] in H.
Ltac ceq := rewrite ?construct_t_block, ?construct_t_if, ?construct_t_switch, ?construct_tl_cons, ?construct_cl_cons;
            cbn [construct_t construct_tl construct_cl].
Ltac seq := rewrite ?rt_safe_block, ?rt_safe_if, ?rt_safe_switch, ?rtl_safe_cons, ?rcl_safe_cons;
            cbn [rt_safe rtl_safe rcl_safe].
Ltac seq_in H := rewrite ?rt_safe_block, ?rt_safe_if, ?rt_safe_switch, ?rtl_safe_cons, ?rcl_safe_cons in H;
            cbn [rt_safe rtl_safe rcl_safe] in H.

(* ================================================================ A. verify never panics *)

Lemma np_check_field : forall sch n, np (check_field sch n).
Proof. intros. unfold check_field. destruct (locate sch n); reflexivity. Qed.

Lemma np_check_fields : forall sch l, np (check_fields sch l).
Proof. induction l; simpl; [reflexivity|]. apply np_bind; [apply np_check_field|auto]. Qed.

Lemma np_check_key : forall sch n, np (check_key sch n).
Proof. intros. unfold check_key. apply np_bind; [apply np_check|intros; apply np_check_field]. Qed.

Lemma np_check_label_fields : forall l seen, np (check_label_fields l seen).
Proof.
  induction l; intros; simpl; [reflexivity|].
  apply np_bind; [apply np_check|intros]. apply np_bind; [apply np_check|auto].
Qed.

Lemma np_check_template : forall scope t, np (check_template fq scope t).
Proof. intros. unfold check_template. apply np_bind; [apply np_new_expander|intros; reflexivity]. Qed.

Lemma np_new_expander_fq : forall r t, np (new_expander (q_template_atoi_panics fq) r t).
Proof. intros. simpl. apply np_new_expander. Qed.

#[export] Hint Resolve np_check_field np_check_fields np_check_key np_check_label_fields np_check_template np_new_expander_fq : np.

Ltac np_tac := repeat (apply np_bind; [|intros]); auto with np.

Lemma np_verify_matcher : forall sch m, np (verify_matcher sch m).
Proof. induction m; simpl; [reflexivity|]. np_tac. Qed.

Lemma np_verify_match : forall sch m, np (verify_match sch m).
Proof. intros. unfold verify_match. np_tac. apply np_verify_matcher. Qed.

Lemma np_verify_addfields : forall sch l, np (verify_addfields fq sch l).
Proof. induction l as [|[k t] l IH]; simpl; [reflexivity|]. np_tac. Qed.

Lemma np_verify_captures : forall sch key l, np (verify_captures fq sch key l).
Proof.
  induction l as [|n l IH]; simpl; [reflexivity|]. apply np_bind; [|auto].
  destruct (is_nil n); auto with np.
Qed.

Lemma np_verify_special_pattern : forall pos p m, np (verify_special_pattern fq pos p m).
Proof.
  intros. unfold verify_special_pattern. simpl.
  pose proof (np_new_string_extractor_simple true pos p m) as H.
  destruct (new_string_extractor_simple true pos p m); try reflexivity. discriminate.
Qed.

#[export] Hint Resolve np_verify_matcher np_verify_match np_verify_addfields np_verify_captures np_verify_special_pattern : np.

Lemma np_verify_transforms :
  (forall t sch, np (verify_t fq sch t)) /\ (forall l sch, np (verify_tl fq sch l)) /\ (forall l sch, np (verify_cl fq sch l)).
Proof.
  apply transform_mutind; intros; simpl; try reflexivity; try (np_tac; fail).
  - (* TExtract *) np_tac. destruct re; auto with np.
Qed.

Lemma np_verify_tl : forall l sch, np (verify_tl fq sch l).
Proof. apply np_verify_transforms. Qed.
#[export] Hint Resolve np_verify_tl : np.

Lemma np_verify_rewriters : forall sch l, np (verify_rewriters sch l).
Proof.
  induction l as [|r l IH]; simpl; [reflexivity|]. apply np_bind; [|auto].
  destruct r; np_tac.
Qed.

Lemma np_verify_rewrite_fields : forall sch l, np (verify_rewrite_fields sch l).
Proof.
  induction l as [|[f rws] l IH]; simpl; [reflexivity|]. np_tac. apply np_verify_rewriters.
Qed.
#[export] Hint Resolve np_verify_rewriters np_verify_rewrite_fields : np.

Lemma np_verify_output : forall sch o, np (verify_output fq sch o).
Proof. intros sch [env hidden rw mode addr ok dur|hidden addr ok dur| |]; simpl; np_tac. Qed.

Lemma np_verify_buffer : forall b, np (verify_buffer fq b).
Proof. intros [root size| |]; simpl; np_tac. Qed.

Lemma np_verify_pairs : forall sch l seen, np (verify_pairs fq sch seen l).
Proof.
  induction l as [|p l IH]; intros; simpl; [reflexivity|]. np_tac; [apply np_verify_buffer|apply np_verify_output].
Qed.

Lemma np_verify_inputs : forall sch l, np (verify_inputs fq sch l).
Proof.
  induction l as [|i l IH]; simpl; [reflexivity|]. np_tac.
  destruct i as [addr ok levels ex|]; simpl; [|reflexivity]. np_tac.
Qed.

Lemma np_verify_orch : forall sch o, np (verify_orch fq sch o).
Proof. intros sch [keys tag|tag| |]; simpl; np_tac. Qed.

Lemma np_verify_schema : forall c, np (verify_schema c).
Proof. intro c. unfold verify_schema. np_tac. Qed.

Lemma np_verify_metric_keys : forall sch ok keys, np (verify_metric_keys fq sch ok keys).
Proof. intros. unfold verify_metric_keys. simpl. np_tac. Qed.

#[export] Hint Resolve np_verify_schema np_verify_metric_keys np_verify_inputs np_verify_orch np_verify_pairs : np.

Theorem verify_total_lemma : forall c, is_panic (verify fq c) = false.
Proof. intro c. unfold verify. fold (np (A := unit)). simpl. np_tac; simpl; auto with np. Qed.

(* ================================================================ B. verified => constructed and safe *)

Lemma check_field_ok : forall sch n u, check_field sch n = Ok u -> exists i, locate sch n = Some i.
Proof. intros sch n u H. unfold check_field in H. destruct (locate sch n); [eauto|discriminate]. Qed.

Lemma check_key_ok : forall sch n u, check_key sch n = Ok u -> n <> [] /\ exists i, locate sch n = Some i.
Proof.
  intros sch n u H. unfold check_key in H. binds H. apply check_ok in Hb. split.
  - intro E. subst. discriminate.
  - eapply check_field_ok; eauto.
Qed.

Lemma must_locate_some : forall sch n i, locate sch n = Some i -> must_locate sch n = Ok i.
Proof. intros sch n i H. unfold must_locate. rewrite H. reflexivity. Qed.

Lemma ltb_of_locate : forall sch n i nf, Z.of_nat (length sch) <= nf -> locate sch n = Some i -> (Z.of_nat i <? nf) = true.
Proof. intros sch n i nf Hnf H. apply locate_spec in H. lia. Qed.

Lemma check_fields_locate_all : forall sch nf names u, Z.of_nat (length sch) <= nf -> check_fields sch names = Ok u ->
  exists l, must_locate_all sch names = Ok l /\ forallb (fun i => Z.of_nat i <? nf) l = true /\ length l = length names.
Proof.
  intros sch nf names u Hnf. induction names as [|n r IH]; intro H; simpl in *.
  - exists []. auto.
  - binds H. destruct (check_field_ok _ _ _ Hb) as [i Hi]. destruct (IH H) as [l [H1 [H2 H3]]].
    rewrite (must_locate_some _ _ _ Hi), H1. simpl. exists (i :: l). simpl.
    rewrite (ltb_of_locate _ _ _ _ Hnf Hi), H2, H3. auto.
Qed.

Lemma register_spec : forall reg l i reg', register reg l = (i, reg') -> (i < length reg')%nat /\ (length reg <= length reg')%nat.
Proof.
  intros reg l i reg' H. unfold register in H. destruct (locate reg l) eqn:E.
  - inversion H; subst. apply locate_spec in E. lia.
  - inversion H; subst. rewrite app_length. simpl. lia.
Qed.

Lemma construct_matcher_ok : forall sch nf m, Z.of_nat (length sch) <= nf ->
  verify_matcher sch m = Ok tt -> forallb mentry_decodes m = true ->
  exists rm, construct_matcher sch m = Ok rm /\ matcher_safe nf rm = true.
Proof.
  intros sch nf m Hnf. induction m as [|e r IH]; intros H Hd; simpl in *.
  - exists []. auto.
  - binds H. apply andb_true_iff in Hd. destruct Hd as [Hd1 Hd2].
    destruct (check_field_ok _ _ _ Hb) as [i Hi]. destruct (IH H Hd2) as [rm [H1 H2]].
    rewrite (must_locate_some _ _ _ Hi), H1. simpl. eexists. split; [reflexivity|].
    unfold matcher_safe in *. cbn [forallb]. rewrite H2, (ltb_of_locate _ _ _ _ Hnf Hi).
    apply check_ok in Hb0. unfold mentry_decodes in Hd1.
    destruct (me_op e); try reflexivity; discriminate.
Qed.

Lemma verify_match_ok : forall sch nf m, Z.of_nat (length sch) <= nf ->
  verify_match sch m = Ok tt -> matcher_decodes m = true ->
  exists rm, construct_matcher sch m = Ok rm /\ matcher_safe nf rm = true.
Proof.
  intros sch nf m Hnf H Hd. unfold verify_match in H. binds H. unfold matcher_decodes in Hd.
  apply andb_true_iff in Hd. destruct Hd as [Hd _]. eapply construct_matcher_ok; eauto.
Qed.

Lemma construct_addfields_ok : forall sch nf fields, Z.of_nat (length sch) <= nf ->
  verify_addfields fq sch fields = Ok tt ->
  exists p, construct_addfields fq sch fields = Ok p /\
            forallb (fun p => (Z.of_nat (fst p) <? nf) && forallb (rpart_safe nf) (snd p)) p = true.
Proof.
  intros sch nf fields Hnf. induction fields as [|[k t] r IH]; intro H; simpl in *.
  - exists []. auto.
  - binds H. destruct (check_field_ok _ _ _ Hb) as [i Hi]. destruct (IH H) as [p [H1 H2]].
    unfold check_template in Hb0. simpl in Hb0. binds Hb0.
    rewrite (must_locate_some _ _ _ Hi). simpl. rewrite Hb1. simpl. rewrite H1. simpl.
    eexists. split; [reflexivity|]. simpl. rewrite H2, (ltb_of_locate _ _ _ _ Hnf Hi).
    rewrite (rparts_safe_mono _ nf _ Hnf (new_expander_safe _ _ _ _ Hb1)). reflexivity.
Qed.

Lemma construct_captures_ok : forall sch nf key names, Z.of_nat (length sch) <= nf ->
  verify_captures fq sch key names = Ok tt ->
  exists subs, construct_captures sch names = Ok subs /\
               forallb (fun s => match s with Some l => Z.of_nat l <? nf | None => true end) subs = true.
Proof.
  intros sch nf key names Hnf. induction names as [|n r IH]; intro H; simpl in *.
  - exists []. auto.
  - binds H. destruct (IH H) as [subs [H1 H2]]. destruct (is_nil n).
    + simpl. rewrite H1. simpl. eexists. split; [reflexivity|]. simpl. assumption.
    + destruct (check_field_ok _ _ _ Hb) as [i Hi]. rewrite (must_locate_some _ _ _ Hi). simpl. rewrite H1. simpl.
      eexists. split; [reflexivity|]. simpl. rewrite H2, (ltb_of_locate _ _ _ _ Hnf Hi). reflexivity.
Qed.

Lemma verify_special_pattern_ok : forall pos p m, verify_special_pattern fq pos p m = Ok tt ->
  exists ex, new_string_extractor_simple true pos p m = Ok ex.
Proof.
  intros pos p m H. unfold verify_special_pattern in H. simpl in H.
  destruct (new_string_extractor_simple true pos p m); try discriminate. eauto.
Qed.

(* safety is monotone in the number of counters *)
Lemma rt_safe_mono_nc :
  (forall t nf nc nc', (nc <= nc')%nat -> rt_safe nf nc t = true -> rt_safe nf nc' t = true) /\
  (forall l nf nc nc', (nc <= nc')%nat -> rtl_safe nf nc l = true -> rtl_safe nf nc' l = true) /\
  (forall l nf nc nc', (nc <= nc')%nat -> rcl_safe nf nc l = true -> rcl_safe nf nc' l = true).
Proof.
  apply rtransform_mutind; intros; simpl in *; auto;
    repeat match goal with
           | H : _ && _ = true |- _ => apply andb_true_iff in H; destruct H
           end;
    repeat (apply andb_true_iff; split); eauto; try lia.
  - (* RDrop: retained counter *) destruct c_retained; [lia|assumption].
Qed.

Lemma rtl_safe_mono_nc : forall l nf nc nc', (nc <= nc')%nat -> rtl_safe nf nc l = true -> rtl_safe nf nc' l = true.
Proof. apply rt_safe_mono_nc. Qed.
Lemma rt_safe_mono_nc1 : forall t nf nc nc', (nc <= nc')%nat -> rt_safe nf nc t = true -> rt_safe nf nc' t = true.
Proof. apply rt_safe_mono_nc. Qed.

Definition constructs_t (t : transform) : Prop :=
  forall sch nf reg, Z.of_nat (length sch) <= nf -> transform_decodes t = true -> verify_t fq sch t = Ok tt ->
  exists rt reg', construct_t fq sch reg t = Ok (rt, reg') /\ rt_safe nf (length reg') rt = true /\ (length reg <= length reg')%nat.
Definition constructs_tl (l : tlist) : Prop :=
  forall sch nf reg, Z.of_nat (length sch) <= nf -> tlist_decodes l = true -> verify_tl fq sch l = Ok tt ->
  exists rl reg', construct_tl fq sch reg l = Ok (rl, reg') /\ rtl_safe nf (length reg') rl = true /\ (length reg <= length reg')%nat.
Definition constructs_cl (l : clist) : Prop :=
  forall sch nf reg, Z.of_nat (length sch) <= nf -> clist_decodes l = true -> verify_cl fq sch l = Ok tt ->
  exists rl reg', construct_cl fq sch reg l = Ok (rl, reg') /\ rcl_safe nf (length reg') rl = true /\ (length reg <= length reg')%nat.

Ltac split_and H := repeat match type of H with _ && _ = true => let H2 := fresh H in apply andb_true_iff in H; destruct H as [H H2] end.

Lemma construct_transforms_ok :
  (forall t, constructs_t t) /\ (forall l, constructs_tl l) /\ (forall l, constructs_cl l).
Proof.
  apply transform_mutind; unfold constructs_t, constructs_tl, constructs_cl.
  - (* TAddFields *) intros fields sch nf reg Hnf Hd H. veq H. binds H.
    destruct (construct_addfields_ok _ _ _ Hnf H) as [p [H1 H2]]. ceq. rewrite H1. simpl.
    eexists. eexists. split; [reflexivity|]. seq. split; [assumption|lia].
  - (* TBlock *) intros steps IH sch nf reg Hnf Hd H. veq H. deq Hd. binds H.
    destruct (IH sch nf reg Hnf Hd H) as [rl [reg' [H1 [H2 H3]]]]. ceq. rewrite H1. simpl.
    eexists. eexists. split; [reflexivity|]. seq. auto.
  - (* TDelFields *) intros keys sch nf reg Hnf Hd H. veq H. binds H.
    destruct (check_fields_locate_all _ _ _ _ Hnf H) as [l [H1 [H2 _]]]. ceq. rewrite H1. simpl.
    eexists. eexists. split; [reflexivity|]. seq. split; [assumption|lia].
  - (* TDrop *) intros m pct label sch nf reg Hnf Hd H. veq H. deq Hd. binds H. split_and Hd.
    destruct (verify_match_ok _ _ _ Hnf Hb Hd) as [rm [H1 H2]]. ceq. rewrite H1. simpl.
    apply check_ok in Hb0.
    destruct (register reg label) as [cd reg1] eqn:E1. destruct (register_spec _ _ _ _ E1) as [R1 R2].
    destruct (num_val pct <? 100) eqn:E100.
    + destruct (register reg1 (33%N :: label)) as [cr reg2] eqn:E2. destruct (register_spec _ _ _ _ E2) as [R3 R4].
      eexists. eexists. split; [reflexivity|]. seq. rewrite H2. simpl.
      split; [|lia]. apply andb_true_iff. split; [|lia]. lia.
    + eexists. eexists. split; [reflexivity|]. seq. rewrite H2. simpl.
      split; [|lia]. apply andb_true_iff. split; lia.
  - (* TExtract *) intros key pattern re sch nf reg Hnf Hd H. veq H. binds H.
    destruct re as [names|]; [|discriminate].
    destruct (check_key_ok _ _ _ Hb) as [_ [k Hk]].
    destruct (construct_captures_ok _ _ _ _ Hnf H) as [subs [H1 H2]]. ceq. rewrite H1. simpl.
    rewrite (must_locate_some _ _ _ Hk). simpl.
    eexists. eexists. split; [reflexivity|]. seq. rewrite H2, (ltb_of_locate _ _ _ _ Hnf Hk). split; [reflexivity|lia].
  - (* TExtractSpecial *) intros pos key pattern maxlen dest sch nf reg Hnf Hd H. veq H. binds H.
    destruct (check_key_ok _ _ _ Hb) as [_ [k Hk]]. destruct (check_key_ok _ _ _ H) as [_ [d Hdd]].
    destruct (verify_special_pattern_ok _ _ _ Hb1) as [ex Hex]. apply check_ok in Hb2.
    ceq. change (negb (q_special_split_only fq)) with true. rewrite Hex. ceq. rewrite (must_locate_some _ _ _ Hk), (must_locate_some _ _ _ Hdd). simpl.
    eexists. eexists. split; [reflexivity|]. seq.
    rewrite (ltb_of_locate _ _ _ _ Hnf Hk), (ltb_of_locate _ _ _ _ Hnf Hdd).
    rewrite (new_string_extractor_simple_safe _ _ _ _ Hex ltac:(lia)). split; [reflexivity|lia].
  - (* TIf *) intros m then_ IH sch nf reg Hnf Hd H. veq H. deq Hd. binds H. split_and Hd.
    destruct (verify_match_ok _ _ _ Hnf Hb Hd) as [rm [H1 H2]].
    destruct (IH sch nf reg Hnf Hd0 H) as [rl [reg' [H3 [H4 H5]]]]. ceq. rewrite H1. ceq. rewrite H3. simpl.
    eexists. eexists. split; [reflexivity|]. seq. rewrite H2, H4. auto.
  - (* TMapValue *) intros key mapping default sch nf reg Hnf Hd H. veq H. binds H.
    destruct (check_key_ok _ _ _ Hb) as [_ [k Hk]]. ceq. rewrite (must_locate_some _ _ _ Hk). simpl.
    eexists. eexists. split; [reflexivity|]. seq. rewrite (ltb_of_locate _ _ _ _ Hnf Hk). split; [reflexivity|lia].
  - (* TParseTime *) intros key label sch nf reg Hnf Hd H. veq H. binds H.
    destruct (check_key_ok _ _ _ Hb) as [_ [k Hk]]. ceq. rewrite (must_locate_some _ _ _ Hk). simpl.
    destruct (register reg label) as [c reg'] eqn:E1. destruct (register_spec _ _ _ _ E1) as [R1 R2].
    eexists. eexists. split; [reflexivity|]. seq. rewrite (ltb_of_locate _ _ _ _ Hnf Hk). split; [lia|lia].
  - (* TRedactEmail *) intros key label sch nf reg Hnf Hd H. veq H. binds H.
    destruct (check_key_ok _ _ _ Hb) as [_ [k Hk]]. ceq. rewrite (must_locate_some _ _ _ Hk). simpl.
    destruct (register reg label) as [c reg'] eqn:E1. destruct (register_spec _ _ _ _ E1) as [R1 R2].
    eexists. eexists. split; [reflexivity|]. seq. rewrite (ltb_of_locate _ _ _ _ Hnf Hk). split; [lia|lia].
  - (* TReplace *) intros key pattern re_ok repl sch nf reg Hnf Hd H. veq H. binds H.
    destruct (check_key_ok _ _ _ Hb) as [_ [k Hk]]. apply check_ok in H. subst re_ok.
    ceq. rewrite (must_locate_some _ _ _ Hk). cbn [obind].
    eexists. eexists. split; [reflexivity|]. seq. rewrite (ltb_of_locate _ _ _ _ Hnf Hk). split; [reflexivity|lia].
  - (* TSwitch *) intros cases IH sch nf reg Hnf Hd H. veq H. deq Hd. binds H.
    destruct (IH sch nf reg Hnf Hd H) as [rl [reg' [H1 [H2 H3]]]]. ceq. rewrite H1. simpl.
    eexists. eexists. split; [reflexivity|]. seq. auto.
  - (* TTruncate *) intros key maxlen suffix sch nf reg Hnf Hd H. veq H. binds H.
    destruct (check_key_ok _ _ _ Hb) as [_ [k Hk]]. apply check_ok in Hb0.
    ceq. rewrite (must_locate_some _ _ _ Hk). cbn [obind].
    eexists. eexists. split; [reflexivity|]. seq. rewrite (ltb_of_locate _ _ _ _ Hnf Hk). split; [lia|lia].
  - (* TUnescape *) intros key sch nf reg Hnf Hd H. veq H.
    destruct (check_key_ok _ _ _ H) as [_ [k Hk]]. ceq. rewrite (must_locate_some _ _ _ Hk). simpl.
    eexists. eexists. split; [reflexivity|]. seq. rewrite (ltb_of_locate _ _ _ _ Hnf Hk). split; [reflexivity|lia].
  - (* TUnknown *) intros sch nf reg Hnf Hd H. deq Hd. discriminate.
  - (* TNil *) intros sch nf reg Hnf Hd H. ceq. eexists. eexists. split; [reflexivity|]. seq. split; [reflexivity|lia].
  - (* TCons *) intros t IHt ts IHts sch nf reg Hnf Hd H. veq H. deq Hd. binds H. split_and Hd. destr_unit.
    destruct (IHt sch nf reg Hnf Hd Hb) as [rt [reg1 [H1 [H2 H3]]]].
    destruct (IHts sch nf reg1 Hnf Hd0 H) as [rl [reg2 [H4 [H5 H6]]]].
    ceq. rewrite H1. cbn [obind]. rewrite H4. cbn [obind].
    eexists. eexists. split; [reflexivity|]. seq. rewrite H5, (rt_safe_mono_nc1 _ _ _ _ H6 H2). split; [reflexivity|lia].
  - (* CNil *) intros sch nf reg Hnf Hd H. ceq. eexists. eexists. split; [reflexivity|]. seq. split; [reflexivity|lia].
  - (* CCons *) intros m then_ IHt cs IHcs sch nf reg Hnf Hd H. veq H. deq Hd. binds H. split_and Hd. destr_unit.
    destruct (verify_match_ok _ _ _ Hnf Hb Hd) as [rm [M1 M2]].
    destruct (IHt sch nf reg Hnf Hd1 Hb1) as [rl [reg1 [H1 [H2 H3]]]].
    destruct (IHcs sch nf reg1 Hnf Hd0 H) as [rc [reg2 [H4 [H5 H6]]]].
    ceq. rewrite M1. cbn [obind]. rewrite H1. cbn [obind]. rewrite H4. cbn [obind].
    eexists. eexists. split; [reflexivity|]. seq. rewrite M2, H5, (rtl_safe_mono_nc _ _ _ _ H6 H2). split; [reflexivity|lia].
Qed.

Lemma construct_tl_ok : forall l sch nf reg, Z.of_nat (length sch) <= nf -> tlist_decodes l = true -> verify_tl fq sch l = Ok tt ->
  exists rl reg', construct_tl fq sch reg l = Ok (rl, reg') /\ rtl_safe nf (length reg') rl = true.
Proof.
  intros l sch nf reg Hnf Hd H. destruct construct_transforms_ok as [_ [C _]].
  destruct (C l sch nf reg Hnf Hd H) as [rl [reg' [H1 [H2 _]]]]. eauto.
Qed.

(* ---------- rewriters, outputs ---------- *)
Lemma construct_rewriters_ok : forall sch nf l, Z.of_nat (length sch) <= nf -> verify_rewriters sch l = Ok tt ->
  exists ch, construct_rewriters sch l = Ok ch /\ chain_safe nf ch = true /\ is_nil ch = is_nil l.
Proof.
  intros sch nf l Hnf. induction l as [|r rest IH]; intro H; simpl in H.
  - exists []. auto.
  - binds H. destruct (IH H) as [tail [H1 [H2 H3]]]. simpl. rewrite H1. cbn [obind].
    destruct r as [|field| |]; simpl in Hb.
    + apply check_ok in Hb. rewrite H3. destruct (is_nil rest); [|discriminate]. eexists. auto.
    + binds Hb. apply check_ok in Hb0. destruct (check_key_ok _ _ _ Hb) as [_ [i Hi]].
      rewrite H3. destruct (is_nil rest) eqn:E; [discriminate|].
      rewrite (must_locate_some _ _ _ Hi). simpl. eexists. split; [reflexivity|]. simpl.
      rewrite (ltb_of_locate _ _ _ _ Hnf Hi), H2, H3. auto.
    + apply check_ok in Hb. rewrite H3. destruct (is_nil rest); [|discriminate]. eexists. auto.
    + discriminate.
Qed.

Lemma verify_rewrite_fields_in : forall sch l, verify_rewrite_fields sch l = Ok tt ->
  forall fr, In fr l -> check_field sch (fst fr) = Ok tt /\ verify_rewriters sch (snd fr) = Ok tt.
Proof.
  induction l as [|[f rws] l IH]; intros H fr Hin; simpl in *; [tauto|]. binds H.
  destruct Hin as [E|Hin]; [subst; simpl; auto|]. apply IH; assumption.
Qed.

Lemma construct_chains_ok : forall sch nf rewrites names, Z.of_nat (length sch) <= nf ->
  verify_rewrite_fields sch rewrites = Ok tt ->
  exists chains, construct_chains sch rewrites names = Ok chains /\ forallb (chain_safe nf) chains = true.
Proof.
  intros sch nf rewrites names Hnf Hv. induction names as [|n r IH]; simpl.
  - exists []. auto.
  - destruct IH as [chains [H1 H2]].
    assert (Hch : exists ch, (match find (fun fr => bytes_eqb (fst fr) n) rewrites with
                              | Some fr => construct_rewriters sch (snd fr)
                              | None => Ok []
                              end) = Ok ch /\ chain_safe nf ch = true).
    { destruct (find _ rewrites) as [fr|] eqn:E; [|exists []; auto].
      apply find_some in E. destruct E as [Hin _].
      destruct (verify_rewrite_fields_in _ _ Hv fr Hin) as [_ Hr].
      destruct (construct_rewriters_ok _ _ _ Hnf Hr) as [ch [C1 [C2 _]]]. eauto. }
    destruct Hch as [ch [C1 C2]]. rewrite C1. cbn [obind]. rewrite H1. cbn [obind].
    eexists. split; [reflexivity|]. simpl. rewrite C2, H2. reflexivity.
Qed.

Lemma construct_output_ok : forall sch nf o, Z.of_nat (length sch) <= nf -> verify_output fq sch o = Ok tt ->
  exists s, construct_output sch o = Ok s /\ serializer_safe nf s = true.
Proof.
  intros sch nf o Hnf H. destruct o as [env hidden rewrites mode addr ok dur|hidden addr ok dur| |]; simpl in H.
  - binds H. binds Hb0.
    destruct (check_fields_locate_all sch (Z.of_nat (length sch)) env tt ltac:(lia) Hb6) as [envl [E1 [E2 _]]].
    destruct (construct_chains_ok sch nf rewrites sch Hnf Hb1) as [chains [C1 C2]].
    apply check_ok in Hb3. simpl. rewrite E1. cbn [obind]. rewrite C1. cbn [obind]. rewrite Hb3. simpl.
    eexists. split; [reflexivity|]. simpl. rewrite E2, C2.
    destruct (Z.of_nat (length sch) <=? nf) eqn:E; [reflexivity|lia].
  - binds H. apply check_ok in Hb1. subst ok. simpl. eexists. split; [reflexivity|]. simpl. lia.
  - discriminate.
  - discriminate.
Qed.

Lemma construct_outputs_ok : forall sch nf l seen, Z.of_nat (length sch) <= nf -> verify_pairs fq sch seen l = Ok tt ->
  exists outs, construct_outputs sch l = Ok outs /\ forallb (serializer_safe nf) outs = true /\ length outs = length l.
Proof.
  intros sch nf l. induction l as [|p r IH]; intros seen Hnf H; simpl in H.
  - exists []. auto.
  - binds H. destruct (IH _ Hnf H) as [outs [H1 [H2 H3]]].
    unfold verify_pair in Hb0. simpl in Hb0. binds Hb0. binds Hb1. apply check_ok in Hb1.
    destruct (construct_output_ok _ _ _ Hnf Hb0) as [s [S1 S2]].
    simpl. destruct (p_buffer p); try discriminate. cbn [obind]. rewrite S1. cbn [obind]. rewrite H1. cbn [obind].
    eexists. split; [reflexivity|]. simpl. rewrite S2, H2, H3. auto.
Qed.

(* ---------- orchestration, inputs ---------- *)
Lemma check_label_fields_ok : forall names seen, check_label_fields names seen = Ok tt ->
  Forall (fun n => label_name_ok n = true) names.
Proof.
  induction names as [|n r IH]; intros seen H; simpl in H; [constructor|]. binds H.
  apply check_ok in Hb. constructor; [assumption|]. eapply IH; eauto.
Qed.

Lemma construct_orch_ok : forall sch nf o keys, Z.of_nat (length sch) <= nf -> verify_orch fq sch o = Ok keys ->
  exists ro, construct_orch fq sch o = Ok ro /\ orch_safe nf ro = true /\ keys = orch_keys o /\ labels_ok keys = true.
Proof.
  intros sch nf o keys0 Hnf H. destruct o as [keys tag|tag| |]; simpl in H.
  - binds H. inversion H; subst keys0.
    destruct (check_fields_locate_all _ _ _ _ Hnf Hb0) as [locs [L1 [L2 L3]]].
    unfold check_template in Hb3. simpl in Hb3. binds Hb3.
    simpl. rewrite L1. cbn [obind]. rewrite Hb4. cbn [obind].
    eexists. split; [reflexivity|]. simpl. rewrite L2, L3.
    rewrite (new_expander_safe _ _ _ _ Hb4). unfold labels_ok. rewrite Hb1. auto.
  - binds H. inversion H; subst. simpl. eexists. repeat split; reflexivity.
  - discriminate.
  - discriminate.
Qed.

Lemma construct_inputs_ok : forall sch nf l, Z.of_nat (length sch) <= nf ->
  forallb input_decodes l = true -> verify_inputs fq sch l = Ok tt ->
  exists ins, construct_inputs fq sch l = Ok ins /\ forallb (fun i => rtl_safe nf (snd i) (fst i)) ins = true.
Proof.
  intros sch nf l Hnf. induction l as [|i r IH]; intros Hd H; simpl in H, Hd.
  - exists []. auto.
  - binds H. apply andb_true_iff in Hd. destruct Hd as [Hd1 Hd2]. destruct (IH Hd2 H) as [ins [H1 H2]].
    destruct i as [addr ok levels ex|]; simpl in Hb, Hd1; [|discriminate]. binds Hb.
    destruct (construct_tl_ok ex sch nf [] Hnf Hd1 Hb) as [rl [reg' [C1 C2]]].
    simpl. rewrite Hb3. cbn [obind]. rewrite C1. cbn [obind]. rewrite H1. cbn [obind].
    eexists. split; [reflexivity|]. simpl. rewrite C2, H2. reflexivity.
Qed.

(* ---------- the whole configuration ---------- *)
Theorem verify_ok_constructs : forall c, verify fq c = Ok tt ->
  exists p, construct fq c = Ok p /\ pipeline_safe p = true /\ pl_nfields p = num_val (c_maxfields c).
Proof.
  intros c H. unfold verify in H. binds H. apply check_ok in Hb.
  assert (Hdec : forallb input_decodes (c_inputs c) = true /\ tlist_decodes (c_transforms c) = true).
  { unfold config_decodes in Hb. split_and Hb. auto. }
  destruct Hdec as [Hdi Hdt]. clear Hb.
  rename Hb0 into Hschema, Hb1 into Hinputs, Hb2 into Horch, Hb3 into Hmk, Hb4 into Htf, Hb5 into Hne, H into Hpairs.
  assert (Hnf : Z.of_nat (length (c_fields c)) <= num_val (c_maxfields c)).
  { unfold verify_schema in Hschema. binds Hschema.
    match goal with H : check (_ <=? _) _ = Ok _ |- _ => apply check_ok in H; lia end. }
  set (sch := c_fields c) in *. set (nf := num_val (c_maxfields c)) in *.
  destruct (construct_inputs_ok sch nf _ Hnf Hdi Hinputs) as [ins [I1 I2]].
  destruct (construct_orch_ok sch nf _ _ Hnf Horch) as [ro [O1 [O2 [O3 O4]]]].
  unfold verify_metric_keys in Hmk. simpl in Hmk. binds Hmk.
  match goal with H : check_fields sch (c_metric_keys c) = Ok _ |- _ =>
    destruct (check_fields_locate_all _ _ _ _ Hnf H) as [mlocs [M1 [M2 _]]] end.
  assert (Hmk2 : labels_ok (c_metric_keys c) = true).
  { unfold labels_ok. match goal with H : check_label_fields _ _ = Ok _ |- _ => rewrite H end. reflexivity. }
  apply check_ok in Hmk.
  destruct (construct_tl_ok (c_transforms c) sch nf [] Hnf Hdt Htf) as [rts [reg [T1 T2]]].
  simpl in Hne. apply check_ok in Hne.
  destruct (construct_outputs_ok sch nf _ _ Hnf Hpairs) as [outs [P1 [P2 P3]]].
  unfold construct. fold sch. rewrite I1. cbn [obind]. rewrite M1. cbn [obind]. rewrite O1. cbn [obind].
  rewrite P1. cbn [obind]. rewrite T1. cbn [obind]. rewrite Hmk2. simpl.
  eexists. split; [reflexivity|]. split; [|reflexivity].
  unfold pipeline_safe. simpl. fold nf. rewrite I2, O2, M2, T2, P2. rewrite <- O3, O4, Hmk. simpl.
  destruct outs; [destruct (c_pairs c); simpl in *; discriminate|reflexivity].
Qed.

(* ================================================================ C. a safe pipeline never panics on a record *)

Lemma fset_ok : forall (f : fields) i v, (i < length f)%nat -> exists f', fset f i v = Ok f' /\ length f' = length f.
Proof.
  induction f as [|a f IH]; intros i v H; simpl in *; [lia|].
  destruct i as [|i]; [eexists; split; reflexivity|].
  destruct (IH i v ltac:(lia)) as [f' [H1 H2]]. rewrite H1. simpl. eexists. split; [reflexivity|]. simpl. lia.
Qed.

Lemma ccall_ok : forall nc i, (i < nc)%nat -> ccall nc i = Ok tt.
Proof. intros nc i H. unfold ccall. destruct (Nat.ltb i nc) eqn:E; [reflexivity|]. apply Nat.ltb_ge in E. lia. Qed.

Lemma slice_z_length : forall v a b r, slice_z v a b = Ok r -> (length r <= length v)%nat.
Proof.
  intros v a b r H. unfold slice_z in H. destruct (_ && _ && _); [|discriminate]. inversion H; subst.
  rewrite firstn_length. etransitivity; [apply Nat.le_min_r|]. rewrite skipn_length. lia.
Qed.

Section RunSafe.
Variable x : externals.
Hypothesis Hx : ext_wf x.

Lemma run_matcher_ok : forall nf m f, matcher_safe nf m = true -> nf <= Z.of_nat (length f) ->
  exists b, run_matcher x m f = Ok b.
Proof.
  intros nf m f. induction m as [|[[loc op] expr] r IH]; intros H Hlen; simpl in *; [eauto|].
  unfold matcher_safe in H. cbn [forallb] in H. apply andb_true_iff in H. destruct H as [H1 H2].
  apply andb_true_iff in H1. destruct H1 as [H1 H3].
  destruct (fget_ok f loc ltac:(lia)) as [v Hv]. rewrite Hv. cbn [obind].
  assert (Hm : exists b, match_value x op expr v = Ok b) by (destruct op; simpl; eauto; discriminate).
  destruct Hm as [b Hb]. rewrite Hb. cbn [obind]. destruct b; [apply IH; assumption|eauto].
Qed.

Lemma run_addfields_ok : forall nf pairs f,
  forallb (fun p => (Z.of_nat (fst p) <? nf) && forallb (rpart_safe nf) (snd p)) pairs = true ->
  nf <= Z.of_nat (length f) -> exists f', run_addfields pairs f = Ok f' /\ length f' = length f.
Proof.
  intros nf pairs. induction pairs as [|[dst parts] r IH]; intros f H Hlen; simpl in *; [eauto|].
  apply andb_true_iff in H. destruct H as [H1 H2]. apply andb_true_iff in H1. destruct H1 as [H1 H3].
  destruct (expand_ok f parts (rparts_safe_mono _ _ _ Hlen H3)) as [v Hv]. rewrite Hv. cbn [obind].
  destruct (is_nil v).
  - cbn [obind]. apply IH; assumption.
  - destruct (fset_ok f dst v ltac:(lia)) as [f' [F1 F2]]. rewrite F1. cbn [obind].
    destruct (IH f' H2 ltac:(lia)) as [f'' [G1 G2]]. exists f''. split; [assumption|lia].
Qed.

Lemma run_delfields_ok : forall nf locs f, forallb (fun l => Z.of_nat l <? nf) locs = true ->
  nf <= Z.of_nat (length f) -> exists f', run_delfields locs f = Ok f' /\ length f' = length f.
Proof.
  intros nf locs. induction locs as [|l r IH]; intros f H Hlen; simpl in *; [eauto|].
  apply andb_true_iff in H. destruct H as [H1 H2].
  destruct (fset_ok f l [] ltac:(lia)) as [f' [F1 F2]]. rewrite F1. cbn [obind].
  destruct (IH f' H2 ltac:(lia)) as [f'' [G1 G2]]. exists f''. split; [assumption|lia].
Qed.

Lemma run_captures_ok : forall nf idxs v subs i f,
  forallb (fun s => match s with Some l => Z.of_nat l <? nf | None => true end) subs = true ->
  nf <= Z.of_nat (length f) ->
  (forall j, (i <= j < i + length subs)%nat -> submatch_ok (length v) idxs j) ->
  exists f', run_captures subs i idxs v f = Ok f' /\ length f' = length f.
Proof.
  intros nf idxs v subs. induction subs as [|s r IH]; intros i f H Hlen Hsub; [simpl; eauto|].
  cbn [forallb] in H. cbn [run_captures]. apply andb_true_iff in H. destruct H as [H1 H2].
  match goal with |- context [obind ?e _] =>
    assert (Hstep : exists f1, e = Ok f1 /\ length f1 = length f) end.
  { destruct s as [loc|]; [|eauto].
    destruct (Hsub i ltac:(simpl; lia)) as [a [b [Ea [Eb Hab]]]].
    unfold zidx. rewrite Ea, Eb. cbn [obind].
    destruct ((a <? 0) || (b <? 0)) eqn:Eneg; [eauto|].
    destruct (slice_z_ok v a b) as [sub Hs]; try lia. rewrite Hs. cbn [obind].
    apply fset_ok. lia. }
  destruct Hstep as [f1 [S1 S2]]. rewrite S1. cbn [obind].
  destruct (IH (S i) f1 H2 ltac:(lia)) as [f2 [G1 G2]].
  - intros j Hj. apply Hsub. simpl. lia.
  - exists f2. split; [assumption|lia].
Qed.

Definition runs_t (t : rtransform) : Prop :=
  forall nc nf f, rt_safe nf nc t = true -> nf <= Z.of_nat (length f) ->
  exists f' b, run_t x nc t f = Ok (f', b) /\ length f' = length f.
Definition runs_tl (l : rtlist) : Prop :=
  forall nc nf f, rtl_safe nf nc l = true -> nf <= Z.of_nat (length f) ->
  exists f' b, run_tl x nc l f = Ok (f', b) /\ length f' = length f.
Definition runs_cl (l : rclist) : Prop :=
  forall nc nf f, rcl_safe nf nc l = true -> nf <= Z.of_nat (length f) ->
  exists f' b, run_cl x nc l f = Ok (f', b) /\ length f' = length f.

Ltac req := rewrite ?run_t_block, ?run_t_if, ?run_t_switch, ?run_tl_cons, ?run_cl_cons; cbn [run_t run_tl run_cl].

Lemma run_transforms_ok : (forall t, runs_t t) /\ (forall l, runs_tl l) /\ (forall l, runs_cl l).
Proof.
  apply rtransform_mutind; unfold runs_t, runs_tl, runs_cl.
  - (* RAddFields *) intros pairs nc nf f H Hlen. seq_in H. req.
    destruct (run_addfields_ok _ _ _ H Hlen) as [f' [H1 H2]]. rewrite H1. cbn [obind]. eauto.
  - (* RBlock *) intros steps IH nc nf f H Hlen. seq_in H. req. eauto.
  - (* RDelFields *) intros locs nc nf f H Hlen. seq_in H. req.
    destruct (run_delfields_ok _ _ _ H Hlen) as [f' [H1 H2]]. rewrite H1. cbn [obind]. eauto.
  - (* RDrop *) intros m rate cd cr nc nf f H Hlen. seq_in H. req. split_and H.
    destruct (run_matcher_ok _ _ _ H Hlen) as [b Hb]. rewrite Hb. cbn [obind].
    destruct b; cbn [negb]; [|eauto].
    destruct (rate =? 100) eqn:E100.
    + rewrite (ccall_ok nc cd ltac:(lia)). cbn [obind]. eauto.
    + destruct (x_drop_choice x rate f).
      * rewrite (ccall_ok nc cd ltac:(lia)). cbn [obind]. eauto.
      * destruct cr as [i|]; [|discriminate]. rewrite (ccall_ok nc i ltac:(lia)). cbn [obind]. eauto.
  - (* RExtract *) intros key pattern subs nc nf f H Hlen. seq_in H. req. split_and H.
    destruct (fget_ok f key ltac:(lia)) as [v Hv]. rewrite Hv. cbn [obind].
    destruct (x_regex_find x pattern (length subs) v) as [idxs|] eqn:Er; [|eauto].
    destruct (run_captures_ok nf idxs v subs 0%nat f H0 Hlen) as [f' [H1 H2]].
    + intros j Hj. destruct Hx as [Hre _]. eapply Hre; [eassumption|lia].
    + rewrite H1. cbn [obind]. eauto.
  - (* RExtractSpecial *) intros src dst ex nc nf f H Hlen. seq_in H. req. split_and H.
    destruct (fget_ok f src ltac:(lia)) as [v Hv]. rewrite Hv. cbn [obind].
    destruct (is_nil v); [eauto|].
    destruct (extract_total ex v H0) as [[label rest] He]. rewrite He. cbn [obind].
    destruct (Nat.eqb (length rest) (length v)); [eauto|].
    destruct (fset_ok f src rest ltac:(lia)) as [f1 [F1 F2]]. rewrite F1. cbn [obind].
    destruct (fset_ok f1 dst label ltac:(lia)) as [f2 [G1 G2]]. rewrite G1. cbn [obind].
    eexists. eexists. split; [reflexivity|lia].
  - (* RIf *) intros m then_ IH nc nf f H Hlen. seq_in H. req. split_and H.
    destruct (run_matcher_ok _ _ _ H Hlen) as [b Hb]. rewrite Hb. cbn [obind]. destruct b; eauto.
  - (* RMapValue *) intros key mapping default nc nf f H Hlen. seq_in H. req.
    destruct (fget_ok f key ltac:(lia)) as [v Hv]. rewrite Hv. cbn [obind].
    destruct (is_nil v); [eauto|].
    destruct (fset_ok f key (match lookup mapping v with Some b => b | None => default end) ltac:(lia)) as [f1 [F1 F2]].
    rewrite F1. cbn [obind]. eauto.
  - (* RParseTime *) intros key cnt nc nf f H Hlen. seq_in H. req. split_and H.
    destruct (fget_ok f key ltac:(lia)) as [v Hv]. rewrite Hv. cbn [obind].
    destruct (is_nil v); [eauto|]. destruct (x_time_ok x v); [eauto|].
    rewrite (ccall_ok nc cnt ltac:(lia)). cbn [obind]. eauto.
  - (* RRedactEmail *) intros key cnt nc nf f H Hlen. seq_in H. req. split_and H.
    destruct (fget_ok f key ltac:(lia)) as [v Hv]. rewrite Hv. cbn [obind].
    destruct (is_nil v); [eauto|]. destruct (x_redact x v) as [v'|]; [|eauto].
    destruct (fset_ok f key v' ltac:(lia)) as [f1 [F1 F2]]. rewrite F1. cbn [obind].
    rewrite (ccall_ok nc cnt ltac:(lia)). cbn [obind]. eauto.
  - (* RReplace *) intros key pattern repl nc nf f H Hlen. seq_in H. req.
    destruct (fget_ok f key ltac:(lia)) as [v Hv]. rewrite Hv. cbn [obind].
    destruct (is_nil v); [eauto|].
    destruct (fset_ok f key (x_regex_replace x pattern v repl) ltac:(lia)) as [f1 [F1 F2]]. rewrite F1. cbn [obind]. eauto.
  - (* RSwitch *) intros cases IH nc nf f H Hlen. seq_in H. req. eauto.
  - (* RTruncate *) intros key maxlen suffix nc nf f H Hlen. seq_in H. req. split_and H.
    destruct (fget_ok f key ltac:(lia)) as [v Hv]. rewrite Hv. cbn [obind].
    destruct (Z.of_nat (length v) >? maxlen + Z.of_nat (length suffix)) eqn:E; [|eauto].
    destruct (slice_z_ok v 0 maxlen) as [head Hh]; try lia. rewrite Hh. cbn [obind].
    pose proof (slice_z_length _ _ _ _ Hh) as Hhl.
    destruct Hx as [_ Hcl]. pose proof (Hcl head) as Hc.
    destruct (Nat.ltb (length v) (x_clean_len x head)) eqn:El; [apply Nat.ltb_lt in El; lia|].
    destruct (fset_ok f key (firstn (x_clean_len x head) v ++ firstn (length v - x_clean_len x head) suffix) ltac:(lia)) as [f1 [F1 F2]].
    rewrite F1. cbn [obind]. eauto.
  - (* RUnescape *) intros key nc nf f H Hlen. seq_in H. req.
    destruct (fget_ok f key ltac:(lia)) as [v Hv]. rewrite Hv. cbn [obind].
    destruct (is_nil v); [eauto|].
    destruct (fset_ok f key (x_unescape x v) ltac:(lia)) as [f1 [F1 F2]]. rewrite F1. cbn [obind]. eauto.
  - (* RTNil *) intros nc nf f H Hlen. req. eauto.
  - (* RTCons *) intros t IHt ts IHts nc nf f H Hlen. seq_in H. req. split_and H.
    destruct (IHt nc nf f H Hlen) as [f1 [b [R1 R2]]]. rewrite R1. cbn [obind].
    destruct b; [|eauto].
    destruct (IHts nc nf f1 H0 ltac:(lia)) as [f2 [b2 [S1 S2]]]. exists f2, b2. split; [assumption|lia].
  - (* RCNil *) intros nc nf f H Hlen. req. eauto.
  - (* RCCons *) intros m then_ IHt cs IHcs nc nf f H Hlen. seq_in H. req. split_and H.
    destruct (run_matcher_ok _ _ _ H Hlen) as [b Hb]. rewrite Hb. cbn [obind]. destruct b; eauto.
Qed.

Lemma run_tl_ok : forall l nc nf f, rtl_safe nf nc l = true -> nf <= Z.of_nat (length f) ->
  exists f' b, run_tl x nc l f = Ok (f', b) /\ length f' = length f.
Proof. apply run_transforms_ok. Qed.

Lemma get_all_ok : forall n locs (f : fields), forallb (fun l => Z.of_nat l <? n) locs = true -> n <= Z.of_nat (length f) ->
  exists vs, get_all locs f = Ok vs /\ length vs = length locs.
Proof.
  intros n locs f. induction locs as [|l r IH]; intros H Hlen; simpl in *; [eauto|].
  apply andb_true_iff in H. destruct H as [H1 H2].
  destruct (fget_ok f l ltac:(lia)) as [v Hv]. rewrite Hv. cbn [obind].
  destruct (IH H2 Hlen) as [vs [G1 G2]]. rewrite G1. cbn [obind]. eexists. split; [reflexivity|]. simpl. lia.
Qed.

Lemma run_chain_ok : forall nf ch (f : fields), chain_safe nf ch = true -> nf <= Z.of_nat (length f) -> run_chain ch f = Ok tt.
Proof.
  intros nf ch f. induction ch as [|r rest IH]; intros H Hlen; simpl in *; [reflexivity|].
  destruct r as [| |loc]; try reflexivity. split_and H.
  destruct (fget_ok f loc ltac:(lia)) as [v Hv]. rewrite Hv. cbn [obind].
  destruct rest; [discriminate|]. apply IH; assumption.
Qed.

Lemma run_chains_ok : forall nf chains (f : fields), forallb (chain_safe nf) chains = true -> nf <= Z.of_nat (length f) ->
  run_chains chains f = Ok tt.
Proof.
  intros nf chains f. induction chains as [|ch r IH]; intros H Hlen; simpl in *; [reflexivity|].
  apply andb_true_iff in H. destruct H as [H1 H2]. rewrite (run_chain_ok _ _ _ H1 Hlen). cbn [obind]. auto.
Qed.

Lemma run_serializer_ok : forall nf s (f : fields), serializer_safe nf s = true -> nf <= Z.of_nat (length f) ->
  run_serializer s f = Ok tt.
Proof.
  intros nf s f H Hlen. destruct s as [nmask env chains|nmask]; simpl in *.
  - split_and H. unfold take_fields. destruct (Nat.leb nmask (length f)) eqn:E; [|apply Nat.leb_gt in E; lia].
    cbn [obind]. rewrite (run_chains_ok _ _ _ H0 Hlen). cbn [obind].
    destruct (get_all_ok (Z.of_nat nmask) env (firstn nmask f) H1) as [vs [G _]].
    + rewrite firstn_length. apply Nat.leb_le in E. lia.
    + rewrite G. reflexivity.
  - unfold take_fields. destruct (Nat.leb nmask (length f)) eqn:E; [reflexivity|apply Nat.leb_gt in E; lia].
Qed.

Lemma run_serializers_ok : forall nf l (f : fields), forallb (serializer_safe nf) l = true -> nf <= Z.of_nat (length f) ->
  run_serializers l f = Ok tt.
Proof.
  intros nf l f. induction l as [|s r IH]; intros H Hlen; simpl in *; [reflexivity|].
  apply andb_true_iff in H. destruct H as [H1 H2]. rewrite (run_serializer_ok _ _ _ H1 Hlen). cbn [obind]. auto.
Qed.

Lemma run_orch_ok : forall nf o (f : fields), orch_safe nf o = true -> nf <= Z.of_nat (length f) -> run_orch o f = Ok tt.
Proof.
  intros nf o f H Hlen. destruct o as [locs tag|]; simpl in *; [|reflexivity]. split_and H.
  destruct (get_all_ok nf locs f H Hlen) as [keys [G1 G2]]. rewrite G1. cbn [obind].
  destruct (expand_ok keys tag) as [v Hv]; [rewrite G2; assumption|]. rewrite Hv. reflexivity.
Qed.

Theorem safe_pipeline_runs : forall p i f, pipeline_safe p = true -> Z.of_nat (length f) = pl_nfields p ->
  run_record x p i f = Ok tt.
Proof.
  intros p i f H Hlen. unfold pipeline_safe in H. split_and H. unfold run_record.
  destruct (nth_error (pl_inputs p) i) as [[ex nc_in]|] eqn:Ei; [|reflexivity].
  assert (Hex : rtl_safe (pl_nfields p) nc_in ex = true).
  { apply nth_error_In in Ei. rewrite forallb_forall in H. apply (H _ Ei). }
  destruct (is_nil (pl_outputs p)) eqn:Eo; [discriminate|].
  destruct (run_tl_ok ex nc_in (pl_nfields p) f Hex ltac:(lia)) as [f1 [b [R1 R2]]]. rewrite R1. cbn [obind].
  destruct b; cbn [negb]; [|reflexivity].
  rewrite H0. rewrite (run_orch_ok _ _ f1 H5 ltac:(lia)). cbn [obind].
  destruct (get_all_ok _ _ f1 H4 ltac:(lia)) as [vs [G _]]. rewrite G. cbn [obind].
  destruct (run_tl_ok (pl_transforms p) (pl_ncounters p) (pl_nfields p) f1 H3 ltac:(lia)) as [f2 [b2 [S1 S2]]].
  rewrite S1. cbn [obind]. destruct b2; cbn [negb]; [|reflexivity].
  apply (run_serializers_ok (pl_nfields p)); [assumption|lia].
Qed.

End RunSafe.

Theorem safe_pipeline_records_safe : forall p, pipeline_safe p = true -> records_safe p.
Proof. intros p H x Hx i f Hlen. rewrite (safe_pipeline_runs x Hx p i f H Hlen). reflexivity. Qed.

(* ================================================================ D. every reference site of an accepted file is valid *)

Lemma Forall_flat_map_intro : forall A B (P : B -> Prop) (f : A -> list B) l,
  (forall a, In a l -> Forall P (f a)) -> Forall P (flat_map f l).
Proof.
  intros A B P f l. induction l as [|a l IH]; intro H; simpl; [constructor|].
  apply Forall_app. split; [apply H; left; reflexivity|apply IH; intros; apply H; right; assumption].
Qed.

Lemma check_field_known : forall sch n u, check_field sch n = Ok u -> known sch n.
Proof. intros sch n u H. destruct (check_field_ok _ _ _ H) as [i Hi]. apply locate_spec in Hi. apply Hi. Qed.

Lemma check_fields_known : forall sch l u, check_fields sch l = Ok u -> Forall (known sch) l.
Proof.
  induction l as [|n r IH]; intros u H; simpl in H; [constructor|]. binds H.
  constructor; [eapply check_field_known; eauto|eapply IH; eauto].
Qed.

Lemma check_key_known : forall sch n u, check_key sch n = Ok u -> known sch n.
Proof. intros sch n u H. destruct (check_key_ok _ _ _ H) as [_ [i Hi]]. apply locate_spec in Hi. apply Hi. Qed.

Lemma Forall_map_ref : forall sch (mk : bytes -> reference) (P : bytes -> Prop) l,
  (forall n, P n -> ref_valid sch (mk n)) -> Forall P l -> Forall (ref_valid sch) (map mk l).
Proof. intros sch mk P l H F. induction F; simpl; constructor; auto. Qed.

Lemma refs_matcher_valid : forall sch m, verify_match sch m = Ok tt -> matcher_decodes m = true ->
  Forall (ref_valid sch) (refs_matcher m).
Proof.
  intros sch m H Hd. unfold verify_match in H. binds H. apply check_ok in Hb.
  unfold refs_matcher. constructor; [simpl; destruct (is_nil m); [discriminate|reflexivity]|].
  unfold matcher_decodes in Hd. apply andb_true_iff in Hd. destruct Hd as [Hd _]. clear Hb.
  induction m as [|e r IH]; simpl in *; [constructor|]. binds H. apply andb_true_iff in Hd. destruct Hd as [Hd1 Hd2].
  constructor; [simpl; eapply check_field_known; eauto|].
  constructor; [|apply IH; assumption]. simpl. apply check_ok in Hb0. unfold mentry_decodes in Hd1.
  split; intro E; rewrite E in *; discriminate.
Qed.

Lemma refs_addfields_valid : forall sch fields, verify_addfields fq sch fields = Ok tt ->
  Forall (ref_valid sch) (flat_map (fun kt => [RefField (fst kt); RefTemplate sch (snd kt)]) fields).
Proof.
  intros sch fields. induction fields as [|[k t] r IH]; intro H; simpl in *; [constructor|]. binds H.
  constructor; [simpl; eapply check_field_known; eauto|]. constructor; [|apply IH; assumption].
  simpl. unfold check_template in Hb0. simpl in Hb0. binds Hb0. eapply new_expander_valid; eauto.
Qed.

Lemma verify_captures_known : forall sch key names, verify_captures fq sch key names = Ok tt ->
  Forall (known sch) (filter (fun n => negb (is_nil n)) names).
Proof.
  intros sch key names. induction names as [|n r IH]; intro H; simpl in *; [constructor|]. binds H.
  destruct (is_nil n); simpl; [apply IH; assumption|]. constructor; [eapply check_field_known; eauto|apply IH; assumption].
Qed.

Lemma num_percent : forall n, num_ok n = true -> (1 <=? num_val n) && (num_val n <=? 100) = true ->
  exists z, n = NumOk z /\ 1 <= z <= 100.
Proof. intros [z|] H1 H2; [|discriminate]. simpl in H2. exists z. split; [reflexivity|lia]. Qed.

Lemma num_positive : forall n, (0 <? num_val n) = true -> exists z, n = NumOk z /\ 0 < z.
Proof. intros [z|] H; simpl in H; [|discriminate]. exists z. split; [reflexivity|lia]. Qed.

Definition valid_t (t : transform) : Prop :=
  forall sch, transform_decodes t = true -> verify_t fq sch t = Ok tt -> Forall (ref_valid sch) (refs_t sch t).
Definition valid_tl (l : tlist) : Prop :=
  forall sch, tlist_decodes l = true -> verify_tl fq sch l = Ok tt -> Forall (ref_valid sch) (refs_tl sch l).
Definition valid_cl (l : clist) : Prop :=
  forall sch, clist_decodes l = true -> verify_cl fq sch l = Ok tt -> Forall (ref_valid sch) (refs_cl sch l).

Ltac feq := rewrite ?refs_t_block, ?refs_t_if, ?refs_t_switch, ?refs_tl_cons, ?refs_cl_cons; cbn [refs_t refs_tl refs_cl].
Ltac nonempty_goal := simpl; match goal with H : check (negb ?b) _ = Ok _ |- ?b = false => apply check_ok in H; destruct b; [discriminate|reflexivity] end.

Lemma tl_empty_false : forall l u, check (match l with TNil => false | _ => true end) err_empty = Ok u -> tl_empty l = false.
Proof. intros [|t ts] u H; simpl in *; [discriminate|reflexivity]. Qed.

Lemma transform_refs_valid : (forall t, valid_t t) /\ (forall l, valid_tl l) /\ (forall l, valid_cl l).
Proof.
  apply transform_mutind; unfold valid_t, valid_tl, valid_cl.
  - (* TAddFields *) intros fields sch Hd H. veq H. binds H. feq.
    constructor; [nonempty_goal|]. apply refs_addfields_valid. assumption.
  - (* TBlock *) intros steps IH sch Hd H. veq H. deq Hd. binds H. feq.
    constructor; [simpl; eapply tl_empty_false; eauto|]. apply IH; assumption.
  - (* TDelFields *) intros keys sch Hd H. veq H. binds H. feq.
    constructor; [nonempty_goal|]. eapply Forall_map_ref; [|eapply check_fields_known; eauto]. auto.
  - (* TDrop *) intros m pct label sch Hd H. veq H. deq Hd. binds H. split_and Hd. feq.
    apply Forall_app. split; [apply refs_matcher_valid; assumption|].
    apply check_ok in Hb0. constructor; [simpl; apply num_percent; assumption|].
    constructor; [nonempty_goal|constructor].
  - (* TExtract *) intros key pattern re sch Hd H. veq H. binds H. feq.
    destruct re as [names|]; [|discriminate].
    constructor; [simpl; eapply check_key_known; eauto|]. constructor; [nonempty_goal|].
    constructor; [reflexivity|].
    eapply Forall_map_ref; [|eapply verify_captures_known; eauto]. auto.
  - (* TExtractSpecial *) intros pos key pattern maxlen dest sch Hd H. veq H. binds H. feq.
    destruct (verify_special_pattern_ok _ _ _ Hb1) as [ex Hex]. apply check_ok in Hb2.
    constructor; [simpl; eapply check_key_known; eauto|].
    constructor; [simpl; eapply special_pattern_valid_of_ok; eauto|].
    constructor; [simpl; apply num_positive; assumption|].
    constructor; [simpl; eapply check_key_known; eauto|constructor].
  - (* TIf *) intros m then_ IH sch Hd H. veq H. deq Hd. binds H. split_and Hd. feq.
    apply Forall_app. split; [apply refs_matcher_valid; assumption|].
    constructor; [simpl; eapply tl_empty_false; eauto|]. apply IH; assumption.
  - (* TMapValue *) intros key mapping default sch Hd H. veq H. binds H. feq.
    constructor; [simpl; eapply check_key_known; eauto|]. constructor; [nonempty_goal|constructor].
  - (* TParseTime *) intros key label sch Hd H. veq H. binds H. feq.
    constructor; [simpl; eapply check_key_known; eauto|]. constructor; [nonempty_goal|constructor].
  - (* TRedactEmail *) intros key label sch Hd H. veq H. binds H. feq.
    constructor; [simpl; eapply check_key_known; eauto|]. constructor; [nonempty_goal|constructor].
  - (* TReplace *) intros key pattern re_ok repl sch Hd H. veq H. binds H. feq.
    constructor; [simpl; eapply check_key_known; eauto|]. constructor; [nonempty_goal|].
    constructor; [simpl; eapply check_ok; eauto|constructor].
  - (* TSwitch *) intros cases IH sch Hd H. veq H. deq Hd. binds H. feq.
    constructor; [simpl; apply check_ok in Hb; destruct cases; [discriminate|reflexivity]|]. apply IH; assumption.
  - (* TTruncate *) intros key maxlen suffix sch Hd H. veq H. binds H. feq. apply check_ok in Hb0.
    constructor; [simpl; eapply check_key_known; eauto|].
    constructor; [simpl; apply num_positive; assumption|]. constructor; [nonempty_goal|constructor].
  - (* TUnescape *) intros key sch Hd H. veq H. feq. constructor; [simpl; eapply check_key_known; eauto|constructor].
  - (* TUnknown *) intros sch Hd H. deq Hd. discriminate.
  - (* TNil *) intros sch Hd H. feq. constructor.
  - (* TCons *) intros t IHt ts IHts sch Hd H. veq H. deq Hd. binds H. split_and Hd. feq.
    apply Forall_app. split; [apply IHt; assumption|apply IHts; assumption].
  - (* CNil *) intros sch Hd H. feq. constructor.
  - (* CCons *) intros m then_ IHt cs IHcs sch Hd H. veq H. deq Hd. binds H. split_and Hd. feq.
    apply Forall_app. split; [apply refs_matcher_valid; assumption|].
    constructor; [simpl; eapply tl_empty_false; eauto|].
    apply Forall_app. split; [apply IHt; assumption|apply IHcs; assumption].
Qed.

Lemma refs_tl_valid : forall l sch, tlist_decodes l = true -> verify_tl fq sch l = Ok tt -> Forall (ref_valid sch) (refs_tl sch l).
Proof. apply transform_refs_valid. Qed.

(* rewriter chains *)
Lemma verify_rewriters_valid : forall sch l, verify_rewriters sch l = Ok tt ->
  rewriters_valid sch l /\ Forall (ref_valid sch) (flat_map (fun r => match r with RwInline f => [RefField f] | _ => [] end) l).
Proof.
  intros sch l. induction l as [|r rest IH]; intro H; simpl in H.
  - split; [left; reflexivity|constructor].
  - binds H. destruct (IH H) as [V1 V2].
    destruct r as [|field| |]; simpl in Hb.
    + apply check_ok in Hb. destruct rest; [|discriminate]. split; [|constructor].
      right. exists [], RwCopy. simpl. auto.
    + binds Hb. apply check_ok in Hb0. destruct (check_key_ok _ _ _ Hb) as [Hne [i Hi]]. apply locate_spec in Hi.
      split; [|simpl; constructor; [apply Hi|assumption]].
      destruct V1 as [E|[inl [last [E [Hl Hf]]]]]; [subst; discriminate|].
      right. exists (field :: inl), last. subst rest. simpl. split; [reflexivity|]. split; [assumption|].
      constructor; [split; [assumption|apply Hi]|assumption].
    + apply check_ok in Hb. destruct rest; [|discriminate]. split; [|constructor].
      right. exists [], RwUnescape. simpl. auto.
    + discriminate.
Qed.

Lemma big_quantity : forall b, big_ok b = true -> negb (big_val b =? 0)%N = true -> exists n, b = BigOk n /\ (0 < n)%N.
Proof. intros [n|] H1 H2; [|discriminate]. simpl in H2. exists n. split; [reflexivity|lia]. Qed.

Lemma mode_known_cases : forall m, mode_known m = true -> m = mode_forward \/ m = mode_packed \/ m = mode_compressed.
Proof.
  intros m H. unfold mode_known in H. apply orb_true_iff in H. destruct H as [H|H]; [apply orb_true_iff in H; destruct H as [H|H]|];
    apply bytes_eqb_eq in H; auto.
Qed.

Lemma refs_output_valid : forall sch o, output_decodes o = true -> verify_output fq sch o = Ok tt ->
  Forall (ref_valid sch) (refs_output o).
Proof.
  intros sch o Hd H. destruct o as [env hidden rewrites mode addr ok dur|hidden addr ok dur| |]; simpl in H, Hd.
  - binds H. binds Hb0. split_and Hd. unfold refs_output.
    constructor; [nonempty_goal|].
    apply Forall_app. split; [eapply Forall_map_ref; [|eapply check_fields_known; eauto]; auto|].
    apply Forall_app. split; [eapply Forall_map_ref; [|eapply check_fields_known; eauto]; auto|].
    apply Forall_app. split.
    + apply Forall_flat_map_intro. intros fr Hin.
      destruct (verify_rewrite_fields_in _ _ Hb1 fr Hin) as [F1 F2]. destruct (verify_rewriters_valid _ _ F2) as [V1 V2].
      constructor; [simpl; eapply check_field_known; eauto|]. constructor; [exact V1|exact V2].
    + apply check_ok in Hb3. apply check_ok in Hb5. apply check_ok in H.
      constructor; [simpl; apply mode_known_cases; assumption|]. constructor; [exact Hb5|].
      constructor; [simpl; apply big_quantity; assumption|constructor].
  - binds H. apply check_ok in Hb1. apply check_ok in H. unfold refs_output.
    apply Forall_app. split; [eapply Forall_map_ref; [|eapply check_fields_known; eauto]; auto|].
    constructor; [exact Hb1|]. constructor; [simpl; apply big_quantity; assumption|constructor].
  - discriminate.
  - discriminate.
Qed.

Lemma refs_buffer_valid : forall sch b, buffer_decodes b = true -> verify_buffer fq b = Ok tt -> Forall (ref_valid sch) (refs_buffer b).
Proof.
  intros sch [root size| |] Hd H; simpl in *; try discriminate. binds H. apply check_ok in H.
  constructor; [nonempty_goal|]. constructor; [simpl; apply big_quantity; assumption|constructor].
Qed.

Lemma refs_pairs_valid : forall sch l seen,
  forallb (fun p => buffer_decodes (p_buffer p) && output_decodes (p_output p)) l = true ->
  verify_pairs fq sch seen l = Ok tt ->
  Forall (ref_valid sch) (flat_map (fun p => refs_buffer (p_buffer p) ++ refs_output (p_output p)) l).
Proof.
  intros sch l. induction l as [|p r IH]; intros seen Hd H; simpl in *; [constructor|]. binds H. split_and Hd.
  unfold verify_pair in Hb0. simpl in Hb0. binds Hb0.
  apply Forall_app. split; [|eapply IH; eauto].
  apply Forall_app. split; [apply refs_buffer_valid; assumption|apply refs_output_valid; assumption].
Qed.

Lemma refs_inputs_valid : forall sch l, forallb input_decodes l = true -> verify_inputs fq sch l = Ok tt ->
  Forall (ref_valid sch) (flat_map (refs_input sch) l).
Proof.
  intros sch l. induction l as [|i r IH]; intros Hd H; simpl in *; [constructor|]. binds H. split_and Hd.
  apply Forall_app. split; [|apply IH; assumption].
  destruct i as [addr ok levels ex|]; simpl in Hb, Hd; [|discriminate]. binds Hb. unfold refs_input.
  unfold syslog_parser_check in Hb3. binds Hb3. apply check_ok in Hb0. apply check_ok in Hb1. apply check_ok in Hb4.
  constructor; [exact Hb0|].
  constructor; [simpl; destruct levels; [discriminate|]; cbn [is_nil orb] in Hb4; apply Nat.eqb_eq in Hb4; assumption|].
  constructor; [simpl; eapply tl_empty_false; eauto|].
  apply Forall_app. split; [eapply Forall_map_ref; [|eapply check_fields_known; eauto]; auto|].
  apply refs_tl_valid; assumption.
Qed.

Lemma label_name_chars : forall n, label_name_ok n = true -> label_chars n.
Proof. intros n H. unfold label_name_ok in H. unfold label_chars. rewrite forallb_forall in H. apply Forall_forall. assumption. Qed.

Lemma key_fields_valid : forall sch keys, check_fields sch keys = Ok tt -> check_label_fields keys [] = Ok tt ->
  Forall (ref_valid sch) (map RefKeyField keys).
Proof.
  intros sch keys H1 H2. apply check_fields_known in H1. apply check_label_fields_ok in H2.
  induction keys as [|k r IH]; simpl; [constructor|]. inversion H1; subst. inversion H2; subst.
  constructor; [simpl; split; [assumption|apply label_name_chars; assumption]|apply IH; assumption].
Qed.

Lemma refs_orch_valid : forall sch o keys, verify_orch fq sch o = Ok keys -> Forall (ref_valid sch) (refs_orch o).
Proof.
  intros sch o keys0 H. destruct o as [keys tag|tag| |]; simpl in H; try discriminate.
  - binds H. unfold refs_orch. constructor; [nonempty_goal|].
    apply Forall_app. split; [apply key_fields_valid; assumption|].
    constructor; [nonempty_goal|]. constructor; [|constructor].
    simpl. unfold check_template in Hb3. simpl in Hb3. binds Hb3. eapply new_expander_valid; eauto.
  - binds H. unfold refs_orch. constructor; [nonempty_goal|]. constructor; [|constructor].
    simpl. unfold check_template in Hb0. simpl in Hb0. binds Hb0. eapply new_expander_valid; eauto.
Qed.

Theorem sites_complete_lemma : forall c, verify fq c = Ok tt -> Forall (ref_valid (c_fields c)) (refs c).
Proof.
  intros c H. unfold verify in H. binds H. apply check_ok in Hb.
  unfold config_decodes in Hb.
  assert (Hdec : forallb input_decodes (c_inputs c) = true /\ tlist_decodes (c_transforms c) = true /\
                 forallb (fun p => buffer_decodes (p_buffer p) && output_decodes (p_output p)) (c_pairs c) = true).
  { split_and Hb. auto. }
  destruct Hdec as [Hdi [Hdt Hdp]]. clear Hb.
  rename Hb1 into Hinputs, Hb2 into Horch, Hb3 into Hmk, Hb4 into Htf, Hb5 into Hne, H into Hpairs.
  unfold refs.
  apply Forall_app. split; [apply refs_inputs_valid; assumption|].
  apply Forall_app. split; [eapply refs_orch_valid; eauto|].
  unfold verify_metric_keys in Hmk. simpl in Hmk. binds Hmk.
  constructor; [nonempty_goal|].
  apply Forall_app. split; [apply key_fields_valid; assumption|].
  apply Forall_app. split; [apply refs_tl_valid; assumption|].
  simpl in Hne. constructor; [nonempty_goal|]. eapply refs_pairs_valid; eauto.
Qed.

(* ================================================================ the property *)

Theorem verify_ok_construct_ok_lemma : forall c, verify fq c = Ok tt ->
  exists p, construct fq c = Ok p /\ pipeline_safe p = true /\ records_safe p.
Proof.
  intros c H. destruct (verify_ok_constructs c H) as [p [H1 [H2 _]]].
  exists p. split; [assumption|]. split; [assumption|]. apply safe_pipeline_records_safe. assumption.
Qed.

(* what the correspondence check prints for the model is never a panic verdict *)
Theorem verdict_never_panics_lemma : forall c, is_vpanic (snd (verdict fq c)) = false.
Proof.
  intro c. unfold verdict. destruct (verify fq c) as [u|e|s] eqn:E.
  - destruct u. destruct (verify_ok_constructs c E) as [p [H1 [H2 _]]]. rewrite H1, H2. reflexivity.
  - reflexivity.
  - pose proof (verify_total_lemma c) as T. rewrite E in T. discriminate.
Qed.

(* ================================================================ the repairs only restrict *)
(* every configuration the repaired loader accepts was accepted by the original loader: the fixes
   turn acceptances into errors, never the other way round *)
Notation oq := original_quirks.

Lemma expander_parts_relax : forall resolve ps r,
  expander_parts false resolve ps = Ok r -> expander_parts true resolve ps = Ok r.
Proof.
  intros resolve ps. induction ps as [|p ps IH]; intros r H; simpl in *; [assumption|].
  destruct p as [s|name|body|].
  - binds H. rewrite (IH _ Hb). assumption.
  - destruct (resolve name); [|discriminate]. binds H. rewrite (IH _ Hb). assumption.
  - destruct (parse_vexpr body) as [[name bounds]|]; [|discriminate].
    destruct (resolve name); [|discriminate]. destruct bounds as [[a b]|].
    + binds H.
      assert (Hs : forall s d z, slice_bound false s d = Ok z -> slice_bound true s d = Ok z).
      { intros s d z Hz. destruct s as [|c s]; simpl in *; [assumption|]. destruct (atoi (c :: s)); [assumption|discriminate]. }
      rewrite (Hs _ _ _ Hb), (Hs _ _ _ Hb0). cbn [obind]. rewrite (IH _ Hb1). assumption.
    + binds H. rewrite (IH _ Hb). assumption.
  - auto.
Qed.

Lemma check_template_relax : forall scope t, check_template fq scope t = Ok tt -> check_template oq scope t = Ok tt.
Proof.
  intros scope t H. unfold check_template in *. simpl in *. binds H. unfold new_expander in *.
  destruct (has_dollar2 t); [discriminate|]. binds Hb. rewrite (expander_parts_relax _ _ _ Hb0). cbn [obind].
  destruct (has_skip _); [discriminate|]. reflexivity.
Qed.

Lemma verify_addfields_relax : forall sch l, verify_addfields fq sch l = Ok tt -> verify_addfields oq sch l = Ok tt.
Proof.
  induction l as [|[k t] l IH]; intro H; simpl in *; [assumption|]. binds H.
  rewrite Hb. cbn [obind]. rewrite (check_template_relax _ _ Hb0). cbn [obind]. auto.
Qed.

Lemma verify_captures_relax : forall sch key names, check_field sch key = Ok tt ->
  verify_captures fq sch key names = Ok tt -> verify_captures oq sch key names = Ok tt.
Proof.
  intros sch key names Hk. induction names as [|n r IH]; intro H; simpl in *; [assumption|]. binds H.
  rewrite Hk. cbn [obind]. auto.
Qed.

Lemma verify_special_pattern_relax : forall pos p m,
  verify_special_pattern fq pos p m = Ok tt -> verify_special_pattern oq pos p m = Ok tt.
Proof.
  intros pos p m H. unfold verify_special_pattern in *. simpl in *.
  unfold new_string_extractor_simple in H. destruct (split_pattern p) as [parts|e|s]; simpl in H; try discriminate. reflexivity.
Qed.

Lemma verify_transforms_relax :
  (forall t sch, verify_t fq sch t = Ok tt -> verify_t oq sch t = Ok tt) /\
  (forall l sch, verify_tl fq sch l = Ok tt -> verify_tl oq sch l = Ok tt) /\
  (forall l sch, verify_cl fq sch l = Ok tt -> verify_cl oq sch l = Ok tt).
Proof.
  apply transform_mutind.
  - intros fields sch H. veq H. cbn [verify_t]. binds H. rewrite Hb. cbn [obind]. apply verify_addfields_relax. assumption.
  - intros steps IH sch H. veq H. rewrite verify_t_block. binds H. rewrite Hb. cbn [obind]. auto.
  - intros keys sch H. exact H.
  - intros m pct label sch H. exact H.
  - intros key pattern re sch H. veq H. cbn [verify_t]. binds H. rewrite Hb, Hb0. cbn [obind].
    destruct re as [names|]; [|discriminate]. apply verify_captures_relax; [|assumption].
    unfold check_key in Hb. binds Hb. assumption.
  - intros pos key pattern maxlen dest sch H. veq H. cbn [verify_t]. binds H.
    rewrite Hb, Hb0, (verify_special_pattern_relax _ _ _ Hb1), Hb2. cbn [obind]. assumption.
  - intros m then_ IH sch H. veq H. rewrite verify_t_if. binds H. rewrite Hb, Hb0. cbn [obind]. auto.
  - intros key mapping default sch H. exact H.
  - intros key label sch H. exact H.
  - intros key label sch H. exact H.
  - intros key pattern re_ok repl sch H. exact H.
  - intros cases IH sch H. veq H. rewrite verify_t_switch. binds H. rewrite Hb. cbn [obind]. auto.
  - intros key maxlen suffix sch H. exact H.
  - intros key sch H. exact H.
  - intros sch H. exact H.
  - intros sch H. exact H.
  - intros t IHt ts IHts sch H. veq H. rewrite verify_tl_cons. binds H. rewrite (IHt _ Hb). cbn [obind]. auto.
  - intros sch H. exact H.
  - intros m then_ IHt cs IHcs sch H. veq H. rewrite verify_cl_cons. binds H.
    rewrite Hb, Hb0, (IHt _ Hb1). cbn [obind]. auto.
Qed.

Lemma verify_tl_relax : forall l sch, verify_tl fq sch l = Ok tt -> verify_tl oq sch l = Ok tt.
Proof. apply verify_transforms_relax. Qed.

Ltac rw_ok := repeat match goal with H : ?x = Ok _ |- context [?x] => rewrite H; cbn [obind] end.

Lemma verify_pairs_relax : forall sch l seen, verify_pairs fq sch seen l = Ok tt -> verify_pairs oq sch seen l = Ok tt.
Proof.
  intros sch l. induction l as [|p r IH]; intros seen H; simpl in *; [assumption|]. binds H.
  rewrite Hb. cbn [obind]. rewrite (IH _ H).
  unfold verify_pair in *. simpl in *. binds Hb0. binds Hb1. apply check_ok in Hb1. apply check_ok in Hb3.
  assert (Hbuf : verify_buffer oq (p_buffer p) = Ok tt).
  { destruct (p_buffer p); simpl in *; try discriminate; assumption. }
  assert (Hout : verify_output oq sch (p_output p) = Ok tt).
  { destruct (p_output p) as [env hidden rw mode addr ok dur|hidden addr ok dur| |]; simpl in *; try discriminate.
    - binds Hb0. rw_ok. reflexivity.
    - binds Hb0. rw_ok. reflexivity. }
  rewrite Hbuf, Hout. reflexivity.
Qed.

Lemma verify_inputs_relax : forall sch l, verify_inputs fq sch l = Ok tt -> verify_inputs oq sch l = Ok tt.
Proof.
  intros sch l. induction l as [|i r IH]; intro H; simpl in *; [assumption|]. binds H. rewrite (IH H).
  destruct i as [addr ok levels ex|]; simpl in *; [|discriminate]. binds Hb.
  rewrite Hb0, Hb1, Hb2, Hb3, (verify_tl_relax _ _ Hb). reflexivity.
Qed.

Theorem fixes_only_restrict_lemma : forall c, verify fq c = Ok tt -> verify oq c = Ok tt.
Proof.
  intros c H. unfold verify in *. binds H. rewrite Hb, Hb0. cbn [obind].
  rewrite (verify_inputs_relax _ _ Hb1). cbn [obind].
  assert (Horch : verify_orch oq (c_fields c) (c_orch c) = Ok ub2).
  { destruct (c_orch c) as [keys tag|tag| |]; simpl in *; try discriminate.
    - binds Hb2. match goal with H : check_template fq _ _ = Ok tt |- _ => apply check_template_relax in H end.
      rw_ok. try assumption; reflexivity.
    - binds Hb2. match goal with H : check_template fq _ _ = Ok tt |- _ => apply check_template_relax in H end.
      rw_ok. try assumption; reflexivity. }
  rewrite Horch. cbn [obind].
  assert (Hmk : verify_metric_keys oq (c_fields c) ub2 (c_metric_keys c) = Ok tt).
  { unfold verify_metric_keys in *. simpl in *. binds Hb3. rw_ok. try assumption; reflexivity. }
  rewrite Hmk. cbn [obind]. rewrite (verify_tl_relax _ _ Hb4). cbn [obind]. simpl.
  apply verify_pairs_relax. assumption.
Qed.

(* ================================================================ sites that interact *)
(* a field named at two sites: the key fields are pairwise distinct across orchestration keys and metricKeys
   (they become the label names key_<field> of one metric), pair names and schema fields are distinct, and the
   rewriter chain of EVERY rewriteFields entry is well formed - whether the field is hidden, an environment
   field or visible (NewEventSerializer builds all of them) *)

Lemma mem_In : forall x l, mem x l = true <-> In x l.
Proof.
  intros x l. unfold mem. rewrite existsb_exists. split.
  - intros [y [H1 H2]]. apply bytes_eqb_eq in H2. subst. assumption.
  - intro H. exists x. split; [assumption|apply bytes_eqb_refl].
Qed.

Lemma mem_false : forall x l, mem x l = false -> ~ In x l.
Proof. intros x l H Hin. apply mem_In in Hin. congruence. Qed.

Lemma NoDup_app_intro : forall (a b : list bytes), NoDup a -> NoDup b -> (forall x, In x a -> ~ In x b) -> NoDup (a ++ b).
Proof.
  induction a as [|x a IH]; intros b Ha Hb Hd; simpl; [assumption|].
  inversion Ha; subst. constructor.
  - intro Hin. apply in_app_or in Hin. destruct Hin as [Hin|Hin]; [contradiction|]. apply (Hd x); [left; reflexivity|assumption].
  - apply IH; auto. intros y Hy. apply Hd. right. assumption.
Qed.

Lemma check_label_fields_nodup : forall names seen, check_label_fields names seen = Ok tt ->
  NoDup names /\ (forall n, In n names -> ~ In n seen).
Proof.
  induction names as [|n r IH]; intros seen H; simpl in H; [split; [constructor|intros ? []]|].
  binds H. apply check_ok in Hb0. destruct (IH _ H) as [N1 N2].
  assert (Hn : ~ In n seen) by (apply mem_false; destruct (mem n seen); [discriminate|reflexivity]).
  split.
  - constructor; [|assumption]. intro Hin. apply (N2 n Hin). left. reflexivity.
  - intros m [E|Hin]; [subst; assumption|]. intro Hs. apply (N2 m Hin). right. assumption.
Qed.

Lemma schema_names_nodup : forall names seen, schema_names_ok names seen = true ->
  NoDup names /\ (forall n, In n names -> ~ In n seen).
Proof.
  induction names as [|n r IH]; intros seen H; simpl in H; [split; [constructor|intros ? []]|].
  split_and H. destruct (IH _ H0) as [N1 N2].
  assert (Hn : ~ In n seen) by (apply mem_false; destruct (mem n seen); [discriminate|reflexivity]).
  split.
  - constructor; [|assumption]. intro Hin. apply (N2 n Hin). left. reflexivity.
  - intros m [E|Hin]; [subst; assumption|]. intro Hs. apply (N2 m Hin). right. assumption.
Qed.

Lemma verify_pairs_names : forall sch l seen, verify_pairs fq sch seen l = Ok tt ->
  NoDup (map p_name l) /\ (forall n, In n (map p_name l) -> ~ In n seen) /\
  (forall p, In p l -> verify_output fq sch (p_output p) = Ok tt).
Proof.
  intros sch l. induction l as [|p r IH]; intros seen H; simpl in H.
  - split; [constructor|]. split; intros ? [].
  - binds H. apply check_ok in Hb. destruct (IH _ H) as [N1 [N2 N3]].
    assert (Hn : ~ In (p_name p) seen) by (apply mem_false; destruct (mem (p_name p) seen); [discriminate|reflexivity]).
    unfold verify_pair in Hb0. simpl in Hb0. binds Hb0.
    split; [|split].
    + simpl. constructor; [|assumption]. intro Hin. apply (N2 _ Hin). left. reflexivity.
    + intros m [E|Hin]; [subst; assumption|]. intro Hs. apply (N2 m Hin). right. assumption.
    + intros p' [E|Hin]; [subst; assumption|auto].
Qed.

Theorem interacting_sites_lemma : forall c, verify fq c = Ok tt ->
  NoDup (orch_keys (c_orch c) ++ c_metric_keys c) /\
  NoDup (map p_name (c_pairs c)) /\
  NoDup (c_fields c) /\
  (forall p env hidden rewrites mode addr ok dur, In p (c_pairs c) ->
     p_output p = OFluentd env hidden rewrites mode addr ok dur ->
     forall fr, In fr rewrites -> known (c_fields c) (fst fr) /\ rewriters_valid (c_fields c) (snd fr)).
Proof.
  intros c H. unfold verify in H. binds H.
  rename Hb0 into Hschema, Hb2 into Horch, Hb3 into Hmk, H into Hpairs.
  destruct (construct_orch_ok (c_fields c) (Z.of_nat (length (c_fields c))) _ _ ltac:(lia) Horch) as [ro [_ [_ [Ek Hl]]]].
  subst ub2.
  unfold verify_metric_keys in Hmk. simpl in Hmk. binds Hmk. apply check_ok in Hmk.
  match goal with Hc : check_label_fields (c_metric_keys c) [] = Ok tt |- _ =>
    destruct (check_label_fields_nodup _ _ Hc) as [Nm _] end.
  assert (Nk : NoDup (orch_keys (c_orch c))).
  { unfold labels_ok in Hl. destruct (check_label_fields (orch_keys (c_orch c)) []) as [[]|e|s] eqn:E; try discriminate.
    apply (check_label_fields_nodup _ _ E). }
  destruct (verify_pairs_names _ _ _ Hpairs) as [Np [_ Hout]].
  split; [|split; [assumption|split]].
  - apply NoDup_app_intro; try assumption. intros x Hx Hm.
    assert (Hex : existsb (fun k => mem k (orch_keys (c_orch c))) (c_metric_keys c) = true).
    { apply existsb_exists. exists x. split; [assumption|apply mem_In; assumption]. }
    rewrite Hex in Hmk. discriminate.
  - unfold verify_schema in Hschema. binds Hschema. apply check_ok in Hschema.
    apply (schema_names_nodup _ _ Hschema).
  - intros p env hidden rewrites mode addr ok dur Hin Eo fr Hfr.
    pose proof (Hout p Hin) as Ho. rewrite Eo in Ho. simpl in Ho. binds Ho.
    match goal with Hr : verify_rewrite_fields _ rewrites = Ok tt |- _ =>
      destruct (verify_rewrite_fields_in _ _ Hr fr Hfr) as [F1 F2] end.
    split; [eapply check_field_known; eauto|apply (verify_rewriters_valid _ _ F2)].
Qed.
