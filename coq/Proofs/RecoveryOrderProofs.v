(* Proofs for Model/RecoveryOrder.v (C05): start-up recovery of a backlog interleaved with new chunks.

   Invariant: the chain  transmitted ++ window ++ feeder hand ++ queue ++ not-yet-recovered  is strictly increasing
   in chunk id, per connection strictly increasing in sequence number, below the id clock and bounded by the stamps
   seen so far.  Every event except Accept only moves chunks along the chain or removes some; Accept appends a newer
   chunk at the END of the queue - which is the end of the chain only if nothing is left to recover.  That is the
   one place where [rv_accept_waits] is used. *)
From Coq Require Import List Arith Bool Lia PeanoNat.
From SV Require Import Model.Common Model.System Model.RecoveryOrder Proofs.SystemLists Proofs.SystemOrderLists.
Import ListNotations.
Open Scope nat_scope.

(* ---------- lists ---------- *)

Lemma sublist_flat_map : forall A B (f : A -> list B) a b, sublist a b -> sublist (flat_map f a) (flat_map f b).
Proof.
  induction 1; cbn; [constructor| |].
  - replace (flat_map f a) with ([] ++ flat_map f a) by reflexivity. apply sublist_app; [apply sublist_nil_l|assumption].
  - apply sublist_app; [apply sublist_refl|assumption].
Qed.

Lemma rids_app : forall a b, rids (a ++ b) = rids a ++ rids b.
Proof. intros. unfold rids. apply map_app. Qed.

Lemma rtoks_app : forall a b, rtoks (a ++ b) = rtoks a ++ rtoks b.
Proof. intros. unfold rtoks. apply flat_map_app. Qed.

Lemma rseqs_app : forall k a b, rseqs k (a ++ b) = rseqs k a ++ rseqs k b.
Proof. intros. unfold rseqs. rewrite filter_app, map_app. reflexivity. Qed.

Lemma in_rseqs : forall k l q, In q (rseqs k l) <-> In (k, q) l.
Proof.
  intros k l q. unfold rseqs. rewrite in_map_iff. split.
  - intros [[k' q'] [E H]]. cbn in E. subst q'. apply filter_In in H. destruct H as [H1 H2]. cbn in H2.
    apply Nat.eqb_eq in H2. subst k'. assumption.
  - intros H. exists (k, q). split; [reflexivity|]. apply filter_In. split; [assumption|]. cbn. apply Nat.eqb_refl.
Qed.

(* ---------- the invariant ---------- *)

Definition dominated (seen l : list (nat * nat)) : Prop :=
  forall k q, In (k, q) l -> exists h, In (k, h) seen /\ q <= h.

Definition rgood (clock : nat) (seen : list (nat * nat)) (l : list rchunk) : Prop :=
  incr (rids l) /\ (forall c, In c l -> rc_id c <= clock) /\ (forall k, incr (rseqs k (rtoks l))) /\ dominated seen (rtoks l).

Lemma rgood_sublist : forall clock seen a b, sublist a b -> rgood clock seen b -> rgood clock seen a.
Proof.
  intros clock seen a b S [H1 [H2 [H3 H4]]]. repeat split.
  - apply (incr_sublist _ (rids b)); [apply sublist_map; assumption|assumption].
  - intros c Hc. apply H2. apply (sublist_in _ _ _ S). assumption.
  - intros k. apply (incr_sublist _ (rseqs k (rtoks b))); [|apply H3].
    unfold rseqs. apply sublist_map. apply sublist_filter_mono. apply sublist_flat_map. assumption.
  - intros k q Hq. apply H4. apply (sublist_in _ _ _ (sublist_flat_map _ _ rc_toks _ _ S)). assumption.
Qed.

Lemma rgood_mono : forall clock clock' seen seen' l, clock <= clock' -> (forall t, In t seen -> In t seen') ->
  rgood clock seen l -> rgood clock' seen' l.
Proof.
  intros clock clock' seen seen' l Hc Hs [H1 [H2 [H3 H4]]]. repeat split; auto.
  - intros c Hc'. specialize (H2 c Hc'). lia.
  - intros k q Hq. destruct (H4 k q Hq) as [h [Hh Hle]]. exists h. split; [apply Hs; assumption|assumption].
Qed.

Lemma tok_fresh_spec : forall seen k q, tok_fresh seen (k, q) = true -> forall h, In (k, h) seen -> h < q.
Proof.
  intros seen k q H h Hh. unfold tok_fresh in H. rewrite forallb_forall in H. specialize (H (k, h) Hh). cbn in H.
  rewrite Nat.eqb_refl in H. cbn in H. apply Nat.ltb_lt. assumption.
Qed.

Lemma toks_fresh_spec : forall k toks seen, toks_fresh seen toks = true ->
  incr (rseqs k toks) /\ (forall q h, In (k, q) toks -> In (k, h) seen -> h < q).
Proof.
  intros k. induction toks as [|[k' q'] r IH]; intros seen H.
  - split; [exact I|intros ? ? []].
  - cbn [toks_fresh] in H. apply andb_true_iff in H. destruct H as [Hf Hr]. destruct (IH _ Hr) as [I1 I2]. split.
    + unfold rseqs. cbn [filter fst]. destruct (Nat.eqb k' k) eqn:E.
      * apply Nat.eqb_eq in E. subst k'. cbn [map snd]. split; [|exact I1].
        intros y Hy. apply in_rseqs in Hy. apply (I2 y q' Hy). left. reflexivity.
      * exact I1.
    + intros q h [Hq|Hq] Hh.
      * inversion Hq; subst. apply (tok_fresh_spec _ _ _ Hf). assumption.
      * apply (I2 q h Hq). right. assumption.
Qed.

Lemma rgood_snoc : forall clock seen l id toks, rgood clock seen l -> clock < id -> toks_fresh seen toks = true ->
  rgood id (rev toks ++ seen) (l ++ [RC id toks]).
Proof.
  intros clock seen l id toks [H1 [H2 [H3 H4]]] Hid Hf. repeat split.
  - rewrite rids_app. apply incr_app. split; [assumption|]. split; [apply incr_single|].
    intros x y Hx Hy. unfold rids in Hx. apply in_map_iff in Hx. destruct Hx as [c [<- Hc]]. specialize (H2 c Hc).
    cbn in Hy. destruct Hy as [<-|[]]. lia.
  - intros c Hc. apply in_app_or in Hc. destruct Hc as [Hc|[<-|[]]]; [specialize (H2 c Hc); lia|cbn; lia].
  - intros k. rewrite rtoks_app, rseqs_app. destruct (toks_fresh_spec k toks seen Hf) as [F1 F2].
    unfold rtoks at 2. cbn [flat_map rc_toks]. rewrite app_nil_r. apply incr_app. split; [apply H3|]. split; [assumption|].
    intros x y Hx Hy. apply in_rseqs in Hx. apply in_rseqs in Hy. destruct (H4 k x Hx) as [h [Hh Hle]].
    specialize (F2 y h Hy Hh). lia.
  - intros k q Hq. rewrite rtoks_app in Hq. apply in_app_or in Hq. destruct Hq as [Hq|Hq].
    + destruct (H4 k q Hq) as [h [Hh Hle]]. exists h. split; [apply in_or_app; right; assumption|assumption].
    + unfold rtoks in Hq. cbn [flat_map rc_toks] in Hq. rewrite app_nil_r in Hq. exists q. split; [|lia].
      apply in_or_app. left. apply -> in_rev. assumption.
Qed.

(* ---------- one step ---------- *)

Lemma recovering_false : forall s, recovering s = false -> r_todo s = [].
Proof. intros s H. unfold recovering in H. destruct (r_todo s); [reflexivity|discriminate]. Qed.

Lemma rstep_good : forall g v s e s', rv_accept_waits v = true -> rstep g v s e = Some s' ->
  rgood (r_clock s) (r_seen s) (rchain s) -> rgood (r_clock s') (r_seen s') (rchain s').
Proof.
  intros g v s e s' Hv H G. destruct s as [todo queue fh w out sk dr clock seen].
  unfold rchain, rpending in *. cbn [r_todo r_queue r_fhand r_window r_out r_skipped r_dropped r_clock r_seen] in *.
  destruct e; cbn [rstep r_todo r_queue r_fhand r_window r_out r_skipped r_dropped r_clock r_seen] in H.
  - (* RRecover *)
    destruct todo as [|c rest]; [discriminate|]. destruct (Nat.ltb (length queue) (rg_qcap g)); inversion H; subst; clear H; cbn.
    + replace ((queue ++ [c]) ++ rest) with (queue ++ c :: rest) by (rewrite <- app_assoc; reflexivity). exact G.
    + apply (rgood_sublist _ _ _ _ (sublist_app _ _ _ _ _ (sublist_refl _ out) (sublist_app _ _ _ _ _ (sublist_refl _ w)
              (sublist_app _ _ _ _ _ (sublist_refl _ fh) (sublist_app _ _ _ _ _ (sublist_refl _ queue) (sublist_nil_l _ (c :: rest))))))).
      exact G.
  - (* RAccept *)
    rewrite Hv in H. cbn [negb orb] in H.
    destruct (negb (recovering _)) eqn:R; [|discriminate]. apply negb_true_iff in R. apply recovering_false in R. cbn in R. subst todo.
    destruct (Nat.ltb clock id) eqn:C; [|discriminate]. apply Nat.ltb_lt in C.
    destruct (toks_fresh seen toks) eqn:F; [|discriminate]. cbn [andb] in H.
    destruct (Nat.ltb (length queue) (rg_qcap g)); inversion H; subst; clear H; cbn.
    + replace (out ++ w ++ fh ++ (queue ++ [RC id toks]) ++ []) with ((out ++ w ++ fh ++ queue ++ []) ++ [RC id toks])
        by (rewrite !app_nil_r, <- !app_assoc; reflexivity).
      apply (rgood_snoc clock); assumption.
    + apply (rgood_mono clock id seen); [lia|intros t Ht; apply in_or_app; right; assumption|exact G].
  - (* RFeederTake *)
    destruct (negb (rv_feeder_waits v) || negb (recovering _)); [|discriminate].
    destruct fh; [|discriminate]. destruct queue as [|c rest]; [discriminate|]. inversion H; subst; clear H; cbn. exact G.
  - (* RFeederLoadFail *)
    destruct fh as [|c [|? ?]]; try discriminate. inversion H; subst; clear H; cbn.
    apply (rgood_sublist _ _ _ _ (sublist_app _ _ _ _ _ (sublist_refl _ out) (sublist_app _ _ _ _ _ (sublist_refl _ w)
              (sublist_app _ _ _ _ _ (sublist_nil_l _ [c]) (sublist_refl _ (queue ++ todo)))))).
    exact G.
  - (* RFeederPush *)
    destruct fh as [|c [|? ?]]; try discriminate. destruct (Nat.ltb (length w) (rg_wcap g)); [|discriminate].
    inversion H; subst; clear H; cbn. rewrite <- app_assoc. exact G.
  - (* RConsume *)
    destruct w as [|c rest]; [discriminate|]. inversion H; subst; clear H; cbn. rewrite <- app_assoc. exact G.
Qed.

Lemma rsteps_good : forall g v es s s', rv_accept_waits v = true -> rsteps g v s es = Some s' ->
  rgood (r_clock s) (r_seen s) (rchain s) -> rgood (r_clock s') (r_seen s') (rchain s').
Proof.
  intros g v. induction es as [|e es IH]; intros s s' Hv H G; cbn in H.
  - inversion H; subst. exact G.
  - destruct (rstep g v s e) as [s1|] eqn:E; [|discriminate]. apply (IH s1 s' Hv H). apply (rstep_good g v s e s1 Hv E G).
Qed.

Lemma rinit_chain : forall backlog clock seen, rchain (rinit backlog clock seen) = backlog.
Proof. reflexivity. Qed.

(* ---------- the theorems ---------- *)

(* For ALL backlogs, capacities, event lists (interleavings of the recovery loop, the worker, the feeder and the
   consumer) and both feeder variants: if Accept is possible only after the recovery loop, the chunks are transmitted
   in creation order, every stream in arrival order, what is pending is in creation order too, and everything pending
   is newer than everything transmitted (no older undelivered chunk is skipped). *)
Lemma recovery_order_lemma : forall g v backlog clock seen es s,
  rv_accept_waits v = true -> rgood clock seen backlog -> rsteps g v (rinit backlog clock seen) es = Some s ->
  incr (rids (r_out s)) /\ (forall k, incr (rseqs k (rtoks (r_out s)))) /\ incr (rids (rpending s)) /\
  (forall u q, In u (rids (r_out s)) -> In q (rids (rpending s)) -> u < q).
Proof.
  intros g v backlog clock seen es s Hv G H.
  pose proof (rsteps_good g v es _ s Hv H) as G'. rewrite rinit_chain in G'. specialize (G' G).
  destruct G' as [H1 [_ [H3 _]]]. unfold rchain in H1, H3. rewrite rids_app in H1. apply incr_app in H1.
  destruct H1 as [A [B C]]. repeat split; try assumption.
  intros k. specialize (H3 k). rewrite rtoks_app, rseqs_app in H3. apply incr_app in H3. tauto.
Qed.

(* A chunk created after the restart is never transmitted while a recovered chunk is still undelivered. *)
Lemma recovery_new_chunk_waits_lemma : forall g v backlog clock seen es s c b,
  rv_accept_waits v = true -> rgood clock seen backlog -> rsteps g v (rinit backlog clock seen) es = Some s ->
  In c (r_out s) -> clock < rc_id c -> In b (rpending s) -> clock < rc_id b.
Proof.
  intros g v backlog clock seen es s c b Hv G H Hc Hn Hb.
  destruct (recovery_order_lemma g v backlog clock seen es s Hv G H) as [_ [_ [_ X]]].
  specialize (X (rc_id c) (rc_id b) (in_map rc_id _ _ Hc) (in_map rc_id _ _ Hb)). lia.
Qed.

(* If the backlog fits the queue no chunk file is skipped by the recovery loop. *)
Lemma rstep_noskip : forall g v s e s', rv_accept_waits v = true -> rstep g v s e = Some s' ->
  (r_skipped s = [] /\ (r_todo s <> [] -> length (r_queue s) + length (r_todo s) <= rg_qcap g)) ->
  (r_skipped s' = [] /\ (r_todo s' <> [] -> length (r_queue s') + length (r_todo s') <= rg_qcap g)).
Proof.
  intros g v s e s' Hv H [J1 J2]. destruct s as [todo queue fh w out sk dr clock seen].
  cbn [r_todo r_queue r_fhand r_window r_out r_skipped r_dropped r_clock r_seen] in *. subst sk.
  destruct e; cbn [rstep r_todo r_queue r_fhand r_window r_out r_skipped r_dropped r_clock r_seen] in H.
  - destruct todo as [|c rest]; [discriminate|]. destruct (Nat.ltb (length queue) (rg_qcap g)) eqn:L; inversion H; subst; clear H; cbn.
    + split; [reflexivity|]. intros _. rewrite app_length. cbn. assert (X : c :: rest <> []) by discriminate.
      specialize (J2 X). cbn in J2. lia.
    + apply Nat.ltb_ge in L. assert (X : c :: rest <> []) by discriminate. specialize (J2 X). cbn in J2. lia.
  - rewrite Hv in H. cbn [negb orb] in H.
    destruct (negb (recovering _)) eqn:R; [|discriminate]. apply negb_true_iff in R. apply recovering_false in R. cbn in R. subst todo.
    destruct (Nat.ltb clock id); [|discriminate]. destruct (toks_fresh seen toks); [|discriminate]. cbn [andb] in H.
    destruct (Nat.ltb (length queue) (rg_qcap g)); inversion H; subst; clear H; cbn; (split; [reflexivity|intros X; contradiction]).
  - destruct (negb (rv_feeder_waits v) || negb (recovering _)); [|discriminate].
    destruct fh; [|discriminate]. destruct queue as [|c rest]; [discriminate|]. inversion H; subst; clear H; cbn.
    split; [reflexivity|]. intros X. specialize (J2 X). cbn in J2. lia.
  - destruct fh as [|c [|? ?]]; try discriminate. inversion H; subst; clear H; cbn. split; [reflexivity|exact J2].
  - destruct fh as [|c [|? ?]]; try discriminate. destruct (Nat.ltb (length w) (rg_wcap g)); [|discriminate].
    inversion H; subst; clear H; cbn. split; [reflexivity|exact J2].
  - destruct w as [|c rest]; [discriminate|]. inversion H; subst; clear H; cbn. split; [reflexivity|exact J2].
Qed.

Lemma recovery_complete_lemma : forall g v backlog clock seen es s,
  rv_accept_waits v = true -> length backlog <= rg_qcap g -> rsteps g v (rinit backlog clock seen) es = Some s ->
  r_skipped s = [].
Proof.
  intros g v backlog clock seen es s Hv Hl H.
  assert (X : forall es s0 s1, rsteps g v s0 es = Some s1 ->
              (r_skipped s0 = [] /\ (r_todo s0 <> [] -> length (r_queue s0) + length (r_todo s0) <= rg_qcap g)) ->
              (r_skipped s1 = [] /\ (r_todo s1 <> [] -> length (r_queue s1) + length (r_todo s1) <= rg_qcap g))).
  { induction es0 as [|e es0 IH]; intros s0 s1 H0 J; cbn in H0.
    - inversion H0; subst. exact J.
    - destruct (rstep g v s0 e) as [s2|] eqn:E; [|discriminate]. apply (IH s2 s1 H0). apply (rstep_noskip g v s0 e s2 Hv E J). }
  apply (X es _ s H). cbn. split; [reflexivity|intros _; lia].
Qed.

(* The recovery loop alone takes the start state to the state of the atomic restart of Model/System.v: the queue is
   the listing, nothing else has happened, and (only) now Accept is possible. *)
Lemma recovery_loop_run : forall g v todo queue clock seen,
  length queue + length todo <= rg_qcap g ->
  rsteps g v (RS todo queue [] [] [] [] [] clock seen) (rep (length todo) [RRecover])
  = Some (RS [] (queue ++ todo) [] [] [] [] [] clock seen).
Proof.
  intros g v. induction todo as [|c rest IH]; intros queue clock seen Hl.
  - cbn. rewrite app_nil_r. reflexivity.
  - cbn [length rep app rsteps rstep r_todo r_queue r_fhand r_window r_out r_skipped r_dropped r_clock r_seen].
    cbn [length] in Hl. assert (L : Nat.ltb (length queue) (rg_qcap g) = true) by (apply Nat.ltb_lt; lia). rewrite L.
    rewrite IH; [rewrite <- app_assoc; reflexivity|rewrite app_length; cbn; lia].
Qed.

Lemma recovery_sync_is_atomic_lemma : forall g v backlog clock seen,
  length backlog <= rg_qcap g ->
  rsteps g v (rinit backlog clock seen) (rep (length backlog) [RRecover]) = Some (RS [] backlog [] [] [] [] [] clock seen).
Proof. intros. unfold rinit. rewrite recovery_loop_run; [reflexivity|cbn; lia]. Qed.

(* With Accept enabled during the recovery loop (the seeded variant) the statement is false: two recovered chunks,
   the worker delivers a new chunk between the two iterations of the loop. *)
Definition seeded_backlog : list rchunk := [RC 1 [(0, 0)]; RC 2 [(0, 1)]].
Definition seeded_events : list revent :=
  [RRecover; RAccept 3 [(0, 2)]; RRecover;
   RFeederTake; RFeederPush; RConsume; RFeederTake; RFeederPush; RConsume; RFeederTake; RFeederPush; RConsume].

Lemma seeded_backlog_good : rgood 2 [(0, 1)] seeded_backlog.
Proof.
  unfold rgood, seeded_backlog. cbn. repeat split.
  - intros y [<-|[]]. lia.
  - intros ? [].
  - intros c [<-|[<-|[]]]; cbn; lia.
  - intros k. destruct k; cbn; [|exact I]. repeat split; [intros y [<-|[]]; lia|intros ? []].
  - intros k q [E|[E|[]]]; inversion E; subst; exists 1; split; cbn; auto.
Qed.

Lemma recovery_seeded_variant_refuted_lemma :
  exists g backlog clock seen es s,
    rgood clock seen backlog /\ length backlog <= rg_qcap g /\ rsteps g rv_seeded (rinit backlog clock seen) es = Some s /\
    rids (r_out s) = [1; 3; 2] /\ ~ incr (rids (r_out s)) /\ ~ incr (rseqs 0 (rtoks (r_out s))).
Proof.
  exists (RCFG 8 4), seeded_backlog, 2, [(0, 1)], seeded_events.
  eexists. split; [exact seeded_backlog_good|]. split; [cbn; lia|]. split; [vm_compute; reflexivity|].
  cbn. split; [reflexivity|]. split.
  - intros [_ [H _]]. specialize (H 2 (or_introl eq_refl)). lia.
  - intros [_ [H _]]. specialize (H 1 (or_introl eq_refl)). lia.
Qed.

(* the same events are not even a run of the code as it is: Accept is not possible between two iterations *)
Lemma seeded_events_not_a_real_run : rsteps (RCFG 8 4) rv_real (rinit seeded_backlog 2 [(0, 1)]) seeded_events = None.
Proof. vm_compute. reflexivity. Qed.

(* non-vacuity: a run of the code as it is with a backlog of two chunks, two new chunks (the second accepted while the
   consumer is already transmitting) - four chunks transmitted in creation order *)
Lemma recovery_example_lemma :
  exists es s, rgood 2 [(0, 1)] seeded_backlog /\ rsteps (RCFG 8 1) rv_real (rinit seeded_backlog 2 [(0, 1)]) es = Some s /\
    rids (r_out s) = [1; 2; 3; 5] /\ rseqs 0 (rtoks (r_out s)) = [0; 1; 2; 3; 4] /\ rpending s = [].
Proof.
  exists [RRecover; RRecover; RAccept 3 [(0, 2)]; RFeederTake; RFeederPush; RConsume; RFeederTake; RFeederPush;
          RAccept 5 [(0, 3); (0, 4)]; RConsume; RFeederTake; RFeederPush; RConsume; RFeederTake; RFeederPush; RConsume].
  eexists. split; [exact seeded_backlog_good|]. split; [vm_compute; reflexivity|]. cbn. repeat split.
Qed.

(* ---------- the replay schedules are the model's own runs; what they print for the code as it is ---------- *)

Lemma incr_ranges_consecutive : forall n a, ranges_acc a a (seq_from (S a) n) = [(a, a + n)].
Proof.
  assert (X : forall n lo hi, ranges_acc lo hi (seq_from (S hi) n) = [(lo, hi + n)]).
  { induction n as [|n IH]; intros lo hi; cbn [seq_from ranges_acc].
    - rewrite Nat.add_0_r. reflexivity.
    - rewrite Nat.eqb_refl. rewrite IH. f_equal. f_equal. lia. }
  intros n a. apply X.
Qed.
