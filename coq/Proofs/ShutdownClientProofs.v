(* C18: the client machine of Model/Metrics.v after the stop signal - a variant that strictly decreases with every
   step, and progress: every maximal run after the stop reaches CStopped, within a number of steps that is explicit
   in the chunks held and the chunks left in the closed output channel. *)
From SV Require Import Model.Common Model.Metrics Model.Shutdown Proofs.CommonFacts Proofs.MetricsProofs.
From Coq Require Import Lia ZifyBool ZifyN ZifyNat Permutation.
Ltac Zify.zify_post_hook ::= Z.div_mod_to_equations.
Local Open Scope Z_scope.

Lemma dedup_adj_len : forall l, zlen (dedup_adj l) <= zlen l.
Proof.
  induction l as [|c l IH]; [apply Z.le_refl|].
  cbn [dedup_adj]. destruct l as [|x l']; [apply Z.le_refl|].
  destruct (ch_id c =? ch_id x); rewrite ?zlen_cons in *; lia.
Qed.

Lemma new_leftover_channel_len : forall l, zlen (new_leftover_channel l) <= zlen l.
Proof.
  intros l. unfold new_leftover_channel.
  pose proof (dedup_adj_len (sort_chunks l)).
  assert (zlen (sort_chunks l) = zlen l).
  { unfold zlen. rewrite (Permutation_length (sort_chunks_perm l)). reflexivity. }
  lia.
Qed.

Lemma variant_nonneg : forall s w, 0 <= w -> 0 <= variant s w.
Proof.
  intros s w Hw. unfold variant, inner, load, c_holdings, acker_work, phase_work.
  pose proof (zlen_nonneg _ (c_left s)). pose proof (zlen_nonneg _ (c_achan s)). pose proof (zlen_nonneg _ (c_pmap s)).
  assert (0 <= len_opt (c_last s)) by (destruct (c_last s); simpl; lia).
  assert (0 <= stage (c_phase s)) by (destruct (c_phase s) as [| | | | | |[|[|n]]| | |]; simpl; lia).
  destruct (c_phase s), (c_acker s); nia.
Qed.

(* every step the client can take after the stop strictly decreases the variant *)
Lemma variant_decreases : forall cfg s w e s',
  c_inv s -> 0 <= w -> post_stop_ok w e = true -> c_step cfg s e = Some s' ->
  variant s' (budget_after w e) < variant s w /\ 0 <= budget_after w e.
Proof.
  intros cfg s w e s' Hi Hw Hok Hs.
  destruct Hi as [J1 J2 J3 J4 J5 J6 J7 J8 J9 J10 J11 J12 J13 J14].
  unfold variant, inner, load, c_holdings, acker_work in *.
  destruct s as [m ph ak left last achan pmap unacked stop taken completed failed utot cbc cbl dups bug].
  cbn [c_m c_phase c_acker c_left c_last c_achan c_pmap c_unacked c_stop c_taken c_completed c_failed c_unacked_total c_cb_consumed c_cb_left c_dups c_bug] in *.
  pose proof (zlen_nonneg _ left). pose proof (zlen_nonneg _ achan). pose proof (zlen_nonneg _ pmap). pose proof (zlen_nonneg _ unacked).
  destruct e; cbn [post_stop_ok budget_after] in *; try discriminate;
    unfold c_step in Hs; unfold Metrics.collect, set_phase, set_cm, set_acker in Hs;
    cbn [c_m c_phase c_acker c_left c_last c_achan c_pmap c_unacked c_stop c_taken c_completed c_failed c_unacked_total c_cb_consumed c_cb_left c_dups c_bug] in Hs;
    destruct ph as [| | | |r|r|[|[|n]]| | |]; try discriminate; cbn [in_session idle_stage next_phase] in *; b_crunch; try discriminate.
  all: try (match goal with H : take_id _ _ = Some _ |- _ => apply take_id_spec in H; destruct H as (? & _ & _) end).
  all: try (destruct (J12 eq_refl) as (Ha & Hp & Hl); subst).
  all: try (specialize (J11 eq_refl); subst).
  all: try (specialize (J10 eq_refl eq_refl); subst).
  all: cbn [c_m c_phase c_acker c_left c_last c_achan c_pmap c_unacked c_stop c_taken c_completed c_failed c_unacked_total c_cb_consumed c_cb_left c_dups c_bug
            stage phase_work len_opt opt_list next_phase] in *;
       rewrite ?zlen_app, ?zlen_cons, ?zlen_nil, ?zlen_opt_list in *; cbn [len_opt] in *.
  all: try (match goal with |- context [new_leftover_channel ?l] =>
              pose proof (new_leftover_channel_len l); pose proof (zlen_nonneg _ (new_leftover_channel l));
              rewrite ?zlen_app, ?zlen_cons, ?zlen_nil, ?zlen_opt_list in *; cbn [len_opt] in *
            end).
  all: try (destruct last; cbn [len_opt] in *).
  all: try (destruct ak).
  all: split; lia.
Qed.

Lemma run_stop_bounded : forall cfg evs s w s' w',
  c_inv s -> 0 <= w -> c_run_stop cfg s w evs = Some (s', w') ->
  Z.of_nat (length evs) + variant s' w' <= variant s w /\ 0 <= w' /\ c_inv s'.
Proof.
  intros cfg. induction evs as [|e evs IH]; intros s w s' w' Hi Hw Hr; simpl in Hr.
  - inversion Hr; subst. simpl. split; [lia|]. split; assumption.
  - destruct (post_stop_ok w e) eqn:Hok; [|discriminate].
    destruct (c_step cfg s e) as [s1|] eqn:Hs; [|discriminate].
    destruct (variant_decreases cfg s w e s1 Hi Hw Hok Hs) as [Hd Hw1].
    destruct (IH s1 (budget_after w e) s' w' (c_step_inv _ _ _ _ Hi Hs) Hw1 Hr) as (Hb & Hw' & Hi').
    split; [|split; assumption]. cbn [length]. lia.
Qed.

(* stop_terminates for the client machine: a run after the stop has at most [variant] steps *)
Lemma client_stop_steps_bounded_lemma : forall cfg evs s w s' w',
  c_inv s -> 0 <= w -> c_run_stop cfg s w evs = Some (s', w') ->
  Z.of_nat (length evs) <= variant s w.
Proof.
  intros cfg evs s w s' w' Hi Hw Hr.
  destruct (run_stop_bounded cfg evs s w s' w' Hi Hw Hr) as (Hb & Hw' & _).
  pose proof (variant_nonneg s' w' Hw'). lia.
Qed.

(* ... and it cannot get stuck before CStopped: in every state after the stop some step is enabled whose wake-up
   is the stop signal itself, a closed channel, or a connection operation returning (contract) *)
Lemma client_stop_progress_lemma : forall cfg s w,
  c_stop s = true -> c_phase s <> CStopped ->
  exists e s', post_stop_ok w e = true /\ c_step cfg s e = Some s'.
Proof.
  intros cfg s w Hst Hph.
  destruct s as [m ph ak left last achan pmap unacked stop taken completed failed utot cbc cbl dups bug].
  cbn [c_stop c_phase] in *. subst stop.
  destruct ph as [| | | |r|r|n| | |].
  - exists COpen. eexists. split; reflexivity.
  - exists COpenStop. eexists. split; reflexivity.
  - exists CRecoveryStop. eexists. split; reflexivity.
  - exists CInputClosed. eexists. split; reflexivity.
  - exists CSendFail. eexists. split; reflexivity.
  - exists CQueueStop. eexists. split; reflexivity.
  - destruct ak as [|cur|].
    + exists AckerEnd. eexists. split; reflexivity.
    + exists AckErr. eexists. split; reflexivity.
    + exists CCollectDone. eexists. split; reflexivity.
  - exists CRetryStop. eexists. split; reflexivity.
  - destruct left as [|c l].
    + exists CFinish. eexists. split; reflexivity.
    + exists CFinalPop. eexists. split; reflexivity.
  - contradiction.
Qed.

Lemma client_stop_steps_bounded_reachable_lemma :
  forall cfg evs0 s, c_run cfg c_init evs0 = Some s ->
  forall w evs s' w', 0 <= w -> c_run_stop cfg s w evs = Some (s', w') ->
  Z.of_nat (length evs) <= variant s w.
Proof.
  intros cfg evs0 s Hr w evs s' w' Hw Hs.
  exact (client_stop_steps_bounded_lemma cfg evs s w s' w' (c_run_inv cfg evs0 _ _ c_init_inv Hr) Hw Hs).
Qed.
