(* C02 — the Datadog connection's status-code decision (Model/Datadog.v) and its tie to the client LTS. *)
From SV Require Import Model.Common Model.Client Model.ClientAccept Model.Datadog Spec.ClientSpec
     Proofs.ClientTheorems Proofs.ClientAcceptProofs Proofs.ClientCorollaries.
From Coq Require Import Lia ZifyBool.

Definition is_2xx (st : Z) : Prop := (200 <= st < 300)%Z.

(* the decision function, for EVERY integer status *)
Lemma dd_send_ok_iff_2xx : forall r : dd_resp,
  dd_send_chunk r = ROk <-> exists st, r = DDResp st /\ is_2xx st.
Proof.
  intros r. unfold is_2xx. destruct r as [|st]; cbn [dd_send_chunk].
  - split; [discriminate|]. intros [st [H _]]. discriminate H.
  - destruct (st >=? 300)%Z eqn:E3.
    + split; [discriminate|]. intros [st' [H Hr]]. inversion H; subst st'. lia.
    + destruct (st <? 200)%Z eqn:E2.
      * split; [discriminate|]. intros [st' [H Hr]]. inversion H; subst st'. lia.
      * split; [intros _; exists st; split; [reflexivity|lia]|reflexivity].
Qed.

(* ---------- a Datadog history of a run ---------- *)

(* the SendChunk calls that returned, in order *)
Fixpoint sendrets (tr : list event) : list (chunk * res) :=
  match tr with
  | [] => []
  | ESendRet _ c r :: t => (c, r) :: sendrets t
  | _ :: t => sendrets t
  end.

Lemma sendrets_app : forall a b, sendrets (a ++ b) = sendrets a ++ sendrets b.
Proof.
  induction a as [|e a IH]; intros b; [reflexivity|].
  destruct e; cbn [sendrets app]; rewrite ?IH; reflexivity.
Qed.

Lemma sendrets_in : forall tr k c r, In (ESendRet k c r) tr -> In (c, r) (sendrets tr).
Proof.
  induction tr as [|e tr IH]; intros k c r H; [destruct H|].
  destruct H as [H|H].
  - subst e. left. reflexivity.
  - destruct e; cbn [sendrets]; try (right); eapply IH; exact H.
Qed.

(* the run is the run of a client whose connection is the Datadog connection answering by [xs]: the i-th SendChunk
   that returned carried the chunk of the i-th exchange and returned what [send] makes of the i-th response *)
Definition dd_history (send : dd_resp -> res) (xs : list dd_exchange) (tr : list event) : Prop :=
  sendrets tr = map (fun x => (fst x, send (snd x))) xs.

Lemma firstn_map {A B} (f : A -> B) : forall n l, firstn n (map f l) = map f (firstn n l).
Proof. induction n as [|n IH]; intros [|x l]; cbn; [reflexivity..|]. rewrite IH. reflexivity. Qed.

Lemma firstn_app_exact {A} : forall (a b : list A), firstn (length a) (a ++ b) = a.
Proof. induction a as [|x a IH]; intros b; cbn; [reflexivity|]. rewrite IH. reflexivity. Qed.

(* confirm only after a 2xx answer to a POST carrying that very chunk - tied to the LTS theorem confirm-after-ack
   with ack := the HTTP response *)
Lemma dd_confirm_only_2xx_lemma :
  forall (P : params) (xs : list dd_exchange) (pre : list event) (c : chunk) (post : list event) (s : state),
  run P init (pre ++ EConsumed c :: post) = Some s ->
  dd_history dd_send_chunk xs (pre ++ EConsumed c :: post) ->
  exists st, In (c, DDResp st) (firstn (length (sendrets pre)) xs) /\ is_2xx st.
Proof.
  intros P xs pre c post s Hr Hh.
  destruct (confirm_after_ack_lemma P pre c post s Hr) as [k [Hs _]].
  apply sendrets_in in Hs.
  unfold dd_history in Hh. rewrite sendrets_app in Hh.
  assert (Hp : sendrets pre = map (fun x => (fst x, dd_send_chunk (snd x))) (firstn (length (sendrets pre)) xs)).
  { rewrite <- firstn_map, <- Hh. symmetry. apply firstn_app_exact. }
  rewrite Hp in Hs at 1. apply in_map_iff in Hs. destruct Hs as [[c' r] [He Hi]].
  cbn [fst snd] in He. inversion He as [[Hc Hok]]. subst c'.
  apply dd_send_ok_iff_2xx in Hok. destruct Hok as [st [Hr' H2]]. subst r.
  exists st. split; assumption.
Qed.

(* ---------- the seeded variants really differ ---------- *)

Definition dd_bad_run : list event :=
  [EOffer 1%N; EMainSpawn; EConnStart 1; EConnRet 1 true; EMainConn; EResendDone;
   ETake 1%N; ESendRet 1 1%N ROk; EEnqueue; EAckerTake 1%N; EAckRet 1 dd_read_ack; EConsumed 1%N].

Lemma dd_switch_variant_lemma :
  exists (xs : list dd_exchange) (tr : list event) (s : state) (c : chunk),
    run (mkParams 2 false true) init tr = Some s /\ dd_history dd_send_chunk_switch xs tr /\
    In (EConsumed c) tr /\ forall st, In (c, DDResp st) xs -> ~ is_2xx st.
Proof.
  exists [(1%N, DDResp 307)], dd_bad_run.
  destruct (run (mkParams 2 false true) init dd_bad_run) as [s|] eqn:E; [|vm_compute in E; discriminate E].
  exists s, 1%N. split; [reflexivity|]. split; [reflexivity|].
  split; [unfold dd_bad_run; cbn; intuition|].
  intros st [H|[]]. inversion H; subst st. unfold is_2xx. lia.
Qed.

Lemma dd_ge300_variant_lemma :
  exists (xs : list dd_exchange) (tr : list event) (s : state) (c : chunk),
    run (mkParams 2 false true) init tr = Some s /\ dd_history dd_send_chunk_ge300 xs tr /\
    In (EConsumed c) tr /\ forall st, In (c, DDResp st) xs -> ~ is_2xx st.
Proof.
  exists [(1%N, DDResp 101)], dd_bad_run.
  destruct (run (mkParams 2 false true) init dd_bad_run) as [s|] eqn:E; [|vm_compute in E; discriminate E].
  exists s, 1%N. split; [reflexivity|]. split; [reflexivity|].
  split; [unfold dd_bad_run; cbn; intuition|].
  intros st [H|[]]. inversion H; subst st. unfold is_2xx. lia.
Qed.

(* ---------- the correspondence case (kind 6) ---------- *)

Lemma dd_apply_sendret : forall send os xs os' k c r,
  dd_apply send xs os = Some os' -> In (ESendRet k c r) os' ->
  exists x, In x xs /\ fst x = c /\ r = send (snd x).
Proof.
  induction os as [|e os IH]; intros xs os' k c r Ha Hi.
  - cbn in Ha. destruct xs; inversion Ha; subst os'. destruct Hi.
  - destruct e;
      try (cbn [dd_apply] in Ha; destruct (dd_apply send xs os) as [t|] eqn:Et; [|discriminate Ha];
           inversion Ha; subst os'; destruct Hi as [Hi|Hi]; [discriminate Hi|]; eapply IH; eassumption).
    cbn [dd_apply] in Ha. destruct xs as [|[c' r'] xs']; [discriminate Ha|].
    destruct (c0 =? c')%N eqn:Ec; [|discriminate Ha]. apply N.eqb_eq in Ec. subst c'.
    destruct (dd_apply send xs' os) as [t|] eqn:Et; [|discriminate Ha].
    inversion Ha; subst os'. destruct Hi as [Hi|Hi].
    + inversion Hi; subst. exists (c, r'). split; [left; reflexivity|]. split; reflexivity.
    + destruct (IH _ _ _ _ _ Et Hi) as [x [Hx Hrest]]. exists x. split; [right; exact Hx|exact Hrest].
Qed.

(* an accepted kind-6 case: the trace with the model's send results is a trace of the LTS, and every confirmation
   in it comes after a POST of that chunk answered 2xx *)
Lemma dd_accepted_case_lemma :
  forall (P : params) (xs : list dd_exchange) (os os' : list event) (out : bytes),
  dd_apply dd_send_chunk xs os = Some os' ->
  Forall (fun e => is_obs e = true) os' ->
  accept_out P false os' = str_accept ++ colon :: out ->
  forall o1 c o2, os' = o1 ++ EConsumed c :: o2 -> exists st, In (c, DDResp st) xs /\ is_2xx st.
Proof.
  intros P xs os os' out Ha Hobs Hacc o1 c o2 Heq.
  destruct (accepted_trace_lemma P os' out Hobs Hacc) as [Hsafe _].
  destruct (Hsafe o1 c o2 Heq) as [k [a [Hs _]]].
  assert (Hin : In (ESendRet k c ROk) os') by (rewrite Heq; apply in_or_app; left; exact Hs).
  destruct (dd_apply_sendret _ _ _ _ _ _ _ Ha Hin) as [[c' r] [Hx [Hc Hr]]].
  cbn [fst snd] in Hc, Hr. subst c'. symmetry in Hr. apply dd_send_ok_iff_2xx in Hr.
  destruct Hr as [st [Hr H2]]. subst r. exists st. split; assumption.
Qed.

(* non-vacuity: a refused chunk (307 with the fixed decision = error) is retransmitted on the next connection and
   confirmed after the 202 *)
Definition dd_good_run : list event :=
  [EOffer 1%N; EMainSpawn; EConnStart 1; EConnRet 1 true; EMainConn; EResendDone;
   ETake 1%N; ESendRet 1 1%N RErr].

Lemma dd_example_lemma :
  exists s, run (mkParams 2 false true) init dd_good_run = Some s /\
            dd_history dd_send_chunk [(1%N, DDResp 307)] dd_good_run /\
            dd_send_chunk (DDResp 202) = ROk /\ dd_send_chunk (DDResp 307) = RErr /\
            dd_send_chunk (DDResp 101) = RErr /\ dd_send_chunk DDNoResp = RErr.
Proof.
  destruct (run (mkParams 2 false true) init dd_good_run) as [s|] eqn:E; [|vm_compute in E; discriminate E].
  exists s. repeat split; reflexivity.
Qed.
