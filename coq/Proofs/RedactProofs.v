(* Proofs for C14: the model of redactemail.go (Model/Redact.v) against Spec/RedactSpec.v. *)
From SV Require Import Model.Common Model.Redact Spec.RedactSpec Proofs.CommonFacts.
From Coq Require Import Lia ZifyBool ZifyN ZifyNat.
Ltac Zify.zify_post_hook ::= Z.div_mod_to_equations.
Local Open Scope nat_scope.

(* ------------------------------------------------------------------------------------------ *)
(* character classes *)

Lemma is_word_spec : forall c, is_word c = true <-> word_ch c.
Proof. intros c. unfold is_word, word_ch, digit_ch. lia. Qed.

Lemma is_addr_spec : forall c, is_addr c = true <-> addr_ch c.
Proof.
  intros c. unfold is_addr. rewrite !orb_true_iff, is_word_spec, !N.eqb_eq. unfold addr_ch. tauto.
Qed.

Lemma is_addr_false : forall c, is_addr c = false <-> ~ addr_ch c.
Proof. intros c. rewrite <- is_addr_spec. destruct (is_addr c); split; intros; congruence. Qed.

Lemma is_word_false : forall c, is_word c = false <-> ~ word_ch c.
Proof. intros c. rewrite <- is_word_spec. destruct (is_word c); split; intros; congruence. Qed.

Lemma is_digit_ch : forall c, is_digit c = true <-> digit_ch c.
Proof. intros c. unfold is_digit, digit_ch. lia. Qed.

Lemma word_is_addr : forall c, word_ch c -> addr_ch c.
Proof. intros c H. left. exact H. Qed.

Lemma at_not_addr : ~ addr_ch 64%N.
Proof. unfold addr_ch, word_ch, digit_ch. lia. Qed.

Lemma slash_not_addr : ~ addr_ch 47%N.
Proof. unfold addr_ch, word_ch, digit_ch. lia. Qed.

Lemma word_not_dot : forall c, word_ch c -> c <> 46%N.
Proof. unfold word_ch, digit_ch. lia. Qed.

Lemma addr_not_at : forall c, addr_ch c -> c <> 64%N.
Proof. intros c H E. subst. exact (at_not_addr H). Qed.

Lemma addr_not_slash : forall c, addr_ch c -> c <> 47%N.
Proof. intros c H E. subst. exact (slash_not_addr H). Qed.

(* ------------------------------------------------------------------------------------------ *)
(* lists: segments *)

Definition seg (t : bytes) (i j : nat) : bytes := firstn (j - i) (skipn i t).

Lemma sub_ok : forall t a b, a <= b -> b <= length t -> sub t a b = Ok (seg t a b).
Proof.
  intros t a b H1 H2. unfold sub, slice.
  replace (Nat.leb a b && Nat.leb b (length t))%bool with true by lia. reflexivity.
Qed.

Lemma sub_inv : forall t a b r, sub t a b = Ok r -> r = seg t a b /\ a <= b <= length t.
Proof.
  intros t a b r. unfold sub, slice.
  destruct (Nat.leb a b && Nat.leb b (length t))%bool eqn:E; intro H; inversion H; subst.
  split; [reflexivity | lia].
Qed.

Lemma seg_to_end : forall t a, seg t a (length t) = skipn a t.
Proof.
  intros t a. unfold seg. apply firstn_all2. rewrite skipn_length. lia.
Qed.

Lemma nth_error_skipn' : forall (t : bytes) n k, nth_error (skipn n t) k = nth_error t (n + k).
Proof.
  induction t as [|x t IH]; intros n k.
  - rewrite skipn_nil. destruct k, (n + 0); destruct n; reflexivity.
  - destruct n; simpl; [reflexivity | apply IH].
Qed.

Lemma split_at : forall (t : bytes) a c, nth_error t a = Some c -> t = firstn a t ++ c :: skipn (S a) t.
Proof.
  induction t as [|x t IH]; intros a c H.
  - destruct a; discriminate.
  - destruct a; simpl in *.
    + inversion H. reflexivity.
    + f_equal. apply IH. exact H.
Qed.

Lemma nth_error_mid : forall (x : bytes) c y, nth_error (x ++ c :: y) (length x) = Some c.
Proof. intros. rewrite nth_error_app2 by lia. rewrite Nat.sub_diag. reflexivity. Qed.

Lemma skipn_app_exact : forall (x y : bytes), skipn (length x) (x ++ y) = y.
Proof. induction x; simpl; auto. Qed.

Lemma firstn_app_exact : forall (x y : bytes), firstn (length x) (x ++ y) = x.
Proof. induction x; simpl; intros; [reflexivity | f_equal; auto]. Qed.

Lemma seg_mid : forall (x y z : bytes), seg (x ++ y ++ z) (length x) (length x + length y) = y.
Proof.
  intros. unfold seg. rewrite skipn_app_exact. replace (length x + length y - length x) with (length y) by lia.
  apply firstn_app_exact.
Qed.

Lemma seg_prefix : forall (x y : bytes), seg (x ++ y) 0 (length x) = x.
Proof. intros. unfold seg. simpl. rewrite Nat.sub_0_r. apply firstn_app_exact. Qed.

(* P holds for the characters at positions [lo, hi) *)
Definition all_at (t : bytes) (lo hi : nat) (P : N -> Prop) : Prop :=
  forall k, lo <= k < hi -> exists c, nth_error t k = Some c /\ P c.

Lemma all_at_mid : forall (x y z : bytes) P, Forall P y -> all_at (x ++ y ++ z) (length x) (length x + length y) P.
Proof.
  intros x y z P HF k Hk.
  rewrite nth_error_app2 by lia. rewrite nth_error_app1 by lia.
  destruct (nth_error y (k - length x)) eqn:E.
  - exists n. split; [reflexivity|]. rewrite Forall_forall in HF. apply HF. eapply nth_error_In; eauto.
  - apply nth_error_None in E. lia.
Qed.

Lemma last_decomp : forall (l : bytes), l = [] \/ exists p c, l = p ++ [c].
Proof. intros l. destruct l as [|c p _] using rev_ind; [left; reflexivity | right; eauto]. Qed.

Lemma skipn_is : forall (t x y : bytes) n, t = x ++ y -> n = length x -> skipn n t = y.
Proof. intros; subst. apply skipn_app_exact. Qed.

Lemma nth_is : forall (t x : bytes) c y n, t = x ++ c :: y -> n = length x -> nth_error t n = Some c.
Proof. intros; subst. apply nth_error_mid. Qed.

Lemma seg_is : forall (t x y z : bytes) i j, t = x ++ y ++ z -> i = length x -> j = length x + length y -> seg t i j = y.
Proof. intros; subst. apply seg_mid. Qed.

Ltac app_norm := repeat (first [rewrite <- app_assoc | progress simpl]); try reflexivity.
Ltac len_norm := simpl; repeat (rewrite app_length; simpl); try lia.

(* ------------------------------------------------------------------------------------------ *)
(* strings.IndexByte *)

Lemma index_byte_some : forall s c k, index_byte s c = Some k ->
  nth_error s k = Some c /\ forall j, j < k -> nth_error s j <> Some c.
Proof.
  induction s as [|x s IH]; simpl; intros c k H; [discriminate|].
  destruct (x =? c)%N eqn:E.
  - inversion H; subst. apply N.eqb_eq in E. subst. split; [reflexivity | intros; lia].
  - destruct (index_byte s c) as [n|] eqn:E2; [|discriminate]. simpl in H. inversion H; subst.
    destruct (IH c n E2) as [H1 H2]. split; [exact H1|].
    intros [|j] Hj; simpl.
    + intro X. inversion X; subst. rewrite N.eqb_refl in E. discriminate.
    + apply H2. lia.
Qed.

Lemma index_byte_none : forall s c, index_byte s c = None -> forall j, nth_error s j <> Some c.
Proof.
  induction s as [|x s IH]; simpl; intros c H j.
  - destruct j; discriminate.
  - destruct (x =? c)%N eqn:E; [discriminate|].
    destruct (index_byte s c) eqn:E2; [discriminate|].
    destruct j; simpl.
    + intro X. inversion X; subst. rewrite N.eqb_refl in E. discriminate.
    + apply IH. exact E2.
Qed.

(* ------------------------------------------------------------------------------------------ *)
(* the guard: '@' with a letter or digit on both sides *)

Definition cand (t : bytes) (a : nat) : Prop :=
  0 < a /\ (exists p, nth_error t (a - 1) = Some p /\ word_ch p) /\ (exists n, nth_error t (a + 1) = Some n /\ word_ch n).

Lemma get_some : forall t i c, nth_error t i = Some c -> get t i = Ok c.
Proof. intros t i c H. unfold get. rewrite H. reflexivity. Qed.

Lemma nth_error_lt : forall (t : bytes) i, i < length t -> exists c, nth_error t i = Some c.
Proof.
  intros t i H. destruct (nth_error t i) eqn:E; [eauto|]. apply nth_error_None in E. lia.
Qed.

Lemma at_guard_spec : forall t a, S a < length t -> exists b, at_guard t a = Ok b /\ (b = true <-> cand t a).
Proof.
  intros t a Hlen. unfold at_guard, cand.
  destruct (0 <? a) eqn:E0.
  - destruct (nth_error_lt t (a - 1)) as [p Hp]; [lia|].
    destruct (nth_error_lt t (a + 1)) as [n Hn]; [lia|].
    rewrite (get_some _ _ _ Hp). simpl.
    destruct (is_word p) eqn:Ep.
    + rewrite (get_some _ _ _ Hn). simpl. exists (is_word n). split; [reflexivity|].
      rewrite is_word_spec. apply is_word_spec in Ep. split.
      * intro Hw. split; [lia|]. split; eauto.
      * intros [_ [_ [n' [Hn' Hw]]]]. congruence.
    + exists false. split; [reflexivity|]. split; [discriminate|].
      intros [_ [[p' [Hp' Hw]] _]]. apply is_word_false in Ep. rewrite Hp in Hp'. inversion Hp'; subst. contradiction.
  - exists false. split; [reflexivity|]. split; [discriminate|]. intros [H _]. lia.
Qed.

(* ------------------------------------------------------------------------------------------ *)
(* redactEmailCheckNumber *)

Lemma two_ends : forall (d : bytes), 2 <= length d -> exists f m l, d = f :: m ++ [l].
Proof.
  intros d H. destruct d as [|f d]; [simpl in H; lia|].
  destruct (last_decomp d) as [E|[m [l E]]]; subst; [simpl in H; lia|]. eauto.
Qed.

Lemma numeric_ends : forall f m l,
  numeric (f :: m ++ [l]) <-> digit_ch f /\ digit_ch l /\ Forall (fun c => digit_ch c \/ c = 46%N) m.
Proof.
  intros f m l. unfold numeric. split.
  - intros [_ [HF [[c [r [E1 Hc]]] [r' [c' [E2 Hc']]]]]].
    inversion E1; subst c r.
    change (f :: m ++ [l]) with ((f :: m) ++ [l]) in E2. apply app_inj_tail in E2. destruct E2 as [_ E2]. subst c'.
    split; [exact Hc|]. split; [exact Hc'|].
    inversion HF; subst. apply Forall_app in H2. tauto.
  - intros [Hf [Hl Hm]]. split; [len_norm|]. split.
    + constructor; [left; exact Hf|]. apply Forall_app. split; [exact Hm|]. constructor; [left; exact Hl | constructor].
    + split; [exists f, (m ++ [l]); auto | exists (f :: m), l; auto].
Qed.

Lemma check_number_ends : forall f m l,
  check_number (f :: m ++ [l]) =
  Ok (is_digit f && (is_digit l && forallb (fun c => is_digit c || (c =? ch_dot)%N) m))%bool.
Proof.
  intros f m l. unfold check_number.
  remember (f :: m ++ [l]) as d eqn:Ed.
  assert (Hlen : length d = S (S (length m))) by (subst d; len_norm).
  assert (H0 : get d 0 = Ok f) by (subst d; reflexivity).
  assert (Hl : get d (length d - 1) = Ok l).
  { apply get_some. apply (nth_is _ (f :: m) l []); [subst d; reflexivity | simpl; lia]. }
  assert (Hs : sub d 1 (length d - 1) = Ok m).
  { rewrite sub_ok by lia. f_equal. apply (seg_is _ [f] m [l]); [subst d; reflexivity | reflexivity | simpl; lia]. }
  rewrite H0, Hl, Hs. replace (length d <? 2) with false by lia.
  unfold rbind. destruct (is_digit f), (is_digit l); reflexivity.
Qed.

Lemma check_number_spec : forall d, exists b, check_number d = Ok b /\ (b = true <-> numeric d).
Proof.
  intros d. destruct (length d <? 2) eqn:El.
  - exists false. unfold check_number. rewrite El. split; [reflexivity|]. split; [discriminate|]. intros [H _]. lia.
  - destruct (two_ends d) as [f [m [l E]]]; [lia|]. subst d.
    rewrite check_number_ends. eexists. split; [reflexivity|].
    rewrite numeric_ends, !andb_true_iff, !is_digit_ch, forallb_forall, Forall_forall.
    assert (Hx : forall x, (is_digit x || (x =? ch_dot)%N)%bool = true <-> digit_ch x \/ x = 46%N).
    { intro x. rewrite orb_true_iff, is_digit_ch, N.eqb_eq. reflexivity. }
    split.
    + intros [Hf [Hl H]]. split; [exact Hf|]. split; [exact Hl|]. intros x Hin. apply Hx. auto.
    + intros [Hf [Hl H]]. split; [exact Hf|]. split; [exact Hl|]. intros x Hin. apply Hx. auto.
Qed.

(* ------------------------------------------------------------------------------------------ *)
(* the two forward scans of redactFindEmailEnd *)

Definition label_ch (c : N) : Prop := addr_ch c /\ c <> 46%N.

Lemma dot_scan_at : forall l x i, Forall label_ch l -> dot_scan (l ++ 46%N :: x) i = DotAt (i + length l).
Proof.
  induction l as [|c l IH]; intros x i HF; simpl.
  - replace (is_addr 46) with true by reflexivity. simpl. f_equal. lia.
  - inversion HF as [|? ? [Ha Hd] HF']; subst. apply is_addr_spec in Ha. rewrite Ha. simpl.
    replace (c =? ch_dot)%N with false by (unfold ch_dot; lia).
    rewrite IH by exact HF'. f_equal. lia.
Qed.

Lemma dot_scan_none : forall l i, Forall label_ch l -> dot_scan l i = DotNone.
Proof.
  induction l as [|c l IH]; intros i HF; simpl; [reflexivity|].
  inversion HF as [|? ? [Ha Hd] HF']; subst. apply is_addr_spec in Ha. rewrite Ha. simpl.
  replace (c =? ch_dot)%N with false by (unfold ch_dot; lia). apply IH. exact HF'.
Qed.

Lemma dot_scan_inv : forall rest i,
  match dot_scan rest i with
  | DotNone => Forall label_ch rest
  | DotAt d => exists l x, rest = l ++ 46%N :: x /\ Forall label_ch l /\ d = i + length l
  | DotNotAddr => True
  end.
Proof.
  induction rest as [|c rest IH]; intros i; simpl; [constructor|].
  destruct (is_addr c) eqn:Ea; simpl; [|exact I].
  destruct (c =? ch_dot)%N eqn:Ed.
  - exists [], rest. apply N.eqb_eq in Ed. unfold ch_dot in Ed. subst c. split; [reflexivity|]. split; [constructor | simpl; lia].
  - assert (Hc : label_ch c). { split; [apply is_addr_spec; exact Ea | unfold ch_dot in Ed; lia]. }
    specialize (IH (S i)). destruct (dot_scan rest (S i)).
    + exact I.
    + constructor; assumption.
    + destruct IH as [l [x [E [HF Hd]]]]. exists (c :: l), x. subst rest. split; [reflexivity|].
      split; [constructor; assumption | simpl; lia].
Qed.

Lemma end_scan_app : forall r post i, Forall addr_ch r -> right_context post -> end_scan (r ++ post) i = i + length r.
Proof.
  induction r as [|c r IH]; intros post i HF HR; simpl.
  - destruct post as [|c post]; simpl; [lia|]. simpl in HR. apply is_addr_false in HR. rewrite HR. lia.
  - inversion HF; subst. replace (is_addr c) with true by (symmetry; apply is_addr_spec; assumption).
    rewrite IH by assumption. lia.
Qed.

Lemma end_scan_inv : forall rest i, exists r post,
  rest = r ++ post /\ Forall addr_ch r /\ right_context post /\ end_scan rest i = i + length r.
Proof.
  induction rest as [|c rest IH]; intros i.
  - exists [], []. simpl. repeat split; [constructor | lia].
  - simpl. destruct (is_addr c) eqn:Ea.
    + destruct (IH (S i)) as [r [post [E [HF [HR He]]]]]. exists (c :: r), post. subst rest.
      split; [reflexivity|]. split; [constructor; [apply is_addr_spec; exact Ea | exact HF]|].
      split; [exact HR | simpl; lia].
    + exists [], (c :: rest). split; [reflexivity|]. split; [constructor|]. split; [simpl; apply is_addr_false; exact Ea | simpl; lia].
Qed.

Lemma label_forall : forall l, label l -> Forall label_ch l.
Proof.
  intros l [w [r [E [Hw HF]]]]. subst l. constructor; [|exact HF].
  split; [apply word_is_addr; exact Hw | apply word_not_dot; exact Hw].
Qed.

Lemma dot_last_not_numeric : forall l, ~ numeric (l ++ [46%N]).
Proof.
  intros l [_ [_ [_ [r [c [E Hc]]]]]]. apply app_inj_tail in E. destruct E as [_ E]. subst c.
  unfold digit_ch in Hc. lia.
Qed.

(* redactFindEmailEnd finds the end of every domain of the supported shape ... *)
Lemma find_end_complete : forall front dom post,
  domain_shape dom post -> ~ numeric dom ->
  find_end (front ++ 64%N :: dom ++ post) (length front) = Ok (Some (length front + 1 + length dom)).
Proof.
  intros front dom post HD HN.
  remember (front ++ 64%N :: dom ++ post) as t eqn:Et.
  set (a := length front).
  assert (Hskip : skipn (a + 1) t = dom ++ post).
  { apply (skipn_is _ (front ++ [64%N])); [subst t; app_norm | subst a; len_norm]. }
  destruct (check_number_spec dom) as [b [Hb Hbn]].
  assert (b = false) by (destruct b; [exfalso; apply HN; apply Hbn; reflexivity | reflexivity]). subst b.
  unfold find_end. rewrite Hskip.
  destruct HD as [l w r post Hl Hw Hr Hpost | l Hl | l Hl].
  - (* dotted *)
    apply label_forall in Hl.
    rewrite <- app_assoc. simpl. rewrite dot_scan_at by exact Hl.
    assert (Hlen : length t = a + 1 + length l + 2 + length r + length post) by (subst t a; len_norm).
    replace (a + 1 + length l =? length t - 1) with false by lia.
    assert (Hw' : nth_error t (a + 1 + length l + 1) = Some w).
    { apply (nth_is _ (front ++ 64%N :: l ++ [46%N]) w (r ++ post)); [subst t; app_norm | subst a; len_norm]. }
    rewrite (get_some _ _ _ Hw'). simpl rbind.
    replace (is_word w) with true by (symmetry; apply is_word_spec; exact Hw). simpl negb. cbv iota.
    assert (Hskip2 : skipn (a + 1 + length l + 2) t = r ++ post).
    { apply (skipn_is _ (front ++ 64%N :: l ++ [46%N; w])); [subst t; app_norm | subst a; len_norm]. }
    rewrite Hskip2, end_scan_app by assumption.
    rewrite sub_ok by lia.
    assert (Hseg : seg t (a + 1) (a + 1 + length l + 2 + length r) = l ++ 46%N :: w :: r).
    { apply (seg_is _ (front ++ [64%N]) _ post); [subst t; app_norm | subst a; len_norm | subst a; len_norm]. }
    rewrite Hseg. cbn [rbind]. rewrite Hb. cbn [rbind]. do 2 f_equal. len_norm.
  - (* the text ends inside the first label *)
    apply label_forall in Hl. rewrite app_nil_r in *.
    rewrite dot_scan_none by exact Hl.
    assert (Hlen : length t = a + 1 + length l) by (subst t a; len_norm).
    rewrite sub_ok by lia. rewrite seg_to_end, Hskip. cbn [rbind]. rewrite Hb. cbn [rbind]. do 2 f_equal. lia.
  - (* the text ends right after the dot *)
    apply label_forall in Hl. rewrite app_nil_r in *.
    rewrite dot_scan_at by exact Hl.
    assert (Hlen : length t = a + 1 + length l + 1) by (subst t a; len_norm).
    replace (a + 1 + length l =? length t - 1) with true by lia. do 2 f_equal. len_norm.
Qed.

(* ... and nothing else; it never panics *)
Lemma find_end_sound : forall front w0 rest0,
  word_ch w0 ->
  exists r, find_end (front ++ 64%N :: w0 :: rest0) (length front) = Ok r /\
    forall ee, r = Some ee ->
      exists dom post, w0 :: rest0 = dom ++ post /\ ee = length front + 1 + length dom /\
        domain_shape dom post /\ ~ numeric dom.
Proof.
  intros front w0 rest0 Hw0.
  remember (front ++ 64%N :: w0 :: rest0) as t eqn:Et.
  set (a := length front).
  assert (Hskip : skipn (a + 1) t = w0 :: rest0).
  { apply (skipn_is _ (front ++ [64%N])); [subst t; app_norm | subst a; len_norm]. }
  assert (Hlen : length t = a + 1 + length (w0 :: rest0)) by (subst t a; len_norm).
  unfold find_end. rewrite Hskip.
  pose proof (dot_scan_inv (w0 :: rest0) (a + 1)) as HI.
  destruct (dot_scan (w0 :: rest0) (a + 1)) as [| |d].
  - eexists. split; [reflexivity|]. discriminate.
  - (* no dot before the end of the text *)
    rewrite sub_ok by lia. rewrite seg_to_end, Hskip.
    destruct (check_number_spec (w0 :: rest0)) as [b [Hb Hbn]]. cbn [rbind]. rewrite Hb. cbn [rbind].
    destruct b; (eexists; split; [reflexivity|]); [discriminate|].
    intros ee E. inversion E; subst ee. exists (w0 :: rest0), []. rewrite app_nil_r.
    split; [reflexivity|]. split; [lia|]. split.
    + apply dom_cut_in_label. exists w0, rest0. split; [reflexivity|]. split; [exact Hw0|]. inversion HI; assumption.
    + intro HN. apply Hbn in HN. discriminate.
  - destruct HI as [l [x [E [Hl Hd]]]].
    assert (Hlab : label l).
    { destruct l as [|c l].
      - simpl in E. inversion E. subst w0. exfalso. exact (word_not_dot _ Hw0 eq_refl).
      - simpl in E. inversion E. subst c. exists w0, l. split; [reflexivity|]. split; [exact Hw0|]. inversion Hl; assumption. }
    assert (Hlen' : length t = a + 1 + length l + 1 + length x) by (rewrite Hlen, E; len_norm).
    destruct (d =? length t - 1) eqn:Ed.
    + (* the dot is the last character *)
      eexists. split; [reflexivity|]. intros ee E'. inversion E'; subst ee.
      assert (x = []) by (destruct x; [reflexivity | simpl in Hlen'; lia]). subst x.
      exists (l ++ [46%N]), []. rewrite app_nil_r. split; [exact E|]. split; [len_norm|].
      split; [apply dom_cut_after_dot; exact Hlab | apply dot_last_not_numeric].
    + destruct x as [|c x]; [simpl in Hlen'; lia|].
      assert (Hc : nth_error t (d + 1) = Some c).
      { apply (nth_is _ (front ++ 64%N :: l ++ [46%N]) c x); [subst t; rewrite E; app_norm | subst a d; len_norm]. }
      rewrite (get_some _ _ _ Hc). simpl rbind.
      destruct (is_word c) eqn:Ec; simpl negb; cbv iota.
      2:{ eexists. split; [reflexivity|]. discriminate. }
      assert (Hskip2 : skipn (d + 2) t = x).
      { apply (skipn_is _ (front ++ 64%N :: l ++ [46%N; c])); [subst t; rewrite E; app_norm | subst a d; len_norm]. }
      rewrite Hskip2.
      destruct (end_scan_inv x (d + 2)) as [r [post [Ex [Hr [Hpost He]]]]]. rewrite He.
      assert (Hlen'' : length x = length r + length post) by (rewrite Ex; len_norm).
      simpl in Hlen'.
      rewrite sub_ok by lia.
      assert (Hseg : seg t (a + 1) (d + 2 + length r) = l ++ 46%N :: c :: r).
      { apply (seg_is _ (front ++ [64%N]) _ post); [subst t; rewrite E, Ex; app_norm | subst a; len_norm | subst a d; len_norm]. }
      rewrite Hseg.
      destruct (check_number_spec (l ++ 46%N :: c :: r)) as [b [Hb Hbn]]. cbn [rbind]. rewrite Hb. cbn [rbind].
      destruct b; (eexists; split; [reflexivity|]); [discriminate|].
      intros ee E'. inversion E'; subst ee.
      exists (l ++ 46%N :: c :: r), post. split; [rewrite E, Ex; app_norm|]. split; [subst d; len_norm|].
      split.
      * apply dom_dotted; try assumption. apply is_word_spec. exact Ec.
      * intro HN. apply Hbn in HN. discriminate.
Qed.

(* ------------------------------------------------------------------------------------------ *)
(* the backward scan of redactFindEmailStart *)

(* the run of address characters cannot be extended to the left *)
Definition left_stop (pre : bytes) : Prop := pre = [] \/ exists p c, pre = p ++ [c] /\ ~ addr_ch c.

Lemma run_decomp : forall l : bytes, exists pre loc, l = pre ++ loc /\ Forall addr_ch loc /\ left_stop pre.
Proof.
  induction l as [|c l IH] using rev_ind.
  - exists [], []. split; [reflexivity|]. split; [constructor | left; reflexivity].
  - destruct (is_addr c) eqn:Ea.
    + destruct IH as [pre [loc [E [HF HS]]]]. exists pre, (loc ++ [c]). subst l.
      split; [app_norm|]. split; [|exact HS]. apply Forall_app. split; [exact HF|].
      constructor; [apply is_addr_spec; exact Ea | constructor].
    + exists (l ++ [c]), []. split; [rewrite app_nil_r; reflexivity|]. split; [constructor|].
      right. exists l, c. split; [reflexivity | apply is_addr_false; exact Ea].
Qed.

Lemma find_start_loop_run : forall loc pre rest limit,
  Forall addr_ch loc -> left_stop pre -> limit <= length pre + length loc ->
  find_start_loop (pre ++ loc ++ rest) limit (length pre + length loc) = Ok (Nat.max (length pre) limit).
Proof.
  induction loc as [|c loc IH] using rev_ind; intros pre rest limit HF HS Hlim.
  - simpl app. simpl length. rewrite Nat.add_0_r in *.
    destruct HS as [E|[p [c [E Hc]]]]; subst pre.
    + simpl. f_equal. simpl in Hlim. lia.
    + rewrite app_length in *. simpl length in *. replace (length p + 1) with (S (length p)) in * by lia.
      simpl find_start_loop. destruct (limit <=? length p) eqn:El.
      * assert (Hn : nth_error ((p ++ [c]) ++ rest) (length p) = Some c).
        { apply (nth_is _ p c rest); [app_norm | reflexivity]. }
        rewrite (get_some _ _ _ Hn). cbn [rbind].
        replace (is_addr c) with false by (symmetry; apply is_addr_false; exact Hc). f_equal. lia.
      * f_equal. lia.
  - apply Forall_app in HF. destruct HF as [HF Hc]. inversion Hc as [|? ? Hc' _]; subst.
    rewrite app_length in *. simpl length in *.
    replace (length pre + (length loc + 1)) with (S (length pre + length loc)) in * by lia.
    simpl find_start_loop. destruct (limit <=? length pre + length loc) eqn:El.
    + assert (Hn : nth_error (pre ++ (loc ++ [c]) ++ rest) (length pre + length loc) = Some c).
      { apply (nth_is _ (pre ++ loc) c rest); [app_norm | len_norm]. }
      rewrite (get_some _ _ _ Hn). cbn [rbind].
      replace (is_addr c) with true by (symmetry; apply is_addr_spec; exact Hc').
      replace (pre ++ (loc ++ [c]) ++ rest) with (pre ++ loc ++ (c :: rest)) by app_norm.
      apply IH; [exact HF | exact HS | lia].
    + f_equal. lia.
Qed.

Lemma find_start_run : forall loc pre rest limit,
  Forall addr_ch loc -> left_stop pre -> limit <= length pre + length loc ->
  let t := pre ++ loc ++ rest in
  let j := Nat.max (length pre) limit in
  (j = 0 /\ find_start t (length pre + length loc) limit = Ok (Some 0)) \/
  (exists c, 0 < j /\ nth_error t (j - 1) = Some c /\
             find_start t (length pre + length loc) limit = Ok (if (c =? 47)%N then None else Some j)).
Proof.
  intros loc pre rest limit HF HS Hlim t j. unfold find_start. subst t.
  rewrite find_start_loop_run by assumption. cbn [rbind]. fold j.
  destruct j as [|i] eqn:Ej.
  - left. split; reflexivity.
  - right. destruct (nth_error_lt (pre ++ loc ++ rest) i) as [c Hc]; [len_norm|].
    exists c. split; [lia|]. replace (S i - 1) with i by lia. split; [exact Hc|].
    rewrite (get_some _ _ _ Hc). cbn [rbind]. unfold ch_slash. destruct (c =? 47)%N; reflexivity.
Qed.

(* ------------------------------------------------------------------------------------------ *)
(* facts about the specification, in terms of positions *)

Lemma email_shape_facts : forall nn t s a e, email_shape nn t s a e ->
  nth_error t a = Some 64%N /\ cand t a /\ s < a /\ a + 1 < e /\ e <= length t /\
  all_at t s a addr_ch /\ all_at t (a + 1) e addr_ch.
Proof.
  intros nn t s a e [pre [loc [dom [post [Et [Es [Ea [Ee [HL [Hloc [HD HN]]]]]]]]]]].
  destruct Hloc as [r [w [Eloc [Hr Hw]]]].
  assert (Hdom : exists w1 d1, dom = w1 :: d1 /\ word_ch w1 /\ Forall addr_ch dom).
  { assert (Hlab : forall l, label l -> exists w1 d1, l = w1 :: d1 /\ word_ch w1 /\ Forall addr_ch l).
    { intros l [w1 [d1 [E [Hw1 HF]]]]. exists w1, d1. split; [exact E|]. split; [exact Hw1|]. subst l.
      constructor; [apply word_is_addr; exact Hw1|]. eapply Forall_impl; [|exact HF]. intros x [Hx _]. exact Hx. }
    destruct HD as [l w' r' post Hl Hw' Hr' Hpost | l Hl | l Hl]; destruct (Hlab l Hl) as [w1 [d1 [E [Hw1 HF]]]].
    - exists w1, (d1 ++ 46%N :: w' :: r'). split; [subst l; reflexivity|]. split; [exact Hw1|].
      apply Forall_app. split; [exact HF|]. constructor; [right; left; reflexivity|].
      constructor; [apply word_is_addr; exact Hw'|exact Hr'].
    - exists w1, d1. auto.
    - exists w1, (d1 ++ [46%N]). split; [subst l; reflexivity|]. split; [exact Hw1|].
      apply Forall_app. split; [exact HF|]. constructor; [right; left; reflexivity | constructor]. }
  destruct Hdom as [w1 [d1 [Edom [Hw1 HFdom]]]].
  assert (Hlenloc : length loc = length r + 1) by (subst loc; len_norm).
  assert (Ha : nth_error t a = Some 64%N).
  { apply (nth_is _ (pre ++ loc) 64%N (dom ++ post)); [subst t; app_norm | subst; len_norm]. }
  split; [exact Ha|]. split.
  { split; [lia|]. split.
    - exists w. split; [|exact Hw]. apply (nth_is _ (pre ++ r) w (64%N :: dom ++ post)); [subst t loc; app_norm | subst; len_norm].
    - exists w1. split; [|exact Hw1]. apply (nth_is _ (pre ++ loc ++ [64%N]) w1 (d1 ++ post)); [subst t dom; app_norm | subst; len_norm]. }
  split; [lia|]. split; [subst dom; simpl in Ee; lia|]. split; [subst t; len_norm|].
  split.
  - subst s a. assert (HFloc : Forall addr_ch loc).
    { subst loc. apply Forall_app. split; [exact Hr|]. constructor; [apply word_is_addr; exact Hw | constructor]. }
    rewrite Et. apply all_at_mid. exact HFloc.
  - replace t with ((pre ++ loc ++ [64%N]) ++ dom ++ post) by (subst t; app_norm).
    replace (a + 1) with (length (pre ++ loc ++ [64%N])) by (subst; len_norm).
    replace e with (length (pre ++ loc ++ [64%N]) + length dom) by (subst; len_norm).
    apply all_at_mid. exact HFdom.
Qed.

Lemma numeric_digits_and_dots : forall d, numeric d -> digits_and_dots d.
Proof. intros d [_ [H _]]. exact H. Qed.

Lemma literal_is_email_at : forall t s a e, email_at_literal t s a e -> email_at t s a e.
Proof.
  intros t s a e [pre [loc [dom [post [Et [Es [Ea [Ee [HL [Hloc [HD HN]]]]]]]]]]].
  exists pre, loc, dom, post. repeat (split; [assumption|]).
  intro H. apply HN. apply numeric_digits_and_dots. exact H.
Qed.

(* ------------------------------------------------------------------------------------------ *)
(* redactFindEmailBoundary against the specification *)

(* what is known about the left limit (sCopied): it is 0 or the end of a redacted span, which
   contains an '@' followed by address characters only *)
Definition linv (t : bytes) (L : nat) : Prop :=
  L = 0 \/ exists a0, a0 + 1 < L /\ L <= length t /\ nth_error t a0 = Some 64%N /\ all_at t (a0 + 1) L addr_ch.

Lemma left_context_stop : forall pre, left_context pre -> left_stop pre.
Proof. intros pre [E|[p [c [E [H _]]]]]; [left; exact E | right; eauto]. Qed.

Lemma boundary_complete : forall t s a e L,
  email_at t s a e -> L <= a -> find_boundary t a L = Ok (Some (Nat.max s L), Some e).
Proof.
  intros t s a e L HE HL.
  destruct HE as [pre [loc [dom [post [Et [Es [Ea [Ee [HLc [Hloc [HD HN]]]]]]]]]]].
  destruct Hloc as [r [w [Eloc [Hr Hw]]]].
  assert (HFloc : Forall addr_ch loc).
  { subst loc. apply Forall_app. split; [exact Hr|]. constructor; [apply word_is_addr; exact Hw | constructor]. }
  assert (Hend : find_end t a = Ok (Some e)).
  { replace t with ((pre ++ loc) ++ 64%N :: dom ++ post) by (subst t; app_norm).
    replace a with (length (pre ++ loc)) by (subst; len_norm).
    rewrite find_end_complete by assumption. do 2 f_equal. subst. len_norm. }
  unfold find_boundary.
  assert (Hstart : find_start t a L = Ok (Some (Nat.max s L))).
  { pose proof (find_start_run loc pre (64%N :: dom ++ post) L HFloc (left_context_stop _ HLc)) as HS.
    rewrite <- Et, <- Es, <- Ea in HS. specialize (HS HL). cbv zeta in HS.
    destruct HS as [[Ej HS]|[c [Hj [Hc HS]]]].
    - rewrite HS, Ej. reflexivity.
    - rewrite HS. replace (c =? 47)%N with false; [reflexivity|]. symmetry. apply N.eqb_neq.
      destruct (Nat.le_gt_cases L s) as [Hle|Hgt].
      + (* the character before the local part *)
        replace (Nat.max s L) with s in * by lia.
        destruct HLc as [E|[p [c' [E [_ Hc']]]]]; [subst pre; simpl in Es; lia|].
        assert (Hc2 : nth_error t (s - 1) = Some c').
        { apply (nth_is _ p c' (loc ++ 64%N :: dom ++ post)); [subst t pre; app_norm | subst s pre; len_norm]. }
        rewrite Hc in Hc2. inversion Hc2; subst c'. exact Hc'.
      + (* the limit cuts the local part: the character before it is an address character *)
        replace (Nat.max s L) with L in * by lia.
        assert (HA : all_at t s a addr_ch).
        { subst s a. rewrite Et. apply all_at_mid. exact HFloc. }
        destruct (HA (L - 1)) as [c' [Hc2 Hac]]; [lia|]. rewrite Hc in Hc2. inversion Hc2; subst c'.
        apply addr_not_slash. exact Hac. }
  rewrite Hstart. cbn [rbind]. rewrite Hend. reflexivity.
Qed.

Lemma boundary_sound : forall t a L,
  nth_error t a = Some 64%N -> cand t a -> L <= a -> linv t L ->
  exists b, find_boundary t a L = Ok b /\
    forall es ee, b = (Some es, Some ee) -> exists s, email_at t s a ee /\ es = Nat.max s L.
Proof.
  intros t a L Ha [Ha0 [[p [Hp Hwp]] [n [Hn Hwn]]]] HL Hlinv.
  assert (Halen : a < length t) by (apply nth_error_Some; congruence).
  (* t = front ++ '@' :: n :: rest0 *)
  pose proof (split_at _ _ _ Ha) as Et.
  assert (Hrest : exists rest0, skipn (S a) t = n :: rest0).
  { pose proof (nth_error_skipn' t (S a) 0) as H. replace (S a + 0) with (a + 1) in H by lia. rewrite Hn in H.
    destruct (skipn (S a) t) as [|x rest0]; [discriminate|]. inversion H; subst. eauto. }
  destruct Hrest as [rest0 Hrest]. rewrite Hrest in Et.
  assert (Hflen : length (firstn a t) = a) by (apply firstn_length_le; lia).
  destruct (run_decomp (firstn a t)) as [pre [loc [Ef [HFloc HS]]]].
  rewrite Ef in Et. rewrite <- app_assoc in Et. rewrite Ef, app_length in Hflen.
  clear Ef Hrest.
  (* the character before the '@' is the last one of the run *)
  assert (Hp' : nth_error (pre ++ loc) (a - 1) = Some p).
  { rewrite Et in Hp. rewrite app_assoc in Hp. rewrite nth_error_app1 in Hp by len_norm. exact Hp. }
  assert (Hloc : exists r, loc = r ++ [p]).
  { destruct (last_decomp loc) as [E|[r [w E]]].
    - exfalso. subst loc. rewrite app_nil_r in *. simpl in Hflen.
      destruct HS as [E|[q [c [E Hc]]]]; [subst pre; simpl in Hflen; lia|].
      subst pre. rewrite app_length in Hflen. simpl in Hflen.
      rewrite (nth_is _ q c [] _ (eq_refl _)) in Hp' by lia. inversion Hp'; subst c.
      apply Hc. apply word_is_addr. exact Hwp.
    - exists r. subst loc. rewrite app_length in Hflen. simpl in Hflen.
      rewrite (nth_is _ (pre ++ r) w [] (a - 1)) in Hp' by (app_norm || len_norm). inversion Hp'. reflexivity. }
  destruct Hloc as [r Eloc].
  assert (Hlp : local_part loc).
  { exists r, p. split; [exact Eloc|]. split; [|exact Hwp]. subst loc. apply Forall_app in HFloc. tauto. }
  (* the two scans *)
  pose proof (find_start_run loc pre (64%N :: n :: rest0) L HFloc HS) as HST.
  rewrite <- Et, Hflen in HST. specialize (HST HL). cbv zeta in HST.
  destruct (find_end_sound (pre ++ loc) n rest0 Hwn) as [re [Hend Hre]].
  replace ((pre ++ loc) ++ 64%N :: n :: rest0) with t in Hend by (rewrite Et; app_norm).
  rewrite app_length, Hflen in Hend, Hre.
  unfold find_boundary.
  assert (Hmk : forall ee, re = Some ee -> left_context pre -> email_at t (length pre) a ee).
  { intros ee Ee HLc. destruct (Hre ee Ee) as [dom [post [Edp [Eee [HD HN]]]]].
    exists pre, loc, dom, post. split; [rewrite Et, Edp; reflexivity|]. split; [reflexivity|].
    split; [lia|]. split; [lia|]. repeat (split; [assumption|]). exact HN. }
  destruct HST as [[Ej HST]|[c [Hj [Hc HST]]]].
  - rewrite HST. cbn [rbind]. rewrite Hend. cbn [rbind]. eexists. split; [reflexivity|].
    intros es ee E. injection E as E1 E2. subst es. exists (length pre). split; [|symmetry; exact Ej].
    apply Hmk; [exact E2|]. left. destruct pre as [|x pre]; [reflexivity | exfalso; cbn [length] in Ej; lia].
  - rewrite HST. destruct (c =? 47)%N eqn:Ec; cbn [rbind].
    + eexists. split; [reflexivity|]. discriminate.
    + rewrite Hend. cbn [rbind]. eexists. split; [reflexivity|].
      intros es ee E. injection E as E1 E2. subst es. exists (length pre). split; [|reflexivity].
      apply Hmk; [exact E2|]. apply N.eqb_neq in Ec.
      destruct HS as [E'|[q [c' [E' Hc']]]]; [left; exact E'|]. right. exists q, c'. split; [exact E'|]. split; [exact Hc'|].
      assert (Hq : nth_error t (length q) = Some c').
      { apply (nth_is _ q c' (loc ++ 64%N :: n :: rest0)); [rewrite Et, E'; app_norm | reflexivity]. }
      assert (Hlq : length pre = length q + 1) by (subst pre; len_norm).
      destruct (Nat.le_gt_cases L (length pre)) as [Hle|Hgt].
      * replace (Nat.max (length pre) L) with (length pre) in Hc by lia.
        replace (length pre - 1) with (length q) in Hc by lia. congruence.
      * (* the limit lies inside the run: it is the end of a span, whose '@' stops the run *)
        destruct Hlinv as [E0|[a0 [Ha0' [HLlen [Hat0 Hall0]]]]]; [lia|].
        assert (HA : all_at t (length pre) (length pre + length loc) addr_ch).
        { rewrite Et. apply all_at_mid. exact HFloc. }
        destruct (Nat.lt_trichotomy (length q) a0) as [Hlt|[Heq|Hgt']].
        -- exfalso. destruct (HA a0) as [x [Hx Hax]]; [lia|]. rewrite Hat0 in Hx. inversion Hx; subst x. exact (at_not_addr Hax).
        -- subst a0. rewrite Hat0 in Hq. inversion Hq. unfold digit_ch. lia.
        -- exfalso. destruct (Hall0 (length q)) as [x [Hx Hax]]; [lia|]. rewrite Hq in Hx. inversion Hx; subst x. contradiction.
Qed.

Lemma boundary_spec : forall t a L,
  nth_error t a = Some 64%N -> cand t a -> L <= a -> linv t L ->
  exists b, find_boundary t a L = Ok b /\
    (forall es ee, b = (Some es, Some ee) -> exists s, email_at t s a ee /\ es = Nat.max s L) /\
    (forall s e, email_at t s a e -> b = (Some (Nat.max s L), Some e)).
Proof.
  intros t a L Ha Hc HL Hlinv.
  destruct (boundary_sound t a L Ha Hc HL Hlinv) as [b [Hb Hs]].
  exists b. split; [exact Hb|]. split; [exact Hs|].
  intros s e HE. pose proof (boundary_complete t s a e L HE HL) as H. rewrite Hb in H. inversion H. reflexivity.
Qed.

(* ------------------------------------------------------------------------------------------ *)
(* redactEmailFindFirst *)

Lemma find_first_loop_spec : forall fuel t sAt,
  nth_error t sAt = Some 64%N ->
  (forall k, k < sAt -> nth_error t k = Some 64%N -> ~ cand t k) ->
  length t < fuel + sAt ->
  exists r, find_first_loop fuel t sAt = Ok r /\
    match r with
    | None => forall k, nth_error t k = Some 64%N -> ~ cand t k
    | Some f => nth_error t f = Some 64%N /\ cand t f /\ S f < length t /\
                forall k, k < f -> nth_error t k = Some 64%N -> ~ cand t k
    end.
Proof.
  induction fuel as [|fuel IH]; intros t sAt Hat Hbefore Hfuel.
  - assert (sAt < length t) by (apply nth_error_Some; congruence). lia.
  - assert (Hlt : sAt < length t) by (apply nth_error_Some; congruence).
    simpl find_first_loop. destruct (S sAt <? length t) eqn:El.
    + destruct (at_guard_spec t sAt) as [b [Hb Hbc]]; [lia|]. rewrite Hb. cbn [rbind].
      destruct b.
      * eexists. split; [reflexivity|]. split; [exact Hat|]. split; [apply Hbc; reflexivity|]. split; [lia | exact Hbefore].
      * assert (Hnc : ~ cand t sAt) by (intro Hc; apply Hbc in Hc; discriminate).
        rewrite sub_ok by lia. cbn [rbind]. rewrite seg_to_end.
        destruct (index_byte (skipn (S sAt) t) ch_at) as [k|] eqn:Ei.
        -- apply index_byte_some in Ei. destruct Ei as [Hk Hnk]. rewrite nth_error_skipn' in Hk.
           apply IH; [exact Hk | | lia].
           intros j Hj Hjat. destruct (Nat.lt_trichotomy j sAt) as [Hlt'|[Heq|Hgt]].
           ++ apply Hbefore; assumption.
           ++ subst j. exact Hnc.
           ++ exfalso. apply (Hnk (j - S sAt)); [lia|]. rewrite nth_error_skipn'. replace (S sAt + (j - S sAt)) with j by lia. exact Hjat.
        -- eexists. split; [reflexivity|]. intros j Hjat.
           destruct (Nat.lt_trichotomy j sAt) as [Hlt'|[Heq|Hgt]].
           ++ apply Hbefore; assumption.
           ++ subst j. exact Hnc.
           ++ exfalso. apply (index_byte_none _ _ Ei (j - S sAt)). rewrite nth_error_skipn'. replace (S sAt + (j - S sAt)) with j by lia. exact Hjat.
    + eexists. split; [reflexivity|]. intros j Hjat.
      assert (j < length t) by (apply nth_error_Some; congruence).
      destruct (Nat.lt_trichotomy j sAt) as [Hlt'|[Heq|Hgt]].
      * apply Hbefore; assumption.
      * subst j. intros [_ [_ [n [Hn _]]]]. assert (sAt + 1 < length t) by (apply nth_error_Some; congruence). lia.
      * lia.
Qed.

Lemma find_first_spec : forall t,
  exists r, find_first t = Ok r /\
    match r with
    | None => forall k, nth_error t k = Some 64%N -> ~ cand t k
    | Some f => nth_error t f = Some 64%N /\ cand t f /\ S f < length t /\
                forall k, k < f -> nth_error t k = Some 64%N -> ~ cand t k
    end.
Proof.
  intros t. unfold find_first. destruct (index_byte t ch_at) as [k|] eqn:Ei.
  - apply index_byte_some in Ei. destruct Ei as [Hk Hnk].
    apply find_first_loop_spec; [exact Hk | | lia].
    intros j Hj Hjat. exfalso. exact (Hnk j Hj Hjat).
  - eexists. split; [reflexivity|]. intros j Hjat. exfalso. exact (index_byte_none _ _ Ei j Hjat).
Qed.

(* ------------------------------------------------------------------------------------------ *)
(* the loop of redactEmail1 *)

(* every address whose '@' lies before position n is covered by the spans *)
Definition done_upto (t : bytes) (spans : list span) (n : nat) : Prop :=
  forall s a e, email_at t s a e -> a < n -> forall i, s <= i < e -> covered spans i.

Definition done_all (t : bytes) (spans : list span) : Prop :=
  forall s a e, email_at t s a e -> forall i, s <= i < e -> covered spans i.

(* a span is the address around one '@', cut on the left at most to the end of the previous span *)
Definition justified (t : bytes) (sp : span) : Prop :=
  exists s a, s <= fst sp /\ fst sp <= a /\ a < snd sp /\ email_at t s a (snd sp).

Definition linv2 (t : bytes) (L : nat) (spans : list span) : Prop :=
  L = 0 \/ exists s0 a0, In (s0, L) spans /\ s0 <= a0 /\ a0 + 1 < L /\ L <= length t /\
                         nth_error t a0 = Some 64%N /\ all_at t (a0 + 1) L addr_ch.

Record binv (t : bytes) (st : rstate) : Prop := {
  bi_bounds : r_copied st <= r_at st /\ r_at st <= length t;
  bi_chain : spans_ordered 0 (rev (r_spans st)) (r_copied st);
  bi_splice : forall more, r_dst st ++ splice t (r_copied st) more = splice t 0 (rev (r_spans st) ++ more);
  bi_linv : linv2 t (r_copied st) (r_spans st);
  bi_sound : forall sp, In sp (r_spans st) -> justified t sp;
  bi_done : done_upto t (r_spans st) (r_at st)
}.

Lemma linv2_linv : forall t L spans, linv2 t L spans -> linv t L.
Proof.
  intros t L spans [E|[s0 [a0 [_ [_ H]]]]]; [left; exact E | right; exists a0; exact H].
Qed.

Lemma spans_ordered_snoc : forall l lo mid s e,
  spans_ordered lo l mid -> mid <= s -> s < e -> spans_ordered lo (l ++ [(s, e)]) e.
Proof.
  induction l as [|[s1 e1] l IH]; intros lo mid s e H Hs He; simpl in *.
  - repeat split; lia.
  - destruct H as [H1 [H2 H3]]. repeat split; try assumption. eapply IH; eassumption.
Qed.

Lemma spans_ordered_weaken : forall l lo hi hi', spans_ordered lo l hi -> hi <= hi' -> spans_ordered lo l hi'.
Proof.
  induction l as [|[s1 e1] l IH]; intros lo hi hi' H Hh; simpl in *.
  - lia.
  - destruct H as [H1 [H2 H3]]. repeat split; try assumption. eapply IH; eassumption.
Qed.

Lemma covered_cons : forall sp spans i, covered spans i -> covered (sp :: spans) i.
Proof. intros sp spans i [s [e [Hin H]]]. exists s, e. split; [right; exact Hin | exact H]. Qed.

Lemma covered_rev : forall spans i, covered spans i <-> covered (rev spans) i.
Proof.
  intros spans i. split; intros [s [e [Hin H]]]; exists s, e; (split; [|exact H]).
  - apply in_rev in Hin. exact Hin.
  - apply in_rev. exact Hin.
Qed.

Lemma done_upto_gap : forall t spans n n',
  done_upto t spans n -> (forall k, n <= k < n' -> nth_error t k <> Some 64%N) -> done_upto t spans n'.
Proof.
  intros t spans n n' H Hgap s a e HE Ha.
  destruct (Nat.lt_ge_cases a n) as [Hlt|Hge]; [exact (H s a e HE Hlt)|].
  exfalso. apply (Hgap a); [lia|]. apply (email_shape_facts _ _ _ _ _ HE).
Qed.

Lemma done_upto_all : forall t spans n, done_upto t spans n -> length t <= n + 1 -> done_all t spans.
Proof.
  intros t spans n H Hn s a e HE. apply (H s a e HE).
  destruct (email_shape_facts _ _ _ _ _ HE) as [_ [_ [_ [H1 [H2 _]]]]]. lia.
Qed.

Lemma next_at_spec : forall t st, r_at st <= length t ->
  exists r, next_at t st = Ok r /\
    match r with
    | Break st' => st' = st /\ forall k, r_at st <= k -> nth_error t k <> Some 64%N
    | Continue st' =>
        r_copied st' = r_copied st /\ r_dst st' = r_dst st /\ r_spans st' = r_spans st /\
        r_at st <= r_at st' /\ nth_error t (r_at st') = Some 64%N /\
        forall k, r_at st <= k < r_at st' -> nth_error t k <> Some 64%N
    end.
Proof.
  intros t st Hle. unfold next_at. rewrite sub_ok by lia. cbn [rbind]. rewrite seg_to_end.
  destruct (index_byte (skipn (r_at st) t) ch_at) as [k|] eqn:Ei.
  - apply index_byte_some in Ei. destruct Ei as [Hk Hnk]. rewrite nth_error_skipn' in Hk.
    eexists. split; [reflexivity|]. simpl. repeat (split; [reflexivity|]). split; [lia|]. split; [exact Hk|].
    intros j Hj Hjat. apply (Hnk (j - r_at st)); [lia|]. rewrite nth_error_skipn'.
    replace (r_at st + (j - r_at st)) with j by lia. exact Hjat.
  - eexists. split; [reflexivity|]. split; [reflexivity|].
    intros j Hj Hjat. apply (index_byte_none _ _ Ei (j - r_at st)). rewrite nth_error_skipn'.
    replace (r_at st + (j - r_at st)) with j by lia. exact Hjat.
Qed.

(* moving sAt to the next '@' keeps the invariant; no further '@' means every address is done *)
Lemma binv_next : forall t st, binv t st ->
  exists r, next_at t st = Ok r /\
    match r with
    | Continue st' => binv t st' /\ nth_error t (r_at st') = Some 64%N /\ r_at st <= r_at st'
    | Break st' => binv t st' /\ done_all t (r_spans st')
    end.
Proof.
  intros t st HI. destruct (next_at_spec t st) as [r [Hr Hspec]]; [apply HI|].
  exists r. split; [exact Hr|]. destruct r as [st'|st'].
  - destruct Hspec as [Hc [Hd [Hs [Hle [Hat Hgap]]]]].
    assert (r_at st' < length t) by (apply nth_error_Some; congruence).
    split; [|split; [exact Hat | exact Hle]].
    destruct HI as [Hb Hch Hsp Hl Hso Hdo]. constructor; rewrite ?Hc, ?Hd, ?Hs; try assumption.
    + lia.
    + eapply done_upto_gap; [exact Hdo | exact Hgap].
  - destruct Hspec as [E Hgap]. subst st'. split; [exact HI|].
    intros s a e HE. destruct (Nat.lt_ge_cases a (r_at st)) as [Hlt|Hge].
    + exact (bi_done _ _ HI s a e HE Hlt).
    + exfalso. apply (Hgap a Hge). apply (email_shape_facts _ _ _ _ _ HE).
Qed.

Lemma redact_step_spec : forall t st,
  binv t st -> nth_error t (r_at st) = Some 64%N -> S (r_at st) < length t ->
  exists r, redact_step t st = Ok r /\
    match r with
    | Continue st' => binv t st' /\ nth_error t (r_at st') = Some 64%N /\ r_at st < r_at st'
    | Break st' => binv t st' /\ done_all t (r_spans st')
    end.
Proof.
  intros t st HI Hat Hlen.
  pose proof HI as [[Hb1 Hb2] Hch Hsp Hl Hso Hdo].
  (* the state after "sAt++" when nothing is redacted at this '@' *)
  assert (Hskip : (forall s e, ~ email_at t s (r_at st) e) ->
            exists r, next_at t {| r_at := S (r_at st); r_copied := r_copied st; r_dst := r_dst st; r_spans := r_spans st |} = Ok r /\
              match r with
              | Continue st' => binv t st' /\ nth_error t (r_at st') = Some 64%N /\ r_at st < r_at st'
              | Break st' => binv t st' /\ done_all t (r_spans st')
              end).
  { intro Hno.
    destruct (binv_next t {| r_at := S (r_at st); r_copied := r_copied st; r_dst := r_dst st; r_spans := r_spans st |}) as [r [Hr Hrs]].
    - constructor; simpl; try assumption; [lia|].
      intros s a e HE Ha. destruct (Nat.eq_dec a (r_at st)) as [E|NE].
      + subst a. exfalso. exact (Hno s e HE).
      + apply (Hdo s a e HE). lia.
    - exists r. split; [exact Hr|]. destruct r as [st'|st']; [|exact Hrs].
      simpl in Hrs. destruct Hrs as [H1 [H2 H3]]. split; [exact H1|]. split; [exact H2 | lia]. }
  unfold redact_step.
  destruct (at_guard_spec t (r_at st) Hlen) as [g [Hg Hgc]]. rewrite Hg. cbn [rbind].
  destruct g.
  2:{ apply Hskip. intros s e HE. assert (cand t (r_at st)) by apply (email_shape_facts _ _ _ _ _ HE).
      apply Hgc in H. discriminate. }
  assert (Hcand : cand t (r_at st)) by (apply Hgc; reflexivity).
  destruct (boundary_spec t (r_at st) (r_copied st) Hat Hcand Hb1 (linv2_linv _ _ _ Hl)) as [b [Hbd [Hbs Hbc]]].
  rewrite Hbd. cbn [rbind].
  destruct b as [[es|] [ee|]];
    try (apply Hskip; intros s e HE; specialize (Hbc s e HE); discriminate).
  (* an address is redacted *)
  destruct (Hbs es ee eq_refl) as [s [HE Hes]].
  destruct (email_shape_facts _ _ _ _ _ HE) as [_ [_ [Hsa [Hae [Hee [Hall1 Hall2]]]]]].
  rewrite sub_ok by lia. cbn [rbind].
  set (st' := {| r_at := ee; r_copied := ee; r_dst := r_dst st ++ seg t (r_copied st) es ++ redacted_word;
                 r_spans := (es, ee) :: r_spans st |}).
  assert (HI' : binv t st').
  { constructor; simpl.
    - lia.
    - eapply spans_ordered_snoc; [exact Hch | lia | lia].
    - intros more. cbn [rev]. rewrite <- !app_assoc. cbn [app]. transitivity (r_dst st ++ splice t (r_copied st) ((es, ee) :: more)); [reflexivity | apply Hsp].
    - right. exists es, (r_at st). split; [left; reflexivity|]. repeat (split; [first [assumption | lia]|]). exact Hall2.
    - intros sp [E|Hin]; [|apply Hso; exact Hin]. subst sp. exists s, (r_at st). simpl.
      split; [lia|]. split; [lia|]. split; [lia | exact HE].
    - intros s' a' e' HE' Ha' i Hi.
      destruct (Nat.lt_trichotomy a' (r_at st)) as [Hlt|[Heq|Hgt]].
      + apply covered_cons. exact (Hdo s' a' e' HE' Hlt i Hi).
      + subst a'. specialize (Hbc s' e' HE'). injection Hbc as E1 E2. subst e'.
        destruct (Nat.le_gt_cases es i) as [Hge|Hlt].
        * exists es, ee. split; [left; reflexivity | lia].
        * (* the part of the address before sCopied lies in the previous span *)
          apply covered_cons.
          destruct Hl as [E0|[s0 [a0 [Hin [Hs0 [Ha0 [HLlen [Hat0 Hall0]]]]]]]]; [lia|].
          exists s0, (r_copied st). split; [exact Hin|].
          destruct (email_shape_facts _ _ _ _ _ HE') as [_ [_ [_ [_ [_ [Hall' _]]]]]].
          destruct (Nat.le_gt_cases s' a0) as [Hle'|Hgt'].
          -- exfalso. destruct (Hall' a0) as [x [Hx Hax]]; [lia|]. rewrite Hat0 in Hx. inversion Hx; subst x. exact (at_not_addr Hax).
          -- lia.
      + exfalso. destruct (Hall2 a') as [x [Hx Hax]]; [lia|].
        assert (Hat' : nth_error t a' = Some 64%N) by apply (email_shape_facts _ _ _ _ _ HE').
        rewrite Hat' in Hx. inversion Hx; subst x. exact (at_not_addr Hax). }
  destruct (length t <=? ee) eqn:Ele.
  - eexists. split; [reflexivity|]. split; [exact HI'|].
    apply (done_upto_all t _ ee); [apply HI' | lia].
  - destruct (binv_next t st' HI') as [r [Hr Hrs]]. exists r. split; [exact Hr|].
    destruct r as [st''|st'']; [|exact Hrs].
    destruct Hrs as [H1 [H2 H3]]. split; [exact H1|]. split; [exact H2|]. simpl in H3. lia.
Qed.

(* what holds of the result of redactEmail1 / redactEmail *)
Definition redact_post (t out : bytes) (spans : list span) : Prop :=
  spans_ordered 0 spans (length t) /\ out = splice t 0 spans /\
  (forall sp, In sp spans -> justified t sp) /\ done_all t spans.

Lemma redact_finish_spec : forall t st, binv t st -> done_all t (r_spans st) ->
  exists out spans, redact_finish t st = Ok (out, spans) /\ redact_post t out spans.
Proof.
  intros t st [[Hb1 Hb2] Hch Hsp Hl Hso Hdo] Hall.
  unfold redact_finish. rewrite sub_ok by lia. cbn [rbind]. rewrite seg_to_end.
  eexists. eexists. split; [reflexivity|]. split; [|split; [|split]].
  - eapply spans_ordered_weaken; [exact Hch | lia].
  - specialize (Hsp []). simpl in Hsp. rewrite app_nil_r in Hsp. exact Hsp.
  - intros sp Hin. apply Hso. apply in_rev. exact Hin.
  - intros s a e HE i Hi. apply (proj1 (covered_rev _ _)). exact (Hall s a e HE i Hi).
Qed.

Lemma redact_loop_spec : forall fuel t st,
  binv t st -> nth_error t (r_at st) = Some 64%N -> length t < fuel + r_at st ->
  exists out spans, redact_loop fuel t st = Ok (out, spans) /\ redact_post t out spans.
Proof.
  induction fuel as [|fuel IH]; intros t st HI Hat Hfuel.
  - assert (r_at st < length t) by (apply nth_error_Some; congruence). lia.
  - simpl redact_loop. destruct (S (r_at st) <? length t) eqn:El.
    + destruct (redact_step_spec t st HI Hat) as [r [Hr Hrs]]; [lia|]. rewrite Hr. cbn [rbind].
      destruct r as [st'|st'].
      * destruct Hrs as [H1 [H2 H3]]. apply IH; [exact H1 | exact H2 | lia].
      * destruct Hrs as [H1 H2]. apply redact_finish_spec; assumption.
    + apply redact_finish_spec; [exact HI|].
      apply (done_upto_all t _ (r_at st)); [apply HI | lia].
Qed.

Theorem redact_email_spec : forall t,
  exists out spans, redact_email t = Ok (out, spans) /\ redact_post t out spans.
Proof.
  intros t. unfold redact_email. destruct (find_first_spec t) as [r [Hr Hrs]]. rewrite Hr. cbn [rbind].
  destruct r as [f|].
  - destruct Hrs as [Hat [Hc [Hlen Hbefore]]]. unfold redact1. apply redact_loop_spec; simpl; [|exact Hat|lia].
    constructor; simpl.
    + lia.
    + lia.
    + intros more. reflexivity.
    + left. reflexivity.
    + intros sp [].
    + intros s a e HE Ha. exfalso.
      destruct (email_shape_facts _ _ _ _ _ HE) as [H1 [H2 _]]. exact (Hbefore a Ha H1 H2).
  - exists t, []. split; [reflexivity|]. split; [simpl; lia|]. split; [reflexivity|]. split; [intros sp []|].
    intros s a e HE. exfalso. destruct (email_shape_facts _ _ _ _ _ HE) as [H1 [H2 _]]. exact (Hrs a H1 H2).
Qed.

(* ------------------------------------------------------------------------------------------ *)
(* consequences, in the form used by Props/C14.v *)

Lemma nth_error_firstn_lt : forall (l : bytes) n k, k < n -> nth_error (firstn n l) k = nth_error l k.
Proof.
  induction l as [|x l IH]; intros n k H.
  - rewrite firstn_nil. reflexivity.
  - destruct n; [lia|]. destruct k; simpl; [reflexivity|]. apply IH. lia.
Qed.

(* everything outside the spans is preserved, byte for byte, in order *)
Lemma splice_outside : forall t spans lo i,
  spans_ordered lo spans (length t) -> lo <= i -> ~ covered spans i ->
  nth_error (splice t lo spans) (out_index lo spans i) = nth_error t i.
Proof.
  intros t spans. induction spans as [|[s e] r IH]; intros lo i Hord Hlo Hnc; cbn [splice out_index].
  - rewrite nth_error_skipn'. f_equal. lia.
  - cbn [spans_ordered] in Hord. destruct Hord as [H1 [H2 H3]].
    assert (He : e <= length t).
    { clear - H3. revert e H3. induction r as [|[s1 e1] r IH]; intros e H; simpl in H; [lia|].
      destruct H as [Ha [Hb Hc]]. specialize (IH _ Hc). lia. }
    assert (Hlen : length (firstn (s - lo) (skipn lo t)) = s - lo).
    { apply firstn_length_le. rewrite skipn_length. lia. }
    destruct (i <? s) eqn:Ei.
    + rewrite nth_error_app1 by lia. rewrite nth_error_firstn_lt by lia. rewrite nth_error_skipn'. f_equal. lia.
    + assert (e <= i).
      { destruct (Nat.le_gt_cases e i); [assumption|]. exfalso. apply Hnc. exists s, e. split; [left; reflexivity | lia]. }
      rewrite nth_error_app2 by lia. rewrite nth_error_app2 by lia.
      replace (s - lo + length marker + out_index e r i - length (firstn (s - lo) (skipn lo t)) - length marker)
        with (out_index e r i) by lia.
      apply IH; [exact H3 | assumption|].
      intros [s1 [e1 [Hin Hi]]]. apply Hnc. exists s1, e1. split; [right; exact Hin | exact Hi].
Qed.

Lemma redact_email_total : forall t, exists out spans, redact_email t = Ok (out, spans).
Proof. intros t. destruct (redact_email_spec t) as [out [spans [H _]]]. eauto. Qed.

Lemma redact_email_post : forall t out spans, redact_email t = Ok (out, spans) -> redact_post t out spans.
Proof.
  intros t out spans H. destruct (redact_email_spec t) as [out' [spans' [H' HP]]].
  rewrite H in H'. inversion H'; subst. exact HP.
Qed.

Lemma structure_lemma : forall t out spans, redact_email t = Ok (out, spans) ->
  spans_ordered 0 spans (length t) /\ out = splice t 0 spans.
Proof. intros t out spans H. destruct (redact_email_post _ _ _ H) as [H1 [H2 _]]. auto. Qed.

Lemma outside_preserved_lemma : forall t out spans i, redact_email t = Ok (out, spans) ->
  ~ covered spans i -> nth_error out (out_index 0 spans i) = nth_error t i.
Proof.
  intros t out spans i H Hnc. destruct (structure_lemma _ _ _ H) as [H1 H2]. subst out.
  apply splice_outside; [exact H1 | lia | exact Hnc].
Qed.

Lemma complete_lemma : forall t out spans s a e, redact_email t = Ok (out, spans) ->
  email_at t s a e -> forall i, s <= i < e -> covered spans i.
Proof. intros t out spans s a e H HE. destruct (redact_email_post _ _ _ H) as [_ [_ [_ H4]]]. exact (H4 s a e HE). Qed.

Lemma complete_literal_lemma : forall t out spans s a e, redact_email t = Ok (out, spans) ->
  email_at_literal t s a e -> forall i, s <= i < e -> covered spans i.
Proof. intros t out spans s a e H HE. apply (complete_lemma t out spans s a e H). apply literal_is_email_at. exact HE. Qed.

Lemma sound_lemma : forall t out spans es ee, redact_email t = Ok (out, spans) -> In (es, ee) spans ->
  exists s a, s <= es /\ es <= a /\ a < ee /\ email_at t s a ee.
Proof.
  intros t out spans es ee H Hin. destruct (redact_email_post _ _ _ H) as [_ [_ [H3 _]]].
  exact (H3 (es, ee) Hin).
Qed.

Lemma no_email_unchanged_lemma : forall t, no_email t -> redact_email t = Ok (t, []).
Proof.
  intros t Hno. destruct (redact_email_spec t) as [out [spans [H [H1 [H2 [H3 H4]]]]]].
  destruct spans as [|sp spans].
  - simpl in H2. subst out. exact H.
  - exfalso. destruct (H3 sp (or_introl eq_refl)) as [s [a [_ [_ [_ HE]]]]]. exact (Hno _ _ _ HE).
Qed.

Lemma changed_iff_email_lemma : forall t out spans, redact_email t = Ok (out, spans) ->
  (spans <> [] <-> exists s a e, email_at t s a e).
Proof.
  intros t out spans H. destruct (redact_email_post _ _ _ H) as [_ [_ [H3 H4]]]. split.
  - intro Hne. destruct spans as [|sp spans]; [congruence|].
    destruct (H3 sp (or_introl eq_refl)) as [s [a [_ [_ [_ HE]]]]]. eauto.
  - intros [s [a [e HE]]] E. subst spans.
    destruct (email_shape_facts _ _ _ _ _ HE) as [_ [_ [Hsa [Hae _]]]].
    assert (Hi : s <= s < e) by lia.
    destruct (H4 s a e HE s Hi) as [s1 [e1 [[] _]]].
Qed.

(* the transform: field value, spans and the 'redacted' counter *)
Lemma transform_lemma : forall v,
  exists r, transform_redact v = Ok r /\
    spans_ordered 0 (tr_spans r) (length v) /\
    tr_value r = splice v 0 (tr_spans r) /\
    (forall s a e, email_at v s a e -> forall i, s <= i < e -> covered (tr_spans r) i) /\
    (forall es ee, In (es, ee) (tr_spans r) -> exists s a, s <= es /\ es <= a /\ a < ee /\ email_at v s a ee) /\
    (tr_counted r = true <-> exists s a e, email_at v s a e) /\
    (tr_counted r = false -> tr_value r = v).
Proof.
  intros v. destruct (redact_email_spec v) as [out [spans [H HP]]].
  pose proof (changed_iff_email_lemma _ _ _ H) as Hch.
  destruct HP as [H1 [H2 [H3 H4]]].
  destruct v as [|c v].
  - (* empty field: nothing is looked at *)
    eexists. split; [reflexivity|]. simpl.
    assert (Hno : forall s a e, ~ email_at [] s a e).
    { intros s a e HE. destruct (email_shape_facts _ _ _ _ _ HE) as [Ha _]. destruct a; discriminate. }
    split; [lia|]. split; [reflexivity|]. split; [intros s a e HE; exfalso; exact (Hno _ _ _ HE)|].
    split; [intros es ee []|]. split; [|reflexivity].
    split; [discriminate | intros [s [a [e HE]]]; exfalso; exact (Hno _ _ _ HE)].
  - unfold transform_redact. unfold redact_email in H.
    destruct (find_first (c :: v)) as [[f|]|e|p]; cbn [rbind] in *; try discriminate.
    + rewrite H. cbn [rbind].
      destruct spans as [|sp spans].
      * simpl. eexists. split; [reflexivity|]. simpl. simpl in H2.
        split; [lia|]. split; [reflexivity|]. split; [exact H4|]. split; [intros es ee []|]. split; [|reflexivity].
        split; [discriminate|]. intro HE. apply Hch in HE. congruence.
      * simpl. eexists. split; [reflexivity|]. simpl.
        split; [exact H1|]. split; [exact H2|]. split; [exact H4|].
        split; [intros es ee Hin; exact (H3 (es, ee) Hin)|]. split; [|discriminate].
        split; [intros _; apply Hch; discriminate | reflexivity].
    + inversion H; subst out spans. eexists. split; [reflexivity|]. simpl.
      split; [lia|]. split; [reflexivity|]. split; [exact H4|]. split; [intros es ee []|]. split; [|reflexivity].
      split; [discriminate|]. intro HE. apply Hch in HE. congruence.
Qed.

(* ------------------------------------------------------------------------------------------ *)
(* concrete texts (tests of the definitions, and witnesses that the hypotheses are satisfiable) *)

Ltac ch := unfold addr_ch, word_ch, digit_ch; lia.
Ltac fa := repeat (apply Forall_cons; [ch|]); apply Forall_nil.

(* "a@b.c@d.e": two overlapping addresses, a@b.c at [0,5) and b.c@d.e at [2,9), the '@' at 1 and 5 *)
Definition ex_overlap : bytes := [97;64;98;46;99;64;100;46;101]%N.

Lemma ex_overlap_first : email_at ex_overlap 0 1 5.
Proof.
  exists [], [97%N], [98;46;99]%N, [64;100;46;101]%N.
  split; [reflexivity|]. split; [reflexivity|]. split; [reflexivity|]. split; [reflexivity|].
  split; [left; reflexivity|].
  split; [exists [], 97%N; split; [reflexivity|]; split; [constructor | ch]|].
  split.
  - apply (dom_dotted [98%N] 99%N [] [64;100;46;101]%N).
    + exists 98%N, []. split; [reflexivity|]. split; [ch | constructor].
    + ch.
    + constructor.
    + simpl. ch.
  - intros [_ [HF _]]. inversion HF as [|? ? H1 _]; subst. destruct H1; revert H; ch.
Qed.

Lemma ex_overlap_second : email_at ex_overlap 2 5 9.
Proof.
  exists [97;64]%N, [98;46;99]%N, [100;46;101]%N, [].
  split; [reflexivity|]. split; [reflexivity|]. split; [reflexivity|]. split; [reflexivity|].
  split; [right; exists [97%N], 64%N; split; [reflexivity|]; split; ch|].
  split; [exists [98;46]%N, 99%N; split; [reflexivity|]; split; [fa | ch]|].
  split.
  - apply (dom_dotted [100%N] 101%N [] []).
    + exists 100%N, []. split; [reflexivity|]. split; [ch | constructor].
    + ch.
    + constructor.
    + exact I.
  - intros [_ [HF _]]. inversion HF as [|? ? H1 _]; subst. destruct H1; revert H; ch.
Qed.

Lemma ex_overlap_result :
  redact_email ex_overlap = Ok (marker ++ marker, [(0, 5); (5, 9)]).
Proof. vm_compute. reflexivity. Qed.

(* "bob@163.com_2024": digits at both ends of the domain, yet an address (defect #18 before the fix) *)
Definition ex_digit_ends : bytes := [98;111;98;64;49;54;51;46;99;111;109;95;50;48;50;52]%N.

Lemma ex_digit_ends_email : email_at ex_digit_ends 0 3 16.
Proof.
  exists [], [98;111;98]%N, [49;54;51;46;99;111;109;95;50;48;50;52]%N, [].
  split; [reflexivity|]. split; [reflexivity|]. split; [reflexivity|]. split; [reflexivity|].
  split; [left; reflexivity|].
  split; [exists [98;111]%N, 98%N; split; [reflexivity|]; split; [fa | ch]|].
  split.
  - apply (dom_dotted [49;54;51]%N 99%N [111;109;95;50;48;50;52]%N []).
    + exists 49%N, [54;51]%N. split; [reflexivity|]. split; [ch | fa].
    + ch.
    + fa.
    + exact I.
  - intros [_ [HF _]]. do 4 (inversion HF as [|? ? _ HF']; subst; clear HF; rename HF' into HF).
    inversion HF as [|? ? H1 _]; subst. destruct H1; revert H; ch.
Qed.

Lemma ex_digit_ends_result : redact_email ex_digit_ends = Ok (marker, [(0, 16)]).
Proof. vm_compute. reflexivity. Qed.

(* "hello@123.456": a number, not an address: unchanged *)
Lemma ex_number_result :
  redact_email [104;101;108;108;111;64;49;50;51;46;52;53;54]%N = Ok ([104;101;108;108;111;64;49;50;51;46;52;53;54]%N, []).
Proof. vm_compute. reflexivity. Qed.

(* ------------------------------------------------------------------------------------------ *)
(* further consequences *)

Lemma spans_ordered_hi : forall l lo hi, spans_ordered lo l hi -> lo <= hi.
Proof.
  induction l as [|[s e] l IH]; intros lo hi H; simpl in H; [exact H|].
  destruct H as [H1 [H2 H3]]. specialize (IH _ _ H3). lia.
Qed.

(* the bytes outside the spans keep their order *)
Lemma out_index_mono : forall spans lo hi i j,
  spans_ordered lo spans hi -> lo <= i -> i < j -> ~ covered spans i -> ~ covered spans j ->
  out_index lo spans i < out_index lo spans j.
Proof.
  induction spans as [|[s e] r IH]; intros lo hi i j Hord Hlo Hij Hi Hj; cbn [out_index].
  - lia.
  - cbn [spans_ordered] in Hord. destruct Hord as [H1 [H2 H3]].
    assert (Hout : forall k, ~ covered ((s, e) :: r) k -> s <= k -> e <= k).
    { intros k Hk Hs. destruct (Nat.le_gt_cases e k); [assumption|]. exfalso. apply Hk. exists s, e. split; [left; reflexivity | lia]. }
    assert (Htl : forall k, ~ covered ((s, e) :: r) k -> ~ covered r k).
    { intros k Hk [s1 [e1 [Hin Hr]]]. apply Hk. exists s1, e1. split; [right; exact Hin | exact Hr]. }
    destruct (i <? s) eqn:Ei; destruct (j <? s) eqn:Ej; try lia.
    assert (e <= i) by (apply Hout; [exact Hi | lia]).
    assert (out_index e r i < out_index e r j); [|lia].
    eapply IH; [exact H3 | lia | lia | apply Htl; exact Hi | apply Htl; exact Hj].
Qed.

Lemma splice_length : forall t spans lo,
  spans_ordered lo spans (length t) ->
  length (splice t lo spans) + span_bytes spans = (length t - lo) + length marker * length spans.
Proof.
  intros t spans. induction spans as [|[s e] r IH]; intros lo Hord; cbn [splice span_bytes].
  - rewrite skipn_length. simpl. lia.
  - cbn [spans_ordered] in Hord. destruct Hord as [H1 [H2 H3]].
    pose proof (spans_ordered_hi _ _ _ H3) as He. specialize (IH e H3).
    rewrite !app_length. rewrite firstn_length_le by (rewrite skipn_length; lia).
    cbn [length] in *. lia.
Qed.

Lemma length_lemma : forall t out spans, redact_email t = Ok (out, spans) ->
  length out + span_bytes spans = length t + 8 * length spans.
Proof.
  intros t out spans H. destruct (structure_lemma _ _ _ H) as [H1 H2]. subst out.
  pose proof (splice_length t spans 0 H1) as HL. change (length marker) with 8 in HL. unfold span in *. lia.
Qed.

Lemma order_preserved_lemma : forall t out spans i j, redact_email t = Ok (out, spans) ->
  i < j -> ~ covered spans i -> ~ covered spans j -> out_index 0 spans i < out_index 0 spans j.
Proof.
  intros t out spans i j H Hij Hi Hj. destruct (structure_lemma _ _ _ H) as [H1 _].
  eapply out_index_mono; [exact H1 | lia | exact Hij | exact Hi | exact Hj].
Qed.

(* a span consists of address characters and '@' only - all of them ASCII: no multi-byte character is
   ever cut or removed *)
Lemma span_chars_lemma : forall t out spans es ee i, redact_email t = Ok (out, spans) -> In (es, ee) spans ->
  es <= i < ee -> exists c, nth_error t i = Some c /\ (addr_ch c \/ c = 64%N) /\ (c < 128)%N.
Proof.
  intros t out spans es ee i H Hin Hi.
  destruct (sound_lemma _ _ _ _ _ H Hin) as [s [a [H1 [H2 [H3 HE]]]]].
  destruct (email_shape_facts _ _ _ _ _ HE) as [Hat [_ [_ [_ [_ [Hl Hr]]]]]].
  assert (Hlt : forall c, addr_ch c -> (c < 128)%N) by (intro c; unfold addr_ch, word_ch, digit_ch; lia).
  destruct (Nat.lt_trichotomy i a) as [Hlt'|[Heq|Hgt]].
  - destruct (Hl i) as [c [Hc Hac]]; [lia|]. exists c. split; [exact Hc|]. split; [left; exact Hac | apply Hlt; exact Hac].
  - subst i. exists 64%N. split; [exact Hat|]. split; [right; reflexivity | lia].
  - destruct (Hr i) as [c [Hc Hac]]; [lia|]. exists c. split; [exact Hc|]. split; [left; exact Hac | apply Hlt; exact Hac].
Qed.

(* the specification is unambiguous: one '@', at most one address *)
Lemma email_at_deterministic : forall t s a e s' e', email_at t s a e -> email_at t s' a e' -> s = s' /\ e = e'.
Proof.
  intros t s a e s' e' H1 H2.
  pose proof (boundary_complete t s a e 0 H1 (Nat.le_0_l _)) as B1.
  pose proof (boundary_complete t s' a e' 0 H2 (Nat.le_0_l _)) as B2.
  rewrite B1 in B2. inversion B2. split; lia.
Qed.

Lemma order_and_length_lemma : forall t out spans, redact_email t = Ok (out, spans) ->
  length out + span_bytes spans = length t + 8 * length spans /\
  forall i j, i < j -> ~ covered spans i -> ~ covered spans j -> out_index 0 spans i < out_index 0 spans j.
Proof.
  intros t out spans H. split; [exact (length_lemma t out spans H) | ].
  intros i j. exact (order_preserved_lemma t out spans i j H).
Qed.
