(* C06 - what a pipeline keeps of the record that created it is a copy: with util.DeepCopyStrings in
   LocalCachedMap.GetOrCreate the memory-level model (Model/RoutingMem.v) refines the value-level routing model
   (Model/Routing.v) whatever is written into the input buffers afterwards; with a shallow copy it does not. *)
From SV Require Import Model.Common Model.Routing Model.RoutingMem Proofs.CommonFacts Proofs.RoutingProofs.
From SV Require Model.Utf8 Spec.Utf8Spec Proofs.Utf8Proofs.
From Coq Require Import Lia.
Open Scope N_scope.

(* the stored reference denotes the value b in every heap *)
Definition repr (v : sval) (b : bytes) : Prop := forall h, read h v = b.

Definition repr_pipe (mp : mpipe) (p : pipeline) : Prop :=
  (forall h, map (read h) (mp_keys mp) = p_keys p) /\ repr (mp_id mp) (p_id p) /\ repr (mp_tag mp) (p_tag p) /\
  (forall h, map (read h) (mp_labels mp) = p_labels p).

(* simulation relation between the memory-level state and the value-level state (one sink) *)
Definition sim (st : rstate) (g : gstate) (lm : amap) : Prop :=
  rs_map st = g_map g /\ rs_local st = lm /\ Forall2 repr_pipe (rs_pipes st) (g_pipes g).

Lemma sim_init : sim rs_init g_init [].
Proof. repeat split. constructor. Qed.

Lemma Forall2_length_eq : forall (A B : Type) (R : A -> B -> Prop) l l', Forall2 R l l' -> length l = length l'.
Proof. intros A B R l l' H. induction H; cbn; [reflexivity|f_equal; assumption]. Qed.

Lemma Forall2_app_one : forall (A B : Type) (R : A -> B -> Prop) l l' x y,
  Forall2 R l l' -> R x y -> Forall2 R (l ++ [x]) (l' ++ [y]).
Proof. intros A B R l l' x y H Hxy. induction H; cbn; constructor; auto. Qed.

Lemma map_read_owned : forall h h' (ks : list sval), map (read h') (map (keep true h) ks) = map (read h) ks.
Proof. intros h h' ks. rewrite map_map. apply map_ext. intros v. reflexivity. Qed.

Lemma nth_error_keep : forall h ks i k, nth_error (map (keep true h) ks) i = Some k ->
  k = Owned (nth i (map (read h) ks) []) /\ nth_error (map (read h) ks) i = Some (nth i (map (read h) ks) []).
Proof.
  intros h ks i k H. rewrite nth_error_map in H. destruct (nth_error ks i) as [v|] eqn:E; [|discriminate].
  cbn in H. inversion H; subst k; clear H.
  assert (E' : nth_error (map (read h) ks) i = Some (read h v)) by (rewrite nth_error_map, E; reflexivity).
  rewrite (nth_error_nth _ _ _ E'). split; [reflexivity|exact E'].
Qed.

(* the tag built from copies is heap-independent and is the value-level tag *)
Lemma m_build_tag_deep : forall parts h ks tag,
  m_build_tag parts h (map (keep true h) ks) = Ok tag ->
  exists b, build_tag parts (map (read h) ks) = Ok b /\ repr tag b.
Proof.
  intros parts h ks tag H.
  assert (Hgen : forall b, build_tag parts (map (read h) (map (keep true h) ks)) = Ok b ->
                           build_tag parts (map (read h) ks) = Ok b) by (intros b; rewrite map_read_owned; auto).
  destruct parts as [|p [|q r]].
  - cbn in H. unfold build_tag in *. cbn in *. inversion H; subst. exists []. split; [reflexivity|intros h'; reflexivity].
  - destruct p as [s|i|i ps pe]; cbn [m_build_tag] in H.
    + inversion H; subst. exists s. split; [reflexivity|intros h'; reflexivity].
    + destruct (nth_error (map (keep true h) ks) i) as [k|] eqn:E; [|discriminate].
      inversion H; subst k. destruct (nth_error_keep _ _ _ _ E) as [-> E'].
      exists (nth i (map (read h) ks) []). split; [|intros h'; reflexivity].
      unfold build_tag, expand_part, key_at. rewrite E'. reflexivity.
    + destruct (nth_error (map (keep true h) ks) i) as [k|] eqn:E; [|discriminate].
      destruct (nth_error_keep _ _ _ _ E) as [-> E'].
      cbn [read] in H. destruct (go_substr (nth i (map (read h) ks) []) ps pe) as [r| |] eqn:G; try discriminate.
      inversion H; subst tag. exists r. split.
      * unfold build_tag, expand_part, key_at. rewrite E'. cbn [obind]. exact G.
      * intros h'. cbn [read]. rewrite G. reflexivity.
  - assert (H' : obind (build_tag (p :: q :: r) (map (read h) (map (keep true h) ks))) (fun b => Ok (Owned b)) = Ok tag).
    { destruct p; exact H. }
    destruct (build_tag (p :: q :: r) (map (read h) (map (keep true h) ks))) as [b| |] eqn:B; try discriminate.
    cbn in H'. inversion H'; subst tag. exists b. split; [apply Hgen; reflexivity|intros h'; reflexivity].
Qed.

Lemma m_join_deep : forall h ks, repr (m_join h (map (keep true h) ks)) (pipeline_id (map (read h) ks)).
Proof.
  intros h ks h'. unfold m_join, pipeline_id. destruct ks as [|k [|k2 r]]; cbn [map].
  - reflexivity.
  - reflexivity.
  - cbn [read]. change (keep true h k :: keep true h k2 :: map (keep true h) r) with (map (keep true h) (k :: k2 :: r)).
    rewrite map_read_owned. reflexivity.
Qed.

(* the label values made from copies are heap-independent and are the value-level label values: ToValidUTF8 either
   returns the (owned) copy itself - then the copy is valid and equal to its cleaned form - or builds a new string *)
Lemma m_label_value_deep : forall h h' v,
  read h' (m_label_value h (keep true h v)) = Utf8.to_valid_utf8 (read h v).
Proof.
  intros h h' v. unfold m_label_value, keep. cbn [read].
  destruct (Utf8.valid (read h v)) eqn:E; cbn [read]; [|reflexivity].
  symmetry. apply Utf8Proofs.to_valid_id. apply Utf8Proofs.valid_iff_lemma. exact E.
Qed.

Lemma m_labels_deep : forall h h' ks,
  map (read h') (map (m_label_value h) (map (keep true h) ks)) = metric_label_values (map (read h) ks).
Proof.
  intros h h' ks. unfold metric_label_values. rewrite !map_map. apply map_ext. intros v. apply m_label_value_deep.
Qed.

(* one record: LocalCachedMap.GetOrCreate on references, with the deep copy, is the value-level GetOrCreate
   on the values the references have at that moment *)
Lemma m_get_or_create_sim : forall parts st g lm ks st' i,
  sim st g lm ->
  m_get_or_create true parts st ks = Ok (st', i) ->
  exists g' lm', local_get_or_create parts g lm (map (read (rs_heap st)) ks) = Ok (g', lm', i) /\
                 sim st' g' lm' /\ rs_heap st' = rs_heap st.
Proof.
  intros parts st g lm ks st' i [Hm [Hl Hp]] H. unfold m_get_or_create in H. unfold local_get_or_create.
  set (h := rs_heap st) in *. set (vals := map (read h) ks) in *. rewrite Hl in H.
  destruct (lookup (merged_key vals) lm) as [j|] eqn:L1.
  - injection H as Hst Hi. subst st' i. exists g, lm. repeat split; auto.
  - unfold global_get_or_create. rewrite Hm in H. destruct (lookup (merged_key vals) (g_map g)) as [j|] eqn:L2.
    + injection H as Hst Hi. subst st' i. exists g, ((merged_key vals, j) :: lm). cbn. repeat split; auto; try (rewrite Hl; reflexivity).
    + destruct (m_build_tag parts h (map (keep true h) ks)) as [tag| |] eqn:T; cbn [obind] in H; try discriminate.
      injection H as Hst Hi. subst st' i.
      destruct (m_build_tag_deep _ _ _ _ T) as [b [Hb Hrepr]]. fold vals in Hb.
      unfold new_pipeline. rewrite Hb. cbn [obind].
      rewrite (Forall2_length_eq _ _ _ _ _ Hp).
      eexists. eexists. split; [reflexivity|]. split; [|reflexivity].
      unfold sim. cbn [rs_map rs_local rs_pipes g_map g_pipes]. split; [reflexivity|]. split; [reflexivity|].
      apply Forall2_app_one; [exact Hp|].
      unfold repr_pipe. cbn [mp_keys mp_id mp_tag mp_labels p_keys p_id p_tag p_labels].
      split; [intros h'; apply map_read_owned|]. split; [apply m_join_deep|]. split; [exact Hrepr|].
      intros h'. apply m_labels_deep.
Qed.

Lemma m_run_sim : forall parts evs st g lm st' is vs,
  sim st g lm ->
  m_run true parts st evs = Ok (st', is, vs) ->
  exists g' lm', run_ops parts g [lm] (map (fun t => (O, t)) vs) = Ok (g', [lm'], is) /\ sim st' g' lm'.
Proof.
  induction evs as [|ev evs IH]; intros st g lm st' is vs Hsim H; cbn [m_run] in H.
  - inversion H; subst. exists g, lm. split; [reflexivity|exact Hsim].
  - destruct ev as [i line|ks].
    + eapply IH; [|exact H]. destruct Hsim as [Hm [Hl Hp]]. repeat split; assumption.
    + destruct (m_get_or_create true parts st ks) as [[st1 i1]| |] eqn:G; try discriminate.
      destruct (m_run true parts st1 evs) as [[[st2 is2] vs2]| |] eqn:R; try discriminate.
      inversion H; subst; clear H.
      destruct (m_get_or_create_sim _ _ _ _ _ _ _ Hsim G) as [g1 [lm1 [Hg [Hsim1 _]]]].
      destruct (IH _ _ _ _ _ _ Hsim1 R) as [g2 [lm2 [Hr Hsim2]]].
      exists g2, lm2. split; [|exact Hsim2].
      cbn [map run_ops step nth]. rewrite Hg. cbn [obind set_nth]. rewrite Hr. reflexivity.
Qed.

(* what is observed with any later content of the heap *)
Definition observe_with (h : heap) (st : rstate) : list pipeline :=
  observe {| rs_heap := h; rs_map := rs_map st; rs_local := rs_local st; rs_pipes := rs_pipes st |}.

Lemma observe_repr : forall h mps ps, Forall2 repr_pipe mps ps ->
  map (fun p => {| p_keys := map (read h) (mp_keys p); p_id := read h (mp_id p); p_tag := read h (mp_tag p);
                   p_labels := map (read h) (mp_labels p) |}) mps = ps.
Proof.
  intros h mps ps H. induction H as [|mp p mps ps [Hk [Hi [Ht Hb]]] _ IH]; cbn [map]; [reflexivity|].
  rewrite IH, Hk, Hi, Ht, Hb. destruct p; reflexivity.
Qed.

(* Main lemma: with the deep copy, for every sequence of buffer writes and routed records, what the
   pipelines show - looked at with ANY later content of the buffers - is exactly the value-level run on the
   key values the records had when they were routed. *)
Lemma stored_values_are_copies_lemma :
  forall parts evs st is vs,
    m_run true parts rs_init evs = Ok (st, is, vs) ->
    exists g lm, run_ops parts g_init [[]] (map (fun t => (O, t)) vs) = Ok (g, [lm], is) /\
                 forall h, observe_with h st = g_pipes g.
Proof.
  intros parts evs st is vs H.
  destruct (m_run_sim _ _ _ _ _ _ _ _ sim_init H) as [g [lm [Hr [_ [_ Hp]]]]].
  exists g, lm. split; [exact Hr|]. intros h. unfold observe_with, observe. cbn [rs_heap rs_pipes].
  apply observe_repr. exact Hp.
Qed.

(* hence: after any later writes every routed record's pipeline still shows the record's own key values,
   its own id and its own tag *)
Lemma pooled_routing_own_keys_lemma :
  forall parts evs st is vs,
    m_run true parts rs_init evs = Ok (st, is, vs) ->
    forall h, Forall2 (fun t i => exists p, nth_error (observe_with h st) i = Some p /\ p_keys p = t /\
                                  p_id p = pipeline_id t /\ build_tag parts t = Ok (p_tag p) /\
                                  p_labels p = metric_label_values t) vs is.
Proof.
  intros parts evs st is vs H h.
  destruct (stored_values_are_copies_lemma _ _ _ _ _ H) as [g [lm [Hr Hobs]]]. rewrite Hobs.
  pose proof (inv_init parts 1) as Hinv. cbn [repeat] in Hinv.
  destruct (run_ops_spec _ _ _ _ _ _ _ Hinv Hr) as [_ [_ Hall]].
  clear - Hall. remember (map (fun t => (O, t)) vs) as ops eqn:E. revert vs E.
  induction Hall as [|o i ops is Ho _ IH]; intros vs E; destruct vs as [|t vs]; try discriminate; constructor.
  - cbn in E. inversion E; subst o. exact Ho.
  - apply IH. cbn in E. inversion E. reflexivity.
Qed.

(* Without the deep copy the pipeline follows the buffer: the first record "info sshd" creates the
   pipeline with tag = $app; the buffer is recycled for "warn cron"; the tag, the id and the labels now read
   "cron" although the only routed record had app = "sshd". *)
Definition alias_parts : list tpart := [TVar 0].
Definition alias_events : list event :=
  [EWrite 0 [105;110;102;111;32;115;115;104;100];       (* "info sshd" *)
   ERoute [View 0 5 4];                                    (* app = "sshd" *)
   EWrite 0 [119;97;114;110;32;99;114;111;110]].         (* "warn cron" *)

Lemma shallow_copy_aliases :
  exists st is vs,
    m_run false alias_parts rs_init alias_events = Ok (st, is, vs) /\
    vs = [[[115;115;104;100]]] /\
    observe st = [{| p_keys := [[99;114;111;110]]; p_id := [99;114;111;110]; p_tag := [99;114;111;110];
                     p_labels := [[99;114;111;110]] |}].
Proof. eexists. eexists. eexists. split; [vm_compute; reflexivity|]. split; vm_compute; reflexivity. Qed.

Lemma deep_copy_on_alias_events :
  exists st is vs,
    m_run true alias_parts rs_init alias_events = Ok (st, is, vs) /\
    observe st = [{| p_keys := [[115;115;104;100]]; p_id := [115;115;104;100]; p_tag := [115;115;104;100];
                     p_labels := [[115;115;104;100]] |}].
Proof. eexists. eexists. eexists. split; vm_compute; reflexivity. Qed.
