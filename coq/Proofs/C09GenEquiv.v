(* C09: the Gallina terms GENERATED from util/utf8.go (findLastEndOfASCII, CleanUTF8) and util/strings.go
   (OverwriteNTruncate) - Gen/C09Gen.v, regenerated on every check - compute the functions of the hand-written
   model Model/Utf8.v, for every byte string.  strings.ToValidUTF8 stays a named external function
   (Model/GoExt.v: the model's to_valid_utf8); logger.Errorf is dropped (logging is not modelled). *)
From SV Require Import Model.Common Model.GoSem Model.Utf8 Model.GoExt Proofs.GoSemFacts.
From SV Require Gen.C09Gen.
From Coq Require Import Lia ZifyBool ZifyN ZifyNat.
Open Scope Z_scope.

Definition res_val (r : Z + Z) : Z := match r with inl _ => 0 | inr v => v end.

Section LastAscii.
  Variable s : bytes.
  Variables (cond : Z -> gres bool) (body : Z -> gres (ctl Z Z)) (post : Z -> gres Z).
  Hypothesis Hcond : forall v, cond v = GOk (0 <=? v).
  Hypothesis Hbody : forall i c, nth_error s i = Some c ->
    body (Z.of_nat i) = GOk (if (c <=? 127)%N then CRet (Z.of_nat i + 1) else CNext (Z.of_nat i)).
  Hypothesis Hpost : forall v, post v = GOk (v - 1).

  Lemma la_loop_gen : forall k fuel, (k <= length s)%nat -> (k < fuel)%nat ->
    exists res, go_loop fuel cond body post (Z.of_nat k - 1) = GOk res /\
                res_val res = Z.of_nat (last_ascii_scan (rev (firstn k s)) k).
  Proof.
    induction k as [|i IH]; intros fuel Hk Hf; (destruct fuel as [|fuel]; [lia|]); rewrite go_loop_S, Hcond; cbn [gbind].
    - replace (0 <=? Z.of_nat 0 - 1) with false by lia. exists (inl (Z.of_nat 0 - 1)). split; reflexivity.
    - replace (0 <=? Z.of_nat (S i) - 1) with true by lia. replace (Z.of_nat (S i) - 1) with (Z.of_nat i) by lia.
      destruct (nth_lt s i ltac:(lia)) as (c & Hc). rewrite (Hbody _ _ Hc). cbn [gbind].
      rewrite (firstn_snoc_nth _ _ _ Hc), rev_app_distr. cbn [rev app last_ascii_scan].
      destruct (c <=? 127)%N.
      + exists (inr (Z.of_nat i + 1)). split; [reflexivity|]. cbn [res_val]. lia.
      + rewrite Hpost. cbn [gbind Nat.pred]. apply IH; lia.
  Qed.
End LastAscii.

Lemma last_ascii_scan_le : forall r n, (last_ascii_scan r n <= n)%nat.
Proof.
  induction r as [|b r IH]; intros n; cbn [last_ascii_scan]; [lia|].
  destruct (b <=? 127)%N; [lia|]. specialize (IH (Nat.pred n)). lia.
Qed.

Lemma fle_le : forall s, (find_last_end_of_ascii s <= length s)%nat.
Proof. intros s. apply last_ascii_scan_le. Qed.

Lemma fle_gen_eq : forall s : bytes, C09Gen.findLastEndOfASCII s = GOk (Z.of_nat (find_last_end_of_ascii s)).
Proof.
  intros s. unfold C09Gen.findLastEndOfASCII, C09Gen.findLastEndOfASCII_fuel, find_last_end_of_ascii. cbv zeta.
  change (go_len s) with (Z.of_nat (length s)).
  match goal with
  | |- context [go_loop ?fl ?cd ?bd ?pt _] =>
    destruct (la_loop_gen s cd bd pt) with (k := length s) (fuel := fl) as (res & -> & Hres)
  end.
  - intros v. reflexivity.
  - intros i c Hc. cbv beta. rewrite (go_index_nat _ _ _ Hc). cbn [gbind]. destruct (c <=? 127)%N eqn:?; close_spec.
  - intros v. reflexivity.
  - lia.
  - lia.
  - rewrite firstn_all in Hres. rewrite rev_append_rev, app_nil_r. rewrite <- Hres.
    cbn [gbind]. destruct res; reflexivity.
Qed.

Lemma firstn_min_length : forall {A} (l : list A) k, firstn (Nat.min k (length l)) l = firstn k l.
Proof.
  intros A l k. destruct (Nat.le_ge_cases k (length l)) as [H|H].
  - rewrite Nat.min_l by assumption. reflexivity.
  - rewrite Nat.min_r by assumption. rewrite firstn_all, firstn_all2 by assumption. reflexivity.
Qed.

(* OverwriteNTruncate writes through [main]: the generated function returns (result, final main) *)
Definition ont_main (main : bytes) (start : nat) (tail : bytes) : bytes :=
  firstn start main ++ firstn (length main - start) tail ++
  skipn (start + Nat.min (length main - start) (length tail)) main.

Lemma ont_gen_eq : forall (main : bytes) (start : nat) (tail : bytes),
  (start <= length main)%nat ->
  C09Gen.OverwriteNTruncate main (Z.of_nat start) tail =
  GOk (overwrite_n_truncate main start tail, ont_main main start tail).
Proof.
  intros main start tail Hs. unfold C09Gen.OverwriteNTruncate, overwrite_n_truncate, ont_main.
  assert (E : (t0 <~ go_copy main (Z.of_nat start) tail ;;
               let '(p0, v0) := t0 in t1 <~ go_slice_to p0 (Z.of_nat start + v0) ;; GOk (t1, p0)) =
              GOk (firstn start main ++ firstn (length main - start) tail,
                   firstn start main ++ firstn (length main - start) tail ++
                   skipn (start + Nat.min (length main - start) (length tail)) main)).
  { unfold go_copy, go_len.
    replace ((0 <=? Z.of_nat start) && (Z.of_nat start <=? Z.of_nat (length main)))%bool with true by lia.
    cbn [gbind]. set (n := Z.min (Z.of_nat (length main) - Z.of_nat start) (Z.of_nat (length tail))).
    assert (Hn : Z.to_nat n = Nat.min (length main - start) (length tail)) by lia.
    replace (Z.to_nat (Z.of_nat start + n)) with (start + Nat.min (length main - start) (length tail))%nat by lia.
    rewrite Nat2Z.id, Hn, firstn_min_length. rewrite (app_assoc (firstn start main)).
    replace (Z.of_nat start + n) with (go_len (firstn start main ++ firstn (length main - start) tail)).
    - rewrite go_slice_to_app. cbn [gbind]. rewrite <- app_assoc. reflexivity.
    - unfold go_len. rewrite app_length, !firstn_length. lia. }
  cbv zeta. destruct (go_len main - Z.of_nat start <? go_len tail); exact E.
Qed.

(* CleanUTF8 overwrites its argument in place: the generated function returns (result, final s) *)
Lemma clean_gen_eq : forall s : bytes, exists s', C09Gen.CleanUTF8 s = GOk (clean_utf8 s, s').
Proof.
  intros s. unfold C09Gen.CleanUTF8, clean_utf8. destruct s as [|b s0]; [eexists; reflexivity|].
  set (s := b :: s0). replace (go_len s =? 0) with false by (unfold go_len, s; cbn [length]; lia).
  rewrite fle_gen_eq. cbn [gbind]. cbv zeta. pose proof (fle_le s) as Hle.
  rewrite go_slice_from_nat by assumption. cbn [gbind strings_ToValidUTF8].
  rewrite ont_gen_eq by assumption. cbn [gbind]. eexists. reflexivity.
Qed.
