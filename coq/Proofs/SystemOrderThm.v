(* The order theorems of C05 over all order-safe runs of Model/System.v. *)
From Coq Require Import List Arith Bool Lia PeanoNat NArith Permutation.
From SV Require Import Model.Common Model.System Model.SystemAccept Model.SystemOrderCase Proofs.SystemLists Proofs.SystemProofs Proofs.SystemAlo
  Proofs.SystemOrderLists Proofs.SystemOrder Proofs.SystemOrderTok.
Import ListNotations.
Open Scope nat_scope.

Lemma memn_spec : forall x l, memn x l = true <-> In x l.
Proof.
  intros. unfold memn. rewrite existsb_exists. split.
  - intros [y [Hy E]]. apply Nat.eqb_eq in E. subst. assumption.
  - intros H. exists x. split; [assumption|apply Nat.eqb_refl].
Qed.

Lemma memn_ext : forall x s1 s2, (forall y, In y s1 <-> In y s2) -> memn x s1 = memn x s2.
Proof.
  intros x s1 s2 H. destruct (memn x s1) eqn:E1, (memn x s2) eqn:E2; auto.
  - apply memn_spec in E1. apply H in E1. apply memn_spec in E1. congruence.
  - apply memn_spec in E2. apply H in E2. apply memn_spec in E2. congruence.
Qed.

Lemma fo_ext : forall l s1 s2, (forall y, In y s1 <-> In y s2) -> fo s1 l = fo s2 l.
Proof.
  induction l as [|x l IH]; intros s1 s2 H; cbn; [reflexivity|].
  rewrite (memn_ext x s1 s2 H). destruct (memn x s2); [apply IH; assumption|].
  f_equal. apply IH. intros y. cbn. rewrite H. tauto.
Qed.

Lemma fo_app : forall a b seen, fo seen (a ++ b) = fo seen a ++ fo (a ++ seen) b.
Proof.
  induction a as [|x a IH]; intros b seen; cbn; [reflexivity|].
  destruct (memn x seen) eqn:E.
  - rewrite IH. f_equal. apply fo_ext. intros y. cbn. rewrite !in_app_iff. apply memn_spec in E.
    intuition (subst; auto).
  - cbn. f_equal. rewrite IH. f_equal. apply fo_ext. intros y. cbn. rewrite !in_app_iff. cbn. tauto.
Qed.

Lemma fo_all_seen : forall l seen, (forall x, In x l -> In x seen) -> fo seen l = [].
Proof.
  induction l as [|x l IH]; intros seen H; cbn; [reflexivity|].
  assert (E : memn x seen = true) by (apply memn_spec; apply H; left; reflexivity). rewrite E.
  apply IH. intros y Hy. apply H. right. assumption.
Qed.

Lemma fo_fresh : forall l seen, NoDup l -> (forall x, In x l -> ~ In x seen) -> fo seen l = l.
Proof.
  induction l as [|x l IH]; intros seen Hn H; cbn; [reflexivity|].
  inversion Hn as [|? ? Hx Hl]; subst.
  assert (E : memn x seen = false).
  { destruct (memn x seen) eqn:E; [|reflexivity]. apply memn_spec in E. exfalso. apply (H x); [left; reflexivity|assumption]. }
  rewrite E. f_equal. apply IH; [assumption|]. intros y Hy [<-|Hs]; [contradiction|]. apply (H y); [right; assumption|assumption].
Qed.

Lemma fo_in : forall l seen x, In x (fo seen l) -> In x l.
Proof.
  induction l as [|y l IH]; intros seen x H; cbn in H; [destruct H|].
  destruct (memn y seen); [right; eapply IH; eassumption|]. destruct H as [<-|H]; [left; reflexivity|right; eapply IH; eassumption].
Qed.

Section Stream.
Variables k p : nat.

(* the records of stream (k, p) in the order in which the upstream received them (duplicates included) *)
Definition delivered (s : state) : list nat := flat_map (fun c => sq k p (c_toks c)) (rev (recvp p s)).

Lemma delivered_cons : forall l c, flat_map (fun c => sq k p (c_toks c)) (rev (c :: l))
  = flat_map (fun c => sq k p (c_toks c)) (rev l) ++ sq k p (c_toks c).
Proof. intros. cbn. rewrite flat_map_app. cbn. rewrite app_nil_r. reflexivity. Qed.

Lemma order_of_receipts : forall l,
  ro l ->
  (forall c, In c l -> incr (sq k p (c_toks c))) ->
  (forall c c', In c l -> In c' l -> c_id c < c_id c' -> forall x y, In x (sq k p (c_toks c)) -> In y (sq k p (c_toks c')) -> x < y) ->
  incr (first_occ (flat_map (fun c => sq k p (c_toks c)) (rev l))).
Proof.
  induction l as [|c l IH]; intros Hro Hin Hid; [exact I|].
  rewrite delivered_cons. unfold first_occ. rewrite fo_app. rewrite app_nil_r.
  destruct Hro as [Hc Hro].
  assert (IHl : incr (first_occ (flat_map (fun c => sq k p (c_toks c)) (rev l)))).
  { apply IH; [exact Hro|intros; apply Hin; right; assumption|intros c1 c2 H1 H2; apply Hid; right; assumption]. }
  unfold first_occ in IHl.
  destruct Hc as [Hc|Hc].
  - (* a retransmission: nothing new *)
    rewrite (fo_all_seen (sq k p (c_toks c))); [rewrite app_nil_r; exact IHl|].
    intros x Hx. apply in_flat_map. exists c. split; [apply -> in_rev; assumption|assumption].
  - (* a first transmission: every record of it is newer than everything delivered before *)
    assert (Lt : forall x y, In x (flat_map (fun c => sq k p (c_toks c)) (rev l)) -> In y (sq k p (c_toks c)) -> x < y).
    { intros x y Hx Hy. apply in_flat_map in Hx. destruct Hx as [a [Ha Hx]]. apply in_rev in Ha.
      apply (Hid a c); [right; assumption|left; reflexivity|apply Hc; assumption|assumption|assumption]. }
    rewrite (fo_fresh (sq k p (c_toks c))).
    + apply incr_app. split; [exact IHl|]. split; [apply Hin; left; reflexivity|].
      intros x y Hx Hy. apply Lt; [eapply fo_in; exact Hx|exact Hy].
    + apply incr_NoDup. apply Hin. left. reflexivity.
    + intros x Hx Hs. specialize (Lt x x Hs Hx). lia.
Qed.

End Stream.

(* ---------- the invariants hold in every reachable state of an order-safe run ---------- *)

Lemma order_invariants : forall k p es s,
  steps init es = Some s -> order_safe es = true -> aux s /\ cons_inv s /\ ordp p s /\ ordt k p s.
Proof.
  intros k p es.
  assert (G : forall es s0 s, aux s0 -> cons_inv s0 -> ordp p s0 -> ordt k p s0 ->
              steps s0 es = Some s -> order_safe es = true -> aux s /\ cons_inv s /\ ordp p s /\ ordt k p s).
  { clear es. induction es as [|e es IH]; intros s0 s Ha Hc Ho Ht H Hs; cbn in H.
    - inversion H; subst. tauto.
    - destruct (step s0 e) as [s1|] eqn:E; [|discriminate]. cbn in Hs. apply andb_true_iff in Hs. destruct Hs as [Hs1 Hs2].
      apply (IH s1 s); auto.
      + eapply aux_step; eauto.
      + eapply cons_step; eauto.
      + eapply ordp_step; eauto.
      + eapply ordt_step; eauto. exact (P4 _ _ Ho). }
  intros s H Hs. apply (G es init s); auto using aux_init, cons_init, ordp_init, ordt_init.
Qed.

(* per_stream_order: the first deliveries of the records of a stream are in arrival order *)
Lemma per_stream_order_lemma : forall k p es s,
  steps init es = Some s -> order_safe es = true -> incr (first_occ (delivered k p s)).
Proof.
  intros k p es s H Hs. destruct (order_invariants k p es s H Hs) as [Ha [Hc [Ho Ht]]].
  unfold delivered. apply order_of_receipts.
  - exact (P10 _ _ Ho).
  - intros c Hin. apply recvp_in in Hin. destruct Hin as [Hin Ep].
    apply (T2 _ _ _ Ht c); [unfold all_chunks; rewrite !in_app_iff; tauto|exact Ep].
  - intros c c' Hin Hin' Hlt. apply recvp_in in Hin. apply recvp_in in Hin'. destruct Hin as [Hin Ep]. destruct Hin' as [Hin' Ep'].
    apply (T3 _ _ _ Ht c c'); auto; unfold all_chunks; rewrite !in_app_iff; tauto.
Qed.

(* per_connection_creation_order: on the current upstream connection of a pipeline the chunks were transmitted in
   increasing id (= creation) order, and every chunk of the pipeline that is still to be transmitted (leftovers,
   window, feeder, queue) is newer than every chunk already transmitted on this connection: no older undelivered
   chunk is skipped.  The same chain orders retransmission (leftovers first, sorted) before new chunks. *)
Lemma per_connection_creation_order_lemma : forall p es s,
  steps init es = Some s -> order_safe es = true ->
  incr (idsp p (unacked s)) /\
  incr (idsp p (leftovers s) ++ idsp p (window s) ++ idsp p (fhand s) ++ idsp p (queue s)) /\
  (forall u q, In u (idsp p (unacked s)) ->
               In q (idsp p (leftovers s) ++ idsp p (window s) ++ idsp p (fhand s) ++ idsp p (queue s)) -> u < q).
Proof.
  intros p es s H Hs. destruct (order_invariants 0 p es s H Hs) as [_ [_ [Ho _]]].
  pose proof (P5 _ _ Ho) as C. unfold chain in C. apply incr_app in C. tauto.
Qed.

(* recovery order: after a restart the queue of a pipeline holds its chunk files in increasing id order *)
Lemma recovery_sorted_lemma : forall p es s s',
  steps init es = Some s -> order_safe es = true -> step s ERestart = Some s' ->
  incr (idsp p (queue s')) /\ (forall c, In c (files s) -> c_pipe c = p -> In (c_id c) (idsp p (queue s'))).
Proof.
  intros p es s s' H Hs Hr. destruct (order_invariants 0 p es s H Hs) as [_ [_ [Ho _]]].
  assert (Ho' : ordp p s') by (apply (ordp_step p s ERestart s' Ho eq_refl Hr)).
  pose proof (P5 _ _ Ho') as C. split.
  - unfold chain in C. rewrite !incr_app in C. tauto.
  - clear C Ho'. step_inv Hr. intros c Hc Ep. cbn [queue]. unfold recovered_queue. apply idsp_in.
    exists (new_item c false true). split; [apply sort_items_in; apply (in_map (fun c => new_item c false true)); assumption|]. split; [apply item_on_eq; exact Ep|reflexivity].
Qed.

(* ---------- the boolean order check printed by the acceptor follows from the theorem ---------- *)

Lemma incrb_spec : forall l, incrb l = true <-> incr l.
Proof.
  induction l as [|x l IH]; cbn; [tauto|]. rewrite andb_true_iff, forallb_forall, IH. split.
  - intros [H1 H2]. split; [|assumption]. intros y Hy. apply Nat.ltb_lt. apply H1. assumption.
  - intros [H1 H2]. split; [|assumption]. intros y Hy. apply Nat.ltb_lt. apply H1. assumption.
Qed.

Lemma deliveredb_eq : forall k p s, deliveredb k p s = delivered k p s.
Proof. reflexivity. Qed.

Lemma order_check_lemma : forall es s, steps init es = Some s -> order_safe es = true -> order_check s = true.
Proof.
  intros es s H Hs. unfold order_check. apply forallb_forall. intros [k p] _. cbn [fst snd].
  apply incrb_spec. rewrite deliveredb_eq. eapply per_stream_order_lemma; eassumption.
Qed.

Lemma first_receipts_by_id_lemma :
  forall k p es s, steps init es = Some s -> order_safe es = true ->
  ro (recvp p s) /\
  (forall c c', In c (received s) -> In c' (received s) -> c_pipe c = p -> c_pipe c' = p -> c_id c < c_id c' ->
     forall x y, In x (sq k p (c_toks c)) -> In y (sq k p (c_toks c')) -> x < y).
Proof.
  intros k p es s H Hs. destruct (order_invariants k p es s H Hs) as [_ [_ [Ho Ht]]]. split; [exact (P10 _ _ Ho)|].
  intros c c' Hc Hc'. apply (T3 _ _ _ Ht c c'); unfold all_chunks; rewrite !in_app_iff; tauto.
Qed.
