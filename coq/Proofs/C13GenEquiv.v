(* C13: the Gallina terms GENERATED from transform/tparsetime/atoi.go and rfc3339.go (Gen/C13Gen.v,
   regenerated on every check) compute the same functions as the hand-written model
   Model/ParseTime.v, for every byte string, panics included; supplied fuel always suffices. *)
From SV Require Import Model.Common Model.GoSem Model.ParseTime Spec.TimeSpec Proofs.GoSemFacts Proofs.ParseTimeProofs.
From SV Require Gen.C13Gen.
From Coq Require Import Lia ZifyBool ZifyN ZifyNat.
Open Scope Z_scope.

Ltac done13 := unfold bsub0 in *; gosym_done.
Ltac close_cond :=
  repeat (cbn [gbind]; try split_if); cbn [gbind]; first [reflexivity | f_equal; lia | exfalso; lia].

(* ---------- atoi2 / atoi4: the model reads t[i..] of the whole string, Go gets the slice ---------- *)
Lemma atoi2_gen_eq : forall s : bytes, same_result (ParseTime.atoi2 s 0) (C13Gen.atoi2 s).
Proof.
  intros s. unfold C13Gen.atoi2, ParseTime.atoi2, idx.
  do 2 (destruct s as [|? s]; [gosym; done13|]). gosym; done13.
Qed.

Lemma atoi4_gen_eq : forall s : bytes, same_result (ParseTime.atoi4 s 0) (C13Gen.atoi4 s).
Proof.
  intros s. unfold C13Gen.atoi4, ParseTime.atoi4, idx.
  do 4 (destruct s as [|? s]; [gosym; done13|]). gosym; done13.
Qed.

(* the model's view: digits at offset i of t = Go's atoi on the slice t[i:i+n] *)
Lemma nth_error_skipn_add : forall {A} (l : list A) i j, nth_error (skipn i l) j = nth_error l (i + j).
Proof.
  intros A l i. revert l. induction i as [|i IH]; intros l j; [reflexivity|].
  destruct l as [|x l]; [destruct j; reflexivity|]. cbn [skipn Nat.add nth_error]. apply IH.
Qed.

Lemma atoi2_gen_at : forall (t : bytes) (i : nat),
  (i + 2 <= length t)%nat ->
  same_result (ParseTime.atoi2 t i) (C13Gen.atoi2 (firstn 2 (skipn i t))).
Proof.
  intros t i H. pose proof (atoi2_gen_eq (firstn 2 (skipn i t))) as E.
  unfold ParseTime.atoi2, idx in *.
  assert (Hl : (2 <= length (skipn i t))%nat) by (rewrite skipn_length; lia).
  remember (skipn i t) as sk eqn:Esk.
  replace (nth_error t i) with (nth_error sk 0) by (subst sk; rewrite nth_error_skipn_add; f_equal; lia).
  replace (nth_error t (i + 1)) with (nth_error sk 1) by (subst sk; rewrite nth_error_skipn_add; reflexivity).
  destruct sk as [|a [|b r]]; cbn [length] in Hl; try lia.
  cbn [firstn nth_error Nat.add bind] in E |- *. exact E.
Qed.

(* ---------- parseFractionNanos ---------- *)
(* Go returns (int, error); the model an outcome: nil error = Ok value, non-nil = the model's Err 2 *)
Definition frac_result (r : Z * goerror) : outcome Z :=
  match r with
  | (v, ErrNil) => Ok v
  | (_, ErrSome) => Err 2%N
  end.

Lemma pfn_gen_eq : forall f : bytes,
  to_outcome_with frac_result (C13Gen.parseFractionNanos f) = parse_fraction_nanos f.
Proof.
  intros f. unfold C13Gen.parseFractionNanos, C13Gen.parseFractionNanos_fuel, parse_fraction_nanos.
  destruct f as [|dot ds]; [gosym; done13|].
  rewrite go_slice_from_cons by lia. cbn [Z.sub Z.add Z.opp Z.pos_sub]. rewrite go_slice_from_0.
  do 9 (destruct ds as [|? ds]; [gosym; done13|]).
  gosym; done13.
Qed.

(* in particular the fuel (10) suffices and nothing panics *)
Lemma pfn_gen_total : forall f : bytes, exists r, C13Gen.parseFractionNanos f = GOk r.
Proof.
  intros f. generalize (pfn_gen_eq f). unfold parse_fraction_nanos.
  destruct (C13Gen.parseFractionNanos f) as [r| |]; cbn [to_outcome_with]; [eauto| |];
    destruct f as [|? [|? ?]]; discriminate.
Qed.

(* ---------- splitFractionAndTimezone ---------- *)
Lemma span_digits_split : forall s, let (d, r) := span_digits s in
  s = d ++ r /\ Forall (fun c => is_digit c = true) d /\ match r with [] => True | c :: _ => is_digit c = false end.
Proof.
  induction s as [|c s IH]; cbn [span_digits].
  - repeat split; constructor.
  - destruct (is_digit c) eqn:E.
    + destruct (span_digits s) as [d r]. destruct IH as (-> & Hd & Hr). repeat split; auto.
    + repeat split; auto.
Qed.

Lemma split_frac_tz_other : forall c0 s, c0 <> 46%N -> split_frac_tz (c0 :: s) = ([], c0 :: s).
Proof.
  intros c0 s Hne. destruct c0 as [|p]; [reflexivity|].
  do 6 (destruct p as [p|p|]; try reflexivity). congruence.
Qed.

Lemma split_frac_tz_one : forall c0, split_frac_tz [c0] = ([], [c0]).
Proof. intros c0. destruct (N.eq_dec c0 46) as [->|H]; [reflexivity|apply split_frac_tz_other; assumption]. Qed.

Lemma sft_gen_eq : forall s : bytes, C13Gen.splitFractionAndTimezone s = GOk (split_frac_tz s).
Proof.
  intros s. unfold C13Gen.splitFractionAndTimezone, C13Gen.splitFractionAndTimezone_fuel.
  destruct s as [|c0 s]; [gosym; done13|].
  destruct s as [|c1 s]; [rewrite split_frac_tz_one; gosym; done13|].
  destruct (N.eq_dec c0 46) as [->|Hne]; [|rewrite split_frac_tz_other by assumption; gosym; done13].
  change (split_frac_tz (46%N :: c1 :: s)) with (let (d, r) := span_digits (c1 :: s) in (46%N :: d, r)).
  pose proof (span_digits_split (c1 :: s)) as Hsp.
  destruct (span_digits (c1 :: s)) as [d r]. destruct Hsp as (Hs & Hd & Hr).
  (* the prologue, whatever its shape: every condition is closed *)
  gosym0.
  set (p0 := 46%N :: c1 :: s) in *.
  assert (Hp0 : p0 = (46%N :: d) ++ r) by (unfold p0; rewrite Hs; reflexivity).
  erewrite go_loop_inv_eq with
    (Inv := fun i => 1 <= i <= 1 + go_len d)
    (measure := fun i => Z.to_nat (1 + go_len d - i))
    (res := inl (go_len (46%N :: d))).
  - cbn [gbind]. rewrite Hp0. rewrite go_slice_to_app, go_slice_from_app. reflexivity.
  - (* one iteration *)
    intros i Hi. cbv beta.
    assert (Hlen : go_len p0 = 1 + go_len d + go_len r).
    { rewrite Hp0. unfold go_len. rewrite app_length. cbn [length]. lia. }
    destruct (Z.eq_dec i (1 + go_len d)) as [->|Hlt].
    + (* at the end of the digits: the condition is false *)
      exists false. split; [|rewrite go_len_cons; f_equal; lia].
      destruct r as [|c r].
      * replace (1 + go_len d <? go_len p0) with false by (unfold go_len in *; cbn [length] in *; lia).
        reflexivity.
      * replace (1 + go_len d <? go_len p0) with true by (unfold go_len in *; cbn [length] in *; lia).
        replace (go_index p0 (1 + go_len d)) with (GOk c).
        2: { rewrite Hp0. replace (1 + go_len d) with (go_len (46%N :: d)) by (rewrite go_len_cons; lia).
             rewrite go_index_app_len. reflexivity. }
        unfold is_digit in Hr. close_cond.
    + (* inside the digits: the condition is true, the body steps to i+1 *)
      exists true.
      assert (Hn : exists c, nth_error d (Z.to_nat (i - 1)) = Some c).
      { destruct (nth_error d (Z.to_nat (i - 1))) eqn:En; [eauto|].
        apply nth_error_None in En. unfold go_len in *. lia. }
      destruct Hn as (c & Hn).
      assert (Hc : is_digit c = true).
      { rewrite Forall_forall in Hd. apply Hd. eapply nth_error_In; eassumption. }
      assert (Hix : go_index p0 i = GOk c).
      { apply go_index_nth; [lia|]. rewrite Hp0.
        replace (Z.to_nat i) with (S (Z.to_nat (i - 1))) by lia. cbn [app nth_error].
        rewrite nth_error_app1; [assumption|]. apply nth_error_Some. congruence. }
      split.
      * rewrite Hix. replace (i <? go_len p0) with true by (pose proof (go_len_nonneg r); lia).
        unfold is_digit in Hc. close_cond.
      * eexists. split; [reflexivity|]. cbv beta. eexists. split; [reflexivity|]. split; lia.
  - pose proof (go_len_nonneg d). lia.
  - assert (Hl : length (c1 :: s) = length (d ++ r)) by (rewrite Hs; reflexivity).
    rewrite app_length in Hl. unfold go_len in *. cbn [length] in *. lia.
Qed.

(* ---------- headline facts of C13, restated about the generated functions ---------- *)
(* the fraction of every rendered timestamp is parsed exactly by the code generated from the source *)
Lemma pfn_gen_render : forall f : list N,
  Forall (fun d => (d < 10)%N) f -> (length f <= 9)%nat ->
  C13Gen.parseFractionNanos (render_frac f) = GOk (frac_nanos f, ErrNil).
Proof.
  intros f Hf Hl. pose proof (pfn_gen_eq (render_frac f)) as E.
  rewrite parse_fraction_render in E by assumption.
  destruct (C13Gen.parseFractionNanos (render_frac f)) as [[v [|]]| |]; cbn in E; congruence.
Qed.

Lemma sft_gen_render : forall f z,
  Forall (fun d => (d < 10)%N) f ->
  C13Gen.splitFractionAndTimezone (render_frac f ++ render_zone z) = GOk (render_frac f, render_zone z).
Proof. intros f z Hf. rewrite sft_gen_eq. rewrite split_frac_render by assumption. reflexivity. Qed.
