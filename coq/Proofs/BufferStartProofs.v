(* The start-up steps of Model/BufferStart.v refine the atomic ERestart of Model/Buffer.v when the recovery loop
   runs inside Start (the order of the code) - for every interleaving; they do not when the loop runs in the
   background (witness).  Consequences for the order in which the consumer receives chunks. *)
From SV Require Import Model.Common Model.FileWrite Model.Buffer Model.BufferStart Spec.BufferSpec
     Proofs.CommonFacts Proofs.FileWriteProofs Proofs.BufferInv Proofs.BufferProofs Proofs.BufferTheorems.
From Coq Require Import Lia ZifyBool ZifyN ZifyNat Sorting.Sorted.
Ltac Zify.zify_post_hook ::= Z.div_mod_to_equations.

(* ---------- order-preserving selections ---------- *)
Lemma subseq_trans : forall {A} (l2 l3 : list A), subseq l2 l3 -> forall l1, subseq l1 l2 -> subseq l1 l3.
Proof.
  intros A l2 l3 H. induction H as [|x l2 l3 H IH|x l2 l3 H IH]; intros l1 H1.
  - exact H1.
  - apply subseq_skip. apply IH. exact H1.
  - inversion H1; subst.
    + apply subseq_skip. apply IH. assumption.
    + apply subseq_take. apply IH. assumption.
Qed.

Lemma subseq_map : forall {A B} (f : A -> B) (l1 l2 : list A), subseq l1 l2 -> subseq (map f l1) (map f l2).
Proof.
  intros A B f l1 l2 H. induction H; cbn [map].
  - apply subseq_nil.
  - apply subseq_skip. assumption.
  - apply subseq_take. assumption.
Qed.

Lemma subseq_length : forall {A} (l1 l2 : list A), subseq l1 l2 -> (length l1 <= length l2)%nat.
Proof. intros A l1 l2 H. induction H; cbn [length]; lia. Qed.

Lemma subseq_full : forall {A} (l1 l2 : list A), subseq l1 l2 -> length l1 = length l2 -> l1 = l2.
Proof.
  intros A l1 l2 H. induction H as [|x l1 l2 H IH|x l1 l2 H IH]; intros Hl; cbn [length] in Hl.
  - reflexivity.
  - pose proof (subseq_length _ _ H). lia.
  - f_equal. apply IH. lia.
Qed.

Section StartProofs.
Variable matchf : name -> bool.
Variable dirsize : Z.

Notation step := (step matchf dirsize).
Notation run := (run matchf dirsize).
Notation restart := (restart matchf dirsize).
Notation restart_with := (restart_with dirsize).
Notation recover_push := (recover_push dirsize).
Notation sstep := (sstep matchf dirsize).
Notation srun := (srun matchf dirsize).

(* ---------- the consumer-visible order (any reachable state of Buffer.v) ---------- *)

(* What the consumers have received, in the order they received it, is an order-preserving selection of:
   the recovered chunks in ID (= creation) order, then the accepted and enqueued chunks in acceptance order. *)
Lemma consumer_order_lemma : matcher_ok matchf ->
  forall s, reachable matchf dirsize s -> st_up s = true ->
  let g := st_gh s in
  subseq (ids (taken g)) (g_rec g ++ enq_ids g) /\ StronglySorted name_lt (g_rec g).
Proof.
  intros Hm s Hr Hup g. subst g.
  destruct (fifo_lemma matchf dirsize Hm s Hr Hup) as (_ & Hsorted & (rest & Hfifo) & Hoff & _ & Htaken).
  split; [|exact Hsorted].
  rewrite Hfifo. apply subseq_app_r.
  apply (subseq_trans (ids (g_offered (st_gh s)))).
  - rewrite Hoff. unfold offered_ids. apply subseq_filter_map.
  - unfold ids. apply subseq_map. exact Htaken.
Qed.

(* ... so once as many chunks have been received as were recovered and enqueued, the order received IS that sequence *)
Lemma order_determined_lemma : matcher_ok matchf ->
  forall s, reachable matchf dirsize s -> st_up s = true ->
  let g := st_gh s in
  length (taken g) = length (g_rec g ++ enq_ids g) ->
  ids (taken g) = g_rec g ++ enq_ids g.
Proof.
  intros Hm s Hr Hup g Hl. subst g. destruct (consumer_order_lemma Hm s Hr Hup) as [Hs _].
  apply subseq_full; [exact Hs|]. unfold ids. rewrite map_length. exact Hl.
Qed.

(* ---------- restart_with ---------- *)
Lemma restart_is_restart_with : forall Q M maxb dirok s,
  restart Q M maxb dirok s = restart_with (firstn Q (scan matchf dirok (st_dir s))) Q M maxb dirok s.
Proof. reflexivity. Qed.

Lemma recover_push_restart_with : forall c rec Q M maxb dirok s,
  recover_push c (restart_with rec Q M maxb dirok s) = restart_with (rec ++ [c]) Q M maxb dirok s.
Proof.
  intros. unfold BufferStart.recover_push, BufferStart.restart_with.
  cbn [st_dir st_met st_queue st_gh set_gh set_met set_queue st_ever st_gen st_up st_dirok st_Q st_M st_max
       st_closed st_fpc st_win st_hold st_cons].
  rewrite fold_left_app, map_app. cbn [fold_left map].
  unfold gset_initbytes, gset_rec, ghost0.
  cbn [g_acc g_rec g_init g_proc g_offered g_out g_confirmed g_dropped g_retained g_initbytes g_maxfw].
  reflexivity.
Qed.

(* ---------- forward simulation, order of the code ---------- *)

(* a: the state of the atomic model after the collapsed events; ss: the state of the stepwise model *)
Definition sim (a : state) (ss : sstate) : Prop :=
  match ph_pending (ss_ph ss) with
  | None => a = ss_b ss
  | Some pending =>
    ph_returned (ss_ph ss) = false /\ ph_feeder (ss_ph ss) = false /\
    exists pre Q M maxb dirok done,
      a = restart Q M maxb dirok pre /\
      ss_b ss = restart_with done Q M maxb dirok pre /\
      scan matchf dirok (st_dir pre) = done ++ pending /\
      (length done <= Q)%nat
  end.

Lemma firstn_app_exact : forall {A} (l1 l2 : list A) n, length l1 = n -> firstn n (l1 ++ l2) = l1.
Proof.
  intros A l1 l2 n H. subst n. rewrite firstn_app, Nat.sub_diag, firstn_all. cbn [firstn]. apply app_nil_r.
Qed.

Lemma sim_step : forall a ss e ss',
  sim a ss -> sstep RecoverThenReturn ss e = Some ss' ->
  exists a', run a (collapse e) = Some a' /\ sim a' ss'.
Proof.
  intros a [b ph] e ss' Hsim Hst. unfold sim in Hsim. cbn [ss_b ss_ph] in Hsim.
  destruct (ph_pending ph) as [pending|] eqn:Epend.
  - (* inside the recovery loop: only SRecoverOne is enabled *)
    destruct Hsim as (Hret & Hfeed & pre & Q & M & maxb & dirok & done & Ha & Hb & Hscan & Hlen).
    destruct e as [Q' M' maxb' dirok'| | | |ev]; unfold BufferStart.sstep in Hst; cbn [ss_b ss_ph] in Hst.
    + exfalso. rewrite Hb in Hst. unfold down, BufferStart.restart_with in Hst. cbn in Hst. discriminate.
    + rewrite Epend in Hst. cbn [collapse Buffer.run]. exists a. split; [reflexivity|].
      destruct pending as [|c rest].
      * (* nothing left *)
        inversion Hst; subst ss'. unfold sim. cbn [ss_b ss_ph set_pending ph_pending].
        rewrite Ha, Hb, restart_is_restart_with, Hscan, app_nil_r. rewrite firstn_all2 by exact Hlen. reflexivity.
      * assert (Hq : st_queue b = done) by (rewrite Hb; reflexivity).
        assert (HQ : st_Q b = Q) by (rewrite Hb; reflexivity).
        rewrite Hq, HQ in Hst.
        destruct (Nat.ltb (length done) Q) eqn:Elt.
        -- apply Nat.ltb_lt in Elt. inversion Hst; subst ss'. unfold sim.
           cbn [ss_b ss_ph set_pending ph_pending ph_returned ph_feeder].
           split; [exact Hret|]. split; [exact Hfeed|].
           exists pre, Q, M, maxb, dirok, (done ++ [c]). repeat split.
           ++ exact Ha.
           ++ rewrite Hb. apply recover_push_restart_with.
           ++ rewrite Hscan, <- app_assoc. reflexivity.
           ++ rewrite app_length. cbn [length]. lia.
        -- apply Nat.ltb_ge in Elt. inversion Hst; subst ss'. unfold sim. cbn [ss_b ss_ph set_pending ph_pending].
           rewrite Ha, Hb, restart_is_restart_with, Hscan. rewrite firstn_app_exact by lia. reflexivity.
    + rewrite Hret, Epend in Hst. discriminate.
    + rewrite Hfeed, Epend in Hst. discriminate.
    + assert (Hg : gate ph ev = false).
      { unfold gate. rewrite Epend, Hret, Hfeed. destruct ev; reflexivity. }
      rewrite Hg in Hst. discriminate.
  - (* no recovery loop running: the stepwise state IS the atomic state *)
    subst a.
    destruct e as [Q' M' maxb' dirok'| | | |ev]; unfold BufferStart.sstep in Hst; cbn [ss_b ss_ph] in Hst.
    + destruct (down b && Nat.ltb 0 Q' && Nat.ltb 0 M') eqn:Eg; [|discriminate].
      inversion Hst; subst ss'. cbn [collapse Buffer.run]. unfold Buffer.step. rewrite Eg.
      eexists. split; [reflexivity|]. unfold sim. cbn [ss_b ss_ph ph_pending ph_returned ph_feeder].
      split; [reflexivity|]. split; [reflexivity|].
      exists b, Q', M', maxb', dirok', []. repeat split. cbn [length]. lia.
    + rewrite Epend in Hst. discriminate.
    + destruct (ph_returned ph); [discriminate|]. rewrite Epend in Hst. inversion Hst; subst ss'.
      cbn [collapse Buffer.run]. exists b. split; [reflexivity|]. unfold sim. cbn [ss_b ss_ph ph_pending].
      try rewrite Epend. reflexivity.
    + destruct (ph_feeder ph); [discriminate|]. rewrite Epend in Hst. inversion Hst; subst ss'.
      cbn [collapse Buffer.run]. exists b. split; [reflexivity|]. unfold sim. cbn [ss_b ss_ph ph_pending]. reflexivity.
    + destruct (gate ph ev); [|discriminate]. destruct (step b ev) as [b'|] eqn:Es; [|discriminate].
      inversion Hst; subst ss'. cbn [collapse Buffer.run]. rewrite Es. exists b'. split; [reflexivity|].
      unfold sim. cbn [ss_b ss_ph]. rewrite Epend. reflexivity.
Qed.

Definition collapse_all (evs : list sevent) : list event := concat (map collapse evs).

Lemma sim_run : forall evs a ss ss',
  sim a ss -> srun RecoverThenReturn ss evs = Some ss' ->
  exists a', run a (collapse_all evs) = Some a' /\ sim a' ss'.
Proof.
  induction evs as [|e evs IH]; intros a ss ss' Hsim Hrun; cbn [BufferStart.srun] in Hrun.
  - inversion Hrun; subst. exists a. split; [reflexivity|exact Hsim].
  - destruct (sstep RecoverThenReturn ss e) as [ss1|] eqn:Es; [|discriminate].
    destruct (sim_step _ _ _ _ Hsim Es) as (a1 & Hr1 & Hsim1).
    destruct (IH _ _ _ Hsim1 Hrun) as (a' & Hr' & Hsim').
    exists a'. split; [|exact Hsim'].
    unfold collapse_all. cbn [map concat]. rewrite run_app, Hr1. exact Hr'.
Qed.

Lemma sim_init : forall d, sim (init d) (sinit d).
Proof. intros d. reflexivity. Qed.

(* REFINEMENT.  Every run of the stepwise model in the order of the code - every interleaving of the start-up steps
   with Accept, the feeder's steps, the consumers' calls, Destroy, further generations - that is not inside a
   recovery loop ends in the state the ATOMIC model reaches on the same events with each start-up collapsed into
   one ERestart. *)
Lemma startup_refines_atomic : forall d evs ss,
  srun RecoverThenReturn (sinit d) evs = Some ss -> ph_pending (ss_ph ss) = None ->
  run (init d) (collapse_all evs) = Some (ss_b ss).
Proof.
  intros d evs ss Hrun Hp. destruct (sim_run _ _ _ _ (sim_init d) Hrun) as (a' & Hr & Hsim).
  unfold sim in Hsim. rewrite Hp in Hsim. subst a'. exact Hr.
Qed.

Lemma startup_reachable : forall d evs ss, dir_sorted d ->
  srun RecoverThenReturn (sinit d) evs = Some ss -> ph_pending (ss_ph ss) = None ->
  reachable matchf dirsize (ss_b ss).
Proof.
  intros d evs ss Hd Hrun Hp. exists d, (collapse_all evs). split; [exact Hd|].
  apply startup_refines_atomic; assumption.
Qed.

(* While the recovery loop runs (order of the code): Start has not returned, the feeder goroutine does not run,
   nothing has been accepted, and the queue holds exactly the scanned chunks enqueued so far - a prefix of the
   sorted scan whose remainder is what the loop still has to go through. *)
Lemma startup_during_recovery : forall d evs ss pending,
  srun RecoverThenReturn (sinit d) evs = Some ss -> ph_pending (ss_ph ss) = Some pending ->
  let b := ss_b ss in
  ph_returned (ss_ph ss) = false /\ ph_feeder (ss_ph ss) = false /\
  g_acc (st_gh b) = [] /\ st_win b = [] /\ st_fpc b = FRecv /\
  scan matchf (st_dirok b) (g_init (st_gh b)) = st_queue b ++ pending /\
  g_rec (st_gh b) = ids (st_queue b) /\ (length (st_queue b) <= st_Q b)%nat.
Proof.
  intros d evs ss pending Hrun Hp b. subst b.
  destruct (sim_run _ _ _ _ (sim_init d) Hrun) as (a' & Hr & Hsim).
  unfold sim in Hsim. rewrite Hp in Hsim.
  destruct Hsim as (Hret & Hfeed & pre & Q & M & maxb & dirok & done & Ha & Hb & Hscan & Hlen).
  rewrite Hb. unfold BufferStart.restart_with.
  cbn [st_gh st_win st_fpc st_dirok st_queue st_Q].
  unfold gset_initbytes, gset_rec, ghost0.
  cbn [g_acc g_rec g_init g_proc g_offered g_out g_confirmed g_dropped g_retained g_initbytes g_maxfw].
  repeat split; try assumption.
Qed.

(* FIFO across the start-up, stepwise model, order of the code, all interleavings *)
Lemma startup_fifo : matcher_ok matchf ->
  forall d evs ss, dir_sorted d ->
  srun RecoverThenReturn (sinit d) evs = Some ss -> ph_pending (ss_ph ss) = None -> st_up (ss_b ss) = true ->
  let g := st_gh (ss_b ss) in
  g_rec g = ids (firstn (st_Q (ss_b ss)) (scan matchf (st_dirok (ss_b ss)) (g_init g))) /\
  StronglySorted name_lt (g_rec g) /\
  subseq (ids (taken g)) (g_rec g ++ enq_ids g) /\
  (length (taken g) = length (g_rec g ++ enq_ids g) -> ids (taken g) = g_rec g ++ enq_ids g).
Proof.
  intros Hm d evs ss Hd Hrun Hp Hup g. subst g.
  pose proof (startup_reachable d evs ss Hd Hrun Hp) as Hr.
  destruct (fifo_lemma matchf dirsize Hm _ Hr Hup) as (Hrec & Hsorted & _).
  destruct (consumer_order_lemma Hm _ Hr Hup) as [Hsub _].
  repeat split; try assumption.
  apply (order_determined_lemma Hm _ Hr Hup).
Qed.

End StartProofs.

(* ---------- the variant: recovery in the background, Start returns first ---------- *)
Definition v_a : name := [97; 46; 102; 102].   (* "a.ff": the chunk file found at start-up *)
Definition v_b : name := [98; 46; 102; 102].   (* "b.ff": the chunk accepted right after Start returned *)
Definition v_dir : dirT := [(v_a, EFile [1; 2; 3])].

(* Start returns; Accept(b) is enqueued; only then the background goroutine enqueues the recovered a; the feeder
   runs; the consumer receives b, then a *)
Definition v_run : list sevent :=
  [SBegin 4 4 1000%Z true; SReturn; SEv (EAccept v_b [7; 8] ws_ok); SRecoverOne; SRecoverOne; SFeederGo;
   SEv ERegister;
   SEv EFeedTake; SEv (EFeedLoad false); SEv EFeedPush; SEv EConsTake;
   SEv EFeedTake; SEv (EFeedLoad false); SEv EFeedPush; SEv EConsTake].

Lemma not_subseq_ba_ab : ~ subseq [v_b; v_a] [v_a; v_b].
Proof.
  unfold v_a, v_b. intros H. inversion H; subst.
  match goal with H' : subseq _ _ |- _ => apply subseq_length in H'; cbn [length] in H'; lia end.
Qed.

Lemma startup_async_refuted :
  exists ss, srun match_ff 4096 ReturnThenRecover (sinit v_dir) v_run = Some ss /\
    ph_pending (ss_ph ss) = None /\ st_up (ss_b ss) = true /\
    g_rec (st_gh (ss_b ss)) = [v_a] /\ enq_ids (st_gh (ss_b ss)) = [v_b] /\
    ids (taken (st_gh (ss_b ss))) = [v_b; v_a] /\
    ~ subseq (ids (taken (st_gh (ss_b ss)))) (g_rec (st_gh (ss_b ss)) ++ enq_ids (st_gh (ss_b ss))).
Proof.
  eexists. split; [vm_compute; reflexivity|].
  split; [reflexivity|]. split; [reflexivity|]. split; [reflexivity|]. split; [reflexivity|]. split; [reflexivity|].
  exact not_subseq_ba_ab.
Qed.

(* the same events in the order of the code are not a run at all (SReturn is not enabled before the loop has
   finished); with the loop first, the consumer receives a, then b - whenever the feeder goroutine starts *)
Definition c_run (feeder_first : bool) : list sevent :=
  [SBegin 4 4 1000%Z true; SRecoverOne; SRecoverOne; SReturn] ++
  (if feeder_first then [SFeederGo; SEv (EAccept v_b [7; 8] ws_ok)] else [SEv (EAccept v_b [7; 8] ws_ok); SFeederGo]) ++
  [SEv ERegister;
   SEv EFeedTake; SEv (EFeedLoad false); SEv EFeedPush; SEv EConsTake;
   SEv EFeedTake; SEv (EFeedLoad false); SEv EFeedPush; SEv EConsTake].

Lemma startup_example :
  srun match_ff 4096 RecoverThenReturn (sinit v_dir) v_run = None /\
  forall ff, exists ss, srun match_ff 4096 RecoverThenReturn (sinit v_dir) (c_run ff) = Some ss /\
    ph_pending (ss_ph ss) = None /\ st_up (ss_b ss) = true /\
    ids (taken (st_gh (ss_b ss))) = [v_a; v_b] /\
    map (fun c => c_data c) (taken (st_gh (ss_b ss))) = [Some [1; 2; 3]; Some [7; 8]].
Proof.
  split; [vm_compute; reflexivity|].
  intros [|]; eexists; (split; [vm_compute; reflexivity|]); repeat split.
Qed.
