(* C07: concrete configurations and inputs evaluated by vm_compute: the hypotheses of the theorems are satisfiable
   (example), and the two defects of the original code (the switches c_fix_labels / c_fix_ser off). *)
From SV Require Import Model.Common.
From SV Require Model.Utf8 Model.Parser Model.ParseTime Model.Redact Model.Template Model.Extractor Model.Transforms
               Model.Routing Model.Serializer Model.PipelineSerializer Model.Packer Model.Framing.
From SV Require Import Model.Pipeline Proofs.PipelineProofs.
From SV Require Spec.FramingSpec Proofs.ParserProofs Proofs.TransformsProofs Proofs.TagTemplateProofs.
From Coq Require Import Lia.

Definition b (s : list N) : bytes := s.

Definition n_facility : bytes := [102;97;99;105;108;105;116;121]%N.
Definition n_level : bytes := [108;101;118;101;108]%N.
Definition n_time : bytes := [116;105;109;101]%N.
Definition n_host : bytes := [104;111;115;116]%N.
Definition n_app : bytes := [97;112;112]%N.
Definition n_pid : bytes := [112;105;100]%N.
Definition n_source : bytes := [115;111;117;114;99;101]%N.
Definition n_extradata : bytes := [101;120;116;114;97;100;97;116;97]%N.
Definition n_log : bytes := [108;111;103]%N.

Definition ex_schema : list bytes :=
  [n_facility; n_level; n_time; n_host; n_app; n_pid; n_source; n_extradata; n_log].

(* extractions: delFields [facility, pid, extradata]
   orchestration: keys [app], tag "t.$app";  metricKeys [host]
   transformations: parseTime key=time errorLabel=timeError; redactEmail key=log metricLabel=redacted;
                    drop (level = "debug") 100% label "dbg"
   one fluentdForward output: environment [host, app], rewrite log: unescape; PackedForward, no limits
   limits: InputLogMaxMessageBytes 64, InputLogMaxRecordBytes 96 (serializer buffer 192, line buffer 384) *)
Definition l_time_error : bytes := [116;105;109;101;69;114;114;111;114]%N.
Definition l_redacted : bytes := [114;101;100;97;99;116;101;100]%N.
Definition l_dbg : bytes := [100;98;103]%N.
Definition v_debug : bytes := [100;101;98;117;103]%N.

Definition ex_cfg (fix_labels fix_ser : bool) : config :=
  {| c_parser := {| Ps.max_msg := 64; Ps.max_rec := 96; Ps.level_mapping := Ps.severity_names |};
     c_nfields := 10;
     c_schema := ex_schema;
     c_locs := {| l_facility := 0; l_level := 1; l_time := 2; l_host := 3; l_app := 4; l_pid := 5;
                  l_source := 6; l_extradata := 7; l_log := 8 |};
     c_extract := XCons (XBase (T.TDelFields [0; 5; 7]%nat)) XNil;
     c_okeys := [4%nat];
     c_tag := [R.TLit [116; 46]%N; R.TVar 0];
     c_mkeys := [3%nat];
     c_transforms :=
       XCons (XBlock (XCons (XParseTime 2 l_time_error) XNil))
       (XCons (XRedact 8 l_redacted)
       (XCons (XBase (T.TDrop [(1%nat, T.VEq v_debug)] 100 l_dbg 0 0)) XNil));
     c_outputs := [ {| oc_kind := OFluentd {| S.c_env := [n_host; n_app]; S.c_hidden := [];
                                              S.c_rewrite := [(n_log, [S.RcUnescape])] |};
                       oc_pack := K.fluentd_config 1 0 0 [] |} ];
     c_buflen := 192; c_linebuf := 384; c_local_off := 0; c_json := (fun _ => []);
     c_fix_labels := fix_labels; c_fix_ser := fix_ser |}.

Definition O := T.tiny_oracles.

Lemma ex_config_ok : config_ok O (ex_cfg true true).
Proof.
  constructor; cbn.
  - reflexivity.
  - unfold locs_ok. cbn. lia.
  - lia.
  - split; exact I.
  - repeat split; lia.
  - repeat constructor.
  - repeat constructor.
  - repeat constructor.
  - constructor; [reflexivity|constructor].
  - reflexivity.
  - reflexivity.
Qed.

(* "<13>1 2020-01-02T03:04:05Z hostA appB 77 src - hello bob@example.org" *)
Definition rec_good1 : bytes :=
  [60;49;51;62;49;32; 50;48;50;48;45;48;49;45;48;50;84;48;51;58;48;52;58;48;53;90;32;
   104;111;115;116;65;32; 97;112;112;66;32; 55;55;32; 115;114;99;32; 45;32;
   104;101;108;108;111;32;98;111;98;64;101;120;97;109;112;108;101;46;111;114;103]%N.
(* "<14>1 - hostA appC 78 src - second record, NIL timestamp" *)
Definition rec_good2 : bytes :=
  [60;49;52;62;49;32; 45;32; 104;111;115;116;65;32; 97;112;112;67;32; 55;56;32; 115;114;99;32; 45;32;
   115;101;99;111;110;100;32;114;101;99;111;114;100;44;32;78;73;76;32;116;105;109;101]%N.
(* "<999>1 2020-01-02T03:04:05Z hostA appB 77 src - PRI out of range" : a record START the parser rejects *)
Definition rec_bad : bytes :=
  [60;57;57;57;62;49;32; 50;48;50;48;45;48;49;45;48;50;84;48;51;58;48;52;58;48;53;90;32;
   104;111;115;116;65;32; 97;112;112;66;32; 55;55;32; 115;114;99;32; 45;32; 80;82;73]%N.

Definition ex_lines : list bytes := [rec_good1; rec_bad; rec_good2; rec_bad].

(* the stream in two reads cut inside the first header, a read timeout (Flush) in between, then EOF *)
Definition ex_stream : bytes := FramingSpec.unlines ex_lines.
Definition ex_evs1 : list F.event :=
  [F.EvData (firstn 20 ex_stream) false; F.EvTimeout; F.EvData (skipn 20 ex_stream) true; F.EvClose].
(* the same connection without the malformed records, in one read *)
Definition ex_evs2 : list F.event := [F.EvData (FramingSpec.unlines [rec_good1; rec_good2]) false].

Lemma ex_lines_valid : Forall (FramingSpec.valid_line F.trs 96) ex_lines.
Proof.
  repeat constructor; try discriminate; try (vm_compute; lia);
    try (unfold FramingSpec.nonl; intros Hin; vm_compute in Hin; repeat (destruct Hin as [Hin|Hin]; [discriminate|]); exact Hin).
Qed.

Lemma ex_texts :
  FramingSpec.ops_text (F.conn_ops ex_evs1) = FramingSpec.unlines ex_lines /\
  FramingSpec.ops_text (F.conn_ops ex_evs2) = FramingSpec.unlines (filter (good (ex_cfg true true)) ex_lines).
Proof. split; vm_compute; reflexivity. Qed.

(* what the example run does: the first record goes to pipeline 0 (appB), the malformed ones are dropped and counted,
   the third record opens pipeline 1 (appC); the input counters show 2 passed / 2 dropped *)
Lemma ex_run :
  match conn_run O (ex_cfg true true) g_init (1600000000, 0)%Z 0%Z ex_evs1 with
  | Ok (g, c, [RPassed 0 [s1] _; RDropParse; RPassed 1 [s2] _; RDropParse]) =>
      s1 <> [] /\ s2 <> [] /\ length (g_pipes g) = 2%nat /\
      Ps.passed_n (cs_input c) = 2%N /\ Ps.dropped_n (cs_input c) = 2%N /\
      Ps.dropped_bytes (cs_input c) = (2 * N.of_nat (length rec_bad))%N
  | _ => False
  end.
Proof. vm_compute. repeat split; discriminate. Qed.

(* ---------- the original code: defect 17 (label values) ---------- *)
(* "<13>1 2020-01-02T03:04:05Z ho\xFFst appB 77 src - hello world....." : invalid UTF-8 in the metric key field *)
Definition rec_bad_label : bytes :=
  [60;49;51;62;49;32; 50;48;50;48;45;48;49;45;48;50;84;48;51;58;48;52;58;48;53;90;32;
   104;111;255;115;116;32; 97;112;112;66;32; 55;55;32; 115;114;99;32; 45;32;
   104;101;108;108;111;32;119;111;114;108;100]%N.

Lemma original_label_panic :
  process_record O (ex_cfg false true) g_init (new_conn (ex_cfg false true)) (1600000000, 0)%Z 0%Z rec_bad_label
  = Panic site_label.
Proof. vm_compute. reflexivity. Qed.

(* with the repair the same record is delivered, and the registry still gathers *)
Lemma fixed_label_passes :
  match process_record O (ex_cfg true true) g_init (new_conn (ex_cfg true true)) (1600000000, 0)%Z 0%Z rec_bad_label with
  | Ok (g, _, RPassed 0 [s] _) => s <> [] /\ metrics_ok g = true
  | _ => False
  end.
Proof. vm_compute. split; [discriminate|reflexivity]. Qed.

(* invalid UTF-8 in an ORCHESTRATION key of the original code: no panic, but the registry can no longer gather *)
Definition rec_bad_okey : bytes :=
  [60;49;51;62;49;32; 50;48;50;48;45;48;49;45;48;50;84;48;51;58;48;52;58;48;53;90;32;
   104;111;115;116;65;32; 97;112;255;66;32; 55;55;32; 115;114;99;32; 45;32;
   104;101;108;108;111;32;119;111;114;108;100]%N.

Lemma original_okey_breaks_metrics :
  match process_record O (ex_cfg false true) g_init (new_conn (ex_cfg false true)) (1600000000, 0)%Z 0%Z rec_bad_okey with
  | Ok (g, _, RPassed 0 _ _) => metrics_ok g = false
  | _ => False
  end.
Proof. vm_compute. reflexivity. Qed.

(* ---------- the original code: defect 16 (serializer buffer) ---------- *)
(* a 200-byte host name: the parser limits only the message, the event does not fit the 192-byte buffer *)
Definition rec_huge_host : bytes :=
  [60;49;51;62;49;32; 50;48;50;48;45;48;49;45;48;50;84;48;51;58;48;52;58;48;53;90;32]%N
  ++ repeat 104%N 200 ++ [32; 97;112;112;66;32; 55;55;32; 115;114;99;32; 45;32; 120]%N.

Lemma original_overflow_panic :
  exists s, process_record O (ex_cfg true false) g_init (new_conn (ex_cfg true false)) (1600000000, 0)%Z 0%Z rec_huge_host
            = Panic s.
Proof. vm_compute. eexists. reflexivity. Qed.

Lemma fixed_overflow_passes :
  match process_record O (ex_cfg true true) g_init (new_conn (ex_cfg true true)) (1600000000, 0)%Z 0%Z rec_huge_host with
  | Ok (_, _, RPassed 0 [s] _) => (192 < length s)%nat
  | _ => False
  end.
Proof. vm_compute. lia. Qed.

(* ---------- boundary of the property (not a finding): a garbage line that is NOT a record start ---------- *)
(* Lines are records only from a start line on ("<ddd>1 ", 32 bytes): everything else is a continuation line of the
   record before it (multi-line support, C08_continuation_attached).  A garbage line after a well-formed record
   therefore ends up in that record's message; the records AFTER it are untouched. *)
Definition garbage_line : bytes := [255; 254; 32; 103; 97; 114; 98; 97; 103; 101]%N.

Lemma garbage_line_joins_previous :
  conn_records (ex_cfg true true) [F.EvData (FramingSpec.unlines [rec_good1; garbage_line; rec_good2]) false]
  = Ok [rec_good1 ++ F.NL :: garbage_line; rec_good2] /\
  conn_records (ex_cfg true true) [F.EvData (FramingSpec.unlines [rec_good1; rec_good2]) false]
  = Ok [rec_good1; rec_good2].
Proof. split; vm_compute; reflexivity. Qed.

Lemma ex_cap :
  (2 * 96 + 1 + record_limit (ex_cfg true true) <= Nat.max (c_linebuf (ex_cfg true true)) (record_limit (ex_cfg true true) * 3))%nat.
Proof. vm_compute. lia. Qed.

Lemma example_lemma :
  config_ok O (ex_cfg true true) /\
  Forall (FramingSpec.valid_line F.trs 96) ex_lines /\
  (2 * 96 + 1 + record_limit (ex_cfg true true) <= Nat.max (c_linebuf (ex_cfg true true)) (record_limit (ex_cfg true true) * 3))%nat /\
  FramingSpec.ops_text (F.conn_ops ex_evs1) = FramingSpec.unlines ex_lines /\
  FramingSpec.ops_text (F.conn_ops ex_evs2) = FramingSpec.unlines (filter (good (ex_cfg true true)) ex_lines) /\
  match conn_run O (ex_cfg true true) g_init (1600000000, 0)%Z 0%Z ex_evs1 with
  | Ok (g, c, [RPassed 0 [s1] _; RDropParse; RPassed 1 [s2] _; RDropParse]) =>
      s1 <> [] /\ s2 <> [] /\ length (g_pipes g) = 2%nat /\
      Ps.passed_n (cs_input c) = 2%N /\ Ps.dropped_n (cs_input c) = 2%N /\
      Ps.dropped_bytes (cs_input c) = (2 * N.of_nat (length rec_bad))%N
  | _ => False
  end.
Proof.
  split; [exact ex_config_ok|]. split; [exact ex_lines_valid|]. split; [exact ex_cap|].
  split; [exact (proj1 ex_texts)|]. split; [exact (proj2 ex_texts)|]. exact ex_run.
Qed.

(* ---------- the shape of the sample configuration: a fluentdForward and a datadog output ---------- *)
Definition toy_json (m : list (bytes * bytes)) : bytes :=
  concat (map (fun kv => fst kv ++ [61]%N ++ snd kv ++ [59]%N) m).     (* stands for json.Marshal: any total function *)

Definition ex_cfg2 : config :=
  let c := ex_cfg true true in
  {| c_parser := c_parser c; c_nfields := c_nfields c; c_schema := c_schema c; c_locs := c_locs c;
     c_extract := c_extract c; c_okeys := c_okeys c; c_tag := c_tag c; c_mkeys := c_mkeys c;
     c_transforms := c_transforms c;
     c_outputs := c_outputs c ++ [ {| oc_kind := ODatadog [n_host; n_app]; oc_pack := K.datadog_config 1000 5242880 |} ];
     c_buflen := c_buflen c; c_linebuf := c_linebuf c; c_local_off := 0; c_json := toy_json;
     c_fix_labels := true; c_fix_ser := true |}.

Lemma ex2_config_ok : config_ok O ex_cfg2.
Proof.
  constructor; cbn.
  - reflexivity.
  - unfold locs_ok. cbn. lia.
  - lia.
  - split; exact I.
  - repeat split; lia.
  - repeat constructor.
  - repeat constructor.
  - repeat constructor.
  - constructor; [reflexivity|constructor; [exact I|constructor]].
  - reflexivity.
  - reflexivity.
Qed.

(* the first example record goes to both outputs; the datadog stream holds the visible fields, the timestamp in
   milliseconds and ddtags = the tag *)
Lemma ex2_run :
  config_ok O ex_cfg2 /\
  match process_record O ex_cfg2 g_init (new_conn ex_cfg2) (1600000000, 0)%Z 0%Z rec_good1 with
  | Ok (_, _, RPassed 0 [s1; s2] _) =>
      s1 <> [] /\
      (* level=notice; time=2020-01-02T03:04:05Z; source=src; log=hello REDACTED; timestamp=1577934245000; ddtags=t.appB *)
      s2 = toy_json [(n_level, [110;111;116;105;99;101]%N);
                     (n_time, [50;48;50;48;45;48;49;45;48;50;84;48;51;58;48;52;58;48;53;90]%N);
                     (n_source, [115;114;99]%N);
                     (n_log, [104;101;108;108;111;32;82;69;68;65;67;84;69;68]%N);
                     (b_timestamp, [49;53;55;55;57;51;52;50;52;53;48;48;48]%N); (b_ddtags, [116;46;97;112;112;66]%N)]
  | _ => False
  end.
Proof. split; [exact ex2_config_ok|]. vm_compute. split; [discriminate|reflexivity]. Qed.
