(* C17 - list facts used by the reload proofs: [upd], [first_some]/[next_slot], counting, flat_map. *)
From SV Require Import Model.Common Model.Reload.
From Coq Require Import Arith Lia Permutation.
Local Open Scope nat_scope.

Lemma upd_length : forall A (l : list A) i x, length (upd l i x) = length l.
Proof. induction l as [|y l IH]; intros [|i] x; simpl; auto. Qed.

Lemma nth_error_upd_eq : forall A (l : list A) i x, i < length l -> nth_error (upd l i x) i = Some x.
Proof.
  induction l as [|y l IH]; intros [|i] x H; simpl in *; try lia; auto. apply IH. lia.
Qed.

Lemma nth_error_upd_neq : forall A (l : list A) i j x, i <> j -> nth_error (upd l i x) j = nth_error l j.
Proof.
  induction l as [|y l IH]; intros [|i] [|j] x H; simpl; auto; try congruence.
Qed.

Lemma nth_error_upd : forall A (l : list A) i j x,
  nth_error (upd l i x) j = if (i =? j) && (i <? length l) then Some x else nth_error l j.
Proof.
  intros. destruct (Nat.eqb_spec i j) as [->|Hn]; simpl.
  - destruct (Nat.ltb_spec j (length l)).
    + apply nth_error_upd_eq; auto.
    + assert (Hu : forall (l : list A) j x, length l <= j -> upd l j x = l).
      { clear. induction l as [|y l IH]; intros [|j] x H; simpl in *; auto; try lia. f_equal. apply IH. lia. }
      rewrite Hu; auto.
  - apply nth_error_upd_neq; auto.
Qed.

Lemma upd_out : forall A (l : list A) i x, length l <= i -> upd l i x = l.
Proof. induction l as [|y l IH]; intros [|i] x H; simpl in *; auto; try lia. f_equal. apply IH. lia. Qed.

Lemma nth_error_some_lt : forall A (l : list A) i x, nth_error l i = Some x -> i < length l.
Proof. intros. apply nth_error_Some. congruence. Qed.

Lemma nth_error_app_last : forall A (l : list A) x, nth_error (l ++ [x]) (length l) = Some x.
Proof. intros. rewrite nth_error_app2 by lia. rewrite Nat.sub_diag. reflexivity. Qed.

Lemma nth_error_app_old : forall A (l : list A) x i y, nth_error l i = Some y -> nth_error (l ++ [x]) i = Some y.
Proof. intros. rewrite nth_error_app1; auto. eapply nth_error_some_lt; eauto. Qed.

Lemma nth_error_app_inv : forall A (l : list A) x i y,
  nth_error (l ++ [x]) i = Some y -> (nth_error l i = Some y) \/ (i = length l /\ y = x).
Proof.
  intros A l x i y H. destruct (Nat.lt_ge_cases i (length l)) as [Hl|Hl].
  - rewrite nth_error_app1 in H by auto. auto.
  - rewrite nth_error_app2 in H by auto. destruct (i - length l) as [|k] eqn:E.
    + simpl in H. inversion H. right. split; auto. lia.
    + simpl in H. destruct k; discriminate.
Qed.

Lemma nth_error_repeat : forall A (x : A) n i y, nth_error (repeat x n) i = Some y -> y = x.
Proof. induction n as [|n IH]; intros [|i] y H; simpl in *; try discriminate; [congruence|eauto]. Qed.

(* ---------- first_some / next_slot ---------- *)
Definition slot_of (tb : list (option nat)) (n : nat) : option nat :=
  match nth_error tb n with Some (Some s) => Some s | _ => None end.

Lemma first_some_spec : forall l base j,
  first_some l base = Some j ->
  base <= j /\ (exists s, slot_of l (j - base) = Some s) /\ (forall k, k < j - base -> slot_of l k = None).
Proof.
  induction l as [|[s|] l IH]; intros base j H; simpl in H; try discriminate.
  - inversion H; subst. rewrite Nat.sub_diag. split; [lia|]. split; [exists s; reflexivity|]. intros k Hk. lia.
  - apply IH in H. destruct H as (H1 & (s & H2) & H3). split; [lia|].
    assert (E : j - base = S (j - S base)) by lia. rewrite E. split.
    + exists s. unfold slot_of in *. simpl. exact H2.
    + intros [|k] Hk; unfold slot_of; simpl; auto. apply H3. lia.
Qed.

Lemma first_some_none : forall l base, first_some l base = None -> forall k, slot_of l k = None.
Proof.
  induction l as [|[s|] l IH]; intros base H k; simpl in H; try discriminate.
  - unfold slot_of. destruct k; reflexivity.
  - destruct k; unfold slot_of; simpl; auto. apply (IH _ H k).
Qed.

Lemma nth_error_skipn' : forall A (l : list A) i k, nth_error (skipn i l) k = nth_error l (i + k).
Proof.
  induction l as [|y l IH]; intros [|i] k; simpl; auto.
  destruct k; reflexivity.
Qed.

Lemma slot_of_skipn : forall tb i k, slot_of (skipn i tb) k = slot_of tb (i + k).
Proof. intros. unfold slot_of. rewrite nth_error_skipn'. reflexivity. Qed.

Lemma next_slot_some : forall tb i j,
  next_slot tb i = Some j ->
  i <= j /\ (exists s, slot_of tb j = Some s) /\ (forall k, i <= k -> k < j -> slot_of tb k = None).
Proof.
  unfold next_slot. intros tb i j H. apply first_some_spec in H. destruct H as (H1 & (s & H2) & H3).
  split; auto. split.
  - exists s. rewrite slot_of_skipn in H2. replace (i + (j - i)) with j in H2 by lia. exact H2.
  - intros k Hk1 Hk2. specialize (H3 (k - i)). rewrite slot_of_skipn in H3.
    replace (i + (k - i)) with k in H3 by lia. apply H3. lia.
Qed.

Lemma next_slot_none : forall tb i, next_slot tb i = None -> forall k, i <= k -> slot_of tb k = None.
Proof.
  unfold next_slot. intros tb i H k Hk. pose proof (first_some_none _ _ H (k - i)) as H1.
  rewrite slot_of_skipn in H1. replace (i + (k - i)) with k in H1 by lia. exact H1.
Qed.

Lemma slot_of_some_lt : forall tb n s, slot_of tb n = Some s -> n < length tb.
Proof.
  unfold slot_of. intros tb n s H. destruct (nth_error tb n) eqn:E; try discriminate.
  eapply nth_error_some_lt; eauto.
Qed.

(* ---------- counting and flat_map under upd ---------- *)
Definition count {A} (f : A -> bool) (l : list A) : nat := length (filter f l).

Definition b2n (b : bool) : nat := if b then 1 else 0.

Lemma count_upd : forall A (f : A -> bool) l t c c',
  nth_error l t = Some c -> count f (upd l t c') + b2n (f c) = count f l + b2n (f c').
Proof.
  unfold count. induction l as [|y l IH]; intros [|t] c c' H; simpl in *; try discriminate.
  - inversion H; subst. destruct (f c), (f c'); simpl; lia.
  - specialize (IH _ _ c' H). destruct (f y); simpl; lia.
Qed.

Lemma count_pos : forall A (f : A -> bool) l t c, nth_error l t = Some c -> f c = true -> 1 <= count f l.
Proof.
  unfold count. induction l as [|y l IH]; intros [|t] c H Hf; simpl in *; try discriminate.
  - inversion H; subst. rewrite Hf. simpl. lia.
  - specialize (IH _ _ H Hf). destruct (f y); simpl; lia.
Qed.

Lemma count_zero : forall A (f : A -> bool) l t c, count f l = 0 -> nth_error l t = Some c -> f c = false.
Proof.
  intros A f l t c H0 H. destruct (f c) eqn:E; auto. pose proof (count_pos _ f l t c H E). lia.
Qed.

Lemma flat_map_upd_perm : forall A B (f : A -> list B) l t c c',
  nth_error l t = Some c ->
  Permutation (flat_map f (upd l t c') ++ f c) (flat_map f l ++ f c').
Proof.
  induction l as [|y l IH]; intros [|t] c c' H; simpl in *; try discriminate.
  - inversion H; subst. rewrite <- !app_assoc.
    etransitivity; [apply Permutation_app_comm|]. rewrite <- app_assoc. apply Permutation_app_swap_app.
  - rewrite <- !app_assoc. apply Permutation_app_head. eapply IH; eauto.
Qed.

Lemma flat_map_upd_same : forall A B (f : A -> list B) l t c c',
  nth_error l t = Some c -> f c' = f c -> flat_map f (upd l t c') = flat_map f l.
Proof.
  induction l as [|y l IH]; intros [|t] c c' H E; simpl in *; try discriminate.
  - inversion H; subst. rewrite E. reflexivity.
  - f_equal. eapply IH; eauto.
Qed.

Lemma forallb_nth : forall A (f : A -> bool) l t c, forallb f l = true -> nth_error l t = Some c -> f c = true.
Proof.
  intros A f l t c H Hn. rewrite forallb_forall in H. apply H. eapply nth_error_In; eauto.
Qed.

Arguments count : simpl never.

Lemma skipn_upd : forall A (l : list A) j x i, j < i -> skipn i (upd l j x) = skipn i l.
Proof.
  induction l as [|y l IH]; intros [|j] x [|i] H; simpl; auto; try lia. apply IH. lia.
Qed.

Lemma next_slot_upd : forall tb j x i, j < i -> next_slot (upd tb j x) i = next_slot tb i.
Proof. intros. unfold next_slot. rewrite skipn_upd; auto. Qed.

Lemma nth_app_last : forall (l : list bool) d, nth (length l) (l ++ [false]) d = false.
Proof. induction l; simpl; auto. Qed.
