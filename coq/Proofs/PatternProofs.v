(* C15: compiling extractHead / extractTail patterns (splitPattern, the range-expression table). *)
From SV Require Import Model.Common Model.TfUnescape Model.Extractor Spec.TfUnescapeSpec Spec.TransformsSpec
     Proofs.CommonFacts Proofs.TfUnescapeProofs Proofs.TfStringFacts.
From Coq Require Import Lia ZifyBool ZifyN ZifyNat.
Ltac Zify.zify_post_hook ::= Z.div_mod_to_equations.
Open Scope N_scope.

Lemma pattern_map : forall c, u_map pattern_unescaper c = if pat_special c then c else 0.
Proof.
  intros c. unfold pattern_unescaper, mk_unescaper, pat_special. cbn [u_map].
  destruct (c =? 92) eqn:E1; [cbn; lia|]. destruct (c =? 91) eqn:E2; [cbn; lia|].
  destruct (c =? 93) eqn:E3; [cbn; lia|]. destruct (c =? 42) eqn:E4; [cbn; lia|]. reflexivity.
Qed.

Lemma pat_escape_app : forall a b, pat_escape (a ++ b) = pat_escape a ++ pat_escape b.
Proof. intros. unfold pat_escape. apply flat_map_app. Qed.

(* unescaping an escaped string gives the string back *)
Lemma unesc_pat_escape : forall s, unesc_ref 92 (u_map pattern_unescaper) (pat_escape s) = s.
Proof.
  induction s as [|c s IH]; [reflexivity|].
  unfold pat_escape in *. cbn [flat_map]. destruct (pat_special c) eqn:E.
  - cbn [app unesc_ref]. rewrite N.eqb_refl. rewrite pattern_map, E.
    destruct (c =? 0) eqn:E0; [unfold pat_special in E; lia|]. f_equal. exact IH.
  - cbn [app unesc_ref]. destruct (c =? 92) eqn:E2; [unfold pat_special in E; lia|]. f_equal. exact IH.
Qed.

Lemma pat_unescape_escape : forall s, pat_unescape (pat_escape s) = Ok s.
Proof. intros s. unfold pat_unescape. rewrite unescape_run_spec. cbn [u_esc pattern_unescaper mk_unescaper]. rewrite unesc_pat_escape. reflexivity. Qed.

(* an escaped string contains no unescaped special byte *)
Lemma ffu_escape : forall target s rest pos, pat_special target = true -> target <> 92 ->
  ffu_loop pattern_unescaper target (pat_escape s ++ rest) pos false =
  ffu_loop pattern_unescaper target rest (pos + length (pat_escape s)) false.
Proof.
  intros target s rest pos Ht Hn. revert pos. induction s as [|c s IH]; intros pos.
  - cbn. f_equal. lia.
  - unfold pat_escape in *. cbn [flat_map]. destruct (pat_special c) eqn:E.
    + cbn [app ffu_loop]. change (u_esc pattern_unescaper) with 92. rewrite N.eqb_refl.
      rewrite IH. f_equal. cbn [length]. lia.
    + cbn [app ffu_loop]. change (u_esc pattern_unescaper) with 92.
      destruct (c =? 92) eqn:E2; [unfold pat_special in E; lia|].
      destruct (c =? target) eqn:E3; [apply N.eqb_eq in E3; subst; congruence|].
      rewrite IH. f_equal. cbn [length]. lia.
Qed.

Lemma ffu_escape_none : forall target s, pat_special target = true -> target <> 92 ->
  ffu_loop pattern_unescaper target (pat_escape s) O false = None.
Proof. intros. rewrite <- (app_nil_r (pat_escape s)). rewrite ffu_escape by assumption. reflexivity. Qed.

Lemma ffu_escape_hit : forall target s rest, pat_special target = true -> target <> 92 ->
  ffu_loop pattern_unescaper target (pat_escape s ++ target :: rest) O false = Some (length (pat_escape s)).
Proof.
  intros. rewrite ffu_escape by assumption. cbn [ffu_loop]. change (u_esc pattern_unescaper) with 92.
  destruct (target =? 92) eqn:E; [lia|]. rewrite N.eqb_refl. reflexivity.
Qed.

Lemma find_first_unescaped_ok : forall s target, pat_special target = true ->
  find_first_unescaped pattern_unescaper s target = Ok (ffu_loop pattern_unescaper target s O false).
Proof.
  intros s target H. unfold find_first_unescaped. rewrite pattern_map, H.
  destruct (target =? 0) eqn:E; [unfold pat_special in H; lia|reflexivity].
Qed.

(* "left*right": splitPattern returns the unescaped boundaries *)
Lemma split_pattern_star : forall l r,
  split_pattern (pat_escape l ++ 42 :: pat_escape r) = Ok (l, [42], r).
Proof.
  intros l r. unfold split_pattern. rewrite find_first_unescaped_ok by reflexivity.
  rewrite ffu_escape_hit by (reflexivity || discriminate). cbn [obind].
  rewrite firstn_app, Nat.sub_diag, firstn_all, firstn_O, app_nil_r.
  rewrite pat_unescape_escape. cbn [obind].
  replace (skipn (S (length (pat_escape l))) (pat_escape l ++ 42 :: pat_escape r)) with (pat_escape r).
  - rewrite pat_unescape_escape. reflexivity.
  - rewrite skipn_app, skipn_all2 by lia.
    replace (S (length (pat_escape l)) - length (pat_escape l))%nat with 1%nat by lia. reflexivity.
Qed.

(* "left[body]right": the bracket expression is returned verbatim (still escaped) *)
Lemma split_pattern_class : forall l body r,
  split_pattern (pat_escape l ++ 91 :: pat_escape body ++ 93 :: pat_escape r) =
  Ok (l, 91 :: pat_escape body ++ [93], r).
Proof.
  intros l body r. unfold split_pattern.
  set (p := pat_escape l ++ 91 :: pat_escape body ++ 93 :: pat_escape r).
  rewrite find_first_unescaped_ok by reflexivity.
  (* no unescaped '*' anywhere *)
  assert (Hstar : ffu_loop pattern_unescaper 42 p O false = None).
  { unfold p. rewrite ffu_escape by (reflexivity || discriminate). cbn [ffu_loop]. change (u_esc pattern_unescaper) with 92. cbn [N.eqb Pos.eqb].
    rewrite ffu_escape by (reflexivity || discriminate). cbn [ffu_loop]. change (u_esc pattern_unescaper) with 92. cbn [N.eqb Pos.eqb].
    rewrite <- (app_nil_r (pat_escape r)). rewrite ffu_escape by (reflexivity || discriminate). reflexivity. }
  rewrite Hstar. cbn [obind].
  rewrite find_first_unescaped_ok by reflexivity.
  unfold p at 1. rewrite ffu_escape_hit by (reflexivity || discriminate). cbn [obind].
  unfold p at 1. rewrite firstn_app, Nat.sub_diag, firstn_all, firstn_O, app_nil_r.
  rewrite pat_unescape_escape. cbn [obind].
  assert (Hsk : skipn (S (length (pat_escape l))) p = pat_escape body ++ 93 :: pat_escape r).
  { unfold p. rewrite skipn_app, skipn_all2 by lia.
    replace (S (length (pat_escape l)) - length (pat_escape l))%nat with 1%nat by lia. reflexivity. }
  rewrite Hsk. rewrite find_first_unescaped_ok by reflexivity.
  rewrite ffu_escape_hit by (reflexivity || discriminate). cbn [obind].
  set (bs := length (pat_escape l)). set (be := length (pat_escape body)).
  assert (Hr : skipn (S (be + bs + 1)) p = pat_escape r).
  { unfold p. rewrite skipn_app, skipn_all2 by (fold bs; lia). fold bs.
    replace (S (be + bs + 1) - bs)%nat with (S (S be)) by lia. cbn [skipn app].
    change (skipn (S be) (pat_escape body ++ 93 :: pat_escape r) = pat_escape r).
    rewrite skipn_app, skipn_all2 by (fold be; lia). fold be.
    replace (S be - be)%nat with 1%nat by lia. reflexivity. }
  rewrite Hr, pat_unescape_escape. cbn [obind]. do 3 f_equal.
  unfold p. rewrite skipn_app, skipn_all2 by (fold bs; lia). fold bs. rewrite Nat.sub_diag. cbn [skipn app].
  replace (S (be + bs + 1) - bs)%nat with (S (S be)) by lia. rewrite firstn_cons. f_equal.
  rewrite firstn_app. fold be. replace (S be - be)%nat with 1%nat by lia.
  rewrite firstn_all2 by (fold be; lia). reflexivity.
Qed.

(* ---------- the range-expression table ---------- *)

Lemma nth_app_here : forall (pre : bytes) x rest, nth (length pre) (pre ++ x :: rest) 0 = x.
Proof. intros. rewrite app_nth2 by lia. rewrite Nat.sub_diag. reflexivity. Qed.

(* the loop over the items that follow [pre]; the table is described pointwise *)
Lemma fill_loop_items : forall (items : list class_item) (trail : bool) (pre : bytes) (t : table) (listed : bool) (expr : bytes),
  Forall item_ok_class items ->
  expr = pre ++ flat_map render_class_item items ++ (if trail then [45] else []) ->
  exists tb,
    fill_loop expr (length expr) listed (flat_map render_class_item items ++ (if trail then [45] else []))
              (length pre) t false = Ok tb /\
    forall c : N, tb c = if (existsb (in_class_item c) items || (trail && (c =? 45)))%bool then listed else t c.
Proof.
  induction items as [|it items IH]; intros trail pre t listed expr Hok Hexpr; subst expr.
  - cbn [flat_map app existsb orb]. destruct trail.
    + cbn [fill_loop]. cbn [N.eqb Pos.eqb]. cbv iota.
      assert (Hlast : ((0 <? length pre) && (length pre <? length (pre ++ [45%N]) - 1))%nat = false).
      { rewrite app_length. cbn [length]. lia. }
      rewrite Hlast. eexists. split; [reflexivity|]. intros c. unfold upd. cbn [andb].
      destruct (c =? 45); reflexivity.
    + cbn [fill_loop]. eexists. split; [reflexivity|]. intros c. cbn. reflexivity.
  - inversion Hok as [|? ? Hit Hok']; subst. destruct it as [x|lo hi]; cbn [flat_map render_class_item app].
    + (* single byte *)
      cbn in Hit. cbn [fill_loop]. destruct (x =? 45) eqn:E; [lia|].
      destruct (IH trail (pre ++ [x]) (upd t x listed) listed
                   (pre ++ [x] ++ flat_map render_class_item items ++ (if trail then [45] else [])) Hok')
        as (tb & Htb & Hc).
      { rewrite <- !app_assoc. reflexivity. }
      assert (Hl : length (pre ++ [x]) = S (length pre)) by (rewrite app_length; cbn [length]; lia).
      rewrite Hl in Htb. cbn [app] in Htb. exists tb. split; [exact Htb|].
      intros c. rewrite Hc. cbn [existsb in_class_item]. unfold upd.
      destruct (c =? x) eqn:Ecx; cbn [orb]; [destruct (existsb (in_class_item c) items || trail && (c =? 45)); reflexivity|reflexivity].
    + (* range *)
      cbn in Hit. destruct Hit as (Hlo & Hhi & Hle).
      cbn [fill_loop].
      destruct (lo =? 45) eqn:E1; [lia|].
      cbn [N.eqb Pos.eqb]. cbv iota.
      assert (Hmid : ((0 <? S (length pre)) && (S (length pre) <? length (pre ++ lo :: 45%N :: hi :: flat_map render_class_item items ++ (if trail then [45%N] else [])) - 1))%nat = true).
      { rewrite !app_length. cbn [length]. lia. }
      rewrite Hmid.
      destruct (hi =? 45) eqn:E2; [lia|].
      replace (S (S (length pre)) - 2)%nat with (length pre) by lia.
      rewrite nth_app_here.
      destruct (IH trail (pre ++ [lo; 45; hi]) (upd_range (upd t lo listed) lo hi listed) listed
                   (pre ++ lo :: ([45; hi] ++ flat_map render_class_item items ++ (if trail then [45] else []))) Hok')
        as (tb & Htb & Hc).
      { rewrite <- !app_assoc. reflexivity. }
      assert (Hl : length (pre ++ [lo; 45; hi]) = S (S (S (length pre)))) by (rewrite app_length; cbn [length]; lia).
      rewrite Hl in Htb. cbn [app] in Htb. exists tb. split; [exact Htb|].
      intros c. rewrite Hc. cbn [existsb in_class_item]. unfold upd_range, upd.
      destruct ((lo <=? c) && (c <=? hi)) eqn:Er; cbn [orb]; [destruct (existsb (in_class_item c) items || trail && (c =? 45)); reflexivity|].
      destruct (c =? lo) eqn:Ecl; [lia|reflexivity].
Qed.

(* the loop over a whole class body (optional leading '-') *)
Lemma fill_loop_body : forall lead items trail (t : table) (listed : bool),
  Forall item_ok_class items ->
  let body := class_body lead items trail in
  exists tb, fill_loop body (length body) listed body O t false = Ok tb /\
    forall c : N, tb c = if in_class lead items trail c then listed else t c.
Proof.
  intros lead items trail t listed Hok body. unfold body, class_body. destruct lead.
  - cbn [app fill_loop]. cbn [N.eqb Pos.eqb]. cbv iota. cbn [Nat.ltb Nat.leb andb].
    destruct (fill_loop_items items trail [45] (upd t 45 listed) listed
                (45 :: flat_map render_class_item items ++ (if trail then [45] else [])) Hok eq_refl)
      as (tb & Htb & Hc).
    exists tb. split; [exact Htb|]. intros c. rewrite Hc. unfold in_class, upd. cbn [orb andb].
    destruct (c =? 45) eqn:E; destruct (existsb (in_class_item c) items); destruct trail; reflexivity.
  - cbn [app].
    destruct (fill_loop_items items trail [] t listed
                (flat_map render_class_item items ++ (if trail then [45] else [])) Hok eq_refl)
      as (tb & Htb & Hc).
    exists tb. split; [exact Htb|]. intros c. rewrite Hc. unfold in_class. cbn [orb andb].
    destruct (existsb (in_class_item c) items); destruct trail; destruct (c =? 45); reflexivity.
Qed.

(* fillValidCharsByRangeExpression on "[body]" / "[^body]" (body escaped as in the pattern) *)
Lemma fill_valid_chars_spec : forall (neg lead : bool) items (trail : bool),
  Forall item_ok_class items ->
  let body := class_body lead items trail in
  (neg = false -> match body with [] => False | c :: _ => c <> 94 end) ->
  exists tb, fill_valid_chars (91 :: pat_escape ((if neg then [94] else []) ++ body) ++ [93]) = Ok tb /\
    forall c : N, tb c = xorb neg (in_class lead items trail c).
Proof.
  intros neg lead items trail Hok body Hhd. unfold fill_valid_chars.
  set (inner := pat_escape ((if neg then [94] else []) ++ body)).
  assert (Hmid : firstn (length (91 :: inner ++ [93]) - 2) (skipn 1 (91 :: inner ++ [93])) = inner).
  { cbn [skipn length]. rewrite app_length. cbn [length].
    replace (S (length inner + 1) - 2)%nat with (length inner) by lia.
    rewrite firstn_app, Nat.sub_diag, firstn_all, firstn_O, app_nil_r. reflexivity. }
  rewrite Hmid. unfold inner. rewrite pat_unescape_escape. cbn [obind].
  destruct neg.
  - cbn [app]. destruct (fill_loop_body lead items trail (fun _ => true) false Hok) as (tb & Htb & Hc).
    exists tb. split; [exact Htb|]. intros c. rewrite Hc. destruct (in_class lead items trail c); reflexivity.
  - cbn [app]. specialize (Hhd eq_refl).
    destruct (fill_loop_body lead items trail (fun _ => false) true Hok) as (tb & Htb & Hc).
    fold body in Htb. destruct body as [|c0 body'] eqn:Eb; [contradiction|].
    assert (Hne : (c0 =? 94) = false) by lia.
    exists tb. split.
    + destruct c0 as [|p]; [exact Htb|].
      do 7 (destruct p as [p|p|]; try exact Htb). discriminate.
    + intros c. rewrite Hc. destruct (in_class lead items trail c); reflexivity.
Qed.

Lemma new_string_extractor_bracket : forall head l r maxr mid,
  new_string_extractor head l (91 :: mid ++ [93]) r maxr =
  (t <-- fill_valid_chars (91 :: mid ++ [93]) ;;
   Ok {| ex_head := head; ex_left := l; ex_right := r; ex_max := maxr; ex_table := Some t |}).
Proof.
  intros head l r maxr mid. unfold new_string_extractor.
  assert (Hlast : last (91 :: mid ++ [93]) 0 = 93) by (rewrite app_comm_cons; apply last_last).
  assert (Hw2 : Nat.ltb (length (91 :: mid ++ [93])) 2 = false) by (cbn [length]; rewrite app_length; cbn [length]; lia).
  destruct mid as [|m0 mid'].
  - reflexivity.
  - cbn [app] in *. rewrite Hw2, Hlast. reflexivity.
Qed.

(* the whole compilation of a pattern with a class *)
Lemma new_extractor_class : forall head l r maxr (neg lead : bool) items (trail : bool),
  Forall item_ok_class items ->
  let body := class_body lead items trail in
  (neg = false -> match body with [] => False | c :: _ => c <> 94 end) ->
  exists tb,
    new_string_extractor_simple head
      (pat_escape l ++ 91 :: pat_escape ((if neg then [94] else []) ++ body) ++ 93 :: pat_escape r) maxr =
    Ok {| ex_head := head; ex_left := l; ex_right := r; ex_max := maxr; ex_table := Some tb |} /\
    forall c : N, tb c = xorb neg (in_class lead items trail c).
Proof.
  intros head l r maxr neg lead items trail Hok body Hhd.
  unfold new_string_extractor_simple. rewrite split_pattern_class. cbn [obind].
  destruct (fill_valid_chars_spec neg lead items trail Hok Hhd) as (tb & Htb & Hc).
  exists tb. split; [|exact Hc]. rewrite new_string_extractor_bracket. fold body in Htb. rewrite Htb. reflexivity.
Qed.

Lemma new_extractor_star : forall (head : bool) (l r : bytes) maxr, (if head then r else l) <> [] ->
  new_string_extractor_simple head (pat_escape l ++ 42 :: pat_escape r) maxr =
  Ok {| ex_head := head; ex_left := l; ex_right := r; ex_max := maxr; ex_table := None |}.
Proof.
  intros head l r maxr H. unfold new_string_extractor_simple. rewrite split_pattern_star. cbn [obind].
  unfold new_string_extractor. destruct (if head then r else l); [congruence|reflexivity].
Qed.

(* ... and a bare "*" without the boundary on its far side is rejected *)
Lemma new_extractor_star_rejected : forall (head : bool) (l r : bytes) maxr, (if head then r else l) = [] ->
  new_string_extractor_simple head (pat_escape l ++ 42 :: pat_escape r) maxr = Err e_star_boundary.
Proof.
  intros head l r maxr H. unfold new_string_extractor_simple. rewrite split_pattern_star. cbn [obind].
  unfold new_string_extractor. rewrite H. reflexivity.
Qed.

(* what every successfully compiled extractor satisfies: the table or the far boundary is there *)
Lemma new_string_extractor_wf : forall head l w r maxr ex,
  new_string_extractor head l w r maxr = Ok ex ->
  ex_max ex = maxr /\
  (if ex_head ex then ex_right ex <> [] \/ ex_table ex <> None else ex_left ex <> [] \/ ex_table ex <> None).
Proof.
  intros head l w r maxr ex H. unfold new_string_extractor in H.
  assert (Hgen : forall o : outcome table,
            (t <-- o ;; Ok {| ex_head := head; ex_left := l; ex_right := r; ex_max := maxr; ex_table := Some t |}) = Ok ex ->
            ex_max ex = maxr /\
            (if ex_head ex then ex_right ex <> [] \/ ex_table ex <> None else ex_left ex <> [] \/ ex_table ex <> None)).
  { intros o Ho. destruct o as [t| |]; try discriminate. cbn in Ho. inversion Ho; subst. cbn.
    split; [reflexivity|]. destruct head; right; discriminate. }
  destruct w as [|c w']; [discriminate|].
  destruct w' as [|c' w''].
  - destruct (c =? 42) eqn:Ec.
    + apply N.eqb_eq in Ec. subst c.
      destruct (match (if head then r else l) with [] => true | _ :: _ => false end) eqn:Eb; [discriminate|].
      inversion H; subst. cbn. split; [reflexivity|].
      destruct head; left; intro Hc; rewrite Hc in Eb; discriminate.
    + assert (Hne : c <> 42) by lia.
      assert (H' : (if ((length [c] <? 2)%nat || negb (hd 0 [c] =? 91) || negb (last [c] 0 =? 93))%bool
                    then Err e_bad_wildcard
                    else t <-- fill_valid_chars [c] ;;
                         Ok {| ex_head := head; ex_left := l; ex_right := r; ex_max := maxr; ex_table := Some t |}) = Ok ex).
      { destruct c as [|p]; [exact H|]. do 6 (destruct p as [p|p|]; try exact H). exfalso; apply Hne; reflexivity. }
      cbn in H'. discriminate.
  - assert (H' : (if ((length (c :: c' :: w'') <? 2)%nat || negb (hd 0 (c :: c' :: w'') =? 91) || negb (last (c :: c' :: w'') 0 =? 93))%bool
                  then Err e_bad_wildcard
                  else t <-- fill_valid_chars (c :: c' :: w'') ;;
                       Ok {| ex_head := head; ex_left := l; ex_right := r; ex_max := maxr; ex_table := Some t |}) = Ok ex).
    { destruct c as [|p]; [exact H|]. do 6 (destruct p as [p|p|]; try exact H). }
    destruct ((length (c :: c' :: w'') <? 2)%nat || negb (hd 0 (c :: c' :: w'') =? 91) || negb (last (c :: c' :: w'') 0 =? 93))%bool; [discriminate|].
    apply Hgen in H'. exact H'.
Qed.

Lemma new_string_extractor_simple_wf : forall head pat maxr ex,
  new_string_extractor_simple head pat maxr = Ok ex ->
  ex_max ex = maxr /\
  (if ex_head ex then ex_right ex <> [] \/ ex_table ex <> None else ex_left ex <> [] \/ ex_table ex <> None).
Proof.
  intros head pat maxr ex H. unfold new_string_extractor_simple in H.
  destruct (split_pattern pat) as [[[l w] r]| |]; try discriminate. cbn [obind] in H.
  eapply new_string_extractor_wf. eassumption.
Qed.
