(* Facts about Model/GoSem.v and the tactics used by the equivalence proofs Proofs/*GenEquiv.v
   (generated function = hand-written model). *)
From SV Require Import Model.Common Model.GoSem.
From Coq Require Import Lia ZifyBool ZifyN ZifyNat.
Ltac Zify.zify_post_hook ::= Z.div_mod_to_equations.

(* [go_len] stays folded under [cbn] (cbn would turn Z.of_nat (S n) into Pos.of_succ_nat garbage) *)
Global Arguments go_len : simpl never.

Lemma go_len_cons : forall {A} (x : A) l, go_len (x :: l) = (go_len l + 1)%Z.
Proof. intros. unfold go_len. cbn [length]. lia. Qed.

Lemma go_len_nonneg : forall {A} (l : list A), (0 <= go_len l)%Z.
Proof. intros. unfold go_len. lia. Qed.

Lemma same_result_of_eq : forall {A} (o : outcome A) (r : gres A),
  to_outcome r = o -> (forall e, o <> Err e) -> same_result o r.
Proof.
  intros A o r <- Hne. destruct r; cbn in *; auto. apply (Hne 1%N). reflexivity.
Qed.

(* ---------- symbolic execution of a generated function on a list with an explicit head ----------
   [gosym] normalises, splits on the first condition that became closed, and repeats; what is left are
   equations between results, closed by reflexivity or by lia from the recorded conditions. *)
Ltac fix_tonat :=
  repeat match goal with
  | |- context [Pos.to_nat ?p] =>
    let n := eval compute in (Pos.to_nat p) in change (Pos.to_nat p) with n
  end.
Ltac split_if :=
  match goal with
  | |- context [if ?c then _ else _] => destruct c eqn:?
  end.
(* [go_loop] is unrolled one iteration at a time, and only when no closed condition is left to split on
   (a strong normalisation of all iterations at once is exponential in the number of branches) *)
Global Arguments go_loop : simpl never.
Lemma go_loop_S : forall {S R : Type} fuel (cond : S -> gres bool) (body : S -> gres (ctl S R)) (post : S -> gres S) s,
  go_loop (Datatypes.S fuel) cond body post s =
  (c <~ cond s ;;
   if c then
     r <~ body s ;;
     match r with
     | CNext s1 => s2 <~ post s1 ;; go_loop fuel cond body post s2
     | CBrk s1 => GOk (inl s1)
     | CRet v => GOk (inr v)
     end
   else GOk (inl s)).
Proof. reflexivity. Qed.
Lemma go_loop_O : forall {S R : Type} (cond : S -> gres bool) (body : S -> gres (ctl S R)) (post : S -> gres S) s,
  go_loop O cond body post s = GOutOfFuel.
Proof. reflexivity. Qed.

Ltac prune := try solve [exfalso; unfold go_len in *; cbn [length] in *; lia].
Ltac gostep := first [ rewrite go_loop_S | rewrite go_loop_O ].
Ltac gonorm := cbn; fix_tonat; cbn.
Ltac gosym := repeat (gonorm; first [ split_if; prune | gostep ]); gonorm.
(* the same without entering loops: stops in front of the first [go_loop] *)
Ltac gosym0 := repeat (gonorm; split_if; prune); gonorm.
Ltac gosym_done :=
  try reflexivity; try exact I;
  try (unfold go_len, int_of_byte, byte_of_int, byte_sub, byte_add, byte_mul in *; cbn [length] in *;
       first [ f_equal; lia | exfalso; lia ]).

(* ---------- indexing and slicing ---------- *)
Lemma go_index_nth : forall {A} (s : list A) (i : Z) c,
  (0 <= i)%Z -> nth_error s (Z.to_nat i) = Some c -> go_index s i = GOk c.
Proof.
  intros A s i c Hi Hn. unfold go_index. destruct (Z.ltb_spec i 0); [lia|]. rewrite Hn. reflexivity.
Qed.

Lemma go_index_app_len : forall {A} (pre suf : list A) c, go_index (pre ++ c :: suf) (go_len pre) = GOk c.
Proof.
  intros. apply go_index_nth; [apply go_len_nonneg|]. unfold go_len. rewrite Nat2Z.id.
  rewrite nth_error_app2 by lia. rewrite Nat.sub_diag. reflexivity.
Qed.

Lemma go_index_oob : forall {A} (s : list A) (i : Z), (i < 0 \/ go_len s <= i)%Z -> go_index s i = GPanic PIndex.
Proof.
  intros A s i H. unfold go_index. destruct (Z.ltb_spec i 0); [reflexivity|].
  destruct (nth_error s (Z.to_nat i)) eqn:E; [|reflexivity].
  exfalso. assert (Hn : nth_error s (Z.to_nat i) <> None) by congruence.
  apply nth_error_Some in Hn. unfold go_len in H. lia.
Qed.

Lemma go_slice_to_app : forall {A} (pre suf : list A), go_slice_to (pre ++ suf) (go_len pre) = GOk pre.
Proof.
  intros. unfold go_slice_to, go_slice, go_len. rewrite app_length.
  replace ((0 <=? 0)%Z && (0 <=? Z.of_nat (length pre))%Z && (Z.of_nat (length pre) <=? Z.of_nat (length pre + length suf))%Z)%bool
    with true by lia.
  cbn [Z.to_nat skipn]. rewrite Z.sub_0_r, Nat2Z.id. rewrite firstn_app, Nat.sub_diag, firstn_all. cbn [firstn].
  rewrite app_nil_r. reflexivity.
Qed.

Lemma go_slice_from_app : forall {A} (pre suf : list A), go_slice_from (pre ++ suf) (go_len pre) = GOk suf.
Proof.
  intros. unfold go_slice_from, go_slice, go_len. rewrite app_length.
  replace ((0 <=? Z.of_nat (length pre))%Z && (Z.of_nat (length pre) <=? Z.of_nat (length pre + length suf))%Z &&
           (Z.of_nat (length pre + length suf) <=? Z.of_nat (length pre + length suf))%Z)%bool with true by lia.
  rewrite Nat2Z.id. rewrite skipn_app, Nat.sub_diag, skipn_all. cbn [skipn app].
  replace (Z.to_nat (Z.of_nat (length pre + length suf) - Z.of_nat (length pre))) with (length suf) by lia.
  rewrite firstn_all. reflexivity.
Qed.

(* ---------- loops: the total-correctness rule ----------
   An invariant [Inv], a measure that decreases with every completed iteration, and a postcondition [Q]
   on the way the loop is left.  With more fuel than the measure the loop ends in [Q]: no panic, no
   running out of fuel. *)
Lemma go_loop_inv :
  forall {S R : Type} (cond : S -> gres bool) (body : S -> gres (ctl S R)) (post : S -> gres S)
         (Inv : S -> Prop) (measure : S -> nat) (Q : S + R -> Prop),
  (forall s, Inv s ->
     exists b, cond s = GOk b /\
       if b then
         exists r, body s = GOk r /\
           match r with
           | CNext s1 => exists s2, post s1 = GOk s2 /\ Inv s2 /\ (measure s2 < measure s)%nat
           | CBrk s1 => Q (inl s1)
           | CRet v => Q (inr v)
           end
       else Q (inl s)) ->
  forall fuel s0, Inv s0 -> (measure s0 < fuel)%nat ->
  exists r, go_loop fuel cond body post s0 = GOk r /\ Q r.
Proof.
  intros S R cond body post Inv measure Q Hstep fuel.
  induction fuel as [|fuel IH]; intros s0 Hi Hm; [lia|].
  rewrite go_loop_S. destruct (Hstep s0 Hi) as (b & -> & Hb). cbn [gbind]. destruct b.
  - destruct Hb as (r & -> & Hr). cbn [gbind]. destruct r as [s1|s1|v].
    + destruct Hr as (s2 & -> & Hi2 & Hm2). cbn [gbind]. apply IH; [assumption|lia].
    + eauto.
    + eauto.
  - eauto.
Qed.

(* the same with the result of the loop given as a function of the start state *)
Lemma go_loop_inv_eq :
  forall {S R : Type} (cond : S -> gres bool) (body : S -> gres (ctl S R)) (post : S -> gres S)
         (Inv : S -> Prop) (measure : S -> nat) (res : S + R),
  (forall s, Inv s ->
     exists b, cond s = GOk b /\
       if b then
         exists r, body s = GOk r /\
           match r with
           | CNext s1 => exists s2, post s1 = GOk s2 /\ Inv s2 /\ (measure s2 < measure s)%nat
           | CBrk s1 => inl s1 = res
           | CRet v => inr v = res
           end
       else inl s = res) ->
  forall fuel s0, Inv s0 -> (measure s0 < fuel)%nat -> go_loop fuel cond body post s0 = GOk res.
Proof.
  intros S R cond body post Inv measure res Hstep fuel s0 Hi Hm.
  assert (H : exists r, go_loop fuel cond body post s0 = GOk r /\ r = res).
  { apply (go_loop_inv cond body post Inv measure (fun r => r = res)); assumption. }
  destruct H as (r & -> & ->). reflexivity.
Qed.

Lemma go_slice_from_0 : forall {A} (l : list A), go_slice_from l 0 = GOk l.
Proof. intros. apply (go_slice_from_app (@nil A) l). Qed.

Lemma go_slice_from_cons : forall {A} (x : A) l a, (0 < a)%Z -> go_slice_from (x :: l) a = go_slice_from l (a - 1).
Proof.
  intros A x l a Ha. unfold go_slice_from, go_slice. rewrite go_len_cons.
  replace ((0 <=? a)%Z && (a <=? go_len l + 1)%Z && (go_len l + 1 <=? go_len l + 1)%Z)%bool
    with ((0 <=? a - 1)%Z && (a - 1 <=? go_len l)%Z && (go_len l <=? go_len l)%Z)%bool by lia.
  replace (go_len l + 1 - a)%Z with (go_len l - (a - 1))%Z by lia.
  replace (Z.to_nat a) with (S (Z.to_nat (a - 1))) by lia. reflexivity.
Qed.

Lemma go_slice_to_0 : forall {A} (l : list A), go_slice_to l 0 = GOk [].
Proof. intros. apply (go_slice_to_app (@nil A) l). Qed.

Lemma go_slice_to_cons : forall {A} (x : A) l a, (0 < a)%Z ->
  go_slice_to (x :: l) a = (r <~ go_slice_to l (a - 1) ;; GOk (x :: r)).
Proof.
  intros A x l a Ha. unfold go_slice_to, go_slice. rewrite go_len_cons.
  replace ((0 <=? 0)%Z && (0 <=? a)%Z && (a <=? go_len l + 1)%Z)%bool
    with ((0 <=? 0)%Z && (0 <=? a - 1)%Z && (a - 1 <=? go_len l)%Z)%bool by lia.
  destruct ((0 <=? 0)%Z && (0 <=? a - 1)%Z && (a - 1 <=? go_len l)%Z)%bool; [|reflexivity].
  cbn [gbind Z.to_nat skipn]. rewrite !Z.sub_0_r.
  replace (Z.to_nat a) with (S (Z.to_nat (a - 1))) by lia. reflexivity.
Qed.

(* ---------- nat-indexed variants and list facts used by the equivalence proofs ---------- *)
Lemma firstn_snoc_nth : forall {A} (l : list A) n x, nth_error l n = Some x -> firstn (S n) l = firstn n l ++ [x].
Proof.
  intros A l. induction l as [|y l IH]; intros [|n] x H; cbn in *; try discriminate.
  - injection H as ->. reflexivity.
  - f_equal. apply IH. assumption.
Qed.


Lemma nth_error_firstn_lt : forall {A} (l : list A) n k, (k < n)%nat -> nth_error (firstn n l) k = nth_error l k.
Proof.
  intros A l. induction l as [|y l IH]; intros [|n] [|k] H; cbn; try reflexivity; try lia.
  apply IH. lia.
Qed.


Lemma nth_lt : forall {A} (t : list A) i, (i < length t)%nat -> exists c, nth_error t i = Some c.
Proof. intros A t i H. destruct (nth_error t i) eqn:E; [eauto|]. apply nth_error_None in E. lia. Qed.


Lemma go_index_nat : forall {A} (t : list A) i c, nth_error t i = Some c -> go_index t (Z.of_nat i) = GOk c.
Proof. intros. apply go_index_nth; [lia|]. rewrite Nat2Z.id. assumption. Qed.


Lemma go_slice_nat : forall {A} (t : list A) a b, (a <= b <= length t)%nat ->
  go_slice t (Z.of_nat a) (Z.of_nat b) = GOk (firstn (b - a) (skipn a t)).
Proof.
  intros A t a b H. unfold go_slice, go_len.
  replace ((0 <=? Z.of_nat a) && (Z.of_nat a <=? Z.of_nat b) && (Z.of_nat b <=? Z.of_nat (length t)))%bool with true by lia.
  rewrite Nat2Z.id. replace (Z.to_nat (Z.of_nat b - Z.of_nat a)) with (b - a)%nat by lia. reflexivity.
Qed.


Lemma go_slice_from_nat : forall {A} (t : list A) a, (a <= length t)%nat -> go_slice_from t (Z.of_nat a) = GOk (skipn a t).
Proof.
  intros A t a H. unfold go_slice_from. change (go_len t) with (Z.of_nat (length t)). rewrite go_slice_nat by lia.
  rewrite firstn_all2 by (rewrite skipn_length; lia). reflexivity.
Qed.


(* closes a pointwise specification of a generated lambda, after the facts about its reads were rewritten:
   case analysis on every remaining condition, whatever the shape of the generated term *)
Ltac close_spec :=
  repeat (cbn [gbind]; try split_if); cbn [gbind];
  first [ reflexivity | f_equal; lia | f_equal; f_equal; lia | exfalso; lia ].
