(* Facts about Model/GoSem.v and the tactics used by the equivalence proofs Proofs/*GenEquiv.v
   (generated function = hand-written model). *)
From SV Require Import Model.Common Model.GoSem.
From Coq Require Import Lia ZifyBool ZifyN ZifyNat.
Ltac Zify.zify_post_hook ::= Z.div_mod_to_equations.

(* [go_len] stays folded under [cbn] (cbn would turn Z.of_nat (S n) into Pos.of_succ_nat garbage) *)
Global Arguments go_len : simpl never.

Lemma go_len_cons : forall {A} (x : A) l, go_len (x :: l) = (go_len l + 1)%Z.
Proof. intros. unfold go_len. cbn [length]. lia. Qed.

Lemma go_len_nonneg : forall {A} (l : list A), (0 <= go_len l)%Z.
Proof. intros. unfold go_len. lia. Qed.

Lemma same_result_of_eq : forall {A} (o : outcome A) (r : gres A),
  to_outcome r = o -> (forall e, o <> Err e) -> same_result o r.
Proof.
  intros A o r <- Hne. destruct r; cbn in *; auto. apply (Hne 1%N). reflexivity.
Qed.

(* ---------- symbolic execution of a generated function on a list with an explicit head ----------
   [gosym] normalises, splits on the first condition that became closed, and repeats; what is left are
   equations between results, closed by reflexivity or by lia from the recorded conditions. *)
Ltac fix_tonat :=
  repeat match goal with
  | |- context [Pos.to_nat ?p] =>
    let n := eval compute in (Pos.to_nat p) in change (Pos.to_nat p) with n
  end.
Ltac split_if :=
  match goal with
  | |- context [if ?c then _ else _] => destruct c eqn:?
  end.
Ltac gosym := repeat (cbn; fix_tonat; cbn; try split_if).
Ltac gosym_done :=
  try reflexivity;
  try (unfold go_len in *; cbn [length] in *; first [ f_equal; lia | exfalso; lia ]).
